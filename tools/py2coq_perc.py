#!/usr/bin/env python3
"""py2coq_perc.py -- fail-closed translator of space_utils.percolate_space_strict and percolation_conflicts into Gallina
(coq/theories/PySrcPerc.v; embedding coq/theories/PyLibPerc.v; proofs coq/theories/PySrcPercFacts.v: equal to Strict.percolate_strict_b /
conflicts_b of the model).  Same discipline as the other translators (it reuses the statement / expression machinery of py2coq_sd.py):
anything outside the supported subset raises Unsupported.

Embedding (PyLibPerc.v has the details): a BooleanSpace dict is the model's space (list of option bool, position = variable); a set of
variable names is a list in network order (Python iterates a set in arbitrary order: Strict.strict_order_independent covers that);
network.mk_update_function(v) is an opaque handle on variable v; bdd.is_true() / is_false() is "constant true / false on the whole
space"; function_eval(bdd, space) is Brute.const_on_b N v space (the value if the function is constant on the subspace)."""
import ast, sys, os, textwrap
sys.path.insert(0, os.path.dirname(os.path.abspath(__file__)))
import py2coq_sd as SD
from py2coq_sd import Unsupported, fail, COQ_TY, DFLT

REPO = os.environ.get("VERIF_REPO", "/repo")
OUTDIR = SD.OUTDIR
COQ_TY.update({"optbit": "(option bool)", "bdd": "unit", "bit": "bool", "ldois": "(list (nat * bool * space))", "optldois": "(option (list (nat * bool * space)))",
               "pairset": "(list (nat * bool))", "pair": "(nat * bool)", "strategy": "bool", "ctllist": "(list (list space))", "optvarset": "(option (list nat))",
               "spacelist": "(list space)", "natlistlist": "(list (list nat))", "bitlist": "(list bool)", "bitlistlist": "(list (list bool))",
               "optspace": "(option space)", "sdobj": "sd"})
DFLT.update({"optbit": "(@None bool)", "bdd": "Datatypes.tt", "bit": "false", "ldois": "(@nil (nat * bool * space))", "pairset": "(@nil (nat * bool))", "ctllist": "(@nil (list space))"})

FUNCS = [
    dict(name="percolate_space_strict", path="biobalm/space_utils.py", args=[("space", "space")], ret="space",
         locs={"result": "space", "restriction": "space", "candidates": "natset", "fn_bdd": "bdd", "done": "bool", "fn_value": "optbit"},
         loopvars={"var": "nat"}, fuels=["(S (S (length candidates)))"], rename={"space": "space_"}),
    dict(name="percolation_conflicts", path="biobalm/space_utils.py", args=[("space", "space"), ("strict_percolation", "bool")], ret="natset",
         defaults={"strict_percolation": True},
         locs={"conflicts": "natset", "perc_space": "space", "fn_bdd": "bdd", "fn_value": "optbit"},
         loopvars={"var": "nat", "value": "bit"}, fuels=[], rename={"space": "space_"}),
    dict(name="find_single_node_LDOIs", path="biobalm/drivers.py", group="drivers", args=[], ret="ldois",
         locs={"LDOIs": "ldois", "fn_bdd": "bdd"}, loopvars={"var": "nat"}, fuels=[], rename={}),
    dict(name="find_single_drivers", path="biobalm/drivers.py", group="drivers", args=[("target_subspace", "space"), ("LDOIs", "optldois")], ret="pairset",
         defaults={"LDOIs": None}, arg_order=["target_subspace", "network", "LDOIs"],
         locs={"drivers": "pairset"}, loopvars={"fix": "pair", "LDOI": "space"}, fuels=[], rename={"fix": "fix_"}),
    dict(name="is_subgraph", path="biobalm/succession_diagram.py", group="iso", method=True, args=[("other", "sdobj")], ret="bool",
         locs={"other_i": "optnat", "my_successors": "natlist", "other_successors": "natlist", "other_s": "optnat"},
         loopvars={"i": "nat", "my_s": "nat"}, fuels=[], rename={"other": "other_"}),
    dict(name="is_isomorphic", path="biobalm/succession_diagram.py", group="iso", method=True, args=[("other", "sdobj")], ret="bool",
         locs={}, loopvars={}, fuels=[], rename={"other": "other_"}),
    dict(name="find_drivers", path="biobalm/control.py", group="control", netname="bn",
         args=[("target_trap_space", "space"), ("strategy", "strategy"), ("assume_fixed", "optspace"), ("max_drivers_per_succession_node", "optnat"), ("forbidden_drivers", "optvarset")],
         ret="spacelist", defaults={"strategy": "internal", "assume_fixed": None, "max_drivers_per_succession_node": None, "forbidden_drivers": None},
         arg_order=["bn", "target_trap_space", "strategy", "assume_fixed", "max_drivers_per_succession_node", "forbidden_drivers"],
         locs={"target_trap_space_inner": "space", "driver_pool": "natset", "drivers": "spacelist", "driver_dict": "space", "ldoi": "space"},
         loopvars={"driver_set_size": "nat", "driver_set": "natlist", "vals": "bitlist"}, fuels=[], rename={}),
    dict(name="drivers_of_succession", path="biobalm/control.py", group="control", netname="bn",
         args=[("succession", "spacelist"), ("strategy", "strategy"), ("max_drivers_per_succession_node", "optnat"), ("forbidden_drivers", "optvarset")], ret="ctllist",
         defaults={"strategy": "internal", "max_drivers_per_succession_node": None, "forbidden_drivers": None}, arg_order=["bn", "succession", "strategy", "max_drivers_per_succession_node", "forbidden_drivers"],
         locs={"control_strategies": "ctllist", "assume_fixed": "space", "ldoi": "space"}, loopvars={"ts": "space"}, fuels=[], rename={}),
]

class Fn(SD.Fn):
    def __init__(self, spec):
        super().__init__(spec)
        self.bdd_of = {}
        self.rename = spec.get("rename", {})

    def is_sd(self, e):
        return isinstance(e, ast.Name) and e.id == ("self" if self.spec.get("method") else "sd")

    def is_other(self, e):
        return self.spec.get("method") and isinstance(e, ast.Name) and e.id == "other"

    def is_net(self, e):
        return isinstance(e, ast.Name) and e.id == self.spec.get("netname", "network")

    def expr(self, e, want=None):
        if isinstance(e, ast.Name) and e.id in self.rename and e.id in self.env:
            return (self.rename[e.id], False, self.env[e.id])
        if isinstance(e, ast.List) and not e.elts and want == "ctllist":
            return ("(@nil (list space))", False, "ctllist")
        if isinstance(e, ast.Dict) and not e.keys and want == "ldois":
            return ("(@nil (nat * bool * space))", False, "ldois")
        if isinstance(e, ast.Dict) and not e.keys and want == "space":
            return ("(top_space (nvars N))", False, "space")                    # {}
        if isinstance(e, ast.Call):
            f = e.func
            if isinstance(f, ast.Attribute) and self.is_net(f.value) and f.attr == "network_variable_names" and not e.args and not e.keywords:
                return ("(seq 0 (nvars N))", False, "natlist")
            if isinstance(f, ast.Name) and f.id == "set" and len(e.args) == 1 and not e.keywords:
                a = self.expr(e.args[0])
                if a[2] == "natlist": return (a[0], a[1], "natset")
            if isinstance(f, ast.Name) and f.id == "set" and not e.args and not e.keywords:
                if want == "pairset": return ("(@nil (nat * bool))", False, "pairset")
                return ("(@nil nat)", False, "natset")
            if isinstance(f, ast.Name) and f.id == "copy" and len(e.args) == 1 and not e.keywords:
                a = self.expr(e.args[0])
                if a[2] in ("space", "natset"): return a                       # values are immutable here
                fail(e, "copy")
            if isinstance(f, ast.Attribute) and self.is_net(f.value) and f.attr == "mk_update_function" and len(e.args) == 1 and not e.keywords:
                a = self.expr(e.args[0])
                if a[2] != "nat" or a[1]: fail(e, "variable")
                self.last_bdd_var = a[0]
                return ("Datatypes.tt", False, "bdd")
            if isinstance(f, ast.Attribute) and f.attr in ("is_true", "is_false") and isinstance(f.value, ast.Name) and self.env.get(f.value.id) == "bdd" \
                    and f.value.id in self.bdd_of and not e.args and not e.keywords:
                return (f"(bdd_{f.attr} N {self.bdd_of[f.value.id]})", False, "bool")
            if isinstance(f, ast.Name) and f.id == "function_eval" and len(e.args) == 2 and not e.keywords and isinstance(e.args[0], ast.Name) \
                    and self.env.get(e.args[0].id) == "bdd" and e.args[0].id in self.bdd_of:
                s_ = self.expr(e.args[1])
                if s_[2] != "space" or s_[1]: fail(e, "function_eval space")
                return (f"(const_on_b N {self.bdd_of[e.args[0].id]} {s_[0]})", False, "optbit")
            if isinstance(f, ast.Name) and f.id in ("percolate_space_strict", "percolate_space") and len(e.args) == 2 and not e.keywords and self.is_net(e.args[0]):
                s_ = self.expr(e.args[1])
                if s_[2] != "space" or s_[1]: fail(e, "space argument")
                if f.id == "percolate_space":
                    return (f"(percolate_b N {s_[0]})", False, "space")        # AEON's Percolation (engine contract, C11 model)
                return (f"(py_percolate_space_strict N {s_[0]})", True, "space")  # the function translated above (None: it raised)
        if self.spec.get("method"):
            # reads of the OTHER diagram (a second, read-only SuccessionDiagram)
            if isinstance(e, ast.Call) and isinstance(e.func, ast.Attribute) and self.is_other(e.func.value) and not e.keywords:
                if e.func.attr == "find_node" and len(e.args) == 1:
                    a = self.expr(e.args[0])
                    if a[2] != "space": fail(e, "find_node argument")
                    return self.map1(a, lambda x: f"(find_node other_ {x})", "optnat")
                if e.func.attr == "node_successors" and len(e.args) == 1:
                    a = self.expr(e.args[0])
                    if a[2] not in ("nat", "optnat") or a[1]: fail(e, "node id")
                    if a[2] == "optnat":       # None as a node id: KeyError
                        return (f"(match {a[0]} with Some j_ => if n_exp (get other_ j_) then Some (Diagram.successors other_ j_) else None | None => None end)", True, "natlist")
                    return (f"(if n_exp (get other_ {a[0]}) then Some (Diagram.successors other_ {a[0]}) else None)", True, "natlist")
                if e.func.attr == "is_subgraph" and len(e.args) == 1 and self.is_sd(e.args[0]):
                    return ("(py_is_subgraph other_ sd_)", True, "bool")
            if isinstance(e, ast.Call) and isinstance(e.func, ast.Attribute) and self.is_sd(e.func.value) and e.func.attr == "is_subgraph" and len(e.args) == 1 \
                    and self.is_other(e.args[0]) and not e.keywords:
                return ("(py_is_subgraph sd_ other_)", True, "bool")
            if isinstance(e, ast.Subscript) and isinstance(e.slice, ast.Constant) and e.slice.value == "expanded" and isinstance(e.value, ast.Call) \
                    and isinstance(e.value.func, ast.Attribute) and e.value.func.attr == "node_data" and self.is_other(e.value.func.value) and len(e.value.args) == 1:
                a = self.expr(e.value.args[0])
                if a[2] == "optnat" and not a[1]:
                    return (f"(omap (fun j_ => n_exp (get other_ j_)) {a[0]})", True, "bool")
                fail(e, "other.node_data")
            if isinstance(e, ast.Call) and isinstance(e.func, ast.Attribute) and self.is_sd(e.func.value) and e.func.attr == "expanded_ids" and not e.args and not e.keywords:
                return ("(filter (fun i_ => n_exp (get sd_ i_)) (seq 0 (size sd_)))", False, "natlist")
            if isinstance(e, ast.Compare) and len(e.ops) == 1 and isinstance(e.ops[0], (ast.In, ast.NotIn)):
                a, b = self.expr(e.left), self.expr(e.comparators[0])
                if a[2] == "optnat" and b[2] == "natlist" and not a[1] and not b[1]:
                    t = f"(match {a[0]} with Some t_ => mem_nat t_ {b[0]} | None => false end)"       # None is never an element of a list of ids
                    return (t if isinstance(e.ops[0], ast.In) else f"(negb {t})", False, "bool")
        if isinstance(e, ast.Call) and isinstance(e.func, ast.Name) and e.func.id == "cast" and len(e.args) == 2 and not e.keywords:
            return self.expr(e.args[1], want)                                  # typing.cast is the identity
        if isinstance(e, ast.Compare) and len(e.ops) == 1 and isinstance(e.ops[0], ast.Eq) and isinstance(e.left, ast.Name) and self.env.get(e.left.id) == "strategy" \
                and isinstance(e.comparators[0], ast.Constant) and e.comparators[0].value in ("internal", "all"):
            return (f"(negb {e.left.id})" if e.comparators[0].value == "internal" else e.left.id, False, "bool")
        if isinstance(e, ast.BinOp) and isinstance(e.op, ast.Sub) and isinstance(e.left, ast.Call) and isinstance(e.left.func, ast.Name) and e.left.func.id == "set" \
                and len(e.left.args) == 1 and not e.left.keywords:
            a, b = self.expr(e.left.args[0]), self.expr(e.right)               # set(X) - F
            keys = f"(vars_fixed {a[0]})" if a[2] == "space" else (a[0] if a[2] == "natlist" else None)
            if keys is None or b[2] != "natset" or a[1] or b[1]: fail(e, "set difference")
            return (f"(filter (fun v_ => negb (mem_nat v_ {b[0]})) {keys})", False, "natset")
        if isinstance(e, ast.Call) and isinstance(e.func, ast.Name) and e.func.id == "range" and len(e.args) == 1 and not e.keywords:
            a = self.expr(e.args[0])
            if a[2] != "nat": fail(e, "range")
            return self.map1(a, lambda x: f"(seq 0 {x})", "natlist")
        if isinstance(e, ast.Call) and isinstance(e.func, ast.Name) and e.func.id == "combinations" and len(e.args) == 2 and not e.keywords:
            a, b = self.expr(e.args[0]), self.expr(e.args[1])
            if a[2] != "natset" or b[2] != "nat" or a[1] or b[1]: fail(e, "combinations")
            return (f"(subsets_of_size {b[0]} {a[0]})", False, "natlistlist")
        if isinstance(e, ast.Call) and isinstance(e.func, ast.Name) and e.func.id == "product" and len(e.args) == 1 and len(e.keywords) == 1 and e.keywords[0].arg == "repeat" \
                and ast.dump(e.args[0]) == "List(elts=[Constant(value=0), Constant(value=1)], ctx=Load())":
            k = self.expr(e.keywords[0].value)
            if k[2] != "nat" or k[1]: fail(e, "product repeat")
            return (f"(bit_vectors {k[0]})", False, "bitlistlist")
        # any(set(d) <= set(driver_set) for d in drivers)
        if isinstance(e, ast.Call) and isinstance(e.func, ast.Name) and e.func.id == "any" and len(e.args) == 1 and isinstance(e.args[0], ast.GeneratorExp):
            g = e.args[0]
            if len(g.generators) != 1 or g.generators[0].ifs or not isinstance(g.generators[0].target, ast.Name): fail(e, "any(...)")
            it = self.expr(g.generators[0].iter)
            if it[2] != "spacelist" or it[1]: fail(e, "any(...) iterable")
            v = g.generators[0].target.id
            c = g.elt
            def keys_of(x, var):
                return isinstance(x, ast.Call) and isinstance(x.func, ast.Name) and x.func.id == "set" and len(x.args) == 1 and isinstance(x.args[0], ast.Name) and x.args[0].id == var
            if not (isinstance(c, ast.Compare) and len(c.ops) == 1 and isinstance(c.ops[0], ast.LtE) and keys_of(c.left, v)
                    and isinstance(c.comparators[0], ast.Call) and isinstance(c.comparators[0].func, ast.Name) and c.comparators[0].func.id == "set" and len(c.comparators[0].args) == 1):
                fail(e, "any(...) body")
            rhs = self.expr(c.comparators[0].args[0])
            if rhs[2] != "natlist" or rhs[1]: fail(e, "any(...) right-hand side")
            return (f"(existsb (fun {v} => subset_nat (vars_fixed {v}) {rhs[0]}) {it[0]})", False, "bool")
        # X.items() <= Y.items(): every fixed value of X is a fixed value of Y
        if isinstance(e, ast.Compare) and len(e.ops) == 1 and isinstance(e.ops[0], ast.LtE):
            def items_of_(x):
                return x.func.value if isinstance(x, ast.Call) and isinstance(x.func, ast.Attribute) and x.func.attr == "items" and not x.args else None
            if items_of_(e.left) is not None and items_of_(e.comparators[0]) is not None:
                a, b = self.expr(items_of_(e.left)), self.expr(items_of_(e.comparators[0]))
                if a[2] != "space" or b[2] != "space" or a[1] or b[1]: fail(e, "items comparison")
                return (f"(subspace {b[0]} {a[0]})", False, "bool")
        # {k: inner[k] for k in driver_set}  /  {driver: value for driver, value in zip(driver_set, vals)}
        if isinstance(e, ast.DictComp) and len(e.generators) == 1 and not e.generators[0].ifs:
            g = e.generators[0]
            val = e.value
            if isinstance(val, ast.Call) and isinstance(val.func, ast.Name) and val.func.id == "cast" and len(val.args) == 2: val = val.args[1]
            if isinstance(g.target, ast.Name) and isinstance(e.key, ast.Name) and e.key.id == g.target.id and isinstance(val, ast.Subscript) \
                    and isinstance(val.slice, ast.Name) and val.slice.id == g.target.id and isinstance(val.value, ast.Name):
                ks, src = self.expr(g.iter), self.expr(val.value)
                if ks[2] != "natlist" or src[2] != "space" or ks[1] or src[1]: fail(e, "dict comprehension over keys")
                return (f"(dict_restrict {src[0]} {ks[0]})", True, "space")            # KeyError if a key is missing
            if isinstance(g.target, ast.Tuple) and len(g.target.elts) == 2 and all(isinstance(t, ast.Name) for t in g.target.elts) \
                    and isinstance(e.key, ast.Name) and isinstance(val, ast.Name) and [e.key.id, val.id] == [t.id for t in g.target.elts] \
                    and isinstance(g.iter, ast.Call) and isinstance(g.iter.func, ast.Name) and g.iter.func.id == "zip" and len(g.iter.args) == 2:
                a, b = self.expr(g.iter.args[0]), self.expr(g.iter.args[1])
                if a[2] != "natlist" or b[2] != "bitlist" or a[1] or b[1]: fail(e, "dict comprehension over zip")
                return (f"(assign (nvars N) (combine {a[0]} {b[0]}))", False, "space")
        if isinstance(e, ast.Call) and isinstance(e.func, ast.Name) and e.func.id == "len" and len(e.args) == 1 and not e.keywords:
            a = self.expr(e.args[0])
            if a[2] == "space": return self.map1(a, lambda x: f"(count_fixed {x})", "nat")
        if isinstance(e, ast.Call) and isinstance(e.func, ast.Name) and e.func.id == "find_drivers":
            kw = {k.arg: k.value for k in e.keywords}
            if len(e.args) != 2 or not self.is_net(e.args[0]) or set(kw) != {"strategy", "assume_fixed", "max_drivers_per_succession_node", "forbidden_drivers"}:
                fail(e, "find_drivers arguments")
            ts, st, af, md, fb = self.expr(e.args[1]), self.expr(kw["strategy"]), self.expr(kw["assume_fixed"]), self.expr(kw["max_drivers_per_succession_node"]), self.expr(kw["forbidden_drivers"])
            if [ts[2], st[2], af[2], md[2], fb[2]] != ["space", "strategy", "space", "optnat", "optvarset"] or any(x[1] for x in (ts, st, af, md, fb)): fail(e, "find_drivers argument types")
            # the model's find_drivers (Control.v; C07): forbidden_drivers=None is the empty set
            return (f"(find_drivers N {ts[0]} {st[0]} {af[0]} {md[0]} (match {fb[0]} with Some l_ => l_ | None => [] end))", False, "ctl")
        if isinstance(e, ast.BinOp) and isinstance(e.op, ast.BitOr):
            a, b = self.expr(e.left), self.expr(e.right)
            if a[2] == "space" and b[2] == "space":
                return self.map2(a, b, lambda x, y: f"(space_union {x} {y})", "space")
        if isinstance(e, ast.Dict) and len(e.keys) == 1 and isinstance(e.values[0], ast.Constant) and e.values[0].value in (0, 1) and type(e.values[0].value) is int:
            k = self.expr(e.keys[0])                                            # {var: 0} / {var: 1}
            if k[2] != "nat" or k[1]: fail(e, "dict literal key")
            return (f"(set_nth {k[0]} (Some {'true' if e.values[0].value else 'false'}) (top_space (nvars N)))", False, "space")
        if isinstance(e, ast.Call) and isinstance(e.func, ast.Name) and e.func.id == "find_single_node_LDOIs" and len(e.args) == 1 and not e.keywords and self.is_net(e.args[0]):
            return ("(py_find_single_node_LDOIs N)", True, "ldois")
        if isinstance(e, ast.Call) and isinstance(e.func, ast.Name) and e.func.id == "set" and not e.args and not e.keywords and want == "pairset":
            return ("(@nil (nat * bool))", False, "pairset")
        # target.items() <= (LDOI.items() | {fix}): every fixed value of the target is in the LDOI or is the fixed node state itself
        if isinstance(e, ast.Compare) and len(e.ops) == 1 and isinstance(e.ops[0], ast.LtE):
            def items_of(x):
                return x.func.value if isinstance(x, ast.Call) and isinstance(x.func, ast.Attribute) and x.func.attr == "items" and not x.args else None
            l, r = e.left, e.comparators[0]
            if items_of(l) is not None and isinstance(r, ast.BinOp) and isinstance(r.op, ast.BitOr) and items_of(r.left) is not None \
                    and isinstance(r.right, ast.Set) and len(r.right.elts) == 1:
                t, ld, fx = self.expr(items_of(l)), self.expr(items_of(r.left)), self.expr(r.right.elts[0])
                if t[2] != "space" or ld[2] != "space" or fx[2] != "pair" or t[1] or ld[1] or fx[1]: fail(e, "driver test operands")
                return (f"(drives {t[0]} {ld[0]} (fst {fx[0]}) (snd {fx[0]}))", False, "bool")
            fail(e, "<= comparison")
        if isinstance(e, ast.Compare) and len(e.ops) == 1:
            op, l, r = e.ops[0], e.left, e.comparators[0]
            if isinstance(op, (ast.Is, ast.IsNot)) and isinstance(r, ast.Constant) and r.value is None:
                a = self.expr(l)
                if a[2] == "optldois":
                    res = self.map1(a, lambda x: f"(match {x} with None => true | Some _ => false end)", "bool")
                    return res if isinstance(op, ast.Is) else self.map1(res, lambda x: f"(negb {x})", "bool")
                if a[2] == "optbit":
                    res = self.map1(a, lambda x: f"(match {x} with None => true | Some _ => false end)", "bool")
                    return res if isinstance(op, ast.Is) else self.map1(res, lambda x: f"(negb {x})", "bool")
            if isinstance(op, (ast.In, ast.NotIn)):
                a, b = self.expr(l), self.expr(r)
                if a[2] == "nat" and b[2] == "space":
                    res = self.map2(a, b, lambda x, y: f"(match nth {x} {y} None with Some _ => true | None => false end)", "bool")
                    return res if isinstance(op, ast.In) else self.map1(res, lambda x: f"(negb {x})", "bool")
            if isinstance(op, (ast.Eq, ast.NotEq)):
                a, b = self.expr(l), self.expr(r)
                if {a[2], b[2]} <= {"bit", "optbit"}:
                    la = a if a[2] == "optbit" else self.map1(a, lambda x: f"(Some {x})", "optbit")
                    lb = b if b[2] == "optbit" else self.map1(b, lambda x: f"(Some {x})", "optbit")
                    res = self.map2(la, lb, lambda x, y: f"(eqb_optbit {x} {y})", "bool")
                    return res if isinstance(op, ast.Eq) else self.map1(res, lambda x: f"(negb {x})", "bool")
        if isinstance(e, ast.Subscript) and isinstance(e.ctx, ast.Load) and not isinstance(e.slice, (ast.Slice, ast.UnaryOp)) and self.node_data_field(e) is None \
                and not (isinstance(e.slice, ast.Constant) and isinstance(e.slice.value, str)):
            a = self.expr(e.value)
            if a[2] == "space":
                k = self.expr(e.slice)
                if k[2] != "nat" or k[1] or a[1]: fail(e, "dict key")
                return (f"(nth {k[0]} {a[0]} None)", True, "bit")                 # KeyError on a missing key
        return super().expr(e, want)

    def block(self, stmts):
        if not stmts:
            return self.nxt()
        s, rest = stmts[0], stmts[1:]
        nn = self.spec.get("netname", "network")
        if isinstance(s, ast.If) and not s.orelse and ast.dump(s.test) == f"Call(func=Name(id='isinstance', ctx=Load()), args=[Name(id='{nn}', ctx=Load()), Name(id='BooleanNetwork', ctx=Load())], keywords=[])" \
                and len(s.body) == 1 and ast.dump(s.body[0]) == f"Assign(targets=[Name(id='{nn}', ctx=Store())], value=Call(func=Name(id='AsynchronousGraph', ctx=Load()), args=[Name(id='{nn}', ctx=Load())], keywords=[]))":
            return self.block(rest)
        if isinstance(s, ast.Expr) and isinstance(s.value, ast.Call) and isinstance(s.value.func, ast.Attribute) and isinstance(s.value.func.value, ast.Name) \
                and self.locs.get(s.value.func.value.id) == "ctllist" and s.value.func.attr == "append" and len(s.value.args) == 1 and not s.value.keywords:
            name = s.value.func.value.id
            self.need_state(name, s)
            a = self.expr(s.value.args[0])
            if a[2] != "ctl" or a[1]: fail(s, "append element")
            return self.guard(f"({name} ++ [{a[0]}])", False, name, self.block(rest))
        if isinstance(s, ast.Expr) and isinstance(s.value, ast.Call) and isinstance(s.value.func, ast.Attribute) and isinstance(s.value.func.value, ast.Name) \
                and self.locs.get(s.value.func.value.id) == "space" and s.value.func.attr == "update" and len(s.value.args) == 1 and not s.value.keywords:
            name = s.value.func.value.id
            self.need_state(name, s)
            a = self.expr(s.value.args[0])
            if a[2] != "space" or a[1]: fail(s, "update argument")
            return self.guard(f"(space_union {name} {a[0]})", False, name, self.block(rest))          # d.update(e): e's values win
        # if isinstance(network, BooleanNetwork): network = AsynchronousGraph(network)   -- the network is the model's N either way
        if isinstance(s, ast.If) and not s.orelse and ast.dump(s.test) == "Call(func=Name(id='isinstance', ctx=Load()), args=[Name(id='network', ctx=Load()), Name(id='BooleanNetwork', ctx=Load())], keywords=[])" \
                and len(s.body) == 1 and ast.dump(s.body[0]) == "Assign(targets=[Name(id='network', ctx=Store())], value=Call(func=Name(id='AsynchronousGraph', ctx=Load()), args=[Name(id='network', ctx=Load())], keywords=[]))":
            return self.block(rest)
        # if X is None: X = E on an optional parameter: from here on X has the plain type
        OPT = {"optnat": "nat", "optspace": "space", "optvarset": "natset"}
        if isinstance(s, ast.If) and not s.orelse and len(s.body) == 1 and isinstance(s.test, ast.Compare) and isinstance(s.test.left, ast.Name) \
                and self.env.get(s.test.left.id) in OPT and s.test.left.id in dict(self.spec["args"]) and isinstance(s.test.ops[0], ast.Is) \
                and isinstance(s.test.comparators[0], ast.Constant) and s.test.comparators[0].value is None \
                and isinstance(s.body[0], ast.Assign) and isinstance(s.body[0].targets[0], ast.Name) and s.body[0].targets[0].id == s.test.left.id:
            x = s.test.left.id
            plain = OPT[self.env[x]]
            t = self.expr(s.body[0].value, want=plain)
            if t[2] != plain and not (plain == "natset" and t[2] == "natset"): fail(s, "default of an optional parameter")
            if t[1]: fail(s, "raising default")
            self.env[x] = plain
            return f"(let {x} := match {x} with None => {t[0]} | Some v_ => v_ end in {self.block(rest)})"
        if isinstance(s, ast.Raise):
            if not (isinstance(s.exc, ast.Call) and isinstance(s.exc.func, ast.Name) and s.exc.func.id == "ValueError"): fail(s, "raise")
            return "(SRaise sd_ (RRaised ErrAssert))"
        if isinstance(s, ast.For) and isinstance(s.target, ast.Name) and self.spec["loopvars"].get(s.target.id) in ("natlist", "bitlist") and not s.orelse:
            it = self.expr(s.iter)
            if it[2] != {"natlist": "natlistlist", "bitlist": "bitlistlist"}[self.spec["loopvars"][s.target.id]] or it[1]: fail(s, "loop iterable")
            body = self.block(s.body)
            head = (f"(s_for {it[0]} (fun {s.target.id} sd_ (st_ : {self.st_ty()}) => let {self.st_pat()} := st_ in "
                    f"({body} : {self.flow_ty()})) sd_ {self.st_tuple()})")
            return self.seq(head, rest)
        if isinstance(s, ast.Expr) and isinstance(s.value, ast.Call) and isinstance(s.value.func, ast.Attribute) and isinstance(s.value.func.value, ast.Name) \
                and self.locs.get(s.value.func.value.id) == "spacelist" and s.value.func.attr == "append" and len(s.value.args) == 1 and not s.value.keywords:
            name = s.value.func.value.id
            self.need_state(name, s)
            a = self.expr(s.value.args[0])
            if a[2] != "space" or a[1]: fail(s, "append element")
            return self.guard(f"({name} ++ [{a[0]}])", False, name, self.block(rest))
        # if LDOIs is None: LDOIs = find_single_node_LDOIs(network): from here on the table is there
        if isinstance(s, ast.If) and not s.orelse and len(s.body) == 1 and isinstance(s.test, ast.Compare) and isinstance(s.test.left, ast.Name) \
                and self.env.get(s.test.left.id) == "optldois" and isinstance(s.test.ops[0], ast.Is) and isinstance(s.body[0], ast.Assign) \
                and isinstance(s.body[0].targets[0], ast.Name) and s.body[0].targets[0].id == s.test.left.id:
            x = s.test.left.id
            t = self.expr(s.body[0].value)
            if t[2] != "ldois": fail(s, "default table")
            self.env[x] = "ldois"
            dflt = t[0] if t[1] else f"(Some {t[0]})"
            return f"(match (match {x} with None => {dflt} | Some v_ => Some v_ end) with Some {x} => {self.block(rest)} | None => SBad sd_ end)"
        # LDOIs[(var, b)] = space: a new entry of the table (the keys are fresh: one per variable and value)
        if isinstance(s, ast.Assign) and len(s.targets) == 1 and isinstance(s.targets[0], ast.Subscript) and isinstance(s.targets[0].value, ast.Name) \
                and self.locs.get(s.targets[0].value.id) == "ldois" and isinstance(s.targets[0].slice, ast.Tuple) and len(s.targets[0].slice.elts) == 2 \
                and isinstance(s.targets[0].slice.elts[1], ast.Constant) and s.targets[0].slice.elts[1].value in (0, 1):
            name = s.targets[0].value.id
            self.need_state(name, s)
            k, v = self.expr(s.targets[0].slice.elts[0]), self.expr(s.value)
            if k[2] != "nat" or k[1] or v[2] != "space": fail(s, "table entry")
            b = "true" if s.targets[0].slice.elts[1].value else "false"
            body = self.guard(f"(ldois_set {name} {k[0]} {b} v_)", False, name, self.block(rest))
            return self.guard(v[0], v[1], "v_", body)
        # for fix, LDOI in LDOIs.items()
        if isinstance(s, ast.For) and isinstance(s.target, ast.Tuple) and [getattr(x, "id", None) for x in s.target.elts] == ["fix", "LDOI"] and not s.orelse \
                and isinstance(s.iter, ast.Call) and isinstance(s.iter.func, ast.Attribute) and s.iter.func.attr == "items" and not s.iter.args:
            d = self.expr(s.iter.func.value)
            if d[2] != "ldois" or d[1]: fail(s, "items() of the table")
            body = self.block(s.body)
            head = (f"(s_for {d[0]} (fun it_ sd_ (st_ : {self.st_ty()}) => let {self.st_pat()} := st_ in let fix_ := fst it_ in let LDOI := snd it_ in "
                    f"({body} : {self.flow_ty()})) sd_ {self.st_tuple()})")
            return self.seq(head, rest)
        # drivers.add(fix)
        if isinstance(s, ast.Expr) and isinstance(s.value, ast.Call) and isinstance(s.value.func, ast.Attribute) and isinstance(s.value.func.value, ast.Name) \
                and self.locs.get(s.value.func.value.id) == "pairset" and s.value.func.attr == "add" and len(s.value.args) == 1:
            name = s.value.func.value.id
            self.need_state(name, s)
            a = self.expr(s.value.args[0])
            if a[2] != "pair" or a[1]: fail(s, "set element")
            return self.guard(f"(pair_add {a[0]} {name})", False, name, self.block(rest))
        if isinstance(s, ast.Continue):
            return f"(SCont sd_ {self.st_tuple()})"
        # X[k] = v on a dict
        if isinstance(s, ast.Assign) and len(s.targets) == 1 and isinstance(s.targets[0], ast.Subscript) and isinstance(s.targets[0].value, ast.Name) \
                and self.locs.get(s.targets[0].value.id) == "space":
            name = s.targets[0].value.id
            self.need_state(name, s)
            k, v = self.expr(s.targets[0].slice), self.expr(s.value)
            if k[2] != "nat" or k[1] or v[1] or v[2] not in ("bit", "optbit"): fail(s, "item assignment")
            val = v[0] if v[2] == "optbit" else f"(Some {v[0]})"
            return self.guard(f"(set_nth {k[0]} {val} {name})", False, name, self.block(rest))
        # bdd locals
        if isinstance(s, ast.Assign) and len(s.targets) == 1 and isinstance(s.targets[0], ast.Name) and self.locs.get(s.targets[0].id) == "bdd":
            name = s.targets[0].id
            self.need_state(name, s)
            t = self.expr(s.value)
            if t[2] != "bdd": fail(s, "bdd local")
            self.bdd_of[name] = self.last_bdd_var
            return self.guard(t[0], False, name, self.block(rest))
        # set.remove / set.add on variable sets
        if isinstance(s, ast.Expr) and isinstance(s.value, ast.Call) and isinstance(s.value.func, ast.Attribute) and isinstance(s.value.func.value, ast.Name) \
                and self.locs.get(s.value.func.value.id) == "natset" and s.value.func.attr == "remove" and len(s.value.args) == 1 and not s.value.keywords:
            name = s.value.func.value.id
            self.need_state(name, s)
            a = self.expr(s.value.args[0])
            if a[2] != "nat" or a[1]: fail(s, "remove argument")
            return f"(match set_remove {a[0]} {name} with Some {name} => {self.block(rest)} | None => SBad sd_ end)"      # KeyError
        # for (var, value) in d.items()
        if isinstance(s, ast.For) and isinstance(s.target, ast.Tuple) and len(s.target.elts) == 2 and all(isinstance(x, ast.Name) for x in s.target.elts) \
                and isinstance(s.iter, ast.Call) and isinstance(s.iter.func, ast.Attribute) and s.iter.func.attr == "items" and not s.iter.args and not s.orelse:
            kv = [x.id for x in s.target.elts]
            if [self.spec["loopvars"].get(x) for x in kv] != ["nat", "bit"]: fail(s, "items() loop variables")
            d = self.expr(s.iter.func.value)
            if d[2] != "space" or d[1]: fail(s, "items() of a non-dict")
            body = self.block(s.body)
            head = (f"(s_for (space_items {d[0]}) (fun it_ sd_ (st_ : {self.st_ty()}) => let {self.st_pat()} := st_ in let '({kv[0]}, {kv[1]}) := it_ in "
                    f"({body} : {self.flow_ty()})) sd_ {self.st_tuple()})")
            return self.seq(head, rest)
        if isinstance(s, ast.For) and isinstance(s.target, ast.Name) and self.spec["loopvars"].get(s.target.id) == "nat":
            it = self.expr(s.iter)
            if it[2] == "natset":                                          # iterate a set (model order)
                if it[1] or s.orelse: fail(s, "loop")
                body = self.block(s.body)
                head = (f"(s_for {it[0]} (fun {s.target.id} sd_ (st_ : {self.st_ty()}) => let {self.st_pat()} := st_ in "
                        f"({body} : {self.flow_ty()})) sd_ {self.st_tuple()})")
                return self.seq(head, rest)
        if isinstance(s, ast.Return) and s.value is not None:
            t, r, ty = self.expr(s.value)
            if ty != self.ret: fail(s, "return type")
            return f"(match {t} with Some r_ => SRet sd_ r_ | None => SBad sd_ end)" if r else f"(SRet sd_ {t})"
        return super().block(stmts)

def translate(group):
    fname = {"perc": "PySrcPerc.v", "drivers": "PySrcDrivers.v", "control": "PySrcControl.v", "iso": "PySrcIso.v"}[group]
    parts = [f"(* {fname} -- GENERATED by tools/py2coq_perc.py from the current source of /repo/biobalm/" + {"perc": "space_utils.py", "drivers": "drivers.py", "control": "control.py", "iso": "succession_diagram.py (SuccessionDiagram.is_subgraph / is_isomorphic)"}[group] + "; do not edit.",
             "   Embedding: PyLibSd.v, PyLibPerc.v.  PySrcPercFacts.v / PySrcDriversFacts.v prove the generated functions equal to the model's (Strict.v). *)",
             "From Coq Require Import List Bool Arith.", "Import ListNotations.",
             "From BB Require Import BN Brute Diagram Strict PyLib PyLibSd PyLibPerc" + (" PyLibDrivers PySrcPerc" if group == "drivers" else "") + (" PyLibCore Blocks Control PyLibControl" if group == "control" else "") + ".", ""]
    for spec in FUNCS:
        if spec.get("group", "perc") != group: continue
        name = spec["name"]
        mod = ast.parse(open(os.path.join(REPO, spec["path"])).read())
        scope = mod.body
        if spec.get("method"):
            cls = [n for n in mod.body if isinstance(n, ast.ClassDef) and n.name == "SuccessionDiagram"]
            if len(cls) != 1: raise Unsupported("class SuccessionDiagram not found exactly once")
            scope = cls[0].body
        nodes = [n for n in scope if isinstance(n, ast.FunctionDef) and n.name == name]
        if len(nodes) != 1: raise Unsupported(f"function {name} not found exactly once")
        node = nodes[0]
        a = node.args
        want_order = spec.get("arg_order") or (["self" if spec.get("method") else "network"] + [x for x, _ in spec["args"]])
        if a.vararg or a.kwarg or a.kwonlyargs or a.posonlyargs or [x.arg for x in a.args] != want_order or node.decorator_list:
            raise Unsupported(f"{name}: signature changed")
        got = dict(zip([x.arg for x in a.args][len(a.args) - len(a.defaults):], a.defaults))
        want = spec.get("defaults", {})
        if set(got) != set(want) or any(not (isinstance(got[k], ast.Constant) and got[k].value == v and type(got[k].value) is type(v)) for k, v in want.items()):
            raise Unsupported(f"{name}: default values changed")
        fn = Fn(spec)
        fn.state = SD.assigned_locals(node, spec["locs"])
        for n in ast.walk(node):           # item assignments and set.remove / add also assign
            if isinstance(n, ast.Assign) and isinstance(n.targets[0], ast.Subscript) and isinstance(n.targets[0].value, ast.Name):
                v = n.targets[0].value.id
                if v in spec["locs"] and v not in fn.state: fn.state.append(v)
            if isinstance(n, ast.Call) and isinstance(n.func, ast.Attribute) and n.func.attr in ("remove", "add", "append", "update") and isinstance(n.func.value, ast.Name):
                v = n.func.value.id
                if v in spec["locs"] and v not in fn.state: fn.state.append(v)
        body = fn.block(node.body)
        if fn.fuels: raise Unsupported(f"{name}: fewer while loops than declared")
        ren = spec.get("rename", {})
        sig = " ".join(f"({ren.get(x, x)} : {COQ_TY[t]})" for x, t in spec["args"])
        init = "".join(f"let {v} := {DFLT[spec['locs'][v]]} in " for v in fn.state)
        parts.append(f"(* {spec['path']}: def {name}({', '.join(want_order)}) *)")
        if spec.get("method"):
            parts.append(f"Definition py_{name} (sd_ : sd) {sig} : option {COQ_TY[spec['ret']]} :=")
            parts.append(f"  {init}")
        else:
            parts.append(f"Definition py_{name} (N : net) {sig} : option {COQ_TY[spec['ret']]} :=")
            parts.append(f"  let sd_ := no_sd in {init}")
        parts.append("  s_value\n" + textwrap.indent(SD.pretty(f"({body} : {fn.flow_ty()})"), "    ") + ".")
        parts.append("")
    return "\n".join(parts)

def main(argv):
    texts, failed = [], []
    for g, f in (("perc", "PySrcPerc.v"), ("drivers", "PySrcDrivers.v"), ("control", "PySrcControl.v"), ("iso", "PySrcIso.v")):
        try:
            texts.append((os.path.join(OUTDIR, f), translate(g)))
        except Unsupported as e:
            print(f"py2coq_perc: FAILED {f}: UNSUPPORTED: {e}", file=sys.stderr)
            failed.append(f)
            if g == "perc":
                print("py2coq_perc: FAILED PySrcDrivers.v: depends on PySrcPerc.v", file=sys.stderr); failed.append("PySrcDrivers.v"); break
    if len(argv) > 1 and argv[1] == "--check":
        same = not failed and all(os.path.exists(o) and open(o).read() == t for o, t in texts)
        print("unchanged" if same else "CHANGED")
        return 0 if same else 1
    for o, t in texts:
        if os.path.exists(o) and open(o).read() == t:
            print("unchanged", os.path.normpath(o))
        else:
            open(o, "w").write(t)
            print("wrote", os.path.normpath(o))
    return 2 if failed else 0

if __name__ == "__main__":
    sys.exit(main(sys.argv))
