#!/bin/bash
# usage: tools/try_mutant.sh <seeded-id> <property> [more check args]  -- applies the patch to /repo, runs the check, always reverts
id=$1; shift
cd /verif
git -C /repo diff --quiet || { echo "/repo not clean"; exit 2; }
git -C /repo apply /verif/seeded/$id/patch.diff || exit 2
trap 'git -C /repo checkout -- . ' EXIT
./check "$@" 2>&1 | grep -v domRec | tail -${TAIL:-6}
