#!/usr/bin/env python3
"""py2coq_sd.py -- fail-closed translator of the Python functions that DRIVE a SuccessionDiagram (the expansion
strategies expand_bfs / expand_dfs / expand_to_target of biobalm/_sd_algorithms) into Gallina.

Same discipline as py2coq.py: the functions are read from the CURRENT source with `ast`; every construct outside the
supported subset raises Unsupported (nothing is skipped silently, docstrings and comments excepted); the result is
written to coq/theories/PySrcSd.v and coq/theories/PySrcSdFacts.v proves every generated function EQUAL to the
hand-written model function (Diagram.expand_bfs etc.) on which all theorems are stated.  The embedding of the
SuccessionDiagram API, of lists / sets of node ids and of statements is coq/theories/PyLibSd.v (trusted).

Python run-time errors are kept: comparing with None, len(None), popping an empty list give SBad, so a change that
makes one of them reachable cannot be proved equal to the model.
"""
import ast, sys, os, textwrap

REPO = os.environ.get("VERIF_REPO", "/repo")
OUTDIR = os.path.join(os.path.dirname(os.path.abspath(__file__)), "..", "coq", "theories")
# generated file -> functions (one file per group of properties: bfs / dfs are tied to C02, C03; expand_to_target to C06)
GROUPS = [("PySrcSd.v", ["expand_bfs", "expand_dfs"]), ("PySrcSdTarget.v", ["expand_to_target"]), ("PySrcSdMin.v", ["expand_minimal_spaces"]),
          ("PySrcSdASeeds.v", ["expand_attractor_seeds"]), ("PySrcSdScc.v", ["attach_scc_subdiagram"]), ("PySrcSdSccMain.v", ["expand_source_SCCs"])]

class Unsupported(Exception):
    pass

def fail(node, why):
    raise Unsupported(f"line {getattr(node, 'lineno', '?')}: {why}: {ast.dump(node)[:200]}")

COQ_TY = {"nat": "nat", "optnat": "(option nat)", "bool": "bool", "natlist": "(list nat)", "optnatlist": "(option (list nat))",
          "natset": "(list nat)", "space": "space", "optspace": "(option space)", "stack": "(list (nat * option (list nat)))",
          "spacelist": "(list space)", "pnobj": "unit", "unit": "unit", "optspacelist": "(list (option space))", "retained": "retained",
          "statelist": "(list state)", "netobj": "unit", "graphobj": "unit", "nfvstape": "(list (list nat))",
          "idmap": "(list (nat * nat))", "sdobj": "sd", "comp": "(list nat)", "expanderopt": "unit", "qtape": "(list (option bool))", "natlist_qtape": "(list nat * list (option bool))",
          "bool_qtape": "(bool * list (option bool))", "complist": "(list (list nat))", "bitlist": "(list bool)", "bitlistlist": "(list (list bool))"}
DFLT = {"nat": "0", "optnat": "(@None nat)", "bool": "false", "natlist": "(@nil nat)", "optnatlist": "(@None (list nat))",
        "natset": "(@nil nat)", "space": "(@nil (option bool))", "optspace": "(@None space)", "stack": "(@nil (nat * option (list nat)))",
        "spacelist": "(@nil space)", "pnobj": "Datatypes.tt", "optspacelist": "(@nil (option space))", "retained": "(@nil (nat * bool))",
        "statelist": "(@nil state)", "netobj": "Datatypes.tt", "graphobj": "Datatypes.tt", "nfvstape": "tape", "idmap": "(@nil (nat * nat))", "qtape": "tape", "complist": "(@nil (list nat))", "bitlistlist": "(@nil (list bool))", "sdobj": "no_sd_"}
OPT_OF = {"nat": "optnat", "natlist": "optnatlist", "space": "optspace"}

# function -> file, arguments (after sd), local types, fuel of each `while` in order of appearance
FUNCS = [
    dict(name="expand_bfs", path="biobalm/_sd_algorithms/expand_bfs.py",
         args=[("node_id", "optnat"), ("bfs_level_limit", "optnat"), ("size_limit", "optnat")],
         locs={"seen": "natset", "level_id": "nat", "current_level": "natlist", "next_level": "natlist", "successors": "natlist"},
         loopvars={"node": "nat", "s": "nat"}, fuels=["fuel"]),
    dict(name="expand_dfs", path="biobalm/_sd_algorithms/expand_dfs.py",
         args=[("node_id", "optnat"), ("dfs_stack_limit", "optnat"), ("size_limit", "optnat")],
         locs={"seen": "natset", "stack": "stack", "result_is_complete": "bool", "node": "nat", "successors": "optnatlist", "s": "nat"},
         loopvars={}, fuels=["fuel", "(S (match successors with Some l_ => length l_ | None => 0 end))"]),
    dict(name="expand_to_target", path="biobalm/_sd_algorithms/expand_to_target.py",
         args=[("target", "space"), ("size_limit", "optnat")],
         locs={"root": "nat", "seen": "natset", "level_id": "nat", "current_level": "natlist", "next_level": "natlist",
               "node_space": "space", "successors": "natlist"},
         loopvars={"node": "nat", "s": "nat"}, fuels=["fuel"]),
    dict(name="expand_minimal_spaces", path="biobalm/_sd_algorithms/expand_minimal_spaces.py", tape=True,
         args=[("node_id", "optnat"), ("size_limit", "optnat"), ("skip_remaining", "bool")], defaults={"size_limit": None, "skip_remaining": False},
         locs={"pn": "pnobj", "node_space": "space", "all_minimal_traps": "spacelist", "minimal_traps": "spacelist", "seen": "natset",
               "stack": "stack", "node": "nat", "successors": "optnatlist", "skipped": "nat", "s": "nat"},
         loopvars={}, fuels=["fuel", "(S (match successors with Some l_ => length l_ | None => 0 end))"],
         nested=[dict(name="make_skip_node", args=[("node_id", "nat"), ("all_minimal_traps", "spacelist")], ret="unit",
                      locs={"skip_edges": "nat", "m_id": "nat"}, loopvars={"m_trap": "space"}, alias=["node", "m_data"], fuels=[])]),
    dict(name="expand_attractor_seeds", path="biobalm/_sd_algorithms/expand_attractor_seeds.py", min_tape=True, nfvs_tape=True,
         args=[("size_limit", "optnat")],
         locs={"root": "nat", "seen": "natset", "stack": "stack", "node": "nat", "successors": "optnatlist", "expanded_children": "natlist",
               "expanded_motifs": "spacelist", "s": "nat", "successor_space": "space", "successor_bn": "netobj", "successor_nfvs": "natlist",
               "successor_pn": "pnobj", "successor_graph": "graphobj", "avoid_or_none": "optspacelist", "avoid": "spacelist",
               "avoid_restricted": "spacelist", "y": "space", "retained_set": "retained", "successor_seeds": "statelist", "tape_": "nfvstape"},
         loopvars={"x": "space"}, fuels=["fuel", "(S (match successors with Some l_ => length l_ | None => 0 end))"]),
    dict(name="attach_scc_subdiagram", path="biobalm/_sd_algorithms/expand_source_SCCs.py", scc=True, no_wrapper=True,
         args=[("scc_sd", "sdobj"), ("attach_at", "nat"), ("check_maa", "bool")], ret="natlist_qtape",
         locs={"node_id_map": "idmap", "attach_at_space": "space", "min_traps": "natlist", "scc_node_space": "space", "extended_node_space": "space",
               "main_node_id": "nat", "main_succ_id": "nat", "inner_stable_motif": "space", "tape_": "qtape"},
         loopvars={"scc_node_id": "nat", "scc_node_succ": "nat"}, alias=["main_data", "attach_data"], fuels=[]),
    dict(name="expand_source_SCCs", path="biobalm/_sd_algorithms/expand_source_SCCs.py", sccmain=True, scc=True, no_wrapper=True,
         args=[("check_maa", "bool"), ("recursion", "nat"), ("expander", "expanderopt")], ret="bool_qtape",
         defaults={"recursion": 0, "expander": None},
         locs={"root": "nat", "current_level": "natset", "next_level": "natset", "node_space": "space", "perc_bn": "netobj", "sources": "natlist",
               "bin_values_iter": "bitlistlist", "valuation": "space", "sub_space": "space", "source_scc_diagrams": "complist",
               "attach_at_list": "natlist", "next_attach_at_list": "natlist", "fully_expanded": "bool", "tape_": "qtape", "sub_": "sdobj"},
         loopvars={"bin_values": "bitlist", "node_id": "nat", "scc_diagram": "comp", "attach_at": "nat"}, alias=[], fuels=["(S fuel_)"]),
]

class Fn:
    def __init__(self, spec):
        self.spec = spec
        self.env = dict(spec["args"]); self.env.update(spec["locs"]); self.env.update(spec["loopvars"])
        self.locs = spec["locs"]
        self.state = []
        self.fuels = list(spec["fuels"])
        self.alias = {}; self.alias_n = 0; self.pn_of = {}; self.nested = {}; self.obj_of = {}
        self.ret = spec.get("ret", "bool")

    # ---------- expressions: (term, may_raise, type); with may_raise the term has type option T ----------
    def lift(self, t, r):
        return t if r else f"(Some {t})"

    def map1(self, te, f, ty):
        t, r, _ = te
        return (f"(omap (fun a_ => {f('a_')}) {t})", True, ty) if r else (f(t), False, ty)

    def map2(self, a, b, f, ty):
        (ta, ra, _), (tb, rb, _) = a, b
        if not ra and not rb: return (f(ta, tb), False, ty)
        if ra and not rb: return (f"(omap (fun a_ => {f('a_', tb)}) {ta})", True, ty)
        if rb and not ra: return (f"(omap (fun b_ => {f(ta, 'b_')}) {tb})", True, ty)
        return (f"(obind {ta} (fun a_ => obind {tb} (fun b_ => Some {f('a_', 'b_')})))", True, ty)

    def as_nat(self, te, node):
        """use as a number: an `int | None` value raises TypeError when it is None"""
        t, r, ty = te
        if ty == "nat": return te
        if ty == "optnat":
            if r: fail(node, "nested raising optional")
            return (t, True, "nat")
        fail(node, "not a number")

    def as_list(self, te, node):
        t, r, ty = te
        if ty in ("natlist", "natset"): return (t, r, "natlist")
        if ty == "optnatlist":
            if r: fail(node, "nested raising optional")
            return (t, True, "natlist")          # len(None), None[-1] raise
        fail(node, "not a list")

    def is_sd(self, e):
        return isinstance(e, ast.Name) and e.id == "sd"

    def node_data_field(self, e):
        """sd.node_data(X)["field"]  or  alias["field"]"""
        if isinstance(e, ast.Subscript) and isinstance(e.slice, ast.Constant) and isinstance(e.slice.value, str) \
                and isinstance(e.value, ast.Name) and e.value.id in self.alias:
            return e.slice.value, ast.Name(id=self.alias[e.value.id], ctx=ast.Load())
        if isinstance(e, ast.Subscript) and isinstance(e.slice, ast.Constant) and isinstance(e.slice.value, str) \
                and isinstance(e.value, ast.Call) and isinstance(e.value.func, ast.Attribute) and e.value.func.attr == "node_data" \
                and self.is_sd(e.value.func.value) and len(e.value.args) == 1 and not e.value.keywords:
            return e.slice.value, e.value.args[0]
        return None

    def expr(self, e, want=None):
        if self.spec.get("sccmain"):
            if isinstance(e, ast.Call) and isinstance(e.func, ast.Name) and e.func.id == "source_nodes" and len(e.args) == 1 and isinstance(e.args[0], ast.Name) \
                    and self.env.get(e.args[0].id) == "netobj" and e.args[0].id in self.obj_of and not e.keywords:
                return (f"(sources_in_b N {self.obj_of[e.args[0].id]})", False, "natlist")        # source_nodes(percolate_network(network, space))
            if isinstance(e, ast.Call) and isinstance(e.func, ast.Name) and e.func.id == "percolate_network" and len(e.args) == 2 and not e.keywords \
                    and isinstance(e.args[0], ast.Attribute) and e.args[0].attr == "network" and self.is_sd(e.args[0].value):
                a = self.expr(e.args[1])
                if a[2] != "space" or a[1]: fail(e, "percolate_network space")
                self.last_obj_node = a[0]                                        # here: the SPACE the network was percolated to
                return ("Datatypes.tt", False, "netobj")
            if isinstance(e, ast.BinOp) and isinstance(e.op, ast.Pow) and isinstance(e.left, ast.Constant) and e.left.value == 2:
                a = self.expr(e.right)
                if a[2] != "nat" or a[1]: fail(e, "power")
                return (f"(Nat.pow 2 {a[0]})", False, "nat")
            if isinstance(e, ast.Subscript) and isinstance(e.slice, ast.Constant) and e.slice.value == "max_motifs_per_node" and isinstance(e.value, ast.Attribute) \
                    and e.value.attr == "config" and self.is_sd(e.value.value):
                return ("(max_motifs cfg)", False, "nat")
            if isinstance(e, ast.Call) and isinstance(e.func, ast.Attribute) and e.func.attr == "product" and isinstance(e.func.value, ast.Name) and e.func.value.id == "it" \
                    and len(e.args) == 1 and ast.dump(e.args[0]) == "Call(func=Name(id='range', ctx=Load()), args=[Constant(value=2)], keywords=[])" \
                    and len(e.keywords) == 1 and e.keywords[0].arg == "repeat":
                k = self.expr(e.keywords[0].value)
                if k[2] != "nat" or k[1]: fail(e, "product repeat")
                return (f"(bit_vectors {k[0]})", False, "bitlistlist")
            if isinstance(e, ast.Call) and isinstance(e.func, ast.Name) and e.func.id == "cast" and len(e.args) == 2 and not e.keywords:
                return self.expr(e.args[1], want)
            if isinstance(e, ast.Call) and isinstance(e.func, ast.Name) and e.func.id == "dict" and len(e.args) == 1 and not e.keywords \
                    and isinstance(e.args[0], ast.Call) and isinstance(e.args[0].func, ast.Name) and e.args[0].func.id == "zip" and len(e.args[0].args) == 2:
                a, b = self.expr(e.args[0].args[0]), self.expr(e.args[0].args[1])
                if a[2] != "natlist" or b[2] != "bitlist" or a[1] or b[1]: fail(e, "dict(zip(..))")
                return (f"(assign (nvars N) (combine {a[0]} {b[0]}))", False, "space")
            if isinstance(e, ast.Call) and isinstance(e.func, ast.Name) and e.func.id == "list" and len(e.args) == 1 and not e.keywords \
                    and isinstance(e.args[0], ast.Call) and isinstance(e.args[0].func, ast.Attribute) and e.args[0].func.attr == "source_scc_subdiagrams" \
                    and self.is_sd(e.args[0].func.value) and len(e.args[0].args) == 1:
                a = self.expr(e.args[0].args[0])
                if a[2] != "nat" or a[1]: fail(e, "node id")
                self.last_comp_node = a[0]
                return (f"(source_sccs N (n_space (get sd_ {a[0]})))", False, "complist")
            if isinstance(e, ast.Call) and isinstance(e.func, ast.Name) and e.func.id == "len" and len(e.args) == 1 and isinstance(e.args[0], ast.Name) \
                    and self.env.get(e.args[0].id) in ("complist", "natset") and not e.keywords:
                return (f"(length {e.args[0].id})", False, "nat")
            if isinstance(e, ast.Call) and isinstance(e.func, ast.Name) and e.func.id == "sorted" and len(e.args) == 1 and not e.keywords:
                a = self.expr(e.args[0])
                if a[2] == "natset" and not a[1]: return (f"(sort_nat {a[0]})", False, "natlist")
            if isinstance(e, ast.Compare) and len(e.ops) == 1 and isinstance(e.ops[0], ast.Eq) and isinstance(e.comparators[0], ast.List) and len(e.comparators[0].elts) == 1:
                a, b = self.expr(e.left), self.expr(e.comparators[0].elts[0])
                if a[2] == "natlist" and b[2] == "nat" and not a[1] and not b[1]:
                    return (f"(match {a[0]} with [y_] => Nat.eqb y_ {b[0]} | _ => false end)", False, "bool")
            if isinstance(e, ast.BinOp) and isinstance(e.op, ast.BitOr) and isinstance(e.right, ast.Call) and isinstance(e.right.func, ast.Name) and e.right.func.id == "set" \
                    and len(e.right.args) == 1:
                a, b = self.expr(e.left), self.expr(e.right.args[0])
                if a[2] == "natset" and b[2] == "natlist" and not a[1] and not b[1]:
                    return (f"(union_nat {a[0]} {b[0]})", False, "natset")
        if self.spec.get("scc"):
            if isinstance(e, ast.Subscript) and isinstance(e.slice, ast.Constant) and e.slice.value == "space" and isinstance(e.value, ast.Call) \
                    and isinstance(e.value.func, ast.Attribute) and e.value.func.attr == "node_data" and isinstance(e.value.func.value, ast.Name) \
                    and e.value.func.value.id == "scc_sd" and len(e.value.args) == 1:
                a = self.expr(e.value.args[0])
                if a[2] != "nat" or a[1]: fail(e, "node id")
                return (f"(only_on B (n_space (get scc_sd {a[0]})))", False, "space")
            if isinstance(e, ast.Subscript) and isinstance(e.value, ast.Name) and self.env.get(e.value.id) == "idmap" and isinstance(e.ctx, ast.Load):
                k = self.expr(e.slice)
                if k[2] != "nat" or k[1]: fail(e, "map key")
                return (f"(idmap_get {e.value.id} {k[0]})", True, "nat")              # KeyError
            if isinstance(e, ast.Dict) and len(e.keys) == 1 and want == "idmap":
                k, v = self.expr(e.keys[0]), self.expr(e.values[0])
                if k[2] != "nat" or v[2] != "nat" or k[1] or v[1]: fail(e, "map literal")
                return (f"[({k[0]}, {v[0]})]", False, "idmap")
            if isinstance(e, ast.Compare) and len(e.ops) == 1 and isinstance(e.ops[0], ast.NotEq):
                a, b = self.expr(e.left), self.expr(e.comparators[0])
                if a[2] == "nat" and b[2] == "nat":
                    return self.map2(a, b, lambda x, y: f"(negb (Nat.eqb {x} {y}))", "bool")
            if isinstance(e, ast.Call) and isinstance(e.func, ast.Name) and e.func.id == "len" and len(e.args) == 1 and isinstance(e.args[0], ast.Name) and not e.keywords:
                if e.args[0].id == "scc_sd": return ("(size scc_sd)", False, "nat")
                if self.env.get(e.args[0].id) == "idmap": return (f"(length {e.args[0].id})", False, "nat")
            if isinstance(e, ast.Subscript) and isinstance(e.slice, ast.Constant) and e.slice.value == "skipped" and isinstance(e.value, ast.Name) and e.value.id in self.alias:
                return (f"(n_skip (get sd_ {self.alias[e.value.id]}))", False, "bool")    # None / False / True read as a truth value
        if isinstance(e, ast.Name):
            if e.id.endswith("_") and e.id in self.alias.values(): return (e.id, False, "nat")       # captured id of an alias
            if e.id not in self.env: fail(e, "unknown name")
            return (e.id, False, self.env[e.id])
        if isinstance(e, ast.Constant):
            v = e.value
            if v is None:
                if want in ("optnat", "optnatlist", "optspace"): return ("None", False, want)
                return ("None", False, "none")
            if v is True: return ("true", False, "bool")
            if v is False: return ("false", False, "bool")
            if isinstance(v, int) and v >= 0: return (str(v), False, "nat")
            fail(e, "constant")
        nd = self.node_data_field(e)
        if nd:
            field, arg = nd
            a = self.expr(arg)
            if a[2] != "nat": fail(e, "node id type")
            if field == "space": return self.map1(a, lambda x: f"(n_space (get sd_ {x}))", "space")
            if field == "expanded": return self.map1(a, lambda x: f"(n_exp (get sd_ {x}))", "bool")
            fail(e, "node_data field")
        if isinstance(e, ast.Subscript):
            if isinstance(e.slice, ast.UnaryOp) and isinstance(e.slice.op, ast.USub) and isinstance(e.slice.operand, ast.Constant) \
                    and e.slice.operand.value == 1 and isinstance(e.ctx, ast.Load):
                l = self.as_list(self.expr(e.value), e)
                return (f"(obind {self.lift(l[0], l[1])} l_last)", True, "nat")        # IndexError when empty
            fail(e, "subscript")
        if isinstance(e, ast.UnaryOp) and isinstance(e.op, ast.Not):
            a = self.expr(e.operand)
            if a[2] != "bool": fail(e, "not on a non-bool")
            return self.map1(a, lambda x: f"(negb {x})", "bool")
        if isinstance(e, ast.BoolOp):
            vals = [self.expr(v) for v in e.values]
            if any(v[2] != "bool" for v in vals): fail(e, "and/or on non-bool values")
            acc = vals[-1]
            for v in reversed(vals[:-1]):                                   # short circuit, right nested
                if isinstance(e.op, ast.And):
                    if not v[1] and not acc[1]: acc = (f"({v[0]} && {acc[0]})", False, "bool")
                    elif not v[1]: acc = (f"(if {v[0]} then {self.lift(acc[0], acc[1])} else Some false)", True, "bool")
                    else: acc = (f"(obind {v[0]} (fun a_ => if a_ then {self.lift(acc[0], acc[1])} else Some false))", True, "bool")
                elif isinstance(e.op, ast.Or):
                    if not v[1] and not acc[1]: acc = (f"({v[0]} || {acc[0]})", False, "bool")
                    elif not v[1]: acc = (f"(if {v[0]} then Some true else {self.lift(acc[0], acc[1])})", True, "bool")
                    else: acc = (f"(obind {v[0]} (fun a_ => if a_ then Some true else {self.lift(acc[0], acc[1])}))", True, "bool")
                else: fail(e, "boolop")
            return acc
        if isinstance(e, ast.Compare):
            if len(e.ops) != 1: fail(e, "chained comparison")
            op, l, r = e.ops[0], e.left, e.comparators[0]
            if isinstance(op, (ast.Is, ast.IsNot)):
                if not (isinstance(r, ast.Constant) and r.value is None): fail(e, "is")
                a = self.expr(l)
                if a[2] not in ("optnat", "optnatlist", "optspace"): fail(e, "`is None` on a value that is never None")
                res = self.map1(a, lambda x: f"(match {x} with None => true | Some _ => false end)", "bool")
                return res if isinstance(op, ast.Is) else self.map1(res, lambda x: f"(negb {x})", "bool")
            if isinstance(op, (ast.In, ast.NotIn)):
                a, b = self.expr(l), self.expr(r)
                if a[2] != "nat" or b[2] != "natset": fail(e, "in")
                res = self.map2(a, b, lambda x, y: f"(mem_nat {x} {y})", "bool")
                return res if isinstance(op, ast.In) else self.map1(res, lambda x: f"(negb {x})", "bool")
            a, b = self.expr(l), self.expr(r)
            if isinstance(op, (ast.Eq, ast.NotEq)) and a[2] == "space" and b[2] == "space":
                res = self.map2(a, b, lambda x, y: f"(eqb_space {x} {y})", "bool")
                return res if isinstance(op, ast.Eq) else self.map1(res, lambda x: f"(negb {x})", "bool")
            fn = {ast.GtE: lambda x, y: f"(Nat.leb {y} {x})", ast.Gt: lambda x, y: f"(Nat.ltb {y} {x})",
                  ast.LtE: lambda x, y: f"(Nat.leb {x} {y})", ast.Lt: lambda x, y: f"(Nat.ltb {x} {y})",
                  ast.Eq: lambda x, y: f"(Nat.eqb {x} {y})"}.get(type(op))
            if fn is None: fail(e, "comparison")
            if isinstance(op, ast.Eq) and (a[2] != "nat" or b[2] != "nat"): fail(e, "== only on ints and spaces")
            return self.map2(self.as_nat(a, e), self.as_nat(b, e), fn, "bool")
        if isinstance(e, ast.BinOp) and isinstance(e.op, ast.Add):
            return self.map2(self.as_nat(self.expr(e.left), e), self.as_nat(self.expr(e.right), e), lambda x, y: f"({x} + {y})", "nat")
        if isinstance(e, ast.Tuple) and len(e.elts) == 2:
            a, b = self.expr(e.elts[0]), self.expr(e.elts[1], want="optnatlist")
            if a[2] != "nat" or b[2] != "optnatlist" or a[1] or b[1]: fail(e, "tuple")
            return (f"({a[0]}, {b[0]})", False, "stackitem")
        if isinstance(e, ast.List):
            if not e.elts:
                if want not in ("natlist", "stack", "natset", "spacelist"): fail(e, "empty list of unknown type")
                return (DFLT[want], False, want)
            if len(e.elts) != 1: fail(e, "list literal")
            a = self.expr(e.elts[0])
            if a[1]: fail(e, "raising list element")
            if a[2] == "nat": return (f"[{a[0]}]", False, "natlist")
            if a[2] == "stackitem": return (f"[{a[0]}]", False, "stack")
            fail(e, "list element type")
        if isinstance(e, ast.Call):
            f = e.func
            if isinstance(f, ast.Attribute) and self.is_sd(f.value) and f.attr == "root" and not e.args and not e.keywords:
                return ("0", False, "nat")
            if isinstance(f, ast.Name) and f.id == "len" and len(e.args) == 1 and not e.keywords:
                if self.is_sd(e.args[0]): return ("(size sd_)", False, "nat")
                a = self.expr(e.args[0])
                if a[2] in ("stack", "spacelist", "statelist"): return self.map1(a, lambda x: f"(length {x})", "nat")
                return self.map1(self.as_list(a, e), lambda x: f"(length {x})", "nat")
            if isinstance(f, ast.Name) and f.id == "set" and not e.keywords:
                if not e.args: return ("(@nil nat)", False, "natset")
                if len(e.args) == 1 and isinstance(e.args[0], ast.List) and len(e.args[0].elts) == 1:
                    a = self.expr(e.args[0].elts[0])
                    if a[2] != "nat" or a[1]: fail(e, "set literal")
                    return (f"(set_add {a[0]} [])", False, "natset")
                fail(e, "set(...)")
            if isinstance(f, ast.Name) and f.id == "sorted" and len(e.args) == 1:
                rev = False
                if e.keywords:
                    kw = e.keywords
                    if len(kw) != 1 or kw[0].arg != "reverse" or not (isinstance(kw[0].value, ast.Constant) and kw[0].value.value is True):
                        fail(e, "sorted keywords")
                    rev = True
                a = self.as_list(self.expr(e.args[0]), e)
                return self.map1(a, (lambda x: f"(rev (sort_nat {x}))") if rev else (lambda x: f"(sort_nat {x})"), "natlist")
            if isinstance(f, ast.Name) and f.id in ("intersect", "is_subspace") and len(e.args) == 2 and not e.keywords:
                a, b = self.expr(e.args[0]), self.expr(e.args[1])
                if a[2] != "space" or b[2] != "space": fail(e, "space arguments")
                if f.id == "intersect": return self.map2(a, b, lambda x, y: f"(intersect {x} {y})", "optspace")
                return self.map2(a, b, lambda x, y: f"(subspace {x} {y})", "bool")
            if self.spec.get("scc") and isinstance(f, ast.Attribute) and isinstance(f.value, ast.Name) and f.value.id == "scc_sd" and not e.keywords:
                # reads of the (fully built) sub-diagram; its spaces are dicts over the component's variables B only
                if f.attr == "root" and not e.args: return ("0", False, "nat")
                if f.attr == "node_ids" and not e.args: return ("(seq 0 (size scc_sd))", False, "natlist")
                if f.attr == "node_is_minimal" and len(e.args) == 1:
                    a = self.expr(e.args[0])
                    if a[2] != "nat" or a[1]: fail(e, "node id")
                    return (f"(is_minimal scc_sd {a[0]})", False, "bool")
                if f.attr == "node_successors" and len(e.args) == 1:
                    a = self.expr(e.args[0])
                    if a[2] != "nat" or a[1]: fail(e, "node id")
                    return (f"(if n_exp (get scc_sd {a[0]}) then Some (Diagram.successors scc_sd {a[0]}) else None)", True, "natlist")
                if f.attr == "edge_stable_motif" and len(e.args) == 2:
                    a, b = self.expr(e.args[0]), self.expr(e.args[1])
                    if a[2] != "nat" or b[2] != "nat" or a[1] or b[1]: fail(e, "edge ids")
                    return (f"(only_on B (first_motif scc_sd {a[0]} {b[0]}))", False, "space")
            if self.spec.get("scc") and isinstance(f, ast.Name) and f.id == "len" and len(e.args) == 1 and isinstance(e.args[0], ast.Name) and e.args[0].id == "scc_sd":
                return ("(size scc_sd)", False, "nat")
            if self.spec.get("scc") and isinstance(f, ast.Name) and f.id == "len" and len(e.args) == 1 and isinstance(e.args[0], ast.Name) \
                    and self.env.get(e.args[0].id) == "idmap":
                return (f"(length {e.args[0].id})", False, "nat")
            if isinstance(f, ast.Attribute) and self.is_sd(f.value) and f.attr == "node_successors" and len(e.args) == 1 and not e.keywords:
                a = self.expr(e.args[0])                                        # without compute: KeyError on an unexpanded node
                if a[2] != "nat" or a[1]: fail(e, "node id")
                return (f"(if n_exp (get sd_ {a[0]}) then Some (Diagram.successors sd_ {a[0]}) else None)", True, "natlist")
            if isinstance(f, ast.Attribute) and self.is_sd(f.value) and f.attr == "edge_stable_motif" and len(e.args) == 2 and not e.keywords:
                a, b = self.expr(e.args[0]), self.expr(e.args[1])
                if a[2] != "nat" or b[2] != "nat" or a[1] or b[1]: fail(e, "edge ids")
                return (f"(first_motif sd_ {a[0]} {b[0]})", False, "space")
            if isinstance(f, ast.Attribute) and self.is_sd(f.value) and f.attr == "node_percolated_network" and len(e.args) == 1 \
                    and len(e.keywords) == 1 and e.keywords[0].arg == "compute" and isinstance(e.keywords[0].value, ast.Constant) and e.keywords[0].value.value is True:
                a = self.expr(e.args[0])
                if a[2] != "nat" or a[1]: fail(e, "node id")
                self.last_obj_node = a[0]
                return ("Datatypes.tt", False, "netobj")
            if isinstance(f, ast.Name) and f.id == "AsynchronousGraph" and len(e.args) == 1 and not e.keywords and isinstance(e.args[0], ast.Name) \
                    and self.env.get(e.args[0].id) == "netobj" and e.args[0].id in self.obj_of:
                self.last_obj_node = self.obj_of[e.args[0].id]
                return ("Datatypes.tt", False, "graphobj")
            if isinstance(f, ast.Name) and f.id == "make_heuristic_retained_set" and len(e.args) == 3 and not e.keywords:
                g, nf, av = e.args
                if not (isinstance(g, ast.Name) and self.env.get(g.id) == "graphobj" and g.id in self.obj_of): fail(e, "graph argument")
                nf, av = self.expr(nf), self.expr(av)
                if nf[2] != "natlist" or av[2] != "spacelist" or nf[1] or av[1]: fail(e, "retained-set arguments")
                return (f"(heuristic_retained N (n_space (get sd_ {self.obj_of[g.id]})) {nf[0]} {av[0]})", False, "retained")
            if isinstance(f, ast.Name) and f.id == "compute_fixed_point_reduced_STG" and len(e.args) == 2:
                kw = {k.arg: k.value for k in e.keywords}
                pn, rs = e.args
                if set(kw) != {"avoid_subspaces", "solution_limit"} or not (isinstance(kw["solution_limit"], ast.Constant) and kw["solution_limit"].value == 1):
                    fail(e, "compute_fixed_point_reduced_STG keywords")
                if not (isinstance(pn, ast.Name) and self.env.get(pn.id) == "pnobj" and pn.id in self.pn_of): fail(e, "petri net argument")
                rs, av = self.expr(rs), self.expr(kw["avoid_subspaces"])
                if rs[2] != "retained" or av[2] != "spacelist" or rs[1] or av[1]: fail(e, "reduced-STG arguments")
                # fixed points of the reduced STG of the node's percolated net (engine contract: Brute.reduced_fixed_b), at most one
                return (f"(firstn 1 (reduced_fixed_b N (ret_space (nvars N) {rs[0]}) (n_space (get sd_ {self.pn_of[pn.id]})) {av[0]}))", False, "statelist")
            if isinstance(f, ast.Attribute) and self.is_sd(f.value) and f.attr == "node_is_minimal" and len(e.args) == 1 and not e.keywords:
                a = self.expr(e.args[0])
                if a[2] != "nat": fail(e, "node id type")
                return self.map1(a, lambda x: f"(is_minimal sd_ {x})", "bool")
            if isinstance(f, ast.Attribute) and self.is_sd(f.value) and f.attr == "node_percolated_petri_net" and len(e.args) == 1 \
                    and len(e.keywords) == 1 and e.keywords[0].arg == "compute" and isinstance(e.keywords[0].value, ast.Constant) and e.keywords[0].value.value is True:
                a = self.expr(e.args[0])
                if a[2] != "nat" or a[1]: fail(e, "node id")
                self.last_pn_node = a[0]
                return ("Datatypes.tt", False, "pnobj")                      # the caching side effect is not modelled (PyLibSd2.v)
            if isinstance(f, ast.Name) and f.id == "trappist" and not e.args:
                kw = {k.arg: k.value for k in e.keywords}
                if not self.spec.get("tape") or set(kw) != {"network", "problem", "ensure_subspace"} or not (isinstance(kw["problem"], ast.Constant) and kw["problem"].value == "min"):
                    fail(e, "trappist call")
                net, sp = kw["network"], self.expr(kw["ensure_subspace"])
                if not (isinstance(net, ast.Name) and self.env.get(net.id) == "pnobj" and net.id in self.pn_of) or sp[2] != "space" or sp[1]: fail(e, "trappist arguments")
                # minimal trap spaces of the node's percolated net inside its space, in the solver's order = the tape
                return (f"(trappist_min_sd N (n_space (get sd_ {self.pn_of[net.id]})) {sp[0]} tape)", False, "spacelist")
            if isinstance(f, ast.Attribute) and f.attr == "copy" and isinstance(f.value, ast.Name) and f.value.id == "copy" and len(e.args) == 1 and not e.keywords:
                a = self.expr(e.args[0])
                if a[2] != "spacelist": fail(e, "copy.copy")
                return a                                                       # immutable values: a copy is the value
        if isinstance(e, ast.ListComp) and len(e.generators) == 1 and isinstance(e.generators[0].target, ast.Name) and not e.generators[0].is_async:
            g = e.generators[0]
            it = self.expr(g.iter)
            elem_ty = {"spacelist": "space", "natlist": "nat", "optspacelist": "optspace"}.get(it[2])
            if elem_ty is None or len(g.ifs) > 1: fail(e, "comprehension")
            v = g.target.id
            saved = self.env.get(v)
            self.env[v] = elem_ty
            try:
                elt = self.expr(e.elt)
                cond = self.expr(g.ifs[0]) if g.ifs else None
            finally:
                if saved is None: del self.env[v]
                else: self.env[v] = saved
            if elt[1] or (cond is not None and (cond[2] != "bool" or cond[1])): fail(e, "comprehension body")
            identity = isinstance(e.elt, ast.Name) and e.elt.id == v
            # [x for x in l if x is not None] on a list of optional spaces
            if identity and elem_ty == "optspace" and cond is not None and isinstance(g.ifs[0], ast.Compare) and isinstance(g.ifs[0].ops[0], ast.IsNot) \
                    and isinstance(g.ifs[0].left, ast.Name) and g.ifs[0].left.id == v:
                return self.map1(it, lambda l: f"(flat_map (fun o_ => match o_ with Some x_ => [x_] | None => [] end) {l})", "spacelist")
            if elem_ty == "optspace": fail(e, "comprehension over optional spaces")
            out_ty = {"space": "spacelist", "nat": "natlist", "optspace": "optspacelist"}.get(elt[2])
            if out_ty is None: fail(e, "comprehension element type")
            def build(l):
                src = f"(filter (fun {v} => {cond[0]}) {l})" if cond is not None else l
                return src if identity else f"(map (fun {v} => {elt[0]}) {src})"
            return self.map1(it, build, out_ty)
        # {var: val for (var, val) in x.items() if var not in sp}: the part of x outside sp
        if isinstance(e, ast.DictComp) and len(e.generators) == 1:
            g = e.generators[0]
            ok = isinstance(g.target, ast.Tuple) and len(g.target.elts) == 2 and all(isinstance(t, ast.Name) for t in g.target.elts) \
                and isinstance(e.key, ast.Name) and isinstance(e.value, ast.Name) and [e.key.id, e.value.id] == [t.id for t in g.target.elts] \
                and isinstance(g.iter, ast.Call) and isinstance(g.iter.func, ast.Attribute) and g.iter.func.attr == "items" and not g.iter.args \
                and isinstance(g.iter.func.value, ast.Name) and len(g.ifs) == 1 and isinstance(g.ifs[0], ast.Compare) and len(g.ifs[0].ops) == 1 \
                and isinstance(g.ifs[0].ops[0], ast.NotIn) and isinstance(g.ifs[0].left, ast.Name) and g.ifs[0].left.id == e.key.id \
                and isinstance(g.ifs[0].comparators[0], ast.Name)
            if not ok: fail(e, "dict comprehension")
            a, b = self.expr(g.iter.func.value), self.expr(g.ifs[0].comparators[0])
            if a[2] != "space" or b[2] != "space" or a[1] or b[1]: fail(e, "dict comprehension operands")
            return (f"(reduce_by {a[0]} {b[0]})", False, "space")
        if isinstance(e, ast.BinOp) and isinstance(e.op, ast.BitOr):
            a, b = self.expr(e.left), self.expr(e.right)
            if a[2] != "space" or b[2] != "space": fail(e, "| on non-dict values")
            return self.map2(a, b, lambda x, y: f"(space_union {x} {y})", "space")
        fail(e, "unsupported expression")

    def coerce(self, te, ty, node):
        """value of type te[2] stored into a local of type ty"""
        t, r, t0 = te
        if t0 == ty: return (t, r)
        if t0 == "natlist" and ty == "natset": return (t, r)
        if OPT_OF.get(t0) == ty:
            return (f"(omap Some {t})", True) if r else (f"(Some {t})", False)
        if t0 == "none" and ty in ("optnat", "optnatlist", "optspace"): return ("None", False)
        fail(node, f"type of assignment: {t0} into {ty}")

    # ---------- statements ----------
    def st_tuple(self):
        return "tt" if not self.state else ("(" + ", ".join(self.state) + ")" if len(self.state) > 1 else self.state[0])
    def st_ty(self):
        tys = [COQ_TY[self.env[v]] for v in self.state]
        return "unit" if not tys else ("(" + " * ".join(tys) + ")" if len(tys) > 1 else tys[0])
    def st_pat(self):
        return "_" if not self.state else ("'(" + ", ".join(self.state) + ")" if len(self.state) > 1 else self.state[0])
    def flow_ty(self):
        return f"sflow {COQ_TY[self.ret]} {self.st_ty()}"
    def is_debug_block(self, s):
        return isinstance(s, ast.If) and not s.orelse and isinstance(s.test, ast.Subscript) and isinstance(s.test.value, ast.Attribute) \
            and s.test.value.attr == "config" and self.is_sd(s.test.value.value) and isinstance(s.test.slice, ast.Constant) and s.test.slice.value == "debug" \
            and all(isinstance(b, ast.Expr) and isinstance(b.value, ast.Call) and isinstance(b.value.func, ast.Name) and b.value.func.id == "print" for b in s.body)
    def nxt(self):
        return f"SNext sd_ {self.st_tuple()}"

    def guard(self, term, raises, name, k):
        """bind name := term, a Python run-time error (None) ends the function with SBad"""
        if raises:
            return f"(match {term} with Some {name} => {k} | None => SBad sd_ end)"
        return f"(let {name} := {term} in {k})"

    def need_state(self, name, node):
        if name not in self.state: fail(node, f"local {name} is not in the threaded state")

    def is_call(self, v, obj_attr):
        return isinstance(v, ast.Call) and isinstance(v.func, ast.Attribute) and v.func.attr == obj_attr

    def block(self, stmts):
        if not stmts:
            return self.nxt()
        s, rest = stmts[0], stmts[1:]
        if isinstance(s, ast.Expr) and isinstance(s.value, ast.Constant) and isinstance(s.value.value, str):
            return self.block(rest)                                   # docstring
        if self.is_debug_block(s):
            return self.block(rest)                                   # if sd.config["debug"]: print(...)
        if self.spec.get("sccmain"):
            r = self.sccmain_stmt(s, rest)
            if r is not None:
                return r
        if self.spec.get("scc"):
            r = self.scc_stmt(s, rest)
            if r is not None:
                return r
        if isinstance(s, ast.FunctionDef):
            if s.name not in self.nested: fail(s, "nested function that was not translated")
            return self.block(rest)                                   # translated separately (see translate())
        if isinstance(s, ast.Break):
            if "brk_" not in self.state: fail(s, "break outside a loop prepared for it")
            return f"(let brk_ := true in SCont sd_ {self.st_tuple()})"
        if isinstance(s, ast.Return) and s.value is None:
            if self.ret != "unit": fail(s, "bare return")
            return "(SRet sd_ Datatypes.tt)"
        if isinstance(s, ast.Assert):
            t, r, ty = self.expr(s.test)
            if ty != "bool": fail(s, "assert type")
            k = self.block(rest)
            if r: return f"(match {t} with Some c_ => if c_ then {k} else SRaise sd_ (RRaised ErrAssert) | None => SBad sd_ end)"
            return f"(if {t} then {k} else SRaise sd_ (RRaised ErrAssert))"
        if isinstance(s, ast.Return):
            if s.value is None: fail(s, "bare return")
            t, r, ty = self.expr(s.value)
            if ty != self.ret: fail(s, "return type")
            return f"(match {t} with Some r_ => SRet sd_ r_ | None => SBad sd_ end)" if r else f"(SRet sd_ {t})"
        if isinstance(s, ast.Continue):
            return f"(SCont sd_ {self.st_tuple()})"
        # `if X is None: X = E` on an `int | None` parameter: from here on X is an int
        if isinstance(s, ast.If) and not s.orelse and len(s.body) == 1 and isinstance(s.test, ast.Compare) \
                and isinstance(s.test.left, ast.Name) and self.env.get(s.test.left.id) == "optnat" \
                and s.test.left.id in dict(self.spec["args"]) \
                and len(s.test.ops) == 1 and isinstance(s.test.ops[0], ast.Is) \
                and isinstance(s.test.comparators[0], ast.Constant) and s.test.comparators[0].value is None \
                and isinstance(s.body[0], ast.Assign) and len(s.body[0].targets) == 1 \
                and isinstance(s.body[0].targets[0], ast.Name) and s.body[0].targets[0].id == s.test.left.id:
            x = s.test.left.id
            t, r, ty = self.expr(s.body[0].value)
            if ty != "nat" or r: fail(s, "default of an optional parameter")
            self.env[x] = "nat"
            return f"(let {x} := match {x} with None => {t} | Some v_ => v_ end in {self.block(rest)})"
        if isinstance(s, (ast.Assign, ast.AnnAssign, ast.AugAssign)):
            if isinstance(s, ast.Assign):
                if len(s.targets) != 1: fail(s, "multiple targets")
                tgt, val = s.targets[0], s.value
            else:
                tgt, val = s.target, s.value
            if val is None: fail(s, "declaration without value")
            # (a, b) = stack.pop()
            if isinstance(tgt, ast.Tuple):
                if not (len(tgt.elts) == 2 and all(isinstance(x, ast.Name) for x in tgt.elts) and self.is_call(val, "pop")
                        and not val.args and isinstance(val.func.value, ast.Name) and self.env.get(val.func.value.id) == "stack"):
                    fail(s, "tuple assignment")
                a, b, st = tgt.elts[0].id, tgt.elts[1].id, val.func.value.id
                if self.env.get(a) != "nat" or self.env.get(b) != "optnatlist": fail(s, "tuple assignment types")
                for n in (a, b, st): self.need_state(n, s)
                return f"(match stack_pop {st} with Some (({a}, {b}), {st}) => {self.block(rest)} | None => SBad sd_ end)"
            # alias["field"] = value
            if isinstance(tgt, ast.Subscript) and isinstance(tgt.value, ast.Name) and tgt.value.id in self.alias \
                    and isinstance(tgt.slice, ast.Constant) and isinstance(tgt.slice.value, str):
                nid, f = self.alias[tgt.value.id], tgt.slice.value
                isc = lambda v, c: isinstance(v, ast.Constant) and v.value is c
                if f in ("attractor_seeds", "attractor_candidates", "attractor_sets") and isc(val, None):
                    setter = {"attractor_seeds": "set_seeds", "attractor_candidates": "set_cands", "attractor_sets": "set_sets"}[f]
                    return f"(let sd_ := upd_node sd_ {nid} (fun y_ => {setter} y_ None) in {self.block(rest)})"
                if f in ("expanded", "skipped") and (isc(val, True) or isc(val, False)):
                    setter = {"expanded": "set_exp", "skipped": "set_skip"}[f]
                    return f"(let sd_ := upd_node sd_ {nid} (fun y_ => {setter} y_ {'true' if val.value else 'false'}) in {self.block(rest)})"
                fail(s, "node field assignment")
            if not isinstance(tgt, ast.Name): fail(s, "assignment target")
            name = tgt.id
            # node = sd.node_data(i): an alias of node i, captured now
            if name in self.spec.get("alias", []):
                ok = isinstance(val, ast.Call) and isinstance(val.func, ast.Attribute) and val.func.attr == "node_data" and self.is_sd(val.func.value) \
                    and len(val.args) == 1 and not val.keywords
                if not ok or name in self.alias: fail(s, "alias")
                a = self.expr(val.args[0])
                if a[2] != "nat" or a[1]: fail(s, "alias id")
                self.alias_n += 1
                v = f"{name}_id{self.alias_n}_"
                self.alias[name] = v
                return f"(let {v} := {a[0]} in {self.block(rest)})"
            if name not in self.locs: fail(s, "assignment to an undeclared local")
            self.need_state(name, s)
            lty = self.locs[name]
            if isinstance(s, ast.AugAssign):
                if not isinstance(s.op, ast.Add) or lty != "nat": fail(s, "augmented assignment")
                t, r, _ = self.as_nat(self.expr(val), s)
                return self.guard(f"(omap (fun b_ => {name} + b_) {t})" if r else f"({name} + {t})", r, name, self.block(rest))
            # X = sd.node_percolated_nfvs(i, compute=True): the next entry of the NFVS tape
            if self.is_call(val, "node_percolated_nfvs") and self.is_sd(val.func.value) and len(val.args) == 1 and len(val.keywords) == 1 \
                    and val.keywords[0].arg == "compute" and isinstance(val.keywords[0].value, ast.Constant) and val.keywords[0].value.value is True:
                if not self.spec.get("nfvs_tape") or lty != "natlist": fail(s, "nfvs call")
                self.need_state("tape_", s)
                return f"(let {name} := hd [] tape_ in let tape_ := tl tape_ in {self.block(rest)})"
            # X = sd._ensure_node(p, m)
            if self.is_call(val, "_ensure_node") and self.is_sd(val.func.value) and len(val.args) == 2 and not val.keywords:
                a, b = self.expr(val.args[0]), self.expr(val.args[1])
                if a[2] != "nat" or b[2] != "space" or a[1] or b[1] or lty != "nat": fail(s, "_ensure_node arguments")
                return f"(let '(d1_, c_) := ensure_node N sd_ (Some {a[0]}) {b[0]} in let sd_ := d1_ in let {name} := c_ in {self.block(rest)})"
            # X = sd.node_successors(node, compute=True)
            if self.is_call(val, "node_successors") and self.is_sd(val.func.value) and val.keywords:
                kw = val.keywords
                if len(val.args) != 1 or len(kw) != 1 or kw[0].arg != "compute" or not (isinstance(kw[0].value, ast.Constant) and kw[0].value.value is True):
                    fail(s, "node_successors arguments")
                a = self.expr(val.args[0])
                if a[2] != "nat": fail(s, "node id type")
                stored, _ = self.coerce(("v_", False, "natlist"), lty, s)
                body = (f"(let '(d1_, r_, v_) := node_successors N cfg sd_ n_ in match r_ with RUnit => let sd_ := d1_ in "
                        f"let {name} := {stored} in {self.block(rest)} | _ => SRaise d1_ r_ end)")
                return self.guard(a[0], a[1], "n_", body)
            # X = L.pop()
            if self.is_call(val, "pop") and not val.args and isinstance(val.func.value, ast.Name):
                lst = val.func.value.id
                self.need_state(lst, s)
                if lty != "nat": fail(s, "pop target type")
                l = self.as_list(self.expr(val.func.value), s)
                store, _ = self.coerce(("l_", False, "natlist"), self.env[lst], s)
                return f"(match obind {self.lift(l[0], l[1])} l_pop with Some ({name}, l_) => let {lst} := {store} in {self.block(rest)} | None => SBad sd_ end)"
            te = self.expr(val, want=lty)
            if lty in ("netobj", "graphobj"):
                if te[2] != lty: fail(s, "opaque object local")
                self.obj_of[name] = self.last_obj_node
            if lty == "pnobj":
                if te[2] != "pnobj": fail(s, "percolated net local")
                self.pn_of[name] = self.last_pn_node
            t, r = self.coerce(te, lty, s)
            return self.guard(t, r, name, self.block(rest))
        if isinstance(s, ast.Expr) and isinstance(s.value, ast.Call) and isinstance(s.value.func, ast.Attribute) \
                and isinstance(s.value.func.value, ast.Name) and not s.value.keywords:
            c = s.value
            obj, meth = c.func.value.id, c.func.attr
            if meth == "remove" and self.env.get(obj) == "spacelist" and len(c.args) == 1:
                self.need_state(obj, s)
                a = self.expr(c.args[0])
                if a[2] != "space": fail(s, "remove argument")
                k = f"(match remove_space x_ {obj} with Some {obj} => {self.block(rest)} | None => SRaise sd_ (RRaised ErrAssert) end)"   # ValueError
                return self.guard(a[0], a[1], "x_", k)
            oty = self.env.get(obj)
            if obj not in self.locs: fail(s, "method call on a non-local")
            self.need_state(obj, s)
            if meth == "add" and oty == "natset" and len(c.args) == 1:
                a = self.expr(c.args[0])
                if a[2] != "nat": fail(s, "set element type")
                return self.guard(f"(omap (fun a_ => set_add a_ {obj}) {a[0]})" if a[1] else f"(set_add {a[0]} {obj})", a[1], obj, self.block(rest))
            if meth == "append" and oty == "spacelist" and len(c.args) == 1:
                a = self.expr(c.args[0])
                if a[2] != "space" or a[1]: fail(s, "append element type")
                return self.guard(f"({obj} ++ [{a[0]}])", False, obj, self.block(rest))
            if meth == "append" and oty in ("natlist", "stack") and len(c.args) == 1:
                a = self.expr(c.args[0])
                if a[2] != {"natlist": "nat", "stack": "stackitem"}[oty] or a[1]: fail(s, "append element type")
                return self.guard(f"({obj} ++ [{a[0]}])", False, obj, self.block(rest))
            if meth == "pop" and not c.args and oty in ("natlist", "optnatlist"):
                l = self.as_list(self.expr(c.func.value), s)
                store, _ = self.coerce(("l_", False, "natlist"), oty, s)
                return f"(match obind {self.lift(l[0], l[1])} l_pop with Some (_, l_) => let {obj} := {store} in {self.block(rest)} | None => SBad sd_ end)"
            fail(s, "method call")
        if isinstance(s, ast.Expr) and isinstance(s.value, ast.Call) and isinstance(s.value.func, ast.Attribute) and self.is_sd(s.value.func.value) \
                and s.value.func.attr == "expand_minimal_spaces":
            c = s.value
            if not self.spec.get("min_tape") or c.args or [k.arg for k in c.keywords] != ["size_limit"]: fail(s, "expand_minimal_spaces call")
            a = self.expr(c.keywords[0].value)
            if a[2] != "optnat" or a[1]: fail(s, "size limit")
            # the public method with its defaults node_id=None, skip_ignored=False (py_api_expand_minimal_spaces, PySrcSdMin.v); the
            # result is ignored, an exception propagates
            return f"(s_after (py_api_expand_minimal_spaces fuel N cfg sd_ min_tape None {a[0]} false) (fun sd_ => {self.block(rest)}))"
        if isinstance(s, ast.Expr) and isinstance(s.value, ast.Call) and isinstance(s.value.func, ast.Name) and s.value.func.id in self.nested:
            c = s.value
            sub = self.nested[c.func.id]
            if c.keywords or len(c.args) != len(sub["args"]) + 1 or not self.is_sd(c.args[0]): fail(s, "nested call")
            args = []
            for a, (_, ty) in zip(c.args[1:], sub["args"]):
                t = self.expr(a)
                if t[1] or t[2] != ty: fail(s, "nested call argument")
                args.append(t[0])
            return f"(s_call (py_{self.spec['name']}__{sub['name']} N cfg sd_ {' '.join(args)}) (fun sd_ => {self.block(rest)}))"
        if isinstance(s, ast.If):
            c, r, ty = self.expr(s.test)
            if ty != "bool": fail(s, "condition type")
            env0, al0, pn0 = dict(self.env), dict(self.alias), dict(self.pn_of)
            b1 = self.block(s.body)
            self.env, self.alias, self.pn_of = dict(env0), dict(al0), dict(pn0)
            b2 = self.block(s.orelse)
            self.env, self.alias, self.pn_of = env0, al0, pn0
            head = f"(match {c} with Some c_ => if c_ then {b1} else {b2} | None => SBad sd_ end)" if r else f"(if {c} then {b1} else {b2})"
            return self.seq(head, rest)
        if isinstance(s, ast.For):
            if s.orelse: fail(s, "for-else")
            if not isinstance(s.target, ast.Name) or s.target.id not in self.spec["loopvars"]: fail(s, "loop variable")
            it = self.expr(s.iter)
            want = {"nat": "natlist", "space": "spacelist"}[self.spec["loopvars"][s.target.id]]
            if it[2] != want or it[1]: fail(s, "loop iterable")
            al0, pn0 = dict(self.alias), dict(self.pn_of)
            body = self.block(s.body)
            self.alias, self.pn_of = al0, pn0
            head = (f"(s_for {it[0]} (fun {s.target.id} sd_ (st_ : {self.st_ty()}) => let {self.st_pat()} := st_ in "
                    f"({body} : {self.flow_ty()})) sd_ {self.st_tuple()})")
            return self.seq(head, rest)
        if isinstance(s, ast.While):
            if s.orelse: fail(s, "while-else")
            if not self.fuels: fail(s, "no fuel declared for this loop")
            fuel = self.fuels.pop(0)
            c, r, ty = self.expr(s.test)
            if ty != "bool": fail(s, "condition type")
            has_break = any(isinstance(n, ast.Break) for n in walk_no_loops(s.body))
            al0, pn0 = dict(self.alias), dict(self.pn_of)
            body = self.block(s.body)
            self.alias, self.pn_of = al0, pn0
            if has_break:
                # `break` sets the hidden local brk_ and ends the iteration; the loop test is  (not brk_) and <test>
                self.need_state("brk_", s)
                head = (f"(let brk_ := false in s_while {fuel} (fun sd_ (st_ : {self.st_ty()}) => let {self.st_pat()} := st_ in "
                        f"if brk_ then Some false else {self.lift(c, r)}) "
                        f"(fun sd_ (st_ : {self.st_ty()}) => let {self.st_pat()} := st_ in ({body} : {self.flow_ty()})) sd_ {self.st_tuple()})")
                return self.seq(head, rest)
            head = (f"(s_while {fuel} (fun sd_ (st_ : {self.st_ty()}) => let {self.st_pat()} := st_ in {self.lift(c, r)}) "
                    f"(fun sd_ (st_ : {self.st_ty()}) => let {self.st_pat()} := st_ in ({body} : {self.flow_ty()})) sd_ {self.st_tuple()})")
            return self.seq(head, rest)
        fail(s, "unsupported statement")

    def sccmain_stmt(self, s, rest):
        """statement forms of expand_source_SCCs (recursion through the default expander, sub-diagrams of the source SCCs, sets of node ids)"""
        isc = lambda v, c: isinstance(v, ast.Constant) and v.value is c
        def succ_call(x):          # sd.node_successors(n, compute=True)
            return isinstance(x, ast.Call) and isinstance(x.func, ast.Attribute) and x.func.attr == "node_successors" and self.is_sd(x.func.value) \
                and len(x.args) == 1 and len(x.keywords) == 1 and x.keywords[0].arg == "compute" and isc(x.keywords[0].value, True)
        def with_successors(x, k):
            a = self.expr(x.args[0])
            if a[2] != "nat" or a[1]: fail(x, "node id")
            return (f"(let '(d1_, r_, v_) := node_successors N cfg sd_ {a[0]} in match r_ with RUnit => let sd_ := d1_ in {k('v_')} | _ => SRaise d1_ r_ end)")
        # if expander is None: def default_expander(sd): return expand_source_SCCs(sd, check_maa, recursion + 1); expander = default_expander
        if isinstance(s, ast.If) and not s.orelse and ast.dump(s.test) == "Compare(left=Name(id='expander', ctx=Load()), ops=[Is()], comparators=[Constant(value=None)])":
            want = ("[FunctionDef(name='default_expander', args=arguments(posonlyargs=[], args=[arg(arg='sd', annotation=Name(id='SuccessionDiagram', ctx=Load()))], "
                    "kwonlyargs=[], kw_defaults=[], defaults=[]), body=[Return(value=Call(func=Name(id='expand_source_SCCs', ctx=Load()), args=[Name(id='sd', ctx=Load()), "
                    "Name(id='check_maa', ctx=Load()), BinOp(left=Name(id='recursion', ctx=Load()), op=Add(), right=Constant(value=1))], keywords=[]))], decorator_list=[]), "
                    "Assign(targets=[Name(id='expander', ctx=Store())], value=Name(id='default_expander', ctx=Load()))]")
            got = "[" + ", ".join(ast.dump(b) for b in s.body) + "]"
            if got != want: fail(s, "the default expander is not the recursive call")
            self.default_expander = True
            return self.block(rest)
        # return True / False (with the remaining tape)
        if isinstance(s, ast.Return) and isinstance(s.value, ast.Constant) and s.value.value in (True, False):
            return f"(SRet sd_ ({'true' if s.value.value else 'false'}, tape_))"
        if isinstance(s, ast.Raise):
            if not (isinstance(s.exc, ast.Call) and isinstance(s.exc.func, ast.Name) and s.exc.func.id == "RuntimeError"): fail(s, "raise")
            return "(SRaise sd_ (RRaised ErrMotifLimit))"
        # next_level.add(sd._ensure_node(root, sub_space))
        if isinstance(s, ast.Expr) and isinstance(s.value, ast.Call) and isinstance(s.value.func, ast.Attribute) and s.value.func.attr == "add" \
                and isinstance(s.value.func.value, ast.Name) and self.locs.get(s.value.func.value.id) == "natset" and len(s.value.args) == 1 \
                and self.is_call(s.value.args[0], "_ensure_node") and self.is_sd(s.value.args[0].func.value) and len(s.value.args[0].args) == 2 and not s.value.args[0].keywords:
            name = s.value.func.value.id
            self.need_state(name, s)
            a, b = self.expr(s.value.args[0].args[0]), self.expr(s.value.args[0].args[1])
            if a[2] != "nat" or b[2] != "space" or a[1] or b[1]: fail(s, "_ensure_node arguments")
            return f"(let '(d1_, c_) := ensure_node N sd_ (Some {a[0]}) {b[0]} in let sd_ := d1_ in let {name} := union_nat {name} [c_] in {self.block(rest)})"
        # sd.node_data(i)["expanded"] = True ; ["attractor_candidates"] = None
        if isinstance(s, ast.Assign) and len(s.targets) == 1 and isinstance(s.targets[0], ast.Subscript) and isinstance(s.targets[0].slice, ast.Constant) \
                and isinstance(s.targets[0].value, ast.Call) and isinstance(s.targets[0].value.func, ast.Attribute) and s.targets[0].value.func.attr == "node_data" \
                and self.is_sd(s.targets[0].value.func.value) and len(s.targets[0].value.args) == 1 and s.targets[0].slice.value in ("expanded", "attractor_candidates"):
            a = self.expr(s.targets[0].value.args[0])
            if a[2] != "nat" or a[1]: fail(s, "node id")
            f = s.targets[0].slice.value
            if f == "expanded" and isc(s.value, True): setter = "set_exp y_ true"
            elif f == "attractor_candidates" and isc(s.value, None): setter = "set_cands y_ None"
            else: fail(s, "node field value")
            return f"(let sd_ := upd_node sd_ {a[0]} (fun y_ => {setter}) in {self.block(rest)})"
        # assert len(sd.node_successors(n, compute=True)) == 0
        if isinstance(s, ast.Assert) and isinstance(s.test, ast.Compare) and len(s.test.ops) == 1 and isinstance(s.test.ops[0], ast.Eq) \
                and isinstance(s.test.comparators[0], ast.Constant) and s.test.comparators[0].value == 0 and isinstance(s.test.left, ast.Call) \
                and isinstance(s.test.left.func, ast.Name) and s.test.left.func.id == "len" and len(s.test.left.args) == 1 and succ_call(s.test.left.args[0]):
            k = self.block(rest)
            return with_successors(s.test.left.args[0], lambda v: f"(match {v} with [] => {k} | _ => SRaise sd_ (RRaised ErrAssert) end)")
        # X = X | set(sd.node_successors(n, compute=True))
        if isinstance(s, ast.Assign) and len(s.targets) == 1 and isinstance(s.targets[0], ast.Name) and self.locs.get(s.targets[0].id) == "natset" \
                and isinstance(s.value, ast.BinOp) and isinstance(s.value.op, ast.BitOr) and isinstance(s.value.left, ast.Name) and s.value.left.id == s.targets[0].id \
                and isinstance(s.value.right, ast.Call) and isinstance(s.value.right.func, ast.Name) and s.value.right.func.id == "set" and len(s.value.right.args) == 1 \
                and succ_call(s.value.right.args[0]):
            name = s.targets[0].id
            self.need_state(name, s)
            k = self.block(rest)
            return with_successors(s.value.right.args[0], lambda v: f"(let {name} := union_nat {name} {v} in {k})")
        # source_scc_diagrams = list(sd.source_scc_subdiagrams(node_id)): remember the node (its space gives the sub-networks)
        if isinstance(s, ast.Assign) and len(s.targets) == 1 and isinstance(s.targets[0], ast.Name) and self.locs.get(s.targets[0].id) == "complist":
            t = self.expr(s.value)
            if t[2] != "complist" or t[1]: fail(s, "component list")
            self.need_state(s.targets[0].id, s)
            self.comp_node = self.last_comp_node
            return self.guard(t[0], False, s.targets[0].id, self.block(rest))
        if isinstance(s, ast.For) and isinstance(s.target, ast.Name) and self.spec["loopvars"].get(s.target.id) == "bitlist" and not s.orelse:
            it = self.expr(s.iter)
            if it[2] != "bitlistlist" or it[1]: fail(s, "loop iterable")
            body = self.block(s.body)
            head = (f"(s_for {it[0]} (fun {s.target.id} sd_ (st_ : {self.st_ty()}) => let {self.st_pat()} := st_ in "
                    f"({body} : {self.flow_ty()})) sd_ {self.st_tuple()})")
            return self.seq(head, rest)
        # for scc_diagram in source_scc_diagrams: the loop variable is the component B; its sub-diagram object starts as init (sub_net N sp B)
        if isinstance(s, ast.For) and isinstance(s.target, ast.Name) and self.spec["loopvars"].get(s.target.id) == "comp" and not s.orelse:
            it = self.expr(s.iter)
            if it[2] != "complist" or it[1]: fail(s, "component loop")
            self.need_state("sub_", s)
            body = self.block(s.body)
            head = (f"(s_for {it[0]} (fun {s.target.id} sd_ (st_ : {self.st_ty()}) => let {self.st_pat()} := st_ in "
                    f"let sub_ := init (sub_net N (n_space (get sd_ {self.comp_node})) {s.target.id}) in "
                    f"({body} : {self.flow_ty()})) sd_ {self.st_tuple()})")
            return self.seq(head, rest)
        # fully_expanded = expander(scc_diagram): the recursive call on the sub-diagram (one nesting level = one unit of fuel)
        if isinstance(s, ast.Assign) and len(s.targets) == 1 and isinstance(s.targets[0], ast.Name) and self.locs.get(s.targets[0].id) == "bool" \
                and isinstance(s.value, ast.Call) and isinstance(s.value.func, ast.Name) and s.value.func.id == "expander" and len(s.value.args) == 1 \
                and isinstance(s.value.args[0], ast.Name) and self.spec["loopvars"].get(s.value.args[0].id) == "comp" and not s.value.keywords:
            if not getattr(self, "default_expander", False): fail(s, "expander is not known to be the recursive call")
            name, B = s.targets[0].id, s.value.args[0].id
            for n_ in (name, "tape_", "sub_"): self.need_state(n_, s)
            k = self.block(rest)
            return (f"(match py_expand_source_SCCs fuel_ (sub_net N (n_space (get sd_ {self.comp_node})) {B}) cfg sub_ tape_ check_maa (recursion + 1) with "
                    f"SRet sub_ (b_, t_) => let tape_ := t_ in let {name} := b_ in {k} | SRaise _ e_ => SRaise sd_ e_ | SFuel _ => SFuel sd_ | SBad _ => SBad sd_ "
                    f"| SCont _ _ => SBad sd_ | SNext _ _ => SBad sd_ end)")
        # next_attach_at_list += attach_scc_subdiagram(sd, scc_diagram, attach_at, check_maa)
        if isinstance(s, ast.AugAssign) and isinstance(s.op, ast.Add) and isinstance(s.target, ast.Name) and self.locs.get(s.target.id) == "natlist" \
                and isinstance(s.value, ast.Call) and isinstance(s.value.func, ast.Name) and s.value.func.id == "attach_scc_subdiagram" and len(s.value.args) == 4 \
                and not s.value.keywords and self.is_sd(s.value.args[0]) and isinstance(s.value.args[1], ast.Name) and self.spec["loopvars"].get(s.value.args[1].id) == "comp":
            name, B = s.target.id, s.value.args[1].id
            for n_ in (name, "tape_"): self.need_state(n_, s)
            at, cm = self.expr(s.value.args[2]), self.expr(s.value.args[3])
            if at[2] != "nat" or cm[2] != "bool" or at[1] or cm[1]: fail(s, "attach arguments")
            k = self.block(rest)
            return (f"(match py_attach_scc_subdiagram N cfg sd_ {B} tape_ sub_ {at[0]} {cm[0]} with "
                    f"SRet sd_ (l_, t_) => let tape_ := t_ in let {name} := {name} ++ l_ in {k} | SRaise d_ e_ => SRaise d_ e_ | SFuel d_ => SFuel d_ | SBad d_ => SBad d_ "
                    f"| SCont d_ _ => SBad d_ | SNext d_ _ => SBad d_ end)")
        # X = X | set(list)
        if isinstance(s, ast.Assign) and len(s.targets) == 1 and isinstance(s.targets[0], ast.Name) and self.locs.get(s.targets[0].id) == "natset" \
                and isinstance(s.value, ast.BinOp) and isinstance(s.value.op, ast.BitOr):
            t = self.expr(s.value)
            if t[2] != "natset" or t[1]: fail(s, "set union")
            self.need_state(s.targets[0].id, s)
            return self.guard(t[0], False, s.targets[0].id, self.block(rest))
        # if C: raise ... else: <debug only>
        if isinstance(s, ast.If) and len(s.body) == 1 and isinstance(s.body[0], ast.Raise) and s.orelse and all(self.is_debug_block(b) for b in s.orelse):
            c = self.expr(s.test)
            if c[2] != "bool" or c[1]: fail(s, "condition")
            return f"(if {c[0]} then (SRaise sd_ (RRaised ErrMotifLimit)) else {self.block(rest)})"
        return None

    def scc_stmt(self, s, rest):
        """statement forms of attach_scc_subdiagram (two diagrams, the candidate-query tape, direct node-data assignments)"""
        isc = lambda v, c: isinstance(v, ast.Constant) and v.value is c
        # return X  (the remaining tape is part of the result)
        if isinstance(s, ast.Return) and s.value is not None:
            t = self.expr(s.value)
            if t[2] != "natlist" or t[1]: fail(s, "return value")
            return f"(SRet sd_ ({t[0]}, tape_))"
        # if len(scc_sd.node_attractor_candidates(X, compute=True)) == 0: BODY   -- the next entry of the query tape
        if isinstance(s, ast.If) and not s.orelse and isinstance(s.test, ast.Compare) and len(s.test.ops) == 1 and isinstance(s.test.ops[0], ast.Eq) \
                and isinstance(s.test.comparators[0], ast.Constant) and s.test.comparators[0].value == 0 and type(s.test.comparators[0].value) is int \
                and isinstance(s.test.left, ast.Call) and isinstance(s.test.left.func, ast.Name) and s.test.left.func.id == "len" and len(s.test.left.args) == 1:
            c = s.test.left.args[0]
            if isinstance(c, ast.Call) and isinstance(c.func, ast.Attribute) and c.func.attr == "node_attractor_candidates" and isinstance(c.func.value, ast.Name) \
                    and c.func.value.id == "scc_sd" and len(c.args) == 1 and len(c.keywords) == 1 and c.keywords[0].arg == "compute" and isc(c.keywords[0].value, True):
                a = self.expr(c.args[0])
                if a[2] != "nat" or a[1]: fail(s, "candidate query node")
                self.need_state("tape_", s)
                al0 = dict(self.alias)
                body = self.block(s.body)
                self.alias = al0
                # Some true: no candidates; Some false: candidates; anything else: the computation raised (RuntimeError)
                head = (f"(match tape_ with Some b_ :: t_ => let tape_ := t_ in if b_ then {body} else {self.nxt()} "
                        f"| _ => SRaise sd_ (RRaised ErrLimit) end)")
                return self.seq(head, rest)
        # node_id_map[k] = v
        if isinstance(s, ast.Assign) and len(s.targets) == 1 and isinstance(s.targets[0], ast.Subscript) and isinstance(s.targets[0].value, ast.Name) \
                and self.locs.get(s.targets[0].value.id) == "idmap":
            name = s.targets[0].value.id
            self.need_state(name, s)
            k, v = self.expr(s.targets[0].slice), self.expr(s.value)
            if k[2] != "nat" or v[2] != "nat" or k[1] or v[1]: fail(s, "map assignment")
            return self.guard(f"(idmap_set {name} {k[0]} {v[0]})", False, name, self.block(rest))
        # X = sd._ensure_node(parent_id=None, stable_motif=S)
        if isinstance(s, ast.Assign) and len(s.targets) == 1 and isinstance(s.targets[0], ast.Name) and self.is_call(s.value, "_ensure_node") \
                and self.is_sd(s.value.func.value) and not s.value.args:
            kw = {k.arg: k.value for k in s.value.keywords}
            name = s.targets[0].id
            if set(kw) != {"parent_id", "stable_motif"} or not isc(kw["parent_id"], None) or self.locs.get(name) != "nat": fail(s, "_ensure_node keywords")
            self.need_state(name, s)
            m = self.expr(kw["stable_motif"])
            if m[2] != "space" or m[1]: fail(s, "motif")
            return f"(let '(d1_, c_) := ensure_node N sd_ None {m[0]} in let sd_ := d1_ in let {name} := c_ in {self.block(rest)})"
        # sd._ensure_edge(a, b, m)
        if isinstance(s, ast.Expr) and self.is_call(s.value, "_ensure_edge") and self.is_sd(s.value.func.value) and len(s.value.args) == 3 and not s.value.keywords:
            a, b, m = (self.expr(x) for x in s.value.args)
            if a[2] != "nat" or b[2] != "nat" or m[2] != "space" or a[1] or b[1] or m[1]: fail(s, "_ensure_edge arguments")
            return f"(let sd_ := ensure_edge sd_ {a[0]} {b[0]} {m[0]} in {self.block(rest)})"
        # sd.node_data(i)["attractor_seeds" | "attractor_sets"] = []   -- "none in this node": the ghost tag of the node as it is now
        if isinstance(s, ast.Assign) and len(s.targets) == 1 and isinstance(s.targets[0], ast.Subscript) and isinstance(s.targets[0].slice, ast.Constant) \
                and s.targets[0].slice.value in ("attractor_seeds", "attractor_sets") and isinstance(s.value, ast.List) and not s.value.elts \
                and isinstance(s.targets[0].value, ast.Call) and isinstance(s.targets[0].value.func, ast.Attribute) and s.targets[0].value.func.attr == "node_data" \
                and self.is_sd(s.targets[0].value.func.value) and len(s.targets[0].value.args) == 1:
            a = self.expr(s.targets[0].value.args[0])
            if a[2] != "nat" or a[1]: fail(s, "node id")
            setter = {"attractor_seeds": "set_seeds", "attractor_sets": "set_sets"}[s.targets[0].slice.value]
            return f"(let sd_ := upd_node sd_ {a[0]} (fun y_ => {setter} y_ (Some (cur_tag sd_ {a[0]}))) in {self.block(rest)})"
        # for x in <raising natlist expression>
        if isinstance(s, ast.For) and isinstance(s.target, ast.Name) and self.spec["loopvars"].get(s.target.id) == "nat" and not s.orelse:
            it = self.expr(s.iter)
            if it[2] == "natlist" and it[1]:
                al0, pn0 = dict(self.alias), dict(self.pn_of)
                body = self.block(s.body)
                self.alias, self.pn_of = al0, pn0
                head = (f"(match {it[0]} with Some l_ => s_for l_ (fun {s.target.id} sd_ (st_ : {self.st_ty()}) => let {self.st_pat()} := st_ in "
                        f"({body} : {self.flow_ty()})) sd_ {self.st_tuple()} | None => SBad sd_ end)")
                return self.seq(head, rest)
        return None

    def seq(self, head, rest):
        if not rest:
            return head
        return f"(match {head} with SNext sd_ st_ => let {self.st_pat()} := st_ in {self.block(rest)} | other_ => other_ end)"

def walk_no_loops(stmts):
    """all statements of a loop body that belong to this loop (nested loops and functions are not entered)"""
    for st in stmts:
        yield st
        if isinstance(st, (ast.While, ast.For, ast.FunctionDef)):
            continue
        for field in ("body", "orelse"):
            yield from walk_no_loops(getattr(st, field, []) or [])

def assigned_locals(fn_node, locs):
    out = []
    def add(name):
        if name in locs and name not in out: out.append(name)
    def walk(n, top=True):
        yield n
        for ch in ast.iter_child_nodes(n):
            if isinstance(ch, ast.FunctionDef): continue          # nested functions have their own locals
            yield from walk(ch, False)
    for n in walk(fn_node):
        tgts = []
        if isinstance(n, ast.Assign) and len(n.targets) == 1: tgts = [n.targets[0]]
        elif isinstance(n, (ast.AnnAssign, ast.AugAssign)): tgts = [n.target]
        elif isinstance(n, ast.Expr) and isinstance(n.value, ast.Call) and isinstance(n.value.func, ast.Attribute) \
                and isinstance(n.value.func.value, ast.Name) and n.value.func.attr in ("add", "append", "pop"):
            add(n.value.func.value.id)
        for t in tgts:
            if isinstance(t, ast.Name): add(t.id)
            elif isinstance(t, ast.Tuple):
                for x in t.elts:
                    if isinstance(x, ast.Name): add(x.id)
        if isinstance(n, ast.Call) and isinstance(n.func, ast.Attribute) and n.func.attr == "pop" and isinstance(n.func.value, ast.Name):
            add(n.func.value.id)
        if isinstance(n, ast.Call) and isinstance(n.func, ast.Attribute) and n.func.attr in ("node_percolated_nfvs", "node_attractor_candidates"):
            add("tape_")
        if isinstance(n, ast.Assign) and isinstance(n.targets[0], ast.Subscript) and isinstance(n.targets[0].value, ast.Name):
            add(n.targets[0].value.id)
    return out

def pretty(t):
    out, depth, line = [], 0, ""
    for i, c in enumerate(t):
        line += c
        if c == "(": depth += 1
        if c == ")": depth -= 1
        for kw in (" with ", " in ", " else ", " then ", " => "):
            if t.startswith(kw, i + 1 - len(kw)) and len(line) > 70:
                out.append(line.rstrip()); line = "  " * min(depth, 14)
                break
    out.append(line)
    return "\n".join(out)

def translate_one(spec, node, cname, outer=None):
    """one function definition -> list of text parts.  outer = the Fn of the enclosing function for a nested def"""
    fn = Fn(spec)
    locs = dict(spec["locs"])
    has_break = any(isinstance(n, ast.Break) for n in ast.walk(node))
    fn.state = assigned_locals(node, locs)
    if has_break:
        fn.locs = locs = dict(locs, brk_="bool"); fn.env["brk_"] = "bool"; fn.state.append("brk_")
    if spec.get("sccmain"):
        for hidden in ("tape_", "sub_"):
            if hidden not in fn.state: fn.state.append(hidden)
    parts = []
    for sub in spec.get("nested", []):
        subnodes = [n for n in node.body if isinstance(n, ast.FunctionDef) and n.name == sub["name"]]
        if len(subnodes) != 1: raise Unsupported(f"{spec['name']}: nested function {sub['name']} not found exactly once")
        sn = subnodes[0]
        a = sn.args
        if a.vararg or a.kwarg or a.kwonlyargs or a.posonlyargs or a.defaults or [x.arg for x in a.args] != ["sd"] + [x for x, _ in sub["args"]]:
            raise Unsupported(f"{sub['name']}: signature changed")
        # a nested function must not read variables of the enclosing function (everything comes in through its parameters)
        bound = {x.arg for x in a.args} | set(sub["locs"]) | set(sub["loopvars"]) | set(sub.get("alias", []))
        for n in ast.walk(sn):
            if isinstance(n, ast.Name) and isinstance(n.ctx, ast.Load) and n.id not in bound and n.id in spec["locs"]:
                raise Unsupported(f"{sub['name']}: reads {n.id} of the enclosing function")
        subspec = dict(sub, name=spec["name"] + "__" + sub["name"], path=spec["path"])
        parts += translate_one(subspec, sn, "py_" + subspec["name"])
        fn.nested[sub["name"]] = sub
    body = fn.block(node.body)
    if fn.fuels: raise Unsupported(f"{spec['name']}: fewer while loops than declared")
    sig = " ".join(f"({x} : {COQ_TY[t]})" for x, t in spec["args"])
    if spec.get("tape"): sig = "(tape : list space) " + sig
    if spec.get("min_tape"): sig = "(min_tape : list space) (tape : list (list nat)) " + sig
    if spec.get("scc"): sig = "(B : list nat) (tape : list (option bool)) " + sig
    init = "".join(f"let {v} := {DFLT[locs[v]]} in " for v in fn.state)
    is_sub = "__" in spec["name"]
    parts.append(f"(* {spec['path']}: def {spec['name'].replace('__', ' / ')}(sd, {', '.join(x for x, _ in spec['args'])}) *)")
    if is_sub:
        parts.append(f"Definition {cname} (N : net) (cfg : config) (sd_ : sd) {sig} : sflow {COQ_TY[fn.ret]} unit :=")
        parts.append(f"  {init}")
        parts.append("  s_close\n" + textwrap.indent(pretty(f"({body} : {fn.flow_ty()})"), "    ") + ".")
    else:
        if spec.get("sccmain"):
            sig2 = " ".join(f"({x} : {COQ_TY[t]})" for x, t in spec["args"] if t != "expanderopt")
            parts.append(f"Fixpoint {cname} (fuel : nat) (N : net) (cfg : config) (sd_ : sd) (tape : list (option bool)) {sig2} {{struct fuel}} : sflow {COQ_TY[fn.ret]} unit :=")
            parts.append("  match fuel with\n  | O => SFuel sd_\n  | S fuel_ =>")
            parts.append(f"  let no_sd_ := sd_ in {init}")
            parts.append("  s_close\n" + textwrap.indent(pretty(f"({body} : {fn.flow_ty()})"), "    ") + "\n  end.")
        elif spec.get("scc"):
            parts.append(f"Definition {cname} (N : net) (cfg : config) (sd_ : sd) {sig} : sflow {COQ_TY[fn.ret]} unit :=")
            parts.append(f"  {init}")
            parts.append("  s_close\n" + textwrap.indent(pretty(f"({body} : {fn.flow_ty()})"), "    ") + ".")
        else:
            parts.append(f"Definition {cname} (fuel : nat) (N : net) (cfg : config) (sd_ : sd) {sig} : sd * result :=")
            parts.append(f"  {init}")
            parts.append("  s_finish\n" + textwrap.indent(pretty(f"({body} : {fn.flow_ty()})"), "    ") + ".")
    parts.append("")
    return parts

def translate(fname, names):
    ext = any(s_.get("tape") or s_.get("min_tape") for s_ in FUNCS if s_["name"] in names)
    aseeds = any(s_.get("min_tape") for s_ in FUNCS if s_["name"] in names)
    scc = any(s_.get("scc") for s_ in FUNCS if s_["name"] in names)
    parts = [f"(* {fname} -- GENERATED by tools/py2coq_sd.py from the current sources of /repo/biobalm/_sd_algorithms; do not edit.",
             "   Each definition is the translation of the Python function of the same name (embedding: PyLibSd.v" + (", PyLibSd2.v" if ext else "") + ").",
             "   PySrcSdFacts.v / PySrcSdTargetFacts.v / PySrcSdMinFacts.v prove them equal to the model's strategy functions of Diagram.v. *)",
             "From Coq Require Import List Bool Arith.", "Import ListNotations.",
             "From BB Require Import BN" + (" Brute Candidates Blocks" if aseeds else "") + " Diagram PyLib PyLibSd" + (" PyLibCore PyLibSd2" if ext else "") + (" PySrcSdMin" if aseeds else "") + (" Brute Blocks SCC PyLibCore PyLibSd2 PyLibScc" if scc else "") + (" Control PyLibControl PySrcSdScc" if any(s_.get("sccmain") for s_ in FUNCS if s_["name"] in names) else "") + ".", ""]
    for spec in FUNCS:
        name, path = spec["name"], spec["path"]
        if name not in names: continue
        mod = ast.parse(open(os.path.join(REPO, path)).read())
        nodes = [n for n in mod.body if isinstance(n, ast.FunctionDef) and n.name == name]
        if len(nodes) != 1: raise Unsupported(f"{path}: function {name} not found exactly once")
        node = nodes[0]
        a = node.args
        want_args = ["sd"] + [x for x, _ in spec["args"]]
        if a.vararg or a.kwarg or a.kwonlyargs or a.posonlyargs or [x.arg for x in a.args] != want_args:
            raise Unsupported(f"{name}: signature changed: {[x.arg for x in a.args]}")
        want_d = spec.get("defaults")
        got = dict(zip([x.arg for x in a.args][len(a.args) - len(a.defaults):], a.defaults))
        if want_d is None:
            for d in a.defaults:
                if not (isinstance(d, ast.Constant) and d.value is None): raise Unsupported(f"{name}: default value other than None")
        elif set(got) != set(want_d) or any(not (isinstance(got[k], ast.Constant) and got[k].value is v) for k, v in want_d.items()):
            raise Unsupported(f"{name}: default values changed")
        if node.decorator_list: raise Unsupported(f"{name}: decorators")
        parts += translate_one(spec, node, "py_" + name)
        if not spec.get("no_wrapper"):
            parts += wrapper(spec)
    return "\n".join(parts)

def wrapper(spec):
    """the public method SuccessionDiagram.<name>: must be `return <name>(self, <its parameters>)`; translated as a call of py_<name>
    with the arguments in the order in which the method passes them"""
    name = spec["name"]
    mod = ast.parse(open(os.path.join(REPO, "biobalm/succession_diagram.py")).read())
    cls = [n for n in mod.body if isinstance(n, ast.ClassDef) and n.name == "SuccessionDiagram"]
    if len(cls) != 1: raise Unsupported("class SuccessionDiagram not found exactly once")
    ms = [n for n in cls[0].body if isinstance(n, ast.FunctionDef) and n.name == name]
    if len(ms) != 1: raise Unsupported(f"method SuccessionDiagram.{name} not found exactly once")
    m = ms[0]
    a = m.args
    if a.vararg or a.kwarg or a.kwonlyargs or a.posonlyargs or m.decorator_list or not a.args or a.args[0].arg != "self":
        raise Unsupported(f"SuccessionDiagram.{name}: signature")
    params = [x.arg for x in a.args[1:]]
    if len(params) != len(spec["args"]): raise Unsupported(f"SuccessionDiagram.{name}: number of parameters")
    # defaults: the method's defaults must be those of the table (None, or as listed for the function; a parameter the function
    # requires positionally gets None here)
    got = dict(zip([x.arg for x in a.args][len(a.args) - len(a.defaults):], a.defaults))
    for (pname, (fname, _)) in zip(params, spec["args"]):
        want = (spec.get("defaults") or {}).get(fname, None)
        if pname not in got:
            if spec["args"][0][0] == fname and spec["args"][0][1] == "space": continue          # required positional (target)
            raise Unsupported(f"SuccessionDiagram.{name}: parameter {pname} has no default")
        if not (isinstance(got[pname], ast.Constant) and got[pname].value is want): raise Unsupported(f"SuccessionDiagram.{name}: default of {pname}")
    body = [b for b in m.body if not (isinstance(b, ast.Expr) and isinstance(b.value, ast.Constant) and isinstance(b.value.value, str))]
    ok = len(body) == 1 and isinstance(body[0], ast.Return) and isinstance(body[0].value, ast.Call) and isinstance(body[0].value.func, ast.Name) \
        and body[0].value.func.id == name and not body[0].value.keywords and len(body[0].value.args) == len(params) + 1 \
        and isinstance(body[0].value.args[0], ast.Name) and body[0].value.args[0].id == "self" \
        and all(isinstance(x, ast.Name) and x.id in params for x in body[0].value.args[1:])
    if not ok: raise Unsupported(f"SuccessionDiagram.{name}: body is not `return {name}(self, ...)`")
    passed = [x.id for x in body[0].value.args[1:]]
    sig = " ".join(f"({pn} : {COQ_TY[t]})" for pn, (_, t) in zip(params, spec["args"]))
    tape = "(tape : list space) " if spec.get("tape") else ("(min_tape : list space) (tape : list (list nat)) " if spec.get("min_tape") else "")
    targs = "tape " if spec.get("tape") else ("min_tape tape " if spec.get("min_tape") else "")
    return [f"(* biobalm/succession_diagram.py: def SuccessionDiagram.{name}(self, {', '.join(params)}) *)",
            f"Definition py_api_{name} (fuel : nat) (N : net) (cfg : config) (sd_ : sd) {tape}{sig} : sd * result :=",
            f"  py_{name} fuel N cfg sd_ {targs}{' '.join(passed)}.", ""]

def main(argv):
    texts, failed = [], []
    for f, names in GROUPS:
        try:
            texts.append((os.path.join(OUTDIR, f), translate(f, names)))
        except Unsupported as e:
            # fail closed per generated file: the old text stays, the properties that import this file are told
            print(f"py2coq_sd: FAILED {f}: UNSUPPORTED: {e}", file=sys.stderr)
            failed.append(f)
    if len(argv) > 1 and argv[1] == "--check":
        same = not failed and all(os.path.exists(o) and open(o).read() == t for o, t in texts)
        print("unchanged" if same else "CHANGED")
        return 0 if same else 1
    for o, t in texts:
        if os.path.exists(o) and open(o).read() == t:
            print("unchanged", os.path.normpath(o))
        else:
            open(o, "w").write(t)
            print("wrote", os.path.normpath(o))
    return 2 if failed else 0

if __name__ == "__main__":
    sys.exit(main(sys.argv))
