#!/bin/bash
# usage: tools/confirm_seeded.sh <id>...   confirm each seeded change in a scratch worktree:
# demo passes unchanged, fails with the change, and the pinned test suite still passes with the change.
for id in "$@"; do
  wt=/tmp/confirm_$id
  git -C /repo worktree add --detach $wt HEAD >/dev/null 2>&1 || { echo "$id: cannot create worktree"; continue; }
  cd $wt
  PYTHONPATH=$wt PYTHONHASHSEED=0 timeout 1200 /venv/bin/python /verif/seeded/$id/demo.py >/tmp/confirm_$id.un.log 2>&1; un=$?
  git apply /verif/seeded/$id/patch.diff; ap=$?
  PYTHONPATH=$wt PYTHONHASHSEED=0 timeout 1200 /venv/bin/python /verif/seeded/$id/demo.py >/tmp/confirm_$id.ch.log 2>&1; ch=$?
  PYTHONPATH=$wt timeout 3000 /venv/bin/python -m pytest -q -p no:cacheprovider --timeout=900 --deselect tests/clingo_test.py::test_clingo tests 2>&1 | tail -1 > /tmp/confirm_$id.test.log
  tests=$(cat /tmp/confirm_$id.test.log)
  cd /; git -C /repo worktree remove --force $wt
  python3 - "$id" "$un" "$ch" "$ap" "$tests" <<'PY'
import json,sys
id,un,ch,ap,tests=sys.argv[1:6]
p=f'/verif/seeded/{id}/meta.json'
m=json.load(open(p))
m['confirmed']={'demo_exit_unchanged':int(un),'demo_exit_changed':int(ch),'patch_applies':int(ap)==0,'pytest_with_change':tests.strip(),
 'commands':[f'PYTHONPATH=<worktree> /venv/bin/python seeded/{id}/demo.py (unchanged, then after git apply seeded/{id}/patch.diff)','PYTHONPATH=<worktree> /venv/bin/python -m pytest -q -p no:cacheprovider --timeout=900 --deselect tests/clingo_test.py::test_clingo tests']}
json.dump(m,open(p,'w'),indent=1)
print(id,'unchanged',un,'changed',ch,'tests:',tests.strip())
PY
  rm -f /tmp/confirm_$id.*.log
done
