#!/usr/bin/env python3
import json, sys, os
sys.path.insert(0, os.path.dirname(__file__))
from props_spec import SPEC
props = {json.loads(l)["id"]: json.loads(l) for l in open("/verif/properties.jsonl")}
sys.path.insert(0, "/verif/harness")
READY = sys.argv[1].split(",") if len(sys.argv) > 1 else []
NOTES = {
 "C01": "filter theorem, exact verdict predicate, owner uniqueness and global one-to-one for full expansion, composition with the candidate pipeline (pipeline_then_filter_exact); block and attractor-seed expansion: global one-to-one theorems for diagrams with stubs (expand_block_one_to_one, expand_aseeds_one_to_one) under tape contracts (clean blocks / NFVS) decided on every replayed run by extracted exact predicates; compute_attractors_symbolic additionally compared directly with the Filter model on adversarial candidate lists; source-SCC strategy not modelled (known finding D15)",
 "C03": "theorems for every strategy of the statement: BFS, DFS, minimal-space expansion, skip completion, block expansion (expand_block_MinFound: any options, any tape), attractor-seed expansion (expand_aseeds_MinFound) and the source-SCC strategy (expand_scc_MinFound / LeafOK / AllExpanded); all six strategies are modelled and replayed id by id",
 "C05": "PARTIAL with a known finding (D4): the full statement is refuted inside Coq on the model of the documented exclusion rule under an ideal engine (SkipRuleFacts.C05_refuted), what survives is proved (ideal_seeds_sound, structural and cache theorems for skip operations, exact verdict predicates); the model of the rule is compared with the code's per-node seeds on every modelable run",
 "C06": "end-to-end theorem succession_control_sound (also with skip_feedforward_successions) on top of override_forces / find_drivers_force / successions_spec; the helper functions is_subspace / intersect are translated from the current source on every run and proved equal to the model's; forced_b decides every reported intervention by brute force",
 "C07": "find_drivers sound / complete / minimal, successions_spec, skip_feedforward filter (ff_filter_incl / covers / antichain); complete intervention lists compared with the model for both settings of skip_feedforward_successions",
 "C10": "net_to_pn_faithful, restriction and reduction theorems, exact predicate pn_faithful_b on the real nets; place names translated from the current source (py_variable_to_place_spec / py_place_to_variable_spec)",
 "C08": "cover theorem for every option and configuration value (candidates_cover_nfvs), incl. the NFVS reduction lemma (nfvs_reduction); engine contract left: AEON's feedback vertex set hits every negative cycle (checked on every recorded NFVS by the verified no_neg_walk_b); the real pipeline is replayed on the model",
 "C12": "sets via the filter theorem, exact check_sets, and the interleaved reachability model (exact for every heuristic tape); AEON's symbolic fallback is judged through the brute-force attractors",
 "C13": "fuel bounds for all modelled loops: expansions incl. block, attractor-seed and source-SCC expansion (n + 2 levels per nesting depth), symbolic test, candidate pipeline, the filter with the real reachability procedure, the sanitisation rename loop; at run time back-edge budget and watchdog",
 "C16": "reclaim_transparent (observational equivalence op by op); byte-level pickle / aeon round trips are runtime behaviour compared on two real diagrams",
 "C17": "extensionality, polarity-flip and reordering equivariance up to the isomorphism of fully expanded diagrams (perm_hierarchy), name sanitisation model with total/valid/distinct/position-preserving theorems compared exactly with the code; PARTIAL: text formats (bnet/aeon/sbml) by metamorphic runs",
 "C18": "PARTIAL: product and input-restriction theorems; agreement with AEON on published models is empirical",
 "C19": "PARTIAL: order-independence theorems; hash-seed / process independence is runtime behaviour decided by re-running under several PYTHONHASHSEED values",
 "C20": "find_node, ids, depth = longest path (all histories), is_subgraph model; summary() by recomputation",
}
# what is tied to the property by translation of the current source text (tools/py2coq*.py) in addition to the correspondence run
TIED = {
 "C01": "expand_source_SCCs.py (expand_source_SCCs and attach_scc_subdiagram), expand_source_blocks.py, the public methods expand_scc / expand_block / build, attractor_symbolic.compute_attractors_symbolic",
 "C02": "SuccessionDiagram.__init__, _expand_one_node, _ensure_node, _ensure_edge, _update_node_depth, node_successors, expand_bfs.py, expand_dfs.py and the public wrappers",
 "C03": "expand_bfs.py, expand_dfs.py, expand_minimal_spaces.py, expand_attractor_seeds.py, expand_source_SCCs.py, expand_source_blocks.py, the public wrappers and minimal_trap_spaces()",
 "C04": "expand_bfs.py, expand_dfs.py, _expand_one_node, _ensure_node, node_successors",
 "C05": "skip_to_minimal, skip_remaining, expand_minimal_spaces.py",
 "C06": "space_utils.is_subspace / intersect, expand_to_target.py and its public wrapper, control.find_drivers / drivers_of_succession / successions_to_target / succession_control",
 "C07": "control.find_drivers / drivers_of_succession / succession_control",
 "C08": "attractor_candidates.make_heuristic_retained_set / asp_greedy_retained_set_optimization",
 "C09": "trappist_core._clingo_model_to_space / _clingo_model_to_fixed_point (polarity of the answer-set readers), the solution-limit handling of trappist / compute_fixed_point_reduced_STG",
 "C10": "petri_net_translation.variable_to_place / place_to_variable",
 "C11": "space_utils.percolate_space_strict / percolation_conflicts, drivers.find_single_node_LDOIs / find_single_drivers",
 "C12": "attractor_symbolic.compute_attractors_symbolic (the candidate filter loop)",
 "C13": "the loops of expand_bfs.py, expand_dfs.py, expand_to_target.py, expand_minimal_spaces.py, expand_attractor_seeds.py, expand_source_SCCs.py, expand_source_blocks.py",
 "C14": "_expand_one_node, skip_to_minimal, skip_remaining, reclaim_node_data, expand_source_SCCs.attach_scc_subdiagram (cache clearing), the cache writes of expand_source_blocks.py",
 "C15": "the limit handling of expand_bfs.py, expand_dfs.py, expand_to_target.py, expand_minimal_spaces.py, expand_attractor_seeds.py, expand_source_blocks.py",
 "C16": "SuccessionDiagram.__getstate__ / __setstate__, reclaim_node_data",
 "C17": "petri_net_translation.sanitize_network_names",
 "C19": "_expand_one_node (sorting by key), expand_bfs.py, expand_dfs.py (sorted successors)",
 "C20": "space_utils.space_unique_key, __init__, _ensure_node / _update_node_depth, depth, __len__, root, node_is_minimal, is_subgraph, is_isomorphic, find_node, node_ids / stub_ids / expanded_ids, edge_stable_motif / edge_all_stable_motifs",
}
checks = []
for pid in sorted(props):
    if pid not in READY:
        continue
    spec = SPEC.get(pid, {"title": props[pid]["title"], "comment": ""})
    checks.append({
        "property_id": pid,
        "quick_cmd": f"./check {pid} --tier quick",
        "thorough_cmd": f"./check {pid} --tier thorough",
        "evidence_file": f"/verif/evidence/{pid}.json",
        "replay_cmd_template": f"./check {pid} --replay {{path}}",
        "engine": "coq-model+correspondence",
        "level_claimed": {"category": "proof",
            "text": "Machine-checked Coq theorems (coq/props/%s.v, closed under the global context) about a hand-written executable model of the code, for all networks, histories and tapes; the model is tied to /repo on every run by extracting it to OCaml and comparing it with the real library on the same inputs/op sequences, and the implementation's own outputs are judged by extracted, proved-exact predicates against brute-force ground truth. %s" % (pid, NOTES.get(pid, "")),
            "design_ref": "DESIGN.md section 7 (" + pid + ") and section 11"},
        "level_note": "Trusted: Coq kernel, extraction (ExtrOcamlBasic only), ocaml/driver.ml, the Python harness, engine contracts for clingo / biodivine_aeon (checked per recorded call, not proved); the model is hand-written, the correspondence run is the tie. Theorems quantify over all sizes; the correspondence run uses networks of at most 8 variables.",
        "technique": "Coq proof over an executable model + differential correspondence (extracted OCaml vs code)" +
                     ((" + translation of the current source text into Gallina, proved equal to the model: " + TIED[pid]) if pid in TIED else ""),
    })
m = json.load(open("/verif/MANIFEST.json"))
m["checks"] = checks
m["engines"] = [{"name": "coq-model+correspondence", "path": "/verif/coq, /verif/ocaml, /verif/harness", "serves_properties": READY,
                 "kind_free_text": "Coq 8.16 development (model + theorems), extracted OCaml oracle/model binary, Python differential harness"}]
m["not_applicable"] = [{"property_id": p, "reason": "check under construction in this round"} for p in sorted(props) if p not in READY]
json.dump(m, open("/verif/MANIFEST.json", "w"), indent=1)
print(len(checks), "checks;", len(m["not_applicable"]), "not applicable")
