#!/usr/bin/env python3
"""Apply every seeded change to /repo in turn, run the listed checks (quick tier, Coq stage skipped:
the Coq files do not depend on /repo), record which checks report a violation.  Always restores /repo."""
import json, os, subprocess, sys, time
SEEDED = "/verif/seeded"
DEFAULT = {
 "C01": ["C01", "C14"], "C02": ["C02", "C04"], "C03": ["C03"], "C04": ["C04", "C02"], "C05": ["C05", "C12"], "C06": ["C06"], "C07": ["C07"],
 "C08": ["C08"], "C09": ["C09"], "C10": ["C10"], "C11": ["C11"], "C12": ["C12", "C05"], "C14": ["C14", "C01"], "C15": ["C15", "C04"],
 "C16": ["C16"], "C17": ["C17", "C01"], "C18": ["C18", "C01"], "C19": ["C19"], "C20": ["C20"],
}
REVERT = {"12105e7": ["C20"], "51f7c5b": ["C14", "C05"], "68c531e": ["C15"], "087feea": ["C20"], "745a4ef": ["C20"], "2159c02": ["C13", "C12"],
          "f2f2650": ["C08", "C01"], "5dedb9b": ["C08"], "d9a3c32": ["C08"], "8d6dc1d": ["C15", "C09", "C08"],
          "757c07d": ["C08"], "f0fc689": ["C14"], "3581ec3": ["C14"], "1ab53b3": ["C17"], "124adb2": ["C14"], "fb3f760": ["C15", "C03", "C01"]}
OVERRIDE = {"w6_C02": ["C02", "C03", "C04"], "w6_C03": ["C03", "C05"], "w6_C04": ["C04", "C02"], "w6_C17": ["C17", "C10"], "w6_C18": ["C18", "C01"]}
# changes to translated sources: the Coq stage (regenerated PySrc*.v + proofs) is part of the detection
OVERRIDE.update({"w12_C02": ["C15", "C02"], "w12_C07": ["C07", "C06"], "w12_C09": ["C09", "C10"], "w12_C10": ["C10", "C02"], "w12_C18": ["C18", "C03"], "w12_C20": ["C20"], "w11_C03": ["C03", "C04"], "w11_C08": ["C08", "C05"], "w11_C12": ["C12", "C05"], "w11_C16": ["C16", "C02"], "w11_C17": ["C17", "C10"], "w11_C19": ["C19"], "w11_C01": ["C01", "C03"], "w11_C13": ["C13", "C12"], "w10_C02": ["C02", "C04"], "w10_C04": ["C04", "C02"], "w10_C05": ["C05", "C03"], "w10_C06": ["C06", "C15"], "w10_C07": ["C07", "C06"], "w10_C11": ["C11"], "w10_C14": ["C14", "C01"], "w10_C15": ["C15", "C04"], "w9_C01": ["C01", "C03"], "w9_C03": ["C03", "C18"], "w9_C20": ["C20"], "w9_C18": ["C18", "C03"], "w8_C18": ["C10", "C18"], "w8_C01": ["C14", "C01"], "w7_C05": ["C05", "C12"], "w7_C15": ["C15", "C06"], "w7_C14": ["C14", "C05"]})
WITH_COQ = {"w6_C02", "w7_C15", "w9_C01"}
def sh(cmd, **kw):
    return subprocess.run(cmd, shell=True, capture_output=True, text=True, errors="replace", **kw)
assert sh("git -C /repo status --short").stdout.strip() == "", "/repo not clean"
rows = []
ids = sorted(d for d in os.listdir(SEEDED) if os.path.isdir(os.path.join(SEEDED, d)))
only = sys.argv[1:]
for sid in ids:
    if only and sid not in only:
        continue
    if sid == "C13":
        continue
    if sid.startswith("revert_"):
        checks = REVERT.get(sid[len("revert_"):], ["C08", "C15"])
    else:
        base = sid.split("_")[-1]                 # w3_C05 -> C05
        checks = OVERRIDE.get(sid) or DEFAULT.get(base, [base])
    if sh(f"git -C /repo apply {SEEDED}/{sid}/patch.diff").returncode != 0:
        rows.append({"seeded": sid, "error": "patch does not apply"}); continue
    try:
        for c in checks:
            t = time.time()
            p = sh(f"cd /verif && timeout 1500 ./check {c} " + ("" if sid in WITH_COQ else "--no-coq"))
            lines = [l for l in p.stdout.splitlines() if l.startswith("VIOLATION")]
            rows.append({"seeded": sid, "check": c, "exit": p.returncode, "violations": len(lines),
                         "with_failing_input": sum(1 for l in lines if not l.endswith("no-failing-input-found")), "wall_s": round(time.time() - t, 1)})
            print(rows[-1], flush=True)
    finally:
        sh("git -C /repo checkout -- .")
        if sid in WITH_COQ:
            sh("cd /verif && python3 tools/py2coq.py && make -C coq -j16")
if only:                                       # partial run: merge into the existing matrix
    try:
        old = json.load(open("/verif/seeded/DETECTION.json"))
    except Exception:
        old = []
    rows = [r for r in old if r.get("seeded") not in only] + rows
    rows.sort(key=lambda r: (r.get("seeded", ""), r.get("check", "")))
json.dump(rows, open("/verif/seeded/DETECTION.json", "w"), indent=1)
