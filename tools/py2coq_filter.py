#!/usr/bin/env python3
"""py2coq_filter.py -- fail-closed translator of the candidate filter biobalm/_sd_attractors/attractor_symbolic.compute_attractors_symbolic
(C01 / C12: "found attractors join the avoid set so each is kept once") into Gallina: coq/theories/PySrcFilter.v.

The function has three parts.  The preamble (reduce the candidates and the child motifs to the free variables of the node, build the symbolic
`avoid` set = candidates + child motifs) and the postamble (convert the attractor sets back to the full network) work on AEON objects; they are
compared with reference texts (as syntax trees) and read as: avoid = {| av_spaces := motifs; av_states := candidates |}, sets unchanged.
The LOOP in between -- candidate order, the unchecked-last-candidate shortcut, `avoid.minus(candidate)` before the test, `avoid.union(closure)`
after a success, the appends to seeds / sets, `continue` on failure -- is translated statement by statement:
    graph_reduced.mk_subspace(candidate)                the singleton state
    avoid.minus(S)  /  avoid.union(C)                   Filter.remove_state on av_states  /  C ++ av_states
    symbolic_attractor_test(sd, node_id, graph_reduced, candidate, avoid)      Filter.attractor_test N candidate avoid  (the model of that function:
                                                                               SymbolicTest.v proves the real interleaved procedure equal to it)
    candidate | node_space                              the candidate as a full state (states of the model are full states)
PySrcFilterFacts.v proves the generated function equal to Filter.compute_attractors_filter.
"""
import ast, os, sys, textwrap

REPO = os.environ.get("VERIF_REPO", "/repo")
OUT = os.path.join(os.path.dirname(os.path.abspath(__file__)), "..", "coq", "theories", "PySrcFilter.v")
SRC = "biobalm/_sd_attractors/attractor_symbolic.py"

class Unsupported(Exception):
    pass

D = ast.dump
def body_of(txt):
    return [D(x) for x in ast.parse(textwrap.dedent(txt)).body]
def expr_of(txt):
    return D(ast.parse(textwrap.dedent(txt).strip(), mode="eval").body)

PRE = body_of('''
node_data = sd.node_data(node_id)
node_space = node_data["space"]

bn_reduced = sd.node_percolated_network(node_id, compute=True)
graph_reduced = AsynchronousGraph(bn_reduced)
symbolic_ctx = graph_reduced.symbolic_context()

candidate_states_reduced: list[BooleanSpace] = []
for candidate in candidate_states:
    candidate_reduced: BooleanSpace = {
        k: v for (k, v) in candidate.items() if k not in node_space
    }
    candidate_states_reduced.append(candidate_reduced)

child_motifs_reduced = []
if node_data["expanded"]:
    children = sd.node_successors(node_id, compute=False)
    child_motifs_reduced = [
        sd.edge_stable_motif(node_id, s, reduced=True) for s in children
    ]

child_motifs_bdd = state_list_to_bdd(symbolic_ctx, child_motifs_reduced)
candidate_bdd = state_list_to_bdd(symbolic_ctx, candidate_states_reduced)

children_set = ColoredVertexSet(symbolic_ctx, child_motifs_bdd)
candidate_set = ColoredVertexSet(symbolic_ctx, candidate_bdd)

avoid = candidate_set.union(children_set)
''')
POST = body_of('''
space_symbolic = sd.symbolic.mk_subspace(node_space).vertices()
sets_converted: list[VertexSet] = []
for s in sets:
    # Extend the attractor set with fixed nodes from the node space.
    vertices = s.vertices()
    vertices = sd.symbolic.transfer_from(vertices, graph_reduced)
    vertices = vertices.intersect(space_symbolic)
    sets_converted.append(vertices)

return (seeds, sets_converted)
''')
DEBUG_TEST = expr_of('sd.config["debug"]')

def is_debug(s):
    return isinstance(s, ast.If) and not s.orelse and D(s.test) == DEBUG_TEST \
        and all(isinstance(b, ast.Expr) and isinstance(b.value, ast.Call) and isinstance(b.value.func, ast.Name) and b.value.func.id == "print" for b in s.body)

class Loop:
    """statement-by-statement translation of the loop body; state = (avoid, seeds, sets); bool locals are let-bound"""
    BOOLS = {"is_last": None, "is_minimal": None}
    def expr(self, e):
        d = D(e)
        if d == expr_of("i == len(candidate_states_reduced) - 1"): return "(Nat.eqb (S i) (length candidate_states))"       # i = len - 1 with len >= 1 inside the loop
        if d == expr_of("len(child_motifs_reduced) == 0"): return "(Nat.eqb (length motifs) 0)"
        if d == expr_of("len(seeds) == 0"): return "(Nat.eqb (length seeds) 0)"
        if isinstance(e, ast.Name) and e.id in ("seeds_only", "is_last", "is_minimal"): return e.id
        if isinstance(e, ast.BoolOp) and isinstance(e.op, ast.And): return "(" + " && ".join(self.expr(v) for v in e.values) + ")"
        if isinstance(e, ast.Compare) and len(e.ops) == 1 and isinstance(e.ops[0], ast.Is) and D(e.left) == "Name(id='closure', ctx=Load())" \
                and D(e.comparators[0]) == "Constant(value=None)": return "(match closure with None => true | Some _ => false end)"
        raise Unsupported(f"line {getattr(e, 'lineno', '?')}: loop expression: {d[:160]}")
    def block(self, stmts, k):
        """k = continuation term for falling through the end of the body"""
        if not stmts: return k
        s, rest = stmts[0], stmts[1:]
        if is_debug(s): return self.block(rest, k)
        d = D(s)
        if isinstance(s, ast.Assign) and len(s.targets) == 1 and isinstance(s.targets[0], ast.Name) and s.targets[0].id in self.BOOLS:
            return f"(let {s.targets[0].id} := {self.expr(s.value)} in {self.block(rest, k)})"
        if isinstance(s, ast.If) and not s.orelse:
            c = self.expr(s.test)
            inner = [b for b in s.body if not is_debug(b)]
            if len(inner) == 1 and D(inner[0]) == body_of("return ([candidate | node_space], None)")[0]:
                return f"(if {c} then FRet ([candidate], None) else {self.block(rest, k)})"
            if len(inner) == 1 and isinstance(inner[0], ast.Continue):
                return f"(if {c} then FNext (avoid, seeds, sets) else {self.block(rest, k)})"
            raise Unsupported(f"line {s.lineno}: conditional in the loop")
        if d == body_of("candidate_singleton = graph_reduced.mk_subspace(candidate)")[0]:
            return f"(let candidate_singleton := candidate in {self.block(rest, k)})"
        if d == body_of("avoid = avoid.minus(candidate_singleton)")[0]:
            return f"(let avoid := {{| av_spaces := av_spaces avoid; av_states := remove_state candidate_singleton (av_states avoid) |}} in {self.block(rest, k)})"
        if d == body_of("closure = symbolic_attractor_test(sd, node_id, graph_reduced, candidate, avoid)")[0]:
            return f"(let closure := attractor_test N candidate avoid in {self.block(rest, k)})"
        if d == body_of("avoid = avoid.union(closure)")[0]:
            return (f"(match closure with Some cl_ => let avoid := {{| av_spaces := av_spaces avoid; av_states := cl_ ++ av_states avoid |}} in {self.block(rest, k)} "
                    f"| None => FBad end)")                                                   # union with None: TypeError
        if d == body_of("seeds.append(candidate | node_space)")[0]:
            return f"(let seeds := seeds ++ [candidate] in {self.block(rest, k)})"
        if d == body_of("sets.append(closure)")[0]:
            return f"(match closure with Some cl_ => let sets := sets ++ [cl_] in {self.block(rest, k)} | None => FBad end)"
        raise Unsupported(f"line {s.lineno}: loop statement: {d[:200]}")

def translate():
    mod = ast.parse(open(os.path.join(REPO, SRC)).read())
    fs = [n for n in mod.body if isinstance(n, ast.FunctionDef) and n.name == "compute_attractors_symbolic"]
    if len(fs) != 1: raise Unsupported("compute_attractors_symbolic not found exactly once")
    f = fs[0]; a = f.args
    if a.vararg or a.kwarg or a.kwonlyargs or a.posonlyargs or f.decorator_list or [x.arg for x in a.args] != ["sd", "node_id", "candidate_states", "seeds_only"] \
            or len(a.defaults) != 1 or not (isinstance(a.defaults[0], ast.Constant) and a.defaults[0].value is False):
        raise Unsupported("compute_attractors_symbolic: signature or default changed")
    body = [b for b in f.body if not (isinstance(b, ast.Expr) and isinstance(b.value, ast.Constant) and isinstance(b.value.value, str)) and not is_debug(b)]
    n1 = len(PRE)
    if [D(x) for x in body[:n1]] != PRE: raise Unsupported("compute_attractors_symbolic: the preamble differs from the reference text")
    mid = body[n1:len(body) - len(POST)]
    if [D(x) for x in body[len(body) - len(POST):]] != POST: raise Unsupported("compute_attractors_symbolic: the postamble differs from the reference text")
    if len(mid) != 3 or D(mid[0]) != body_of("seeds: list[BooleanSpace] = []")[0] or D(mid[1]) != body_of("sets: list[ColoredVertexSet] = []")[0]:
        raise Unsupported("compute_attractors_symbolic: the declarations before the loop changed")
    loop = mid[2]
    if not (isinstance(loop, ast.For) and not loop.orelse and D(loop.target) == "Tuple(elts=[Name(id='i', ctx=Store()), Name(id='candidate', ctx=Store())], ctx=Store())"
            and D(loop.iter) == expr_of("enumerate(candidate_states_reduced)")):
        raise Unsupported("compute_attractors_symbolic: the loop header changed")
    body_term = Loop().block(loop.body, "FNext (avoid, seeds, sets)")
    return "\n".join([
        "(* PySrcFilter.v -- GENERATED by tools/py2coq_filter.py from the current source of /repo/biobalm/_sd_attractors/attractor_symbolic.py; do not edit.",
        "   compute_attractors_symbolic: preamble and postamble compared with reference texts, the loop translated statement by statement. *)",
        "From Coq Require Import List Bool Arith.", "Import ListNotations.",
        "From BB Require Import BN Brute Filter.", "",
        "Inductive fflow := FRet (r : list state * option (list (list state))) | FNext (st : avoid_set * list state * list (list state)) | FBad.", "",
        "(* for i, candidate in enumerate(candidate_states_reduced): <body> *)",
        "Fixpoint py_filter_for (body : nat -> state -> avoid_set * list state * list (list state) -> fflow) (i : nat) (items : list state)",
        "         (st : avoid_set * list state * list (list state)) : fflow :=",
        "  match items with",
        "  | [] => FNext st",
        "  | c :: r => match body i c st with FNext st' => py_filter_for body (S i) r st' | other => other end",
        "  end.", "",
        f"(* {SRC}: def compute_attractors_symbolic(sd, node_id, candidate_states, seeds_only=False); motifs = the reduced stable motifs of the node's successors ([] for a stub) *)",
        "Definition py_compute_attractors_symbolic (N : net) (seeds_only : bool) (motifs : list space) (candidate_states : list state)",
        "  : option (list state * option (list (list state))) :=",
        "  let avoid := {| av_spaces := motifs; av_states := candidate_states |} in",
        "  let seeds := (@nil state) in let sets := (@nil (list state)) in",
        "  match py_filter_for (fun i candidate st_ => let '(avoid, seeds, sets) := st_ in",
        textwrap.indent(body_term, "         "),
        "       ) 0 candidate_states (avoid, seeds, sets) with",
        "  | FRet r => Some r",
        "  | FNext (_, seeds, sets) => Some (seeds, Some sets)",
        "  | FBad => None",
        "  end.", ""])

def main(argv):
    try:
        t = translate()
    except Unsupported as e:
        print(f"py2coq_filter: FAILED PySrcFilter.v: UNSUPPORTED: {e}", file=sys.stderr)
        return 2
    if len(argv) > 1 and argv[1] == "--check":
        same = os.path.exists(OUT) and open(OUT).read() == t
        print("unchanged" if same else "CHANGED")
        return 0 if same else 1
    if os.path.exists(OUT) and open(OUT).read() == t:
        print("unchanged", os.path.normpath(OUT))
    else:
        open(OUT, "w").write(t)
        print("wrote", os.path.normpath(OUT))
    return 0

if __name__ == "__main__":
    sys.exit(main(sys.argv))
