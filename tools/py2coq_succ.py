#!/usr/bin/env python3
"""py2coq_succ.py -- fail-closed translator of biobalm/control.successions_to_target (the half of succession control that reads the
succession diagram: hot-lava nodes, descendant sets, end points, paths, products of motif lists, feed-forward elimination) into
Gallina: coq/theories/PySrcSucc.v.  Built on the translator class of py2coq_sd.py; embedding: PyLibSd.v, PyLibSd2.v, PyLibSucc.v
(networkx descendants / predecessors / all_simple_paths, itertools.product, functools.reduce -- trusted).  PySrcSuccFacts.v proves the
generated function equal to the model's Control.successions_ff on the diagram left by expand_to_target.
"""
import ast, os, sys, textwrap
sys.path.insert(0, os.path.dirname(os.path.abspath(__file__)))
import py2coq_sd as S
from py2coq_sd import Fn, Unsupported, fail, COQ_TY, DFLT

REPO = S.REPO
OUT = os.path.join(S.OUTDIR, "PySrcSucc.v")
COQ_TY.update({"succlist": "(list (list space))", "natsetmap": "(list (nat * list nat))", "motiflists": "(list (list space))"})
DFLT.update({"succlist": "(@nil (list space))", "natsetmap": "(@nil (nat * list nat))", "motiflists": "(@nil (list space))", "natlist": "(@nil nat)"})

SPEC = dict(name="successions_to_target", path="biobalm/control.py",
            args=[("target", "space"), ("expand_diagram", "bool"), ("skip_feedforward_successions", "bool")], ret="succlist",
            defaults={"expand_diagram": True, "skip_feedforward_successions": False},
            locs={"successions": "succlist", "succession_signatures": "spacelist", "hot_lava_nodes": "natset", "descendant_map": "natsetmap",
                  "is_consistent": "optspace", "is_goal": "bool", "is_minimal": "bool", "found_valid_target_node": "bool", "motif_list": "motiflists",
                  "succession": "spacelist", "signature": "space", "skip_completely": "bool", "existing_signature": "space"},
            loopvars={"s": "nat", "path": "natlist", "succession_tuple": "spacelist", "i": "nat"}, alias=[], fuels=[])

D = ast.dump
def parse_expr(txt):
    return D(ast.parse(textwrap.dedent(txt).strip(), mode="eval").body)

# expressions that are recognised as a whole (compared as syntax trees)
E_NODE_IDS = parse_expr("succession_diagram.node_ids()")
E_DESC = parse_expr("set(nx.descendants(succession_diagram.dag, s))")
E_ANY_PRED = parse_expr("any(descendant_map[p] & hot_lava_nodes for p in succession_diagram.dag.predecessors(s))")
E_PATHS = parse_expr("cast(list[list[int]], nx.all_simple_paths(succession_diagram.dag, source=succession_diagram.root(), target=s))")
E_MOTIFS = parse_expr("[succession_diagram.edge_all_stable_motifs(x, y, reduced=True) for x, y in zip(path[:-1], path[1:])]")
E_PRODUCT = parse_expr("product(*motif_list)")
E_REDUCE = parse_expr("reduce(lambda x, y: x | y, succession)")
E_REVRANGE = parse_expr("reversed(range(len(succession_signatures)))")

class SFn(Fn):
    def is_sd(self, e):
        return isinstance(e, ast.Name) and e.id == "succession_diagram"

    def expr(self, e, want=None):
        env = self.env
        d = D(e)
        isname = lambda x, ty=None: isinstance(x, ast.Name) and x.id in env and (ty is None or env[x.id] == ty)
        if d == E_NODE_IDS:
            return ("(seq 0 (size sd_))", False, "natlist")                     # pinned by PySrcGetters.v: range(len(self))
        if d == E_DESC and env.get("s") == "nat":
            return ("(nx_descendants sd_ s)", False, "natset")
        if d == E_ANY_PRED and env.get("s") == "nat" and env.get("descendant_map") == "natsetmap" and env.get("hot_lava_nodes") == "natset":
            return ("(any_opt (fun p => omap (fun ds_ => sets_meet ds_ hot_lava_nodes) (dm_get descendant_map p)) (predecessors sd_ s))", True, "bool")
        if d == E_PATHS and env.get("s") == "nat":
            return ("(nx_simple_paths sd_ 0 s)", False, "pathlist")
        if d == E_MOTIFS and env.get("path") == "natlist":
            return ("(path_motifs sd_ path)", True, "motiflists")                 # KeyError without an edge
        if d == E_PRODUCT and env.get("motif_list") == "motiflists":
            return ("(Control.product motif_list)", False, "succlist")
        if d == E_REDUCE and env.get("succession") == "spacelist":
            return ("(reduce_union succession)", True, "space")                   # TypeError on an empty sequence
        # succession_diagram.node_is_minimal(s)  (qualified: a local of the function is called is_minimal too)
        if isinstance(e, ast.Call) and isinstance(e.func, ast.Attribute) and e.func.attr == "node_is_minimal" and self.is_sd(e.func.value) and len(e.args) == 1 and not e.keywords:
            a = self.expr(e.args[0])
            if a[2] != "nat" or a[1]: fail(e, "node id")
            return (f"(Diagram.is_minimal sd_ {a[0]})", False, "bool")
        # list(x): a copy of an immutable value
        if isinstance(e, ast.Call) and isinstance(e.func, ast.Name) and e.func.id == "list" and len(e.args) == 1 and not e.keywords and isname(e.args[0], "spacelist"):
            return (e.args[0].id, False, "spacelist")
        # descendant_map[s] & hot_lava_nodes   (used as a truth value)
        if isinstance(e, ast.BinOp) and isinstance(e.op, ast.BitAnd) and isinstance(e.left, ast.Subscript) and isname(e.left.value, "natsetmap") \
                and isname(e.left.slice, "nat") and isname(e.right, "natset") and want == "truth":
            return (f"(omap (fun ds_ => sets_meet ds_ {e.right.id}) (dm_get {e.left.value.id} {e.left.slice.id}))", True, "bool")
        # not X on an optional dict: None and the empty dict are false
        if isinstance(e, ast.UnaryOp) and isinstance(e.op, ast.Not) and isname(e.operand, "optspace"):
            return (f"(match {e.operand.id} with None => true | Some x_ => Nat.eqb (count_fixed x_) 0 end)", False, "bool")
        # l[i] on a list of spaces
        if isinstance(e, ast.Subscript) and isinstance(e.ctx, ast.Load) and isname(e.value, "spacelist") and isname(e.slice, "nat"):
            return (f"(nth_error {e.value.id} {e.slice.id})", True, "space")     # IndexError
        # len(l)
        if isinstance(e, ast.Call) and isinstance(e.func, ast.Name) and e.func.id == "len" and len(e.args) == 1 and not e.keywords and isname(e.args[0], "succlist"):
            return (f"(length {e.args[0].id})", False, "nat")
        if isinstance(e, ast.List) and not e.elts and want in ("succlist", "spacelist"):
            return (DFLT[want], False, want)
        # [[]]
        if isinstance(e, ast.List) and len(e.elts) == 1 and isinstance(e.elts[0], ast.List) and not e.elts[0].elts and want == "succlist":
            return ("[@nil space]", False, "succlist")
        if isinstance(e, ast.Call) and isinstance(e.func, ast.Name) and e.func.id == "set" and not e.args and not e.keywords and want == "natset":
            return ("(@nil nat)", False, "natset")
        if isinstance(e, ast.Dict) and not e.keys and want == "natsetmap":
            return (DFLT["natsetmap"], False, "natsetmap")
        return super().expr(e, want)

    def block(self, stmts):
        if not stmts:
            return self.nxt()
        s, rest = stmts[0], stmts[1:]
        if isinstance(s, ast.Expr) and isinstance(s.value, ast.Constant) and isinstance(s.value.value, str):
            return self.block(rest)
        # succession_diagram.expand_to_target(target=target): the generated public method; its result is ignored, an exception propagates
        if isinstance(s, ast.Expr) and D(s.value) == parse_expr("succession_diagram.expand_to_target(target=target)"):
            return f"(s_after (py_api_expand_to_target fuel N cfg sd_ target None) (fun sd_ => {self.block(rest)}))"
        # return successions
        if isinstance(s, ast.Return) and isinstance(s.value, ast.Name) and self.env.get(s.value.id) == "succlist":
            return f"(SRet sd_ {s.value.id})"
        # if M[s] & H: ...
        if isinstance(s, ast.If) and isinstance(s.test, ast.BinOp) and isinstance(s.test.op, ast.BitAnd):
            c = self.expr(s.test, want="truth")
            if c[2] != "bool" or not c[1]: fail(s, "set intersection as a condition")
            b1 = self.block(s.body); b2 = self.block(s.orelse)
            return self.seq(f"(match {c[0]} with Some c_ => if c_ then {b1} else {b2} | None => SBad sd_ end)", rest)
        # descendant_map[s] = set(nx.descendants(..)) ; descendant_map[s].add(s)
        if isinstance(s, ast.Assign) and len(s.targets) == 1 and isinstance(s.targets[0], ast.Subscript) and isinstance(s.targets[0].value, ast.Name) \
                and self.locs.get(s.targets[0].value.id) == "natsetmap" and isinstance(s.targets[0].slice, ast.Name) and self.env.get(s.targets[0].slice.id) == "nat":
            m, k = s.targets[0].value.id, s.targets[0].slice.id
            self.need_state(m, s)
            v = self.expr(s.value)
            if v[2] != "natset" or v[1]: fail(s, "map value")
            return self.guard(f"(dm_set {m} {k} {v[0]})", False, m, self.block(rest))
        if isinstance(s, ast.Expr) and isinstance(s.value, ast.Call) and isinstance(s.value.func, ast.Attribute) and s.value.func.attr == "add" \
                and isinstance(s.value.func.value, ast.Subscript) and isinstance(s.value.func.value.value, ast.Name) \
                and self.locs.get(s.value.func.value.value.id) == "natsetmap" and isinstance(s.value.func.value.slice, ast.Name) \
                and self.env.get(s.value.func.value.slice.id) == "nat" and len(s.value.args) == 1 and not s.value.keywords:
            m, k = s.value.func.value.value.id, s.value.func.value.slice.id
            self.need_state(m, s)
            a = self.expr(s.value.args[0])
            if a[2] != "nat" or a[1]: fail(s, "set element")
            return f"(match dm_get {m} {k} with Some ds_ => let {m} := dm_set {m} {k} (set_add {a[0]} ds_) in {self.block(rest)} | None => SBad sd_ end)"
        # del l[i]
        if isinstance(s, ast.Delete) and len(s.targets) == 1 and isinstance(s.targets[0], ast.Subscript) and isinstance(s.targets[0].value, ast.Name) \
                and self.locs.get(s.targets[0].value.id) in ("spacelist", "succlist") and isinstance(s.targets[0].slice, ast.Name) and self.env.get(s.targets[0].slice.id) == "nat":
            l, i = s.targets[0].value.id, s.targets[0].slice.id
            self.need_state(l, s)
            if any(lp == l for lp in getattr(self, "iterating", [])): fail(s, "deletion from a list that is being iterated")
            return f"(if Nat.ltb {i} (length {l}) then let {l} := del_nth {i} {l} in {self.block(rest)} else SBad sd_)"     # IndexError
        # X.append(v) on lists of spaces / successions
        if isinstance(s, ast.Expr) and isinstance(s.value, ast.Call) and isinstance(s.value.func, ast.Attribute) and s.value.func.attr == "append" \
                and isinstance(s.value.func.value, ast.Name) and self.locs.get(s.value.func.value.id) == "succlist" and len(s.value.args) == 1 and not s.value.keywords:
            l = s.value.func.value.id
            self.need_state(l, s)
            a = self.expr(s.value.args[0])
            if a[2] != "spacelist" or a[1]: fail(s, "append element type")
            return self.guard(f"({l} ++ [{a[0]}])", False, l, self.block(rest))
        # loops over node paths, over products, and over reversed index ranges (with break)
        if isinstance(s, ast.For) and not s.orelse and isinstance(s.target, ast.Name) and s.target.id in self.spec["loopvars"]:
            v = s.target.id
            has_break = any(isinstance(n_, ast.Break) for n_ in S.walk_no_loops(s.body))
            it = None
            if D(s.iter) == E_REVRANGE and self.spec["loopvars"][v] == "nat":
                # the range is computed once, before the loop
                it = "(rev (seq 0 (length succession_signatures)))"
            else:
                t = self.expr(s.iter)
                if t[1]: fail(s, "raising loop iterable")
                want = {"natlist": "pathlist", "spacelist": "succlist", "nat": "natlist"}[self.spec["loopvars"][v]]
                if t[2] != want: fail(s, "loop iterable type")
                it = t[0]
            if has_break: self.need_state("brk_", s)
            body = self.block(s.body)
            skip = f"if brk_ then {self.nxt()} else " if has_break else ""
            head = (("(let brk_ := false in " if has_break else "(") +
                    f"s_for {it} (fun {v} sd_ (st_ : {self.st_ty()}) => let {self.st_pat()} := st_ in ({skip}{body} : {self.flow_ty()})) sd_ {self.st_tuple()})")
            if not has_break:
                return self.seq(head, rest)
            return f"(match {head} with SNext sd_ st_ => let {self.st_pat()} := st_ in let brk_ := false in {self.block(rest)} | other_ => other_ end)"
        return super().block(stmts)


def translate():
    spec = SPEC
    mod = ast.parse(open(os.path.join(REPO, spec["path"])).read())
    nodes = [n for n in mod.body if isinstance(n, ast.FunctionDef) and n.name == spec["name"]]
    if len(nodes) != 1: raise Unsupported(f"{spec['path']}: function {spec['name']} not found exactly once")
    node = nodes[0]
    a = node.args
    if a.vararg or a.kwarg or a.kwonlyargs or a.posonlyargs or node.decorator_list or [x.arg for x in a.args] != ["succession_diagram"] + [x for x, _ in spec["args"]]:
        raise Unsupported(f"{spec['name']}: signature changed")
    got = dict(zip([x.arg for x in a.args][len(a.args) - len(a.defaults):], a.defaults))
    if set(got) != set(spec["defaults"]) or any(not (isinstance(got[k], ast.Constant) and got[k].value is v) for k, v in spec["defaults"].items()):
        raise Unsupported(f"{spec['name']}: default values changed")
    fn = SFn(spec)
    locs = dict(spec["locs"], brk_="bool")
    fn.locs = locs; fn.env["brk_"] = "bool"
    fn.state = S.assigned_locals(node, locs)
    for n_ in ast.walk(node):                      # del l[i] and m[k].add(x) also assign
        if isinstance(n_, ast.Delete):
            for t in n_.targets:
                if isinstance(t, ast.Subscript) and isinstance(t.value, ast.Name) and t.value.id in locs and t.value.id not in fn.state: fn.state.append(t.value.id)
    if "brk_" not in fn.state: fn.state.append("brk_")
    body = fn.block(node.body)
    sig = " ".join(f"({x} : {COQ_TY[t]})" for x, t in spec["args"])
    init = "".join(f"let {v} := {DFLT[locs[v]]} in " for v in fn.state)
    return "\n".join([
        "(* PySrcSucc.v -- GENERATED by tools/py2coq_succ.py from the current source of /repo/biobalm/control.py; do not edit.",
        "   The definition is the translation of successions_to_target (embedding: PyLibSd.v, PyLibSd2.v, PyLibSucc.v);",
        "   PySrcSuccFacts.v proves it equal to the model's Control.successions_ff after expand_to_target. *)",
        "From Coq Require Import List Bool Arith.", "Import ListNotations.",
        "From BB Require Import BN Diagram PyLib PyLibSd PyLibCore PyLibSd2 Blocks Control PyLibSucc PySrcSdTarget.", "",
        f"(* {spec['path']}: def {spec['name']}(succession_diagram, {', '.join(x for x, _ in spec['args'])}) *)",
        f"Definition py_{spec['name']} (fuel : nat) (N : net) (cfg : config) (sd_ : sd) {sig} : sflow {COQ_TY[fn.ret]} unit :=",
        f"  {init}",
        "  s_close\n" + textwrap.indent(S.pretty(f"({body} : {fn.flow_ty()})"), "    ") + ".", ""])


# ---- succession_control and Intervention.__init__: straight-line glue, compared with reference texts; the emitted reading calls the GENERATED
# ---- successions_to_target (above) and drivers_of_succession (PySrcControl.v)
OUT_CTL = os.path.join(S.OUTDIR, "PySrcSuccCtl.v")
CTL_BODY = '''
interventions: list[Intervention] = []
successions = successions_to_target(
    succession_diagram,
    target=target,
    expand_diagram=True,
    skip_feedforward_successions=skip_feedforward_successions,
)
for succession in successions:
    controls = drivers_of_succession(
        succession_diagram.symbolic,
        succession,
        strategy=strategy,
        max_drivers_per_succession_node=max_drivers_per_succession_node,
        forbidden_drivers=forbidden_drivers,
    )
    intervention = Intervention(controls, strategy, succession)
    if not successful_only or intervention.successful:
        interventions.append(intervention)
return interventions
'''
INIT_BODY = '''
self._control: list[ControlOverrides] = []
for c in control:
    cs = sorted(map(lambda x: sorted(x.items()), c))
    self._control.append(list(map(dict, cs)))  # type: ignore
self._strategy = strategy
self._succession = succession
self._successful = not any(not c for c in control)
'''
PROP_BODY = "return self._successful"

def body_dump(fn_node):
    return [D(b) for b in fn_node.body if not (isinstance(b, ast.Expr) and isinstance(b.value, ast.Constant) and isinstance(b.value.value, str))]

def translate_ctl():
    mod = ast.parse(open(os.path.join(REPO, "biobalm/control.py")).read())
    dump = lambda txt: [D(b) for b in ast.parse(textwrap.dedent(txt)).body]
    fs = [n for n in mod.body if isinstance(n, ast.FunctionDef) and n.name == "succession_control"]
    if len(fs) != 1: raise Unsupported("succession_control not found exactly once")
    f = fs[0]; a = f.args
    want = ["succession_diagram", "target", "strategy", "max_drivers_per_succession_node", "forbidden_drivers", "successful_only", "skip_feedforward_successions"]
    if a.vararg or a.kwarg or a.kwonlyargs or a.posonlyargs or f.decorator_list or [x.arg for x in a.args] != want: raise Unsupported("succession_control: signature changed")
    dfl = [d.value if isinstance(d, ast.Constant) else "?" for d in a.defaults]
    if dfl != ["internal", None, None, True, False]: raise Unsupported("succession_control: default values changed")
    if body_dump(f) != dump(CTL_BODY): raise Unsupported("succession_control: the body differs from the reference text")
    cls = [n for n in mod.body if isinstance(n, ast.ClassDef) and n.name == "Intervention"]
    if len(cls) != 1: raise Unsupported("class Intervention not found exactly once")
    ms = {n.name: n for n in cls[0].body if isinstance(n, ast.FunctionDef)}
    if "__init__" not in ms or [x.arg for x in ms["__init__"].args.args] != ["self", "control", "strategy", "succession"] or body_dump(ms["__init__"]) != dump(INIT_BODY):
        raise Unsupported("Intervention.__init__: differs from the reference text")
    if "successful" not in ms or body_dump(ms["successful"]) != dump(PROP_BODY) or [D(x) for x in ms["successful"].decorator_list] != ["Name(id='property', ctx=Load())"]:
        raise Unsupported("Intervention.successful: differs from the reference text")
    return "\n".join([
        "(* PySrcSuccCtl.v -- GENERATED by tools/py2coq_succ.py from the current source of /repo/biobalm/control.py; do not edit.",
        "   succession_control and Intervention.__init__ / .successful, whose bodies were found identical (as syntax trees) to the reference texts kept in the tool:",
        "   the reading below calls the GENERATED successions_to_target (PySrcSucc.v) and drivers_of_succession (PySrcControl.v).  An Intervention is read as the triple",
        "   (succession, control, successful); the canonical re-ordering of `control` inside __init__ (sorted items, sorted dicts) is presentation and not modelled. *)",
        "From Coq Require Import List Bool Arith.", "Import ListNotations.",
        "From BB Require Import BN Diagram PyLib PyLibSd PyLibSd2 Control PyLibControl PySrcControl PyLibSucc PySrcSucc.", "",
        "(* Intervention(controls, strategy, succession).successful = not any(not c for c in control) *)",
        "Definition py_intervention (controls : list (list space)) (succession : list space) : list space * list (list space) * bool :=",
        "  (succession, controls, negb (existsb (fun c => match c with [] => true | _ => false end) controls)).", "",
        "(* for succession in successions: controls = drivers_of_succession(..); keep the intervention unless successful_only and it is not successful *)",
        "Fixpoint py_sc_loop (N : net) (strategy : bool) (maxd : option nat) (forbidden : option (list nat)) (successful_only : bool) (succs : list (list space))",
        "  : option (list (list space * list (list space) * bool)) :=",
        "  match succs with",
        "  | [] => Some []",
        "  | s :: r => match py_drivers_of_succession N s strategy maxd forbidden with",
        "              | None => None",
        "              | Some controls => let iv := py_intervention controls s in",
        "                                 option_map (fun t => if negb successful_only || snd iv then iv :: t else t) (py_sc_loop N strategy maxd forbidden successful_only r)",
        "              end",
        "  end.", "",
        "(* biobalm/control.py: def succession_control(succession_diagram, target, strategy, max_drivers_per_succession_node, forbidden_drivers, successful_only, skip_feedforward_successions) *)",
        "Definition py_succession_control (fuel : nat) (N : net) (cfg : config) (sd_ : sd) (target : space) (strategy : bool) (maxd : option nat) (forbidden : option (list nat))",
        "    (successful_only skip_feedforward_successions : bool) : sflow (list (list space * list (list space) * bool)) unit :=",
        "  match py_successions_to_target fuel N cfg sd_ target true skip_feedforward_successions with",
        "  | SRet d succs => match py_sc_loop N strategy maxd forbidden successful_only succs with Some l => SRet d l | None => SBad d end",
        "  | SRaise d e => SRaise d e | SBad d => SBad d | SFuel d => SFuel d | SCont d _ => SBad d | SNext d _ => SBad d",
        "  end.", ""])

def main(argv):
    rc = 0
    for out, fn, label in ((OUT, translate, "PySrcSucc.v"), (OUT_CTL, translate_ctl, "PySrcSuccCtl.v")):
        try:
            t = fn()
        except Unsupported as e:
            print(f"py2coq_succ: FAILED {label}: UNSUPPORTED: {e}", file=sys.stderr)
            rc = 2
            continue
        if len(argv) > 1 and argv[1] == "--check":
            if not (os.path.exists(out) and open(out).read() == t): rc = max(rc, 1)
            continue
        if os.path.exists(out) and open(out).read() == t:
            print("unchanged", os.path.normpath(out))
        else:
            open(out, "w").write(t)
            print("wrote", os.path.normpath(out))
    if len(argv) > 1 and argv[1] == "--check":
        print("unchanged" if rc == 0 else "CHANGED")
    return rc

if __name__ == "__main__":
    sys.exit(main(sys.argv))
