#!/usr/bin/env python3
"""py2coq.py -- fail-closed translator of a few small pure functions of /repo/biobalm into Gallina.

The functions listed in FUNCS are read from the CURRENT source with `ast`, every construct that is not in the
tiny supported subset raises an error (nothing is ever skipped silently, docstrings excepted), and the result is
written to coq/theories/PySrc.v.  coq/theories/PySrcFacts.v proves that each generated function equals the
corresponding function of the hand-written model (subspace, intersect, space_key, place names), so a change to
one of these Python functions changes PySrc.v and breaks a proof obligation unless it is semantically neutral
*and* syntactically close enough for the proof script.

Embedding (coq/theories/PyLib.v, hand-written, part of the trusted base):
  BooleanSpace  dict[str, 0|1]  -> pdict  = list (nat * bool), insertion ordered, keys = variable indices
  str                           -> pstr   = list N (code points)
  int                           -> N ;  bool -> bool ;  network -> number of variables (find_variable k = k if k < n)
  statements                    -> terms of type  flow R S  (FRet r | FRaise | FNext s), s = tuple of the mutable locals
  an expression that can raise (d[k] on a missing key, int(None)) -> option T, sequenced with obind
"""
import ast, sys, os, textwrap

REPO = os.environ.get("VERIF_REPO", "/repo")
OUTDIR = os.path.join(os.path.dirname(os.path.abspath(__file__)), "..", "coq", "theories")
# generated file -> the functions it holds (one file per group of properties, so that a change of one Python function
# breaks the proof obligations of the properties tied to it and of no other)
GROUPS = [("PySrc.v", ["is_subspace", "intersect"]), ("PySrcKey.v", ["space_unique_key"]), ("PySrcPlace.v", ["variable_to_place", "place_to_variable"])]

# function -> (file, argument types, result type, types of the local variables)
FUNCS = [
    ("is_subspace", "biobalm/space_utils.py", [("x", "dict"), ("y", "dict")], "bool", {"var": "key"}),
    ("intersect", "biobalm/space_utils.py", [("x", "dict"), ("y", "dict")], "optdict", {"result": "dict", "k": "key", "v": "bit"}),
    ("space_unique_key", "biobalm/space_utils.py", [("space", "dict"), ("network", "net")], "int", {"key": "int", "k": "key", "v": "bit", "var": "optkey"}),
    ("variable_to_place", "biobalm/petri_net_translation.py", [("variable", "str"), ("positive", "bool")], "str", {}),
    ("place_to_variable", "biobalm/petri_net_translation.py", [("place", "str")], "strbool", {}),
]
COQ_TY = {"dict": "pdict", "bool": "bool", "optdict": "(option pdict)", "int": "N", "key": "nat", "bit": "bool", "optkey": "(option nat)",
          "net": "nat", "str": "pstr", "strbool": "(pstr * bool)"}

class Unsupported(Exception):
    pass

def fail(node, why):
    raise Unsupported(f"line {getattr(node, 'lineno', '?')}: {why}: {ast.dump(node)[:200]}")

def str_lit(s):
    return "[" + "; ".join(str(ord(c)) for c in s) + "]%N"

class Fn:
    def __init__(self, name, args, ret, locs):
        self.name, self.args, self.ret = name, args, ret
        self.env = dict(args); self.env.update(locs)
        self.locs = locs
        self.state = []          # mutable locals threaded through loops / ifs (in order of first assignment)

    # ---- types ----
    def ty(self, e):
        if isinstance(e, ast.Name):
            if e.id not in self.env: fail(e, "unknown name")
            return self.env[e.id]
        if isinstance(e, ast.Constant):
            if e.value is None: return "none"
            if isinstance(e.value, bool): return "bool"
            if isinstance(e.value, int): return "int"
            if isinstance(e.value, str): return "str"
        if isinstance(e, ast.Subscript):
            if isinstance(e.slice, ast.Slice): return "str"
            if self.ty(e.value) == "dict": return "bit"
        if isinstance(e, ast.BinOp): return "int"
        if isinstance(e, (ast.Compare, ast.BoolOp)): return "bool"
        if isinstance(e, ast.UnaryOp) and isinstance(e.op, ast.Not): return "bool"
        if isinstance(e, ast.JoinedStr): return "str"
        if isinstance(e, ast.Tuple): return "strbool"
        if isinstance(e, ast.Call):
            f = e.func
            if isinstance(f, ast.Name) and f.id == "int": return "int"
            if isinstance(f, ast.Attribute) and f.attr == "find_variable": return "optkey"
            if isinstance(f, ast.Attribute) and f.attr == "startswith": return "bool"
        fail(e, "cannot type expression")

    # ---- expressions: returns (term, may_raise); with may_raise the term has type option T ----
    def lift(self, te):
        t, r = te
        return t if r else f"(Some {t})"

    def bind2(self, a, b, f):
        """combine two sub-expressions with the pure function text f(x, y)"""
        (ta, ra), (tb, rb) = a, b
        if not ra and not rb:
            return (f(ta, tb), False)
        if ra and not rb:
            return (f"(omap (fun a_ => {f('a_', tb)}) {ta})", True)
        if rb and not ra:
            return (f"(omap (fun b_ => {f(ta, 'b_')}) {tb})", True)
        return (f"(obind {self.lift(a)} (fun a_ => obind {self.lift(b)} (fun b_ => Some {f('a_', 'b_')})))", True)

    def expr(self, e):
        if isinstance(e, ast.Name):
            self.ty(e); return (e.id, False)
        if isinstance(e, ast.Constant):
            v = e.value
            if v is None: return ("None", False)
            if v is True: return ("true", False)
            if v is False: return ("false", False)
            if isinstance(v, int): return (f"({v})%N", False)
            if isinstance(v, str): return (str_lit(v), False)
            fail(e, "constant")
        if isinstance(e, ast.Subscript):
            if isinstance(e.slice, ast.Slice):
                sl = e.slice
                if sl.upper is not None or sl.step is not None or not isinstance(sl.lower, ast.Constant) or self.ty(e.value) != "str":
                    fail(e, "only s[k:] on strings")
                return (f"(skipn {sl.lower.value} {self.pure(e.value)})", False)
            if self.ty(e.value) != "dict" or not isinstance(e.ctx, ast.Load): fail(e, "subscript")
            return (f"(d_get {self.pure(e.value)} {self.pure(e.slice)})", True)     # KeyError if missing
        if isinstance(e, ast.UnaryOp) and isinstance(e.op, ast.Not):
            t, r = self.expr(e.operand)
            return (f"(omap negb {t})", True) if r else (f"(negb {t})", False)
        if isinstance(e, ast.BoolOp):
            if len(e.values) != 2: fail(e, "boolop arity")
            a, b = self.expr(e.values[0]), self.expr(e.values[1])
            if isinstance(e.op, ast.And):
                if not a[1] and not b[1]: return (f"({a[0]} && {b[0]})", False)
                if not a[1]: return (f"(if {a[0]} then {self.lift(b)} else Some false)", True)                      # short circuit
                return (f"(obind {self.lift(a)} (fun a_ => if a_ then {self.lift(b)} else Some false))", True)
            if isinstance(e.op, ast.Or):
                if not a[1] and not b[1]: return (f"({a[0]} || {b[0]})", False)
                if not a[1]: return (f"(if {a[0]} then Some true else {self.lift(b)})", True)
                return (f"(obind {self.lift(a)} (fun a_ => if a_ then Some true else {self.lift(b)}))", True)
        if isinstance(e, ast.Compare):
            if len(e.ops) != 1: fail(e, "chained comparison")
            op, l, r = e.ops[0], e.left, e.comparators[0]
            if isinstance(op, (ast.In, ast.NotIn)):
                if self.ty(l) != "key" or self.ty(r) != "dict": fail(e, "in")
                t = f"(d_mem {self.pure(l)} {self.pure(r)})"
                return (t if isinstance(op, ast.In) else f"(negb {t})", False)
            if isinstance(op, (ast.Is, ast.IsNot)):
                if self.ty(l) != "optkey" or self.ty(r) != "none": fail(e, "is")
                t = f"(match {self.pure(l)} with None => true | Some _ => false end)"
                return (t if isinstance(op, ast.Is) else f"(negb {t})", False)
            if isinstance(op, (ast.Eq, ast.NotEq)):
                tl, tr_ = self.ty(l), self.ty(r)
                if tl != tr_ or tl not in ("bit", "bool"): fail(e, "==/!= only on 0/1 values")
                res = self.bind2(self.expr(l), self.expr(r), lambda x, y: f"(Bool.eqb {x} {y})")
                if isinstance(op, ast.NotEq):
                    res = (f"(omap negb {res[0]})", True) if res[1] else (f"(negb {res[0]})", False)
                return res
            fail(e, "comparison")
        if isinstance(e, ast.BinOp):
            l, r = self.num(e.left), self.num(e.right)
            fn = {ast.Add: "N.add", ast.Mult: "N.mul", ast.LShift: "N.shiftl", ast.BitOr: "N.lor"}.get(type(e.op))
            if fn is None: fail(e, "operator")
            return self.bind2(l, r, lambda x, y: f"({fn} {x} {y})")
        if isinstance(e, ast.JoinedStr):
            parts = []
            for v in e.values:
                if isinstance(v, ast.Constant) and isinstance(v.value, str): parts.append(str_lit(v.value))
                elif isinstance(v, ast.FormattedValue) and v.conversion == -1 and v.format_spec is None and self.ty(v.value) == "str":
                    parts.append(self.pure(v.value))
                else: fail(e, "f-string part")
            return ("(" + " ++ ".join(parts) + ")", False)
        if isinstance(e, ast.Tuple):
            if len(e.elts) != 2: fail(e, "tuple")
            return (f"({self.pure(e.elts[0])}, {self.pure(e.elts[1])})", False)
        if isinstance(e, ast.Call):
            f = e.func
            if e.keywords: fail(e, "keywords")
            if isinstance(f, ast.Name) and f.id == "int" and len(e.args) == 1:
                return self.num(e.args[0])
            if isinstance(f, ast.Attribute) and f.attr == "find_variable" and self.ty(f.value) == "net" and len(e.args) == 1 and self.ty(e.args[0]) == "key":
                return (f"(net_find {self.pure(f.value)} {self.pure(e.args[0])})", False)
            if isinstance(f, ast.Attribute) and f.attr == "startswith" and self.ty(f.value) == "str" and len(e.args) == 1 and self.ty(e.args[0]) == "str":
                return (f"(starts_with {self.pure(e.args[0])} {self.pure(f.value)})", False)
        fail(e, "unsupported expression")

    def num(self, e):
        """expression used as a number: bits are 0/1, an Optional index raises on None (int(None) is a TypeError)"""
        t = self.ty(e)
        te = self.expr(e)
        if t == "int": return te
        if t == "bit":
            return (f"(omap N.b2n {te[0]})", True) if te[1] else (f"(N.b2n {te[0]})", False)
        if t == "optkey":
            if te[1]: fail(e, "nested raising optional")
            return (f"(omap N.of_nat {te[0]})", True)
        if t == "key":
            return (f"(omap N.of_nat {te[0]})", True) if te[1] else (f"(N.of_nat {te[0]})", False)
        fail(e, "not a number")

    def pure(self, e):
        t, r = self.expr(e)
        if r: fail(e, "expression may raise in a context where that is not supported")
        return t

    # ---- statements ----
    def st_tuple(self):
        return "tt" if not self.state else ("(" + ", ".join(self.state) + ")" if len(self.state) > 1 else self.state[0])
    def st_ty(self):
        tys = [COQ_TY[self.locs[v]] for v in self.state]
        return "unit" if not tys else ("(" + " * ".join(tys) + ")" if len(tys) > 1 else tys[0])
    def flow_ty(self):
        return f"flow {COQ_TY[self.ret]} {self.st_ty()}"
    def st_pat(self):
        return "_" if not self.state else ("'(" + ", ".join(self.state) + ")" if len(self.state) > 1 else self.state[0])

    def block(self, stmts):
        if not stmts:
            return f"FNext {self.st_tuple()}"
        s, rest = stmts[0], stmts[1:]
        if isinstance(s, ast.Expr) and isinstance(s.value, ast.Constant) and isinstance(s.value.value, str):
            return self.block(rest)                                   # docstring
        if isinstance(s, ast.Return):
            if s.value is None: fail(s, "bare return")
            t, r = self.expr(s.value)
            if self.ret == "optdict":
                t = t if self.ty(s.value) == "none" else (f"(omap Some {t})" if r else f"(Some {t})")
            return f"(match {t} with Some r_ => FRet r_ | None => FRaise end)" if r else f"FRet {t}"
        if isinstance(s, ast.Raise):
            return "FRaise"
        if isinstance(s, (ast.Assign, ast.AnnAssign, ast.AugAssign)):
            if isinstance(s, ast.Assign):
                if len(s.targets) != 1: fail(s, "multiple targets")
                tgt, val = s.targets[0], s.value
            else:
                tgt, val = s.target, s.value
            if val is None: fail(s, "declaration without value")
            if isinstance(tgt, ast.Subscript):
                if not isinstance(tgt.value, ast.Name) or self.ty(tgt.value) != "dict" or self.ty(val) != "bit": fail(s, "item assignment")
                name = tgt.value.id
                term, r = f"(d_set {name} {self.pure(tgt.slice)} {self.pure(val)})", False
            elif isinstance(tgt, ast.Name):
                name = tgt.id
                if name not in self.locs: fail(s, "assignment to an undeclared local")
                if isinstance(s, ast.AugAssign):
                    if not isinstance(s.op, ast.BitOr) or self.locs[name] != "int": fail(s, "augmented assignment")
                    term, r = self.bind2((name, False), self.num(val), lambda x, y: f"(N.lor {x} {y})")
                elif isinstance(val, ast.Dict) and not val.keys and self.locs[name] == "dict":
                    term, r = "(@nil (nat * bool))", False
                else:
                    if self.ty(val) != self.locs[name] and not (self.locs[name] == "int" and self.ty(val) == "int"): fail(s, "type of assignment")
                    term, r = self.expr(val)
            else:
                fail(s, "assignment target")
            if name not in self.state: fail(s, f"local {name} not in the threaded state")
            k = self.block(rest)
            return f"(match {term} with Some {name} => {k} | None => FRaise end)" if r else f"(let {name} := {term} in {k})"
        if isinstance(s, ast.If):
            c, r = self.expr(s.test)
            if self.ty(s.test) != "bool": fail(s, "condition type")
            b1, b2 = self.block(s.body), self.block(s.orelse)
            head = f"(match {c} with Some c_ => if c_ then {b1} else {b2} | None => FRaise end)" if r else f"(if {c} then {b1} else {b2})"
            return self.seq(head, rest)
        if isinstance(s, ast.For):
            if s.orelse: fail(s, "for-else")
            it = s.iter
            if isinstance(it, ast.Name) and self.ty(it) == "dict" and isinstance(s.target, ast.Name) and self.env.get(s.target.id) == "key":
                items, pat = f"(d_keys {it.id})", s.target.id
            elif isinstance(it, ast.Call) and isinstance(it.func, ast.Attribute) and it.func.attr == "items" and not it.args \
                    and self.ty(it.func.value) == "dict" and isinstance(s.target, ast.Tuple) and len(s.target.elts) == 2 \
                    and all(isinstance(x, ast.Name) for x in s.target.elts) \
                    and self.env.get(s.target.elts[0].id) == "key" and self.env.get(s.target.elts[1].id) == "bit":
                items, pat = f"(d_items {self.pure(it.func.value)})", f"'({s.target.elts[0].id}, {s.target.elts[1].id})"
            else:
                fail(s, "loop shape")
            body = self.block(s.body)
            head = f"(py_for {items} (fun {pat} (st_ : {self.st_ty()}) => let {self.st_pat()} := st_ in ({body} : {self.flow_ty()})) {self.st_tuple()})"
            return self.seq(head, rest)
        fail(s, "unsupported statement")

    def seq(self, head, rest):
        if not rest:
            return head
        return f"(match {head} with FNext st_ => let {self.st_pat()} := st_ in {self.block(rest)} | FRet r_ => FRet r_ | FRaise => FRaise end)"

def assigned_locals(fn_node, locs):
    out = []
    for n in ast.walk(fn_node):
        tgt = None
        if isinstance(n, ast.Assign) and len(n.targets) == 1: tgt = n.targets[0]
        elif isinstance(n, (ast.AnnAssign, ast.AugAssign)): tgt = n.target
        if tgt is None: continue
        name = tgt.id if isinstance(tgt, ast.Name) else (tgt.value.id if isinstance(tgt, ast.Subscript) and isinstance(tgt.value, ast.Name) else None)
        if name in locs and name not in out:
            out.append(name)
    return out

def translate(fname, names):
    parts = [f"(* {fname} -- GENERATED by tools/py2coq.py from the current sources of /repo/biobalm; do not edit.",
             "   Each definition is the translation of the Python function of the same name (see the header of the",
             "   translator for the embedding).  PySrcFacts.v proves them equal to the model's functions. *)",
             "From Coq Require Import List Bool Arith NArith.", "Import ListNotations.", "From BB Require Import PyLib.", ""]
    for name, path, args, ret, locs in FUNCS:
        if name not in names: continue
        src = open(os.path.join(REPO, path)).read()
        mod = ast.parse(src)
        nodes = [n for n in mod.body if isinstance(n, ast.FunctionDef) and n.name == name]
        if len(nodes) != 1: raise Unsupported(f"{path}: function {name} not found exactly once")
        node = nodes[0]
        a = node.args
        if a.vararg or a.kwarg or a.kwonlyargs or a.posonlyargs or a.defaults or [x.arg for x in a.args] != [x for x, _ in args]:
            raise Unsupported(f"{name}: signature changed: {[x.arg for x in a.args]}")
        if node.decorator_list: raise Unsupported(f"{name}: decorators")
        fn = Fn(name, args, ret, locs)
        fn.state = assigned_locals(node, locs)
        body = fn.block(node.body)
        sig = " ".join(f"({x} : {COQ_TY[t]})" for x, t in args)
        init = "".join(f"let {v} := {dflt(locs[v])} in " for v in fn.state)
        parts.append(f"(* {path}: def {name}({', '.join(x for x, _ in args)}) *)")
        parts.append(f"Definition py_{name} {sig} : option {COQ_TY[ret]} :=")
        parts.append(f"  {init}")
        parts.append("  match\n" + textwrap.indent(pretty(f"({body} : {fn.flow_ty()})"), "    ") + f"\n  with FRet r_ => Some r_ | FRaise => None | FNext _ => None end.")
        parts.append("")
    return "\n".join(parts)

def dflt(t):
    return {"dict": "(@nil (nat * bool))", "int": "0%N", "optkey": "(@None nat)", "bit": "false", "key": "0"}[t]

def pretty(t, width=110):
    """break the one-line term at ' with ', ' in ' and ' else ' for readability (no semantic content)"""
    out, depth, line = [], 0, ""
    i = 0
    while i < len(t):
        c = t[i]
        line += c
        if c == "(": depth += 1
        if c == ")": depth -= 1
        for kw in (" with ", " in ", " else ", " then "):
            if t.startswith(kw, i + 1 - len(kw)) and len(line) > 60:
                out.append(line.rstrip()); line = "  " * min(depth, 12)
                break
        i += 1
    out.append(line)
    return "\n".join(out)

def _also_sd():
    """the strategy drivers (coq/theories/PySrcSd.v) are regenerated by the same command"""
    sys.path.insert(0, os.path.dirname(os.path.abspath(__file__)))
    import py2coq_sd, py2coq_core, py2coq_perc, py2coq_blocks, py2coq_getters, py2coq_succ, py2coq_names, py2coq_clingo, py2coq_retained, py2coq_filter, py2coq_collect
    a = py2coq_sd.main(sys.argv)
    b = py2coq_core.main(sys.argv)
    c = py2coq_perc.main(sys.argv)
    d = py2coq_blocks.main(sys.argv)
    e = py2coq_getters.main(sys.argv)
    f = py2coq_succ.main(sys.argv)
    g = py2coq_names.main(sys.argv)
    h = py2coq_clingo.main(sys.argv)
    i = py2coq_retained.main(sys.argv)
    j = py2coq_filter.main(sys.argv)
    k = py2coq_collect.main(sys.argv)
    return max(a, b, c, d, e, f, g, h, i, j, k)

if __name__ == "__main__":
    rc_sd = 0
    if "--no-sd" in sys.argv:
        sys.argv.remove("--no-sd")
    else:
        rc_sd = _also_sd()
    texts, failed = [], []
    for f, names in GROUPS:
        try:
            texts.append((os.path.join(OUTDIR, f), translate(f, names)))
        except Unsupported as e:
            print(f"py2coq: FAILED {f}: UNSUPPORTED: {e}", file=sys.stderr)
            failed.append(f)
    if len(sys.argv) > 1 and sys.argv[1] == "--check":
        same = not failed and all(os.path.exists(o) and open(o).read() == t for o, t in texts)
        print("unchanged" if same else "CHANGED")
        sys.exit(0 if (same and rc_sd == 0) else 1)
    for o, t in texts:
        if os.path.exists(o) and open(o).read() == t:
            print("unchanged", os.path.normpath(o))            # keep the timestamp: nothing to rebuild
        else:
            open(o, "w").write(t)
            print("wrote", os.path.normpath(o))
    sys.exit(2 if (failed or rc_sd == 2) else 0)
