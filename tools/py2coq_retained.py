#!/usr/bin/env python3
"""py2coq_retained.py -- fail-closed translator of biobalm/_sd_attractors/attractor_candidates.make_heuristic_retained_set into Gallina
(coq/theories/PySrcRetained.v).  Built on the translator class of py2coq_sd.py (statements, loops, conditionals, `continue`); adds the dict that
holds the retained set (an ordered association list: the code iterates it in insertion order), iteration over the keys of a space (in variable
order: spaces are keyed in variable order throughout the library's own constructions -- embedding assumption, as for the other translators),
`len(set(a) & set(nfvs))`, `l[0]`, `space[x]`, and -- compared with a reference text, not translated -- the two statements that ask the BDD of
the update function whether most of its valuations are true (= Candidates.majority on the node's space).
PySrcRetainedFacts.v proves the generated function equal to Candidates.heuristic_retained.
"""
import ast, os, sys, textwrap
sys.path.insert(0, os.path.dirname(os.path.abspath(__file__)))
import py2coq_sd as S
from py2coq_sd import Fn, Unsupported, fail, COQ_TY, DFLT

REPO = S.REPO
D = ast.dump
OUT = os.path.join(S.OUTDIR, "PySrcRetained.v")
COQ_TY.update({"retdict": "retained", "bddobj": "unit", "pstate": "pst", "greedyres": "(pst * option (retained * list state))"})
DFLT.update({"retdict": "(@nil (nat * bool))", "bddobj": "Datatypes.tt", "space": "(@nil (option bool))", "nat": "0", "pstate": "st0_", "statelist": "(@nil state)", "bool": "false"})

SPEC_G = dict(name="asp_greedy_retained_set_optimization", path="biobalm/_sd_attractors/attractor_candidates.py", greedy=True,
              args=[("retained_set", "retdict"), ("candidate_states", "statelist"), ("avoid_dnf", "spacelist")], ret="greedyres", defaults={},
              locs={"done": "bool", "retained_set": "retdict", "candidate_states": "statelist", "retained_set_2": "retdict", "candidate_states_2": "statelist", "st_p": "pstate"},
              loopvars={"var": "nat"}, alias=[], fuels=["fuel"])
SOLVE = D(ast.parse(textwrap.dedent('''
compute_fixed_point_reduced_STG(
    petri_net,
    retained_set_2,
    avoid_subspaces=avoid_dnf,
    # We don't need all solutions if the result isn't smaller.
    solution_limit=len(candidate_states),
)
''').strip(), mode="eval").body)
FLIP = D(ast.parse("cast(Literal[0, 1], 1 - retained_set_2[var])", mode="eval").body)

SPEC = dict(name="make_heuristic_retained_set", path="biobalm/_sd_attractors/attractor_candidates.py",
            args=[("nfvs", "natlist"), ("avoid_dnf", "spacelist")], ret="retdict", defaults={},
            locs={"retained_set": "retdict", "least_common_child_space": "space", "least_common_nodes": "nat", "common_nodes": "nat"},
            loopvars={"child_space": "space", "x": "nat"}, alias=[], fuels=[])

MAJORITY = [D(x) for x in ast.parse(textwrap.dedent('''
fn_bdd = graph.mk_update_function(x)
if fn_bdd.cardinality() > fn_bdd.l_not().cardinality():
    retained_set[x] = 1
else:
    retained_set[x] = 0
''')).body]

class RFn(Fn):
    def expr(self, e, want=None):
        env = self.env
        isname = lambda x, ty=None: isinstance(x, ast.Name) and x.id in env and (ty is None or env[x.id] == ty)
        # len(set(a) & set(nfvs))
        if isinstance(e, ast.Call) and isinstance(e.func, ast.Name) and e.func.id == "len" and len(e.args) == 1 and not e.keywords \
                and isinstance(e.args[0], ast.BinOp) and isinstance(e.args[0].op, ast.BitAnd):
            l, r = e.args[0].left, e.args[0].right
            ok = all(isinstance(z, ast.Call) and isinstance(z.func, ast.Name) and z.func.id == "set" and len(z.args) == 1 and not z.keywords for z in (l, r))
            if not ok or not isname(l.args[0], "space") or not isname(r.args[0], "natlist"): fail(e, "len of an intersection")
            return (f"(common_count {l.args[0].id} {r.args[0].id})", False, "nat")
        # len(avoid_dnf)
        if isinstance(e, ast.Call) and isinstance(e.func, ast.Name) and e.func.id == "len" and len(e.args) == 1 and not e.keywords and isname(e.args[0], "spacelist"):
            return (f"(length {e.args[0].id})", False, "nat")
        # avoid_dnf[0]
        if isinstance(e, ast.Subscript) and isinstance(e.ctx, ast.Load) and isinstance(e.slice, ast.Constant) and e.slice.value == 0 and type(e.slice.value) is int \
                and isname(e.value, "spacelist"):
            return (f"(hd_error {e.value.id})", True, "space")                   # IndexError
        # space[x]: the value of a fixed variable (KeyError when free)
        if isinstance(e, ast.Subscript) and isinstance(e.ctx, ast.Load) and isname(e.value, "space") and isname(e.slice, "nat"):
            return (f"(nth {e.slice.id} {e.value.id} None)", True, "bit")
        # x in retained_set / x not in retained_set ; x in nfvs
        if isinstance(e, ast.Compare) and len(e.ops) == 1 and isinstance(e.ops[0], (ast.In, ast.NotIn)) and isname(e.left, "nat"):
            c = e.comparators[0]
            t = None
            if isname(c, "retdict"): t = f"(ret_mem {e.left.id} {c.id})"
            elif isname(c, "natlist"): t = f"(mem_nat {e.left.id} {c.id})"
            if t is not None:
                return (t if isinstance(e.ops[0], ast.In) else f"(negb {t})", False, "bool")
        if self.spec.get("greedy"):
            # len(candidate_states) / len(avoid_dnf)
            if isinstance(e, ast.Call) and isinstance(e.func, ast.Name) and e.func.id == "len" and len(e.args) == 1 and not e.keywords and isname(e.args[0], "statelist"):
                return (f"(length {e.args[0].id})", False, "nat")
            # retained_set.copy(): immutable value
            if isinstance(e, ast.Call) and isinstance(e.func, ast.Attribute) and e.func.attr == "copy" and not e.args and not e.keywords and isname(e.func.value, "retdict"):
                return (e.func.value.id, False, "retdict")
        if isinstance(e, ast.Dict) and not e.keys and want == "retdict":
            return (DFLT["retdict"], False, "retdict")
        return super().expr(e, want)

    def block(self, stmts):
        if not stmts:
            return self.nxt()
        s, rest = stmts[0], stmts[1:]
        if isinstance(s, ast.Expr) and isinstance(s.value, ast.Constant) and isinstance(s.value.value, str):
            return self.block(rest)
        if self.spec.get("greedy"):
            r = self.greedy_stmt(s, stmts, rest)
            if r is not None:
                return r
        # fn_bdd = graph.mk_update_function(x); if most valuations are true: retained_set[x] = 1 else: retained_set[x] = 0
        if isinstance(s, ast.Assign) and len(s.targets) == 1 and isinstance(s.targets[0], ast.Name) and s.targets[0].id == "fn_bdd":
            if [D(z) for z in stmts[:2]] != MAJORITY or self.env.get("x") != "nat": fail(s, "the majority test differs from the reference text")
            self.need_state("retained_set", s)
            return f"(let retained_set := ret_set x (majority N S_ x) retained_set in {self.block(stmts[2:])})"
        # retained_set[x] = space[x]
        if isinstance(s, ast.Assign) and len(s.targets) == 1 and isinstance(s.targets[0], ast.Subscript) and isinstance(s.targets[0].value, ast.Name) \
                and self.locs.get(s.targets[0].value.id) == "retdict" and isinstance(s.targets[0].slice, ast.Name) and self.env.get(s.targets[0].slice.id) == "nat":
            R, k = s.targets[0].value.id, s.targets[0].slice.id
            self.need_state(R, s)
            v = self.expr(s.value)
            if v[2] != "bit" or not v[1]: fail(s, "stored value")
            return f"(match {v[0]} with Some b_ => let {R} := ret_set {k} b_ {R} in {self.block(rest)} | None => SBad sd_ end)"
        # for x in <space>: the fixed variables in variable order ; for child_space in avoid_dnf
        if isinstance(s, ast.For) and not s.orelse and isinstance(s.target, ast.Name) and s.target.id in self.spec["loopvars"] and isinstance(s.iter, ast.Name):
            v, it = s.target.id, s.iter.id
            ty = self.env.get(it)
            if self.spec["loopvars"][v] == "nat" and ty == "space":
                items = f"(vars_fixed {it})"
            elif self.spec["loopvars"][v] == "nat" and ty == "natlist":
                items = it
            elif self.spec["loopvars"][v] == "space" and ty == "spacelist":
                items = it
            else:
                fail(s, "loop iterable")
            if any(isinstance(n_, ast.Break) for n_ in S.walk_no_loops(s.body)): fail(s, "break")
            body = self.block(s.body)
            head = (f"(s_for {items} (fun {v} sd_ (st_ : {self.st_ty()}) => let {self.st_pat()} := st_ in ({body} : {self.flow_ty()})) sd_ {self.st_tuple()})")
            return self.seq(head, rest)
        # return retained_set
        if isinstance(s, ast.Return) and isinstance(s.value, ast.Name) and self.env.get(s.value.id) == "retdict":
            return f"(SRet sd_ {s.value.id})"
        return super().block(stmts)


def _greedy_stmt(self, s, stmts, rest):
    isn = lambda x, n: isinstance(x, ast.Name) and x.id == n
    # debug print blocks of this function: if sd.config["debug"]: print(...)
    if isinstance(s, ast.If) and not s.orelse and D(s.test) == "Subscript(value=Attribute(value=Name(id='sd', ctx=Load()), attr='config', ctx=Load()), slice=Constant(value='debug'), ctx=Load())" \
            and all(isinstance(b, ast.Expr) and isinstance(b.value, ast.Call) and isn(b.value.func, "print") for b in s.body):
        return self.block(rest)
    # return (retained_set, []) / (retained_set, candidate_states)
    if isinstance(s, ast.Return) and isinstance(s.value, ast.Tuple) and len(s.value.elts) == 2 and isn(s.value.elts[0], "retained_set"):
        b = s.value.elts[1]
        if isinstance(b, ast.List) and not b.elts: c = "(@nil state)"
        elif isn(b, "candidate_states"): c = "candidate_states"
        else: fail(s, "returned candidates")
        return f"(SRet sd_ (st_p, Some (retained_set, {c})))"
    # retained_set_2[var] = cast(Literal[0, 1], 1 - retained_set_2[var])
    if isinstance(s, ast.Assign) and len(s.targets) == 1 and D(s.targets[0]) == "Subscript(value=Name(id='retained_set_2', ctx=Load()), slice=Name(id='var', ctx=Load()), ctx=Store())":
        if D(s.value) != FLIP or self.env.get("var") != "nat": fail(s, "the flipped value")
        self.need_state("retained_set_2", s)
        return (f"(match find (fun p_ => Nat.eqb (fst p_) var) retained_set_2 with Some p_ => "
                f"let retained_set_2 := ret_set var (negb (snd p_)) retained_set_2 in {self.block(rest)} | None => SBad sd_ end)")      # KeyError
    # candidate_states_2 = compute_fixed_point_reduced_STG(petri_net, retained_set_2, avoid_subspaces=avoid_dnf, solution_limit=len(candidate_states))
    if isinstance(s, ast.Assign) and len(s.targets) == 1 and isn(s.targets[0], "candidate_states_2"):
        if D(s.value) != SOLVE: fail(s, "the solver call differs from the reference text")
        for v in ("candidate_states_2", "st_p"): self.need_state(v, s)
        return (f"(let '(st1_, o_) := solve st_p retained_set_2 (Some (length candidate_states)) in let st_p := st1_ in "
                f"match o_ with Some candidate_states_2 => {self.block(rest)} | None => SRet sd_ (st_p, None) end)")
    # for var in retained_set: the keys of the dict object the loop started with
    if isinstance(s, ast.For) and not s.orelse and isn(s.target, "var") and isn(s.iter, "retained_set"):
        if any(isinstance(n_, ast.Break) for n_ in S.walk_no_loops(s.body)): fail(s, "break")
        body = self.block(s.body)
        head = (f"(s_for (map fst retained_set) (fun var sd_ (st_ : {self.st_ty()}) => let {self.st_pat()} := st_ in ({body} : {self.flow_ty()})) sd_ {self.st_tuple()})")
        return self.seq(head, rest)
    return None
RFn.greedy_stmt = _greedy_stmt


def translate_greedy():
    spec = SPEC_G
    mod = ast.parse(open(os.path.join(REPO, spec["path"])).read())
    nodes = [n for n in mod.body if isinstance(n, ast.FunctionDef) and n.name == spec["name"]]
    if len(nodes) != 1: raise Unsupported(f"{spec['path']}: function {spec['name']} not found exactly once")
    node = nodes[0]
    a = node.args
    if a.vararg or a.kwarg or a.kwonlyargs or a.posonlyargs or a.defaults or node.decorator_list \
            or [x.arg for x in a.args] != ["sd", "node_id", "petri_net", "retained_set", "candidate_states", "avoid_dnf"]:
        raise Unsupported(f"{spec['name']}: signature changed")
    fn = RFn(spec)
    locs = dict(spec["locs"])
    fn.state = S.assigned_locals(node, locs)
    for hidden in ("retained_set_2", "st_p"):
        if hidden not in fn.state: fn.state.append(hidden)
    body = fn.block(node.body)
    if fn.fuels: raise Unsupported(f"{spec['name']}: fewer while loops than declared")
    params = {"retained_set", "candidate_states"}
    init = "".join(f"let {v} := {DFLT[locs[v]]} in " for v in fn.state if v not in params)
    # falling off the end is impossible (the function ends in a return): the closing SNext is read as a Python run-time error
    return "\n".join([
        f"(* {spec['path']}: def {spec['name']}(sd, node_id, petri_net, retained_set, candidate_states, avoid_dnf)",
        "   compute_fixed_point_reduced_STG is the next entry of the solver tape (Candidates.solve: the call is logged; an exhausted tape ends the run with None) *)",
        f"Definition py_{spec['name']} (fuel : nat) (st0_ : pst) (retained_set : retained) (candidate_states : list state) (avoid_dnf : list space) : option (pst * option (retained * list state)) :=",
        f"  let sd_ := no_sd in {init}",
        "  s_value\n" + textwrap.indent(S.pretty(f"({body} : {fn.flow_ty()})"), "    ") + ".", ""])


def translate():
    spec = SPEC
    mod = ast.parse(open(os.path.join(REPO, spec["path"])).read())
    nodes = [n for n in mod.body if isinstance(n, ast.FunctionDef) and n.name == spec["name"]]
    if len(nodes) != 1: raise Unsupported(f"{spec['path']}: function {spec['name']} not found exactly once")
    node = nodes[0]
    a = node.args
    if a.vararg or a.kwarg or a.kwonlyargs or a.posonlyargs or a.defaults or node.decorator_list or [x.arg for x in a.args] != ["graph", "nfvs", "avoid_dnf"]:
        raise Unsupported(f"{spec['name']}: signature changed")
    fn = RFn(spec)
    locs = dict(spec["locs"])
    fn.state = S.assigned_locals(node, locs)
    for n_ in ast.walk(node):                      # retained_set[x] = v also assigns
        if isinstance(n_, ast.Assign) and isinstance(n_.targets[0], ast.Subscript) and isinstance(n_.targets[0].value, ast.Name) \
                and n_.targets[0].value.id in locs and n_.targets[0].value.id not in fn.state:
            fn.state.append(n_.targets[0].value.id)
    body = fn.block(node.body)
    init = "".join(f"let {v} := {DFLT[locs[v]]} in " for v in fn.state)
    return "\n".join([
        "(* PySrcRetained.v -- GENERATED by tools/py2coq_retained.py from the current source of /repo/biobalm/_sd_attractors/attractor_candidates.py; do not edit.",
        "   make_heuristic_retained_set; `graph` is the asynchronous graph of the node's percolated network: S_ is that node's space.",
        "   PySrcRetainedFacts.v proves the generated function equal to Candidates.heuristic_retained. *)",
        "From Coq Require Import List Bool Arith.", "Import ListNotations.",
        "From BB Require Import BN Brute Diagram Candidates Control PyLib PyLibSd PyLibPerc.", "",
        f"(* {spec['path']}: def {spec['name']}(graph, nfvs, avoid_dnf) *)",
        f"Definition py_{spec['name']} (N : net) (S_ : space) (nfvs : list nat) (avoid_dnf : list space) : option retained :=",
        f"  let sd_ := no_sd in {init}",
        "  s_value\n" + textwrap.indent(S.pretty(f"({body} : {fn.flow_ty()})"), "    ") + ".", "", translate_greedy()])


def main(argv):
    try:
        t = translate()
    except Unsupported as e:
        print(f"py2coq_retained: FAILED PySrcRetained.v: UNSUPPORTED: {e}", file=sys.stderr)
        return 2
    if len(argv) > 1 and argv[1] == "--check":
        same = os.path.exists(OUT) and open(OUT).read() == t
        print("unchanged" if same else "CHANGED")
        return 0 if same else 1
    if os.path.exists(OUT) and open(OUT).read() == t:
        print("unchanged", os.path.normpath(OUT))
    else:
        open(OUT, "w").write(t)
        print("wrote", os.path.normpath(OUT))
    return 0

if __name__ == "__main__":
    sys.exit(main(sys.argv))
