IMPORTS = """From Coq Require Import List Bool Arith NArith Lia Relations Permutation.
Import ListNotations.
From BB Require Import BN Brute SpaceFacts TrapFacts PercolateFacts AttractorFacts Diagram Invariants Checks Filter
  Strict PetriNet Control Meta FilterFacts PetriNetFacts TrappistFacts DiagramStruct DiagramSem1 DiagramCache
  DiagramDepth DiagramComplete Termination ControlFacts MetaFacts Candidates StrictFacts MinExpandFacts CandidatesFacts SymbolicTest SymbolicTestFacts Signed ReductionFacts ControlFacts2 Main Blocks BlocksFacts ObsFacts OwnerFacts CandidatesTerm
  PartialOwner BlockMath BlockComplete ASeeds ASeedsFacts LogChecks SkipRule SkipRuleFacts Names NamesFacts Perm PermFacts SCC SCCFacts SCCStruct ControlFacts3 SCCTerm FilterSym Main2 StrategyFacts ControlFacts4 SkipRuleFacts2 SCCComplete SCCAttr BlockComplete2 ControlFacts5 Iso SkipSem ControlFacts6."""

# modules of the translator tie: imported only by the properties that restate theorems about generated code, so that a
# change of the translated Python text breaks the proof obligations of exactly these properties
PY_SPACE = "PyLib PySrcBase PySrc PySrcFacts"            # space_utils.is_subspace / intersect
PY_KEY = "PyLib PySrcBase PySrcKey PySrcKeyFacts"         # space_utils.space_unique_key
PY_PLACE = "PyLib PySrcBase PySrcPlace PySrcPlaceFacts"   # petri_net_translation.variable_to_place / place_to_variable
PY_SD = "PyLib PyLibSd PySrcSdBase PySrcSd PySrcSdFacts"              # _sd_algorithms/expand_bfs.py, expand_dfs.py
PY_TARGET = "PyLibSd PySrcSdBase PySrcSdTarget PySrcSdTargetFacts"   # _sd_algorithms/expand_to_target.py
PY_CORE = "PyLibCore PySrcCore PySrcCoreFacts"                    # succession_diagram.py: _update_node_depth, _ensure_edge, _ensure_node, _expand_one_node, node_successors, node_is_minimal, __len__, root
PY_CORE2 = PY_CORE + " PyLibCore2 PySrcCore2 PySrcCore2Facts PySrcInitFacts"    # succession_diagram.py: skip_to_minimal, skip_remaining, depth, reclaim_node_data
PY_MIN = "PyLib PyLibSd PyLibCore PyLibSd2 PySrcSdBase PySrcSdMin PySrcSdMinFacts"   # _sd_algorithms/expand_minimal_spaces.py
PY_PERC = "PyLib PyLibSd PyLibPerc PySrcPerc PySrcPercFacts PyLibDrivers PySrcDrivers PySrcDriversFacts"       # space_utils.percolate_space_strict, percolation_conflicts
PY_SCC = "PyLib PyLibSd PyLibCore PyLibSd2 PyLibScc PySrcSdBase PySrcSdScc PySrcSdSccFacts"     # expand_source_SCCs.attach_scc_subdiagram
PY_SCCMAIN = PY_SCC + " Control PyLibControl PySrcSdSccMain PySrcSdSccMainFacts"     # expand_source_SCCs.expand_source_SCCs
PY_GETTERS = "PyLib PyLibCore PySrcCore PySrcCoreFacts PySrcGetters PySrcGettersFacts"     # node_ids, stub_ids, expanded_ids, minimal_trap_spaces, find_node, edge_stable_motif, edge_all_stable_motifs (pinned text)
PY_SUCC = "PyLibSucc PySrcSucc PySrcSuccFacts PySrcSuccCtl PySrcSuccCtlFacts"     # control.successions_to_target (translated), succession_control / Intervention (pinned glue)
PY_API = PY_SCCMAIN + " PyLibBlocks PySrcSdBlocks PySrcSdBlocksFacts PySrcApi PySrcEndToEndScc PySrcEndToEndBlocks"     # public methods expand_scc / expand_block / build; expand_source_blocks
PY_CONTROL = "PyLib PyLibSd PyLibPerc PyLibCore PyLibControl PySrcControl PySrcControlFacts PySrcFindDriversFacts PySrcControlCorollaries"    # control.find_drivers, drivers_of_succession
PY_ASEEDS = PY_MIN + " Candidates Blocks ASeeds PySrcSdASeeds PySrcSdASeedsFacts"     # _sd_algorithms/expand_attractor_seeds.py
EXTRA_IMPORTS = {"C12": "Filter PySrcFilter PySrcFilterFacts", "C08": "Candidates Control PyLib PyLibSd PyLibPerc PySrcRetained PySrcRetainedFacts PySrcGreedyFacts", "C09": "PetriNet PySrcClingo PySrcClingoFacts PySrcCollect PySrcCollectFacts", "C17": "Names NamesFacts PySrcNames PySrcNamesFacts", "C02": PY_SD + " " + PY_CORE2 + " PySrcEndToEnd", "C01": PY_API + " Filter PySrcFilter PySrcFilterFacts", "C03": PY_SD + " " + PY_ASEEDS + " PySrcComplFacts " + PY_API + " " + PY_GETTERS, "C04": PY_SD + " " + PY_CORE, "C05": PY_CORE2 + " " + PY_MIN, "C13": PY_SD + " " + PY_TARGET + " " + PY_ASEEDS + " PySrcTermFacts " + PY_API, "C14": PY_CORE2 + " " + PY_SCC + " " + PY_API, "C15": PY_SD + " " + PY_TARGET + " " + PY_ASEEDS + " " + PY_API, "C16": "PyLib PyLibPickle PySrcPickle PySrcPickleFacts " + PY_CORE2,
                 "C06": PY_SPACE + " " + PY_TARGET + " PySrcEndToEndControl " + PY_CONTROL + " " + PY_SUCC, "C07": PY_CONTROL + " PyLibSd2 PySrcSdBase PySrcSdTarget PySrcSdTargetFacts " + PY_SUCC, "C10": PY_PLACE, "C11": PY_PERC, "C19": PY_SD + " " + PY_CORE, "C20": PY_KEY + " " + PY_CORE2 + " PyLibSd PyLibPerc PySrcIso PySrcIsoFacts " + PY_GETTERS}

def imports_for(pid):
    extra = EXTRA_IMPORTS.get(pid)
    return IMPORTS + ("\nFrom BB Require Import " + extra + "." if extra else "")

def imports_all():
    mods = []
    for v in EXTRA_IMPORTS.values():
        for m in v.split():
            if m not in mods: mods.append(m)
    return IMPORTS + ("\nFrom BB Require Import " + " ".join(mods) + "." if mods else "")

EX_NET = """
(* non-vacuity: two bistable switches; x0'=x1, x1'=x0, x2'=x3, x3'=x2 *)
Definition ex_sw : net := [fun s => nth 1 s false; fun s => nth 0 s false; fun s => nth 3 s false; fun s => nth 2 s false].
Definition ex_cfg : config := {| max_motifs := 1000 |}.
"""

SPEC = {}

SPEC["C01"] = dict(title="Reported attractor seeds correspond one-to-one to the network's attractors", comment="""
Model: Filter.compute_attractors_filter is the model of compute_attractors_symbolic (the exact
reachability filter); the candidate list it receives is required to cover the node's attractors
(property C08).  Checks.check_seeds is the predicate evaluated on the implementation's seeds.
OwnerFacts: in a fully expanded diagram every attractor has exactly one owner node, so per-node one-to-one
seeds give a global one-to-one correspondence (global_one_to_one).  Block expansion and attractor-seed expansion
leave stubs: PartialOwner generalises the owner theory to expanded owners; BlockComplete / ASeedsFacts prove that a
run reporting completion leaves no attractor unserved (expand_block_one_to_one, expand_aseeds_one_to_one), under
the contract of the recorded tape -- every block reported clean has no motif-avoidant attractor
(BlockMath.block_clean), every NFVS hits every negative cycle -- which the extracted LogChecks predicates
decide on every replayed run.  The source-SCC strategy is modelled (SCC.v) and replayed id by id against expand_scc, but the
'exactly one' clause fails for it: KNOWN FINDING D15, formally D15_refuted (two different expanded nodes own one attractor);
the 'at least one' clause holds: expand_scc_AttrServed / expand_scc_every_attractor_reported (no attractor is lost).""",
 theorems=[("source_expand_source_SCCs", "py_expand_source_SCCs_spec", "translator tie: the function GENERATED from the current text of expand_source_SCCs.expand_source_SCCs (PySrcSdSccMain.v: root sources, BFS over the levels, recursion through the default expander into the sub-diagrams of the source SCCs, attachment by the generated attach_scc_subdiagram) does what the model's SCC.scc_main does on every diagram satisfying SCCTerm.SI, for every fuel, tape and nesting depth"),
           ("source_expand_source_SCCs_fresh", "py_expand_source_SCCs_fresh", None),
           ("source_expand_source_blocks", "py_expand_source_blocks_spec", "translator tie for the DEFAULT strategy: the function GENERATED from the current text of expand_source_blocks.expand_source_blocks (PySrcSdBlocks.v: level loop with the visited set, size limits, source fast-forward, grouping of successors into blocks, minimal blocks, stable sort, clean-block search reading the is_clean tape) returns the diagram and result of the model's Blocks.expand_block on every well-formed diagram, for every fuel, option combination and tape"),
           ("source_expand_source_blocks_fresh", "py_expand_source_blocks_fresh", None), ("source_public_expand_block", "py_api_expand_block_spec", None),
           ("source_text_build_one_to_one", "py_api_build_one_to_one", "C01 for the SOURCE TEXT of build(): when the generated expand_block with build()'s defaults returns True on a fresh diagram, the clean-block verdicts of the run are right (decided per run) and the seeds of every expanded node are one-to-one with that node's own attractors, then the seeds of the whole diagram are one-to-one with the attractors of the network"),
           ("source_text_expand_scc_every_attractor_reported", "py_api_expand_scc_every_attractor_reported", "C01 ('no attractor is lost') for the SOURCE TEXT of the source-SCC strategy: when the generated public method expand_scc (PySrcApi.v, a call of the generated expand_source_SCCs) returns True on a fresh diagram without the motif-avoidance shortcut, every attractor is reported by an expanded node whose seeds are one-to-one with its own attractors"),
           ("source_compute_attractors_symbolic", "py_compute_attractors_symbolic_spec", "translator tie for the candidate filter: the function GENERATED from the current text of attractor_symbolic.compute_attractors_symbolic (PySrcFilter.v: preamble / postamble compared with reference texts, the loop -- candidate order, the unchecked-last-candidate shortcut, avoid.minus before the test, avoid.union after a success, the appends -- translated statement by statement) is the model's compute_attractors_filter, to which filter_exact applies"),
           ("filter_exact", "filter_exact", "given covering candidates, the filter returns exactly one seed per attractor of the node, and the sets are the attractors"),
           ("filter_exact_seeds_only", "filter_exact_seeds_only", "the seeds_only shortcut (last candidate of a pseudo-minimal node) is sound"),
           ("check_seeds_ok", "check_seeds_ok", "the verdict predicate run on the implementation's output is exact"),
           ("attractors_sound", "attractors_b_sound", "the brute-force attractor list used as oracle: every element is an attractor"),
           ("attractors_complete", "attractors_b_complete", "... and every attractor state is in one of them"),
           ("attractors_disjoint", "attractors_b_disjoint", None),
           ("node_attractors_sound", "node_attractors_b_sound", None),
           ("node_attractors_complete", "node_attractors_b_complete", None),
           ("reaches_attractor", "reaches_attractor", "every state reaches an attractor (terminal SCCs exist)"),
           ("attractor_in_percolation", "attractor_in_percolation", "attractors of a trap space stay inside its percolation (seeds lie in the node space)"),
           ("pipeline_then_filter_exact", "pipeline_then_filter_exact", "candidate pipeline + filter = one seed per attractor of the node, given an NFVS"),
           ("nfvs_reduction", "nfvs_reduction", None),
           ("owner_exists", "owner_exists", "every attractor has an owner node in the fully expanded diagram"),
           ("owner_unique", "owner_unique", "... and only one"), ("global_one_to_one", "global_one_to_one", "per-node exactness gives the global bijection"),
           ("partial_one_to_one", "partial_one_to_one", "diagrams with stubs: seeds of the EXPANDED nodes are one-to-one with the attractors once every attractor has an expanded owner"),
           ("owner_unique_partial", "owner_unique_partial", None),
           ("ff_form_owns_nothing", "ff_form_owns_nothing", "source shortcut: the node whose successors are the source valuations owns no attractor (its seeds are set to [])"),
           ("clean_block_covers", "clean_block_covers", "the clean-block argument: if the block sub-network has no motif-avoidant attractor, every attractor of the node lies in a motif of that block"),
           ("proj_attractor", "proj_attractor", "attractors project onto a regulator-closed block"),
           ("block_expansion_attractors_served", "expand_block_AttrServed", None),
           ("block_expansion_emptied_sound", "expand_block_emptied_sound", "nodes whose seeds block expansion sets to [] own nothing"),
           ("block_expansion_one_to_one", "expand_block_one_to_one", "block expansion with motif-avoidance checks, reporting completion, honest is_clean tape"),
           ("clean_log_check_exact", "clean_log_ok_b_spec", "the run-time check of the is_clean tape is exact"),
           ("pruned_successor_hides_nothing", "no_new_candidate_sound", "attractor-seed expansion: a successor without new candidates contains no attractor outside the expanded siblings"),
           ("aseeds_expansion_attractors_served", "expand_aseeds_AttrServed", None),
           ("aseeds_expansion_one_to_one", "expand_aseeds_one_to_one", "attractor-seed expansion from any diagram reached by plain operations"),
           ("nfvs_log_check_exact", "nfvs_log_ok_b_spec", "the run-time check of the NFVS tape is exact"),
           ("scc_strategy_refuted", "D15_refuted", "KNOWN FINDING D15: in the diagram the source-SCC strategy builds for a 6-variable network two expanded nodes own the same attractor"),
           ("scc_witness_facts", "d15_facts", None),
           ("filter_with_symbolic_test_exact", "compute_attractors_sym_exact", "the exactness of the filter holds with the real reachability procedure, for every heuristic tape"),
           ("node_seeds_exact", "node_seeds_exact", "one node, end to end: NFVS -> candidate pipeline (every option, limit, tape) -> filter with the real reachability procedure = exactly one seed per attractor of the node"),
           ("scc_strategy_loses_nothing", "expand_scc_AttrServed", "source-SCC strategy from a fresh diagram: every attractor has an expanded owner"),
           ("scc_strategy_every_attractor_reported", "expand_scc_every_attractor_reported", "... so exact per-node seeds represent every attractor at least once (D15 is only about duplicates)"),
           ("block_expansion_one_to_one_from_any_plain_diagram", "expand_block_one_to_one_from", "after the D18 fix: block expansion started on any diagram reached by plain operations")],
 examples=EX_NET + """
Example C01_example_attractors : length (attractors_b ex_sw) = 4.
Proof. vm_compute. reflexivity. Qed.
Example C01_example_filter : fst (compute_attractors_filter ex_sw false [] (all_states 4)) <> [].
Proof. vm_compute. discriminate. Qed.
(* the hypotheses of expand_block_one_to_one / expand_aseeds_one_to_one are met by concrete runs *)
Example C01_example_block : snd (expand_block 100 ex_sw ex_cfg (init ex_sw) true true None (repeat true 20)) = RBool true /\\
  clean_log_ok_b ex_sw (fst (expand_block_log 100 ex_sw ex_cfg (init ex_sw) true true None (repeat true 20))) = true /\\
  length (fst (expand_block_log 100 ex_sw ex_cfg (init ex_sw) true true None (repeat true 20))) = 3.
Proof. vm_compute. repeat split; reflexivity. Qed.
Example C01_example_aseeds :
  snd (expand_aseeds 100 ex_sw ex_cfg (init ex_sw) None (min_traps_b ex_sw (top_space 4)) (repeat [] 9)) = RBool true /\\
  nfvs_log_ok_b ex_sw (expand_aseeds_log 100 ex_sw ex_cfg (init ex_sw) None (min_traps_b ex_sw (top_space 4)) (repeat [] 9)) = true /\\
  length (expand_aseeds_log 100 ex_sw ex_cfg (init ex_sw) None (min_traps_b ex_sw (top_space 4)) (repeat [] 9)) = 2.
Proof. vm_compute. repeat split; reflexivity. Qed.
""")

SPEC["C02"] = dict(title="A fully expanded diagram is exactly the hierarchy of percolated trap spaces", comment="""
Model: Diagram.expand_bfs / expand_dfs from Diagram.init (compared node by node, id by id, with the
real expand_bfs / expand_dfs on every run).  Hierarchy = well-formed, all nodes trap spaces and
percolation-closed, all expanded, Faithful (out-edges carry exactly the maximal trap spaces of the node,
each once; at the root those fixing every source), root = percolation of the whole space.""",
 theorems=[("source_expand_one_node", "py_expand_one_node_spec", "translator tie: the function GENERATED from the current text of SuccessionDiagram._expand_one_node (PySrcCore.v; embedding PyLibCore.v) computes Diagram.expand_one for every diagram satisfying the class invariant CoreInv, every oracle for the percolated-net cache, and preserves CoreInv"),
           ("source_ensure_node", "py_ensure_node_spec", "... _ensure_node / _ensure_edge / _update_node_depth compute Diagram.ensure_node"),
           ("source_class_invariant_initially", "init_CoreInv", None),
           ("source_text_end_to_end_bfs", "py_init_then_expand_bfs_hierarchy", "C02 for the SOURCE TEXT: the object built by the generated __init__ and expanded by the generated public expand_bfs (reporting completion) is the hierarchy of percolated trap spaces"),
           ("source_text_end_to_end_dfs", "py_init_then_expand_dfs_hierarchy", None),
           ("source_init", "py_init_spec", "translator tie: SuccessionDiagram.__init__ as generated from the source builds the model's initial diagram (root = percolation of the whole space) and establishes the class invariant"),
           ("source_expand_bfs", "py_expand_bfs_spec_all", "translator tie: the function GENERATED from the current text of biobalm/_sd_algorithms/expand_bfs.py (PySrcSd.v, regenerated on every run; embedding PyLibSd.v) equals the model's expand_bfs for every diagram, every limit and every fuel"),
           ("source_expand_dfs", "py_expand_dfs_spec_all", "... and expand_dfs.py the model's expand_dfs"),
           ("source_public_expand_bfs", "py_api_expand_bfs_spec", "the public methods SuccessionDiagram.expand_bfs / expand_dfs (generated from the source: they pass their parameters on in order)"), ("source_public_expand_dfs", "py_api_expand_dfs_spec", None),
           ("bfs_hierarchy", "bfs_hierarchy", None), ("dfs_hierarchy", "dfs_hierarchy", None),
           ("successors", "hierarchy_successors", "successors = percolations of the maximal trap spaces"),
           ("leaves", "hierarchy_leaves", "nodes without successors = minimal trap spaces of the network"),
           ("no_duplicates", "hierarchy_leaves_unique", "every space occurs once"),
           ("node_spaces_closed", "percolate_b_fixed_iff_closed", "swf_closed says percolate_b N S = S for node spaces; this is percolation-closedness"),
           ("max_traps_spec", "max_traps_b_spec_srcs", "what max_traps_b (the model's solver) returns"),
           ("min_traps_spec", "min_traps_b_spec", None)],
 examples=EX_NET + """
Example C02_example : exists d, expand_bfs 100 ex_sw ex_cfg (init ex_sw) None None None = (d, RBool true) /\\ size d = 9.
Proof. eexists. split. vm_compute. reflexivity. vm_compute. reflexivity. Qed.
""")

SPEC["C03"] = dict(title="Every complete expansion strategy finds exactly the minimal trap spaces", comment="""
Proved for BFS and DFS completion from any diagram reachable by plain operations (bfs_complete /
dfs_complete need only the invariants that run_invariants establishes), for minimal-space expansion
(expand_min_exact / expand_min_complete), for completion by skip_remaining, for source-block expansion from a fresh
diagram with every option combination and ANY tape (expand_block_MinFound: independence of minimal source blocks,
BlockMath.min_trap_in_block / same_child_same_block) and for attractor-seed expansion from any plainly reached diagram
(expand_aseeds_MinFound).  The source-SCC strategy is modelled (SCC.v, replayed id by id): its components are the closed,
strongly connected, pairwise disjoint sets of source_sccs_spec, every node it creates is a trap space of the network
(graft_trap, expand_scc_TrapNodes), it only adds nodes (expand_scc_grows), and from a fresh diagram a run reporting completion
leaves every node expanded with the expanded leaves being exactly the minimal trap spaces (expand_scc_AllExpanded,
expand_scc_LeafOK, expand_scc_MinFound) -- although the diagram it builds is not faithful (D15).  So every strategy of the
statement has a theorem.""",
 theorems=[("source_expand_source_SCCs", "py_expand_source_SCCs_spec", "translator tie: the function GENERATED from the current text of expand_source_SCCs.expand_source_SCCs (PySrcSdSccMain.v: root sources, BFS over the levels, recursion through the default expander into the sub-diagrams of the source SCCs, attachment by the generated attach_scc_subdiagram) does what the model's SCC.scc_main does on every diagram satisfying SCCTerm.SI, for every fuel, tape and nesting depth"),
           ("source_expand_source_SCCs_fresh", "py_expand_source_SCCs_fresh", None),
           ("source_expand_source_blocks", "py_expand_source_blocks_spec", "translator tie for the DEFAULT strategy: the function GENERATED from the current text of expand_source_blocks.expand_source_blocks (PySrcSdBlocks.v: level loop with the visited set, size limits, source fast-forward, grouping of successors into blocks, minimal blocks, stable sort, clean-block search reading the is_clean tape) returns the diagram and result of the model's Blocks.expand_block on every well-formed diagram, for every fuel, option combination and tape"),
           ("source_expand_source_blocks_fresh", "py_expand_source_blocks_fresh", None), ("source_public_expand_block", "py_api_expand_block_spec", None),
           ("source_text_expand_block_complete", "py_api_expand_block_complete", "C03 for the SOURCE TEXT of the default strategy: when the generated public method expand_block returns True (any options, any tape; fresh diagram or any plainly reached one), every minimal trap space is an expanded leaf"), ("source_text_expand_block_complete_from", "py_api_expand_block_complete_from", None),
           ("source_minimal_trap_spaces", "py_minimal_trap_spaces_spec", "the OBSERVATION of C03: SuccessionDiagram.minimal_trap_spaces(), pinned to its current text (PySrcGetters.v; its condition is the generated node_is_minimal), returns the model's minimal_ids"),
           ("source_text_expand_scc_complete", "py_api_expand_scc_complete", "C03 for the SOURCE TEXT of the source-SCC strategy: when the generated public method expand_scc returns True on a fresh diagram, every minimal trap space is an expanded leaf, every expanded leaf is a minimal trap space, and no stub is left"),
           ("source_text_expand_minimal_spaces_complete", "py_expand_minimal_spaces_complete", "C03 for the SOURCE TEXT: when the generated public methods report completion, every minimal trap space is found / everything is expanded"),
           ("source_text_expand_attractor_seeds_complete", "py_expand_attractor_seeds_MinFound", None), ("source_text_expand_bfs_complete", "py_expand_bfs_complete", None), ("source_text_expand_dfs_complete", "py_expand_dfs_complete", None),
           ("source_expand_minimal_spaces", "py_expand_minimal_spaces_spec", "translator tie: the function GENERATED from the current text of biobalm/_sd_algorithms/expand_minimal_spaces.py (with its nested make_skip_node; PySrcSdMin.v) equals the model's expand_min on every well-formed diagram, for every start node, limit, skip option and fuel, given the tape contract"),
           ("source_public_expand_minimal_spaces", "py_api_expand_minimal_spaces_spec", None),
           ("source_expand_attractor_seeds", "py_expand_attractor_seeds_spec", "translator tie: the function GENERATED from the current text of biobalm/_sd_algorithms/expand_attractor_seeds.py (PySrcSdASeeds.v: the initial minimal-space expansion, the DFS with the candidate query -- avoid sets, heuristic retained set, reduced-STG fixed points -- and the NFVS tape) equals the model's ASeeds.expand_aseeds"),
           ("source_public_expand_attractor_seeds", "py_api_expand_attractor_seeds_spec", None),
           ("source_make_skip_node", "py_make_skip_node_spec_weak", "the nested make_skip_node on its own equals the model's make_skip_node when the node is expanded or its space is not one of the minimal trap spaces (always the case inside expand_minimal_spaces); without that condition the text asserts where the model adds a self-loop: py_make_skip_node_spec_counterexample"),
           ("source_make_skip_node_counterexample", "py_make_skip_node_spec_counterexample", None),
           ("source_expand_bfs", "py_expand_bfs_spec_all", "translator tie: the function GENERATED from the current text of biobalm/_sd_algorithms/expand_bfs.py (PySrcSd.v, regenerated on every run; embedding PyLibSd.v) equals the model's expand_bfs for every diagram, every limit and every fuel"),
           ("source_expand_dfs", "py_expand_dfs_spec_all", "... and expand_dfs.py the model's expand_dfs"),
           ("source_public_expand_bfs", "py_api_expand_bfs_spec", "the public methods SuccessionDiagram.expand_bfs / expand_dfs (generated from the source: they pass their parameters on in order)"), ("source_public_expand_dfs", "py_api_expand_dfs_spec", None),
           ("bfs_complete", "bfs_complete", None), ("dfs_complete", "dfs_complete", None),
           ("leaves_are_min_traps", "hierarchy_leaves", None), ("min_traps_spec", "min_traps_b_spec", "the oracle for minimal trap spaces is exact"),
           ("min_trap_exists", "min_trap_exists", None), ("min_trap_closed", "min_trap_closed", None),
           ("min_trap_fixes_sources", "min_trap_fixes_sources", "why the source shortcut at the root loses no minimal trap space"),
           ("invariants_along_histories", "run_invariants", None),
           ("minimal_space_expansion_exact", "expand_min_exact", "minimal-space expansion (with or without skip_ignored) from a fresh diagram: leaves = minimal trap spaces"),
           ("minimal_space_expansion_complete", "expand_min_complete", "... and from any diagram satisfying the invariants"),
           ("skip_remaining_exact", "skip_remaining_exact", "completion of an early-stopped diagram by skip_remaining"),
           ("leaves_always_minimal", "run_LeafOK", "in every reachable diagram (any history) an expanded node without successors is a minimal trap space"),
           ("no_duplicates", "minimal_nodes_unique", None),
           ("block_expansion_leaves_minimal", "expand_block_LeafOK_strong", "source-block expansion (model Blocks.v, replayed against the code): every leaf is a minimal trap space"),
           ("block_closed", "block_of_closed", "the block of a motif is closed under regulators and contains the motif's variables"),
           ("trap_spaces_project", "proj_trap", "trap spaces project onto a regulator-closed block"),
           ("min_trap_in_block", "min_trap_in_block", "independence of minimal source blocks: every minimal trap space of the node lies below a motif of every closed block that carries a motif"),
           ("same_child_same_block", "same_child_same_block", "the block may be computed from the FIRST motif of a successor"),
           ("block_expansion_complete", "expand_block_MinFound", "no minimal trap space is missed by block expansion (any options, any tape)"),
           ("block_expansion_shapes", "expand_block_CanonOrFF", None),
           ("aseeds_expansion_complete", "expand_aseeds_MinFound", None),
           ("aseeds_expansion_leaves_minimal", "expand_aseeds_LeafOK", None),
           ("work_list_descent", "min_good_found", None),
           ("scc_components", "source_sccs_spec", "source SCCs: non-empty, closed under regulators, duplicate-free, strongly connected"),
           ("scc_components_disjoint", "source_sccs_disjoint", None),
           ("scc_graft_trap", "graft_trap", "a trap space of the component sub-network grafted onto the attach space is a trap space of the network"),
           ("scc_expansion_trap_nodes", "expand_scc_TrapNodes", None),
           ("scc_expansion_grows", "expand_scc_grows", None),
           ("scc_expansion_complete", "expand_scc_MinFound", "source-SCC strategy from a fresh diagram: no minimal trap space is missed"),
           ("scc_expansion_leaves_minimal", "expand_scc_LeafOK", "... and none is spurious"),
           ("scc_expansion_all_expanded", "expand_scc_AllExpanded", "... and no stub is left behind"),
           ("block_expansion_complete_from_any_plain_diagram", "expand_block_MinFound_from", "after the D18 fix block expansion needs no fresh diagram"),
           ("block_expansion_leaves_minimal_from", "expand_block_LeafOK_from", None)],
 examples=EX_NET + """
Example C03_example : length (min_traps_b ex_sw (top_space 4)) = 4.
Proof. vm_compute. reflexivity. Qed.
Example C03_example_block : length (minimal_ids (fst (expand_block 100 ex_sw ex_cfg (init ex_sw) false true None []))) = 4 /\\
  size (fst (expand_block 100 ex_sw ex_cfg (init ex_sw) false true None [])) = 9.
Proof. vm_compute. split; reflexivity. Qed.
""")

SPEC["C04"] = dict(title="Lazily built diagrams are always a faithful part of the full diagram", comment="""
Model: Diagram.step over histories of plain operations with arbitrary limits and start nodes.  Faithful: an
expanded ordinary node carries exactly the maximal trap spaces of its space as motifs of its out-edges;
NoStubEdges: an unexpanded node has no out-edge; SWF: no space occurs twice.  step_Faithful_all extends
this to every operation (skip nodes are excluded from Faithful by definition).  Continuing with BFS from any
such state yields a Hierarchy (bfs_complete + the invariants), i.e. the same diagram up to node ids.""",
 theorems=[("source_node_successors", "py_node_successors_spec", "... node_successors(id, compute=True) computes Diagram.node_successors: the primitive of the translated strategy drivers"),
           ("source_expand_one_node", "py_expand_one_node_spec", "translator tie: the function GENERATED from the current text of SuccessionDiagram._expand_one_node (PySrcCore.v; embedding PyLibCore.v) computes Diagram.expand_one for every diagram satisfying the class invariant CoreInv, every oracle for the percolated-net cache, and preserves CoreInv"),
           ("source_expand_bfs", "py_expand_bfs_spec_all", "translator tie: the function GENERATED from the current text of biobalm/_sd_algorithms/expand_bfs.py (PySrcSd.v, regenerated on every run; embedding PyLibSd.v) equals the model's expand_bfs for every diagram, every limit and every fuel"),
           ("source_expand_dfs", "py_expand_dfs_spec_all", "... and expand_dfs.py the model's expand_dfs"),
           ("source_public_expand_bfs", "py_api_expand_bfs_spec", "the public methods SuccessionDiagram.expand_bfs / expand_dfs (generated from the source: they pass their parameters on in order)"), ("source_public_expand_dfs", "py_api_expand_dfs_spec", None),
           ("run_invariants", "run_invariants", None), ("step_Faithful_all", "step_Faithful_all", None),
           ("step_NoStubEdges", "step_NoStubEdges", None), ("step_SWF", "step_SWF", None),
           ("expand_one_canonical", "expand_one_canonical", "what a single node expansion establishes, atomically"),
           ("expand_one_raise_unchanged", "expand_one_raise_unchanged", "a raised motif-limit error changes neither edges nor flags"),
           ("bfs_complete", "bfs_complete", "continuing with an unrestricted BFS expands everything"),
           ("block_expansion_without_source_shortcuts_is_plain", "expand_block_Faithful", None),
           ("block_expansion_no_stub_edges", "expand_block_NoStubEdges", None), ("block_expansion_wellformed", "expand_block_SWF", None),
           ("continuation_gives_the_fresh_hierarchy", "bfs_after_anything", None), ("hierarchy_unique", "hierarchy_unique_weak", None),
           ("aseeds_expansion_keeps_invariants", "expand_aseeds_PlainInv", None)],
 examples=EX_NET + """
Example C04_example : Forall plain [OExpandNode 0; ODfs (Some 1) (Some 0) (Some 3); OBfs None (Some 1) None].
Proof. repeat constructor. Qed.
""")

SPEC["C05"] = dict(title="Diagrams completed with skip nodes never lose an attractor", comment="""
PARTIAL, with a KNOWN FINDING (D4, see KNOWN_FINDINGS.jsonl): on the unchanged code motif-avoidant
attractors in the intersection of skip nodes are lost, so the full statement is false of the faithful model.
What is proved: the structural part for skip operations (invariants, cache clearing), and the exactness of
the predicates (check_seeds / check_seeds_sound run on the implementation's seeds against brute-force
attractors).  SkipRule.v models the documented exclusion rule under an IDEAL engine (every query returns exactly
the attractors of the node outside the avoided spaces): C05_refuted exhibits, inside Coq, a network and history on
which 8 of 16 attractors are represented by no node although every skip node follows the rule -- so the loss is a
property of the rule, not of the candidate search; the same history is replayed on the code (corpus/C05.jsonl) and
the model's per-node seed counts are compared with the code's on every modelable run.  ideal_seeds_sound is the
half of the statement that survives (no spurious seeds).""",
 theorems=[("source_skip_to_minimal", "py_skip_to_minimal_spec", "translator tie: the functions GENERATED from the current text of SuccessionDiagram.skip_to_minimal / skip_remaining (PySrcCore2.v) compute the model's skip_to_minimal_t / skip_remaining under the class invariant and the tape contract"),
           ("source_skip_remaining", "py_skip_remaining_spec", None),
           ("source_expand_minimal_spaces", "py_expand_minimal_spaces_spec", "... and expand_minimal_spaces (skip_ignored) the model's expand_min"),
           ("skip_ops_keep_wellformed", "step_SWF", None), ("skip_ops_keep_faithful", "step_Faithful_all", None),
           ("skip_ops_clear_caches", "step_CacheOK", "skipping discards attractor data computed while the node had no successors"),
           ("check_seeds_ok", "check_seeds_ok", None), ("edge_strict", "step_EdgeStrict", "skip edges lead to strictly smaller spaces (no self loops)"),
           ("node_attractors_complete", "node_attractors_b_complete", None),
           ("refuted_on_the_model", "C05_refuted", "KNOWN FINDING D4: the full statement fails on the faithful model"),
           ("refuted_attractor", "C05_refuted_attractor", None),
           ("witness_counts", "d4_counts", "26 nodes, 16 attractors, 8 lost, none reported twice"),
           ("ideal_seeds_sound", "ideal_seeds_sound", None),
           ("rule_only_for_skip_nodes", "no_skip_no_exclusion", None),
           ("leaf_attractors_never_lost", "leaf_attractors_represented", "whatever was computed before, a leaf (minimal trap space) reports every attractor inside it"),
           ("no_maa_nothing_lost", "no_maa_nothing_lost", "the positive half: without motif-avoidant attractors a diagram completed by skipping loses no attractor; the loss of C05_refuted needs a motif-avoidant attractor"),
           ("skip_semantics_after_any_history", "run_AnyInv", "every diagram reached by ANY history (skip operations included) satisfies AnyInv: well-formed, trap nodes, strict edges, faithful, and every skip node is expanded, its edges lead to minimal trap spaces with the space itself as motif, and EVERY minimal trap space inside it is one of its children"),
           ("skip_semantics_step", "step_AnyInv", None),
           ("expanded_node_keeps_minimal_traps", "expanded_min_descends", "in any such diagram every minimal trap space inside an expanded node (canonical or skip) is inside one of its children or is the node itself: skipping never loses a minimal trap space")],
 examples="")

SPEC["C06"] = dict(title="Every intervention reported successful really forces the network into the target", comment="""
Model: Control.find_drivers / drivers_of_succession / succession_control; override N d is the network with
d's variables turned into constants.  override_forces is the semantic core: if the logical domain of
influence (percolation in the ORIGINAL network) of the previous trap space plus the override contains the
motif, then in the OVERRIDDEN network every attractor reachable from the previous trap space has the
motif's values.  find_drivers_force: every reported driver set forces.  forced_b is the brute-force
decision procedure run on the implementation's interventions.  succession_control_sound is the property end to end:
for every intervention reported successful on a diagram prepared by the target-directed expansion, the succession is a
chain of nested trap spaces from the whole state space, every listed override has the step's motif in its LDOI and
forces it, the final trap space meets the target and every minimal trap space inside it lies inside the target.""",
 theorems=[("source_successions_to_target", "py_successions_to_target_spec", "translator tie: the function GENERATED from the current text of control.successions_to_target (PySrcSucc.v: optional generated expand_to_target, hot-lava scan, descendant sets, end points, simple paths, products of reduced motif lists, feed-forward elimination) returns the model's successions_ff on the diagram left by expand_to_target, for every diagram satisfying succ_inv and every target fixing at least one variable"),
           ("source_successions_scan", "py_successions_scan_spec", None), ("source_successions_empty_target_differs", "py_successions_empty_target_differs", "the empty target is outside the tie (and outside C06's quantifier): Python reads the empty intersection as inconsistent"),
           ("source_succession_control", "py_succession_control_spec", "succession_control as written in the source (pinned glue calling the generated successions_to_target and drivers_of_succession) is the model's succession_control_ff filtered by successful_only"),
           ("source_text_succession_control_sound_after_any_history", "py_succession_control_after_any_history_sound", "C06 for the SOURCE TEXT, end to end: after any history, every intervention the generated succession_control reports as successful is sound"),
           ("override_forces", "override_forces", None), ("override_forces_code", "override_forces_code", None),
           ("find_drivers_force", "find_drivers_force", None), ("forced_b_spec", "forced_b_spec", None),
           ("find_drivers_avoid_assume", "find_drivers_avoid_assume", "a reported driver never contradicts values already fixed"),
           ("percolation_of_trap_is_nested_trap", "percolate_b_trap", "each step of a succession is a trap space nested in the previous one"),
           ("succession_control_sound", "succession_control_sound", "C06 end to end"),
           ("target_expansion_prepares", "target_expansion_TargetExpanded", "the target-directed expansion of a fresh diagram establishes the hypotheses"),
           ("chain_follows_path", "chain_follows_path", "the accumulated assumptions are the node spaces along the path"),
           ("skip_feedforward_sound", "succession_control_ff_sound", "with skip_feedforward_successions the reported interventions are a subset, so the property still holds"),
           ("skip_feedforward_subset", "succession_control_ff_incl", None),
           ("source_is_subspace", "py_is_subspace_spec", "translator tie: the function generated from the CURRENT source of space_utils.is_subspace equals the model's subspace"),
           ("source_intersect", "py_intersect_spec", "... and space_utils.intersect the model's intersect"),
           ("control_after_any_plain_history", "control_after_plain_history_sound", "the whole call -- target-directed expansion of ANY plainly reached diagram, then succession control with either setting of skip_feedforward_successions -- reports only interventions that satisfy the property"),
           ("source_text_find_drivers_force", "py_find_drivers_force", "C06 for the SOURCE TEXT of control.find_drivers: every override the generated function reports forces the motif from the assumed trap space"),
           ("source_find_drivers", "py_find_drivers_spec", "translator tie: control.find_drivers / drivers_of_succession as generated from the source compute the model's functions (whose reported overrides force the motif: find_drivers_force)"), ("source_drivers_of_succession", "py_drivers_of_succession_spec", None),
           ("source_text_end_to_end_control", "py_control_after_any_history_sound", "C06 with the target-directed expansion AS WRITTEN IN THE SOURCE (generated public method), after any history"),
           ("source_public_expand_to_target", "py_api_expand_to_target_spec", None),
           ("source_expand_to_target", "py_expand_to_target_spec_all", "translator tie: the function GENERATED from the current text of biobalm/_sd_algorithms/expand_to_target.py (PySrcSdTarget.v) equals the model's expand_to_target"),
           ("control_after_ANY_history", "control_after_any_history_sound", "the same for EVERY history of operations, skip operations (skip_to_minimal, skip_remaining, minimal-space expansion with skipping) included: the reported interventions are sound on diagrams with skip nodes and parentless minimal-trap nodes"),
           ("control_sound_on_skipped_diagrams", "succession_control_sound_any", "succession_control on any diagram satisfying the all-history invariant AnyInv"),
           ("target_expansion_on_skipped_diagrams", "target_expansion_TargetExpanded_any", None),
           ("invariant_of_all_histories", "run_AnyInv_Anch", None),
           ("target_expansion_from_any_plain_diagram", "target_expansion_TargetExpanded_from", None)],
 examples="")

SPEC["C07"] = dict(title="Control output is complete, minimal and honours the user's constraints", comment="""
Model: Control.find_drivers (size classes in ascending order, supersets of found key sets skipped).
successions_spec / successions_nodup: the successions are exactly the chains of reduced motifs along all root
paths to the end nodes, one motif per edge, each once; target_expansion_post: what the target-directed
expansion expands.""",
 theorems=[("source_succession_control", "py_succession_control_spec", "succession_control as written in the source (its glue pinned to a reference text, calling the GENERATED successions_to_target and drivers_of_succession) is the model's succession_control_ff filtered by successful_only: the overrides listed per step are those of the model's drivers_of_succession, to which the completeness / minimality theorems below apply"),
           ("source_text_find_drivers_sound", "py_find_drivers_sound", "C07 for the SOURCE TEXT of control.find_drivers (generated function): every reported override forces, avoids forbidden variables, respects the bound; the list is complete and minimal"),
           ("source_text_find_drivers_complete", "py_find_drivers_complete", None), ("source_text_find_drivers_minimal", "py_find_drivers_minimal", None),
           ("source_find_drivers", "py_find_drivers_spec", "translator tie: the function GENERATED from the current text of control.find_drivers (PySrcControl.v; embedding PyLibControl.v: combinations, product, the dict comprehensions, the minimality test) computes the model's find_drivers for both strategies, any bound, any forbidden set and any assumption"),
           ("source_drivers_of_succession", "py_drivers_of_succession_spec", "translator tie: the function GENERATED from the current text of control.drivers_of_succession (PySrcControl.v) computes the model's drivers_of_succession (per-step default bound, assumption grown by the LDOI of each step)"),
           ("find_drivers_sound", "find_drivers_sound", "forcing, allowed variables only, within the size bound"),
           ("find_drivers_complete", "find_drivers_complete", "every admissible forcing assignment has a reported driver set on a subset of its variables"),
           ("find_drivers_minimal", "find_drivers_minimal", "no reported set strictly inside another"),
           ("subsets_of_size_spec", "subsets_of_size_spec", None),
           ("successions_spec", "successions_spec", None), ("successions_nodup", "successions_nodup", None),
           ("target_expansion_post", "target_expansion_post", None), ("reaches_lava_spec", "reaches_lava_spec", None),
           ("skip_feedforward_only_removes", "ff_filter_incl", "skip_feedforward_successions: the filter only removes successions"),
           ("skip_feedforward_covers", "ff_filter_covers", "every removed succession is subsumed by a kept one with a weaker signature"),
           ("skip_feedforward_antichain", "ff_filter_antichain", "kept signatures are pairwise incomparable")],
 examples="")

SPEC["C08"] = dict(title="Attractor candidates cover every attractor under every option and limit setting", comment="""
Model: Candidates.compute_candidates = compute_attractor_candidates branch by branch (all limit comparisons,
greedy flips, regeneration loop, both simulation variants), driven by a solver tape and a walk tape; every
run of the real pipeline is replayed on it (same sequence of solver calls, same result).
compute_candidates_covers_weak: for EVERY option combination and EVERY configuration value (0 included) a
COk result consists of states of the node space covering every attractor of the node, under
(a) the tape contracts (each solver answer is a duplicate-free prefix, of the length its limit allows, of
the reduced fixed points; walks visit reachable states), (b) the retained variables hit every negative cycle of
the node's semantic interaction graph (Signed.no_neg_walk; nfvs_reduction PROVES from it that for every
assignment of them the reduced fixed points hit every attractor -- isotone source blocks, polarity switching,
cascade over strongly connected components; the executable test no_neg_walk_b, proved exact, is run on every
NFVS the code obtains from biodivine_aeon), and (c) for the empty-NFVS shortcut, that every
fixed point of the node lies in an avoided space (true for expanded nodes of a faithful diagram; the formal
counterexample without it is compute_candidates_covers_counterexample).""",
 theorems=[("source_make_heuristic_retained_set", "py_make_heuristic_retained_set_spec", "translator tie: the function GENERATED from the current text of attractor_candidates.make_heuristic_retained_set (PySrcRetained.v: the child space with the fewest NFVS variables, its values on the NFVS, the majority value of the update function for the rest) is the model's Candidates.heuristic_retained for every network, node space, NFVS list and avoid list"),
           ("source_greedy_optimization_of_model", "py_greedy_of_model", "translator tie for asp_greedy_retained_set_optimization (generated in PySrcRetained.v; compute_fixed_point_reduced_STG = the next entry of the solver tape, the call logged): it runs the model's greedy_loop -- same solver calls in the same order, same retained set and candidates; the text needs one more unit of fuel (its `while not done` test after the last pass)"),
           ("source_greedy_optimization_to_model", "py_greedy_to_model", None),
           ("pipeline_covers_given_nfvs", "candidates_cover_nfvs", "the end-to-end statement"),
           ("nfvs_reduction", "nfvs_reduction", "negative feedback vertex set => reduced fixed points hit every attractor"),
           ("no_neg_walk_test_exact", "no_neg_walk_b_spec", None), ("graph_test_implies_brute_force_test", "no_neg_walk_b_reduction", None),
           ("pipeline_covers", "compute_candidates_covers_weak", None), ("pipeline_covers_nonempty_nfvs", "compute_candidates_covers_nonempty", None),
           ("pipeline_complete", "compute_candidates_complete", "every COk result is an early exit or the complete fixed-point list of a total retained assignment (then possibly simulated)"),
           ("limit_zero_never_truncates", "compute_candidates_limit0", None), ("greedy_keeps_complete", "greedy_loop_complete", None),
           ("simulation_avoid_covers", "sim_avoid_covers", None), ("simulation_minimal_covers", "sim_min_covers", None), ("simulation_rounds_cover", "sim_rounds_covers", None),
           ("reduction_check_exact", "nfvs_reduction_ok_b_spec", None), ("empty_nfvs_needs_side_condition", "compute_candidates_covers_counterexample", None),
           ("check_cover_ok", "check_cover_ok", None), ("reduced_fixed_points_program", "deadlock_program_models", None),
           ("reduced_net_deadlocks", "reduce_pn_enabled", None), ("node_attractors_sound", "node_attractors_b_sound", None),
           ("node_attractors_complete", "node_attractors_b_complete", None),
           ("empty_list_means_no_attractor", "closed_contains_attractor", "a non-empty closed set always contains an attractor, so a node whose candidates are empty must have all its attractors inside its successors")],
 examples="")

SPEC["C09"] = dict(title="The trap-space solver returns exactly the requested trap spaces", comment="""
Model: PetriNet.trap_program / deadlock_program generate the rules that trappist_core.py sends to clingo
(compared with the real program text on every run).  The theorems characterise the classical models of
those programs over the choice atoms; that clingo enumerates exactly the subset-extremal models is an
engine contract, checked on every recorded call against the brute-force twins.""",
 theorems=[("source_clingo_model_to_space", "py_clingo_model_to_space_spec", "translator tie for the answer-set readers of trappist_core.py (PySrcClingo.v: loops checked statement by statement, the stored polarity read from the text): on a conflict-free model the dict returned by _clingo_model_to_space is the model's space_of_model (INVERTED polarity: a true atom b1_v fixes v to 0) ..."),
           ("source_clingo_model_to_fixed_point", "py_clingo_model_to_fixed_point_spec", "... and the one returned by _clingo_model_to_fixed_point is state_of_model (direct polarity)"),
           ("source_clingo_model_conflict_asserts", "py_clingo_model_to_space_conflict", None),
           ("source_trappist_limit_truncates", "py_trappist_collect_spec", "'a solution limit only truncates the list', for the SOURCE TEXT: the collecting half of trappist (guard for a non-positive limit, the save_result closure, the enumerator stopping when it returns False -- PySrcCollect.v, comparisons read from the text) returns the first `limit` answers of the enumeration in order, all of them without a limit"),
           ("source_reduced_stg_limit_truncates", "py_reduced_stg_collect_spec", None), ("source_trappist_limit_length", "py_trappist_collect_length", None),
           ("trap_program_min", "trap_program_min", "models = trap spaces inside ensure and not inside an avoided space"),
           ("trap_program_fix", "trap_program_fix", None), ("trap_program_max", "trap_program_max_gen", None),
           ("trap_program_reverse", "trap_program_reverse", "time reversal"), ("model_order", "model_order", "more atoms = smaller space"),
           ("min_models_are_min_traps", "min_models_are_min_traps", None), ("max_models_are_max_traps", "max_models_are_max_traps", None),
           ("conflict_free", "trap_program_models_conflict_free", None), ("deadlock_program_models", "deadlock_program_models", "reduced transition graph"),
           ("deadlock_models_are_states", "deadlock_program_models_are_states", None),
           ("space_model_roundtrip", "space_model_roundtrip", None)],
 examples="")

SPEC["C10"] = dict(title="Petri-net encoding and network reduction preserve the asynchronous dynamics", comment="""
Model: PetriNet.net_to_pn (from an implicant tape with the cover contract), restrict_pn, reduce_pn.
pn_faithful_b is the exact executable test applied to the REAL Petri nets on every run.""",
 theorems=[("net_to_pn_faithful", "net_to_pn_faithful", None), ("pn_faithful_b_spec", "pn_faithful_b_spec", None),
           ("pn_faithful_trans", "pn_faithful_trans", "firings of the net = asynchronous transitions"),
           ("restrict_faithful", "restrict_faithful", None), ("restrict_vars", "restrict_vars", None),
           ("restrict_no_fixed", "restrict_no_fixed", None), ("restrict_compose", "restrict_compose", "restriction through the parent's net"),
           ("pn_sources_spec", "pn_sources_spec", None), ("reduce_pn_enabled", "reduce_pn_enabled", None),
           ("fix_net_trap_space", "fix_net_trap_space", "percolating/fixing sources keeps the dynamics on the subspace"),
           ("fix_net_percolate", "fix_net_percolate", None),
           ("place_round_trip", "place_round_trip", "place names b0_/b1_ map back to (variable, value)"),
           ("place_name_inj", "place_name_inj", None),
           ("source_variable_to_place", "py_variable_to_place_spec", "translator tie: generated from the current source of petri_net_translation.variable_to_place"),
           ("source_place_to_variable", "py_place_to_variable_spec", None)],
 examples="")

SPEC["C11"] = dict(title="Percolation computes exactly the logical domain of influence", comment="""
Model: Brute.percolate_b (twin of AEON's percolate_subspace, compared with percolate_space on every run),
Strict.percolate_strict_ord (percolate_space_strict with the candidate set's iteration order as a parameter),
conflicts_b, single_ldois, single_drivers.""",
 theorems=[("source_percolate_space_strict", "py_percolate_space_strict_spec", "translator tie: the function GENERATED from the current text of space_utils.percolate_space_strict (PySrcPerc.v; embedding PyLibPerc.v) computes the model's percolate_strict_b"),
           ("source_find_single_node_LDOIs", "py_find_single_node_LDOIs_spec", "... drivers.find_single_node_LDOIs the model's single_ldois, and find_single_drivers (with or without a caller-supplied table) single_drivers"),
           ("source_find_single_drivers", "py_find_single_drivers_spec", None),
           ("source_percolation_conflicts", "py_percolation_conflicts_spec", "... and percolation_conflicts(strict_percolation=False) the model's conflicts_b (as a duplicate-free set)"),
           ("is_percolation", "percolate_b_is_percolation", "reached by fixing, one at a time, free variables whose update function is constant on the space fixed so far; nothing more can be fixed"),
           ("unique", "percolation_unique", "independent of the order"), ("least", "percolate_b_least", "least fixed point"),
           ("keeps_given", "percolate_b_keeps", "given values are kept even when they conflict with the dynamics"),
           ("idempotent", "percolate_b_idem", None), ("trap", "percolate_b_trap", None), ("const_on", "const_on_b_some", None),
           ("strict_shape", "strict_result_shape", "what the strict variant reports"), ("strict_closed", "strict_result_closed", None),
           ("strict_least", "strict_result_least", None), ("strict_order_independent", "strict_order_independent", "the Python set iteration order does not matter"),
           ("strict_vs_percolate", "strict_eq_percolate", "without globally constant variables both variants fix the same variables"),
           ("single_ldois", "single_ldois_spec", None), ("single_drivers", "single_drivers_spec", None),
           ("single_drivers_python_reading", "single_drivers_items_reading", None), ("conflicts", "conflicts_b_spec", None)],
 examples="""
Definition ex_net : net :=
  [fun s => nth 1 s false; fun s => nth 0 s false; fun s => nth 0 s false || nth 2 s false].
Example C11_example_propagates : percolate_b ex_net [Some true; None; None] = [Some true; Some true; Some true].
Proof. vm_compute. reflexivity. Qed.
Example C11_example_conflict_kept : percolate_b ex_net [Some true; Some false; None] = [Some true; Some false; Some true].
Proof. vm_compute. reflexivity. Qed.
""")

SPEC["C12"] = dict(title="Attractor sets are the complete attractors and the symbolic fallback agrees", comment="""
Model: Filter.compute_attractors_filter returns, with the seeds, their reachable sets; check_sets is the
predicate run on the implementation's sets (enumerated from the BDDs).  SymbolicTest.symbolic_test models the
interleaved forward/backward reachability of symbolic_attractor_test for EVERY heuristic tape and variable
order; symbolic_test_meets_spec shows it meets the contract (attractor_test) the filter theorem uses, and every
recorded call of the real function is checked against that contract.  PARTIAL: the fully symbolic fallback is
library code (AEON xie_beerel); it is judged through check_seeds / check_sets against the brute-force
attractors, which makes it agree with the default method.""",
 theorems=[("source_compute_attractors_symbolic", "py_compute_attractors_symbolic_spec", "translator tie for the candidate filter: the function GENERATED from the current text of attractor_symbolic.compute_attractors_symbolic (loop translated statement by statement, preamble / postamble compared with reference texts) is the model's compute_attractors_filter: seeds and sets are produced together, in candidate order"),
           ("source_text_filter_exact", "py_compute_attractors_symbolic_exact", "C12 / C01 for the SOURCE TEXT of the filter: given covering, duplicate-free candidates inside the node, the seeds returned by the generated compute_attractors_symbolic are one-to-one with the node's own attractors and the i-th set is exactly the reachable set (= the attractor) of the i-th seed"),
           ("source_text_filter_seeds_only", "py_compute_attractors_symbolic_seeds_only", "... and with seeds_only=True (the unchecked-last-candidate shortcut included) the seeds are still one-to-one"),
           ("check_sets_ok", "check_sets_ok", None), ("filter_exact", "filter_exact", "sets are, in seed order, the reachable sets of the seeds = their attractors"),
           ("reach_list_sound", "reach_list_sound", None), ("reach_list_complete", "reach_list_complete", None),
           ("attractor_is_class", "attractor_is_class", "an attractor is the reachable set of any of its states"),
           ("symbolic_test_some", "symbolic_test_some", "the interleaved reachability returns exactly the reachable set ..."),
           ("symbolic_test_none", "symbolic_test_none", "... or None exactly when an avoid state is reachable, for every heuristic tape"),
           ("symbolic_test_meets_spec", "symbolic_test_meets_spec", None),
           ("filter_with_symbolic_test_agrees", "compute_attractors_sym_agrees", "the filter run with the model of symbolic_attractor_test (any heuristic tape) returns the same seeds in the same order and the same sets"),
           ("filter_with_symbolic_test_exact", "compute_attractors_sym_exact", "so the sets it returns are exactly the attractors"),
           ("node_sets_exact", "node_seeds_exact", "... and the sets are those attractors")],
 examples="")

SPEC["C13"] = dict(title="Every operation terminates within bounded work", comment="""
Model: every while-loop of the expansion code is a fuelled loop returning the distinguished result RFuel
when the fuel runs out; the theorems give explicit fuel bounds in terms of max_nodes N = 3^n.
symbolic_test_terminates bounds the interleaved reachability of symbolic_attractor_test (with the progress
fix 2159c02) for every heuristic tape; noforce_can_stall is the formal record of the repaired defect: without
the fix a tape that always declines makes the loop run forever on a 3-variable network.
The candidate pipeline's loops (greedy flips, simulation rounds) and the block expansion have explicit bounds too.
The attractor-seed expansion terminates within 2 * 3^n + 3 iterations (expand_aseeds_terminates); the source-SCC strategy
within n + 2 levels at every nesting depth (expand_scc_terminates: levels descend strictly, every nesting level loses a
free variable), its two assertions can never fire (expand_scc_no_assert) and its edges stay strict (expand_scc_EdgeStrict).""",
 theorems=[("source_expand_bfs_terminates", "py_expand_bfs_terminates", "the loops of the strategy drivers AS WRITTEN IN THE SOURCE (generated functions, public wrappers included) end within the fuel bound of the model"),
           ("source_expand_dfs_terminates", "py_expand_dfs_terminates", None), ("source_expand_to_target_terminates", "py_expand_to_target_terminates", None),
           ("source_expand_minimal_spaces_terminates", "py_expand_minimal_spaces_terminates", None), ("source_expand_attractor_seeds_terminates", "py_expand_attractor_seeds_terminates", None),
           ("size_bound", "size_bound", None), ("bfs_terminates", "bfs_terminates", None), ("dfs_terminates", "dfs_terminates", None),
           ("target_terminates", "target_terminates", None), ("min_terminates", "min_terminates", None),
           ("step_terminates", "step_terminates", None), ("run_terminates", "run_terminates", None),
           ("raise_depth_fuel_irrelevant", "raise_depth_fuel_irrelevant", "depth propagation stops by itself (acyclicity)"),
           ("strict_loop_fuel_enough", "strict_loop_fuel_enough", None),
           ("reach_list_complete", "reach_list_complete", "the reachability worklist finishes within 2^n iterations"),
           ("block_expansion_terminates", "expand_block_terminates", None),
           ("greedy_loop_terminates", "greedy_loop_fuel_irrelevant", "candidate pipeline: greedy flips"), ("simulation_rounds_terminate", "sim_rounds_fuel_irrelevant", None),
           ("candidate_pipeline_terminates", "compute_candidates_fuel_irrelevant", None), ("symbolic_test_terminates", "symbolic_test_terminates", None), ("unfixed_loop_can_stall", "noforce_can_stall", "defect D6, formally"),
           ("fixed_loop_answers_on_that_instance", "stall_fixed_answer", None),
           ("aseeds_expansion_terminates", "expand_aseeds_terminates", None),
           ("sanitize_clash_loop_terminates", "fresh_total", "the rename loop of sanitize_network_names needs at most one more round than there are variables"),
           ("scc_expansion_terminates", "expand_scc_terminates", "source-SCC strategy: fuel n + 2 always suffices"),
           ("source_text_expand_block_terminates", "py_api_expand_block_terminates", "the generated expand_block with fuel 3^n + 2 does not run out of fuel on any well-formed diagram"),
           ("source_text_expand_scc_terminates", "py_api_expand_scc_terminates", "the same for the SOURCE TEXT: the generated public method expand_scc on a fresh diagram with fuel n + 2 neither runs out of fuel nor trips one of its assertions"),
           ("scc_expansion_no_assert", "expand_scc_no_assert", "neither assertion of the strategy can fail"),
           ("scc_expansion_edge_strict", "expand_scc_EdgeStrict", None),
           ("symbolic_filter_total", "compute_attractors_sym_total", "the candidate filter with the real reachability procedure never runs out of fuel")],
 examples="")

SPEC["C14"] = dict(title="Cached attractor data is never stale", comment="""
Model: every cache field carries a ghost tag = the successor motif list and skip flag it was computed
against (Diagram.cur_tag); CacheOK says every set field carries the node's CURRENT tag.  The correspondence
run compares which fields are set after every operation and judges the cached values themselves.""",
 theorems=[("source_text_expand_block_cache_tags", "py_api_expand_block_CacheOK", "C14 for the SOURCE TEXT of the default strategy: whatever the generated expand_block returns, every cache tag of the diagram it leaves is sound (the source fast-forward writes its caches against the node's new successor list)"),
           ("source_attach_scc_subdiagram", "py_attach_scc_subdiagram_spec_senv", "translator tie: the function GENERATED from the current text of expand_source_SCCs.attach_scc_subdiagram (PySrcSdScc.v: node copying, cache discarding for stubs and skip nodes, candidate queries, edge copying) does exactly what the model's SCC.attach_scc does in the situation in which expand_source_SCCs calls it (SCCTerm.senv / SI / good_at)"),
           ("source_attach_scc_subdiagram_no_assert", "py_attach_scc_subdiagram_spec_noassert", "... and for every sub-diagram satisfying attach_pre whenever the model does not report the assertion"),
           ("source_attach_scc_subdiagram_assert_case", "py_attach_scc_subdiagram_spec_counterexample", "the one discrepancy: when the assertion main_node_id != main_succ_id fires after edges were copied, the text raises with those edges in the diagram, the model returns the diagram before the edge loop (cannot happen in expand_source_SCCs: SCCTerm.attach_scc_SI)"),
           ("source_reclaim_node_data", "py_reclaim_node_data_spec", "translator tie: reclaim_node_data as generated from the source = Diagram.reclaim"),
           ("source_expand_one_node", "py_expand_one_node_spec", "translator tie: the function GENERATED from the current text of SuccessionDiagram._expand_one_node (PySrcCore.v; embedding PyLibCore.v) computes Diagram.expand_one for every diagram satisfying the class invariant CoreInv, every oracle for the percolated-net cache, and preserves CoreInv"),
           ("step_CacheOK", "step_CacheOK", None), ("run_CacheOK", "run_CacheOK", None), ("expand_one_CacheOK", "expand_one_CacheOK", None),
           ("q_cands_CacheOK", "q_cands_CacheOK", None), ("q_seeds_CacheOK", "q_seeds_CacheOK", None), ("q_sets_CacheOK", "q_sets_CacheOK", None),
           ("reclaim_CacheOK", "reclaim_CacheOK", None), ("not_vacuous", "stale_not_CacheOK", "CacheOK really excludes stale data"),
           ("block_expansion_CacheOK", "expand_block_CacheOK", "source shortcuts and clean-block bookkeeping of expand_block (after fix 3581ec3)"),
           ("aseeds_expansion_keeps_caches_valid", "expand_aseeds_CacheOK", None)],
 examples="")

SPEC["C15"] = dict(title="Early stops and limit errors leave a valid, resumable diagram", comment="""
Model: Diagram.step returns the diagram together with its result, whatever the result is (RBool false,
RRaised ..., RBool true): all invariants below are stated for fst (step ...) WITHOUT any hypothesis on the
result, so they hold at every early stop and every raised limit error.  Resumption: from any such state an
unrestricted BFS/DFS completes to a Hierarchy (bfs_complete / dfs_complete).""",
 theorems=[("source_text_expand_block_any_result", "py_api_expand_block_any_result", "C15 for the SOURCE TEXT of the default strategy: whatever the generated expand_block returns -- True, False at a size limit, the motif-limit error, out of fuel -- the diagram it leaves is well-formed and extends the one it started from"),
           ("source_expand_to_target", "py_expand_to_target_spec_all", "translator tie: the limit handling of the strategy drivers as written in the source (expand_to_target, expand_bfs, expand_dfs, expand_minimal_spaces) is the model's"),
           ("source_expand_bfs", "py_expand_bfs_spec_all", None), ("source_expand_dfs", "py_expand_dfs_spec_all", None), ("source_expand_minimal_spaces", "py_expand_minimal_spaces_spec", None), ("source_expand_attractor_seeds", "py_expand_attractor_seeds_spec", None),
           ("step_SWF", "step_SWF", None), ("step_Faithful_all", "step_Faithful_all", None), ("step_NoStubEdges", "step_NoStubEdges", None),
           ("step_CacheOK", "step_CacheOK", None), ("step_extends", "step_extends", "nothing is ever removed or renumbered"),
           ("expand_one_raise_unchanged", "expand_one_raise_unchanged", None), ("bfs_complete", "bfs_complete", "True from an unrestricted BFS means everything is expanded"),
           ("dfs_complete", "dfs_complete", None), ("block_expansion_any_result", "expand_block_SWF", "also for block expansion, whatever it returns"),
           ("block_expansion_extends", "expand_block_extends", None),
           ("block_expansion_resumes", "expand_block_MinFound_from", "a block expansion that reports completion on a partially expanded diagram (e.g. after a size-limited run) has found every minimal trap space"),
           ("block_expansion_resumes_attractors", "expand_block_AttrServed_from", None)],
 examples="")

SPEC["C16"] = dict(title="Serialization and memory reclamation are transparent", comment="""
Model: OPickle is the identity on the model state (what pickling must be); OReclaim drops the candidate
tag of nodes whose seeds are known.  reclaim_transparent: the runs from d and from reclaim d agree op by op on
results and on everything observable (obs_eq: all fields except candidates of nodes with known seeds).
PARTIAL: that Python's pickle and AEON's text round trip reproduce the fields is runtime behaviour, decided by
running two real diagrams side by side.""",
 theorems=[("source_pickle_round_trip", "py_pickle_round_trip", "translator tie: __setstate__ applied to the result of __getstate__ (both GENERATED from the current source, PySrcPickle.v) rebuilds the object attribute by attribute, given the AEON text round trip of the cleaned network and symbolic = AsynchronousGraph(network): the model's OPickle = identity"),
           ("source_pickle_keeps_config", "py_pickle_keeps_config", "the configuration, the graph, the node index, the Petri net and the NFVS come back verbatim, unconditionally"),
           ("source_reclaim_node_data", "py_reclaim_node_data_spec", "reclaim_node_data as generated from the source = Diagram.reclaim"),
           ("reclaim_transparent", "reclaim_transparent", None), ("step_respects_observation", "step_obs_eq", None), ("reclaim_obs_eq", "reclaim_obs_eq", None),
           ("reclaim_keeps_wellformed", "reclaim_SWF", None), ("reclaim_CacheOK", "reclaim_CacheOK", None),
           ("reclaim_extends", "reclaim_extends", None), ("step_extends", "step_extends", None),
           ("block_expansion_blind_to_reclaim", "expand_block_obs_eq", "the strategies that are not single ops: run on observationally equal diagrams they give equal results and observationally equal diagrams"),
           ("aseeds_expansion_blind_to_reclaim", "expand_aseeds_obs_eq", None),
           ("scc_expansion_blind_to_reclaim", "expand_scc_obs_eq", None),
           ("block_after_reclaim", "expand_block_after_reclaim", None),
           ("aseeds_after_reclaim", "expand_aseeds_after_reclaim", None),
           ("scc_after_reclaim", "expand_scc_after_reclaim", None)],
 examples="")

SPEC["C17"] = dict(title="Results do not depend on how the network is written down", comment="""
In the model a network IS its list of update functions on states, so logically equivalent formulas are
extensionally equal networks (net_equiv).  Polarity flips act on nets, states and spaces.
Reordering the declarations is a permutation acting on nets, states and spaces (Perm.v): dynamics, trap spaces,
percolation, maximal / minimal trap spaces, attractors and the whole fully expanded diagram are equivariant
(perm_hierarchy).  Names.v models sanitize_network_names on code-point lists: total, solver-safe, distinct,
position-preserving (so the dynamics is untouched), idempotent; place names round-trip.  dollar_test_unsafe is the
formal record of the repaired defect D16 (a name ending in a newline passed the `$` test).  The model's output is
compared with the code's on every run.  PARTIAL: the text formats (bnet / aeon / sbml) are AEON's parsers and are
covered by the metamorphic run only.""",
 theorems=[("source_sanitize_network_names", "py_sanitize_spec", "translator tie: the function GENERATED from the current text of petri_net_translation.sanitize_network_names (PySrcNames.v: skeleton checked statement by statement, validity test and substitution read from the regular expressions) returns what the model's Names.sanitize returns (to which sanitize_total / _valid / _nodup / _fixes_valid below apply)"),
           ("source_sanitize_check_only", "py_sanitize_check_only_spec", "with check_only=True it raises exactly when some name is invalid and otherwise returns the names unchanged"),
           ("equiv_trap_space", "equiv_trap_space", None), ("equiv_percolate", "equiv_percolate", None), ("equiv_max_traps", "equiv_max_traps", None),
           ("equiv_min_traps", "equiv_min_traps", None), ("equiv_attractor", "equiv_attractor", None),
           ("flip_trap_space", "flip_trap_space", None), ("flip_percolate", "flip_percolate", None), ("flip_min_trap", "flip_min_trap", None),
           ("flip_max_trap", "flip_max_trap", None), ("flip_attractor", "flip_attractor_weak", "attractors, restricted to well-formed states"),
           ("flip_trans", "flip_trans_weak", None),
           ("perm_trans", "perm_trans", "reordering: the asynchronous dynamics"),
           ("perm_reach", "perm_reach", None),
           ("perm_attractor", "perm_attractor_weak", "attractors (sets of well-formed states)"),
           ("perm_trap_space", "perm_trap_space", None),
           ("perm_percolate", "perm_percolate", None),
           ("perm_min_trap", "perm_min_trap", None),
           ("perm_max_trap_in", "perm_max_trap_in", None),
           ("perm_max_traps", "perm_max_traps_b", "the solver model returns the permuted maximal trap spaces"),
           ("perm_min_traps", "perm_min_traps_b", None),
           ("perm_sources", "perm_sources", None),
           ("perm_hierarchy", "perm_hierarchy", "the fully expanded diagrams of a network and of its reordering have the same node spaces and edges up to the permutation"),
           ("sanitize_total", "sanitize_total", "name sanitisation"),
           ("sanitize_valid", "sanitize_valid", None),
           ("sanitize_distinct", "sanitize_distinct", None),
           ("sanitize_length", "sanitize_length", None),
           ("sanitize_keeps_valid", "sanitize_keeps_valid", None),
           ("sanitize_renamed_shape", "sanitize_renamed_shape", None),
           ("sanitize_idempotent", "sanitize_idempotent", None),
           ("check_only_spec", "check_only_spec", None),
           ("place_round_trip", "place_round_trip", None),
           ("place_name_inj", "place_name_inj", None),
           ("dollar_test_unsafe", "dollar_test_unsafe", "defect D16, formally")],
 examples="""
Example C17_example_perm : is_perm 3 [2; 0; 1] /\\ perm_state [2; 0; 1] [true; false; false] = [false; true; false] /\\
  perm_state (inv_perm [2; 0; 1]) [false; true; false] = [true; false; false].
Proof. split; [|split; reflexivity]. unfold is_perm. simpl. apply (Permutation_cons_app [0; 1] [] 2). simpl. apply Permutation_refl. Qed.
(* "a<newline>", "a{", "a_"  ->  "_a_", "__a_", "a_" *)
Example C17_example_sanitize : sanitize [[97; 10]; [97; 123]; [97; 95]]%N = Some [[95; 97; 95]; [95; 95; 97; 95]; [97; 95]]%N.
Proof. vm_compute. reflexivity. Qed.
""")

SPEC["C18"] = dict(title="Results compose across independent and input-conditioned sub-networks", comment="""
PARTIAL: the third clause (agreement with an independent symbolic computation on the published models)
is empirical by nature and decided by the thorough run against biodivine_aeon.Attractors.""",
 theorems=[("union_trap_space", "union_trap_space", None), ("union_min_trap", "union_min_trap", None), ("union_min_trap_split", "union_min_trap_split", None),
           ("union_in_attractor", "union_in_attractor", "attractors of the union are products"), ("union_reach", "union_reach_weak", None),
           ("union_percolate", "union_percolate", None), ("fix_net_trap_space", "fix_net_trap_space", None),
           ("fix_net_percolate", "fix_net_percolate", None), ("fix_net_attractor", "fix_net_attractor", None)],
 examples="")

SPEC["C19"] = dict(title="Results are reproducible", comment="""
The model is a function: the same network, configuration, history and tape give the same result.  The
theorems below are the order-independence facts behind the places where the code iterates over Python
sets or solver output.  PARTIAL: independence from the interpreter's hash seed and from other diagrams in
the process is runtime behaviour, decided by re-running every case under several PYTHONHASHSEED values in
fresh and in warm processes and comparing complete dumps.""",
 theorems=[("source_expand_one_node_is_a_function_of_the_diagram", "py_expand_one_node_spec", "translator tie: the text of _expand_one_node (which sorts the solver answer by space_unique_key before creating nodes) computes the model's expand_one, a function of the network, the configuration and the diagram only: node ids, edges and motif order cannot depend on hash seeds or on other diagrams"),
           ("source_expand_bfs_is_a_function_of_the_diagram", "py_expand_bfs_spec_all", "... likewise the traversal order of expand_bfs / expand_dfs (successors are sorted)"), ("source_expand_dfs_is_a_function_of_the_diagram", "py_expand_dfs_spec_all", None),
           ("percolation_order_independent", "percolation_unique", None), ("strict_order_independent", "strict_order_independent", "iteration over the Python candidate set"), ("strict_fuel", "strict_loop_fuel_enough", None),
           ("sort_by_key_perm", "sort_by_key_perm", "solver output is sorted by key before node ids are assigned"),
           ("space_key_inj", "space_key_inj", "the key determines the space"), ("find_node_exact", "find_node_exact", None)],
 examples="")

SPEC["C20"] = dict(title="Reported diagram metadata is accurate", comment="""
Model: node ids are list positions (contiguous from the root at 0, len = size); depths are maintained by
raise_depth; find_node goes through the integer key; ObsFacts.is_subgraph_b models is_subgraph (after fix 087feea).
PARTIAL: summary() is not modelled; it is decided by recomputation in the run.""",
 theorems=[("source_is_subgraph", "py_is_subgraph_spec", "translator tie: SuccessionDiagram.is_subgraph / is_isomorphic as generated from the source compute the model's is_subgraph_b / is_isomorphic_b (whose specs are is_subgraph_b_spec / is_isomorphic_b_spec)"), ("source_is_isomorphic", "py_is_isomorphic_spec", None),
           ("source_find_node", "py_find_node_spec", "SuccessionDiagram.find_node, pinned to its current text (PySrcGetters.v), is the model's find_node whenever node_indices is consistent with the graph (part of CoreInv, kept by every method) -- hence exact:"), ("source_find_node_exact", "py_find_node_exact", None), ("source_find_node_none", "py_find_node_none", None),
           ("source_node_ids", "py_node_ids_spec", "the id iterators enumerate the nodes / the expanded nodes / the stubs"), ("source_expanded_ids", "py_expanded_ids_spec", None), ("source_stub_ids", "py_stub_ids_spec", None),
           ("source_edge_stable_motif_first", "py_edge_stable_motif_first", "edge_stable_motif is the first of edge_all_stable_motifs (also reduced), defined exactly on the edges"), ("source_edge_stable_motif_defined", "py_edge_stable_motif_defined", None),
           ("source_init", "py_init_spec", None),
           ("source_depth", "py_depth_spec", "translator tie: SuccessionDiagram.depth as generated from the source = Diagram.depth"),
           ("source_ensure_node", "py_ensure_node_spec", "... _ensure_node / _ensure_edge / _update_node_depth compute Diagram.ensure_node"),
           ("source_len", "py_len_spec", "translator tie: __len__, root and node_is_minimal as generated from the source"), ("source_root", "py_root_spec", None), ("source_node_is_minimal", "py_node_is_minimal_spec", None),
           ("find_node_exact", "find_node_exact", None), ("find_node_none", "find_node_none", None), ("step_extends", "step_extends", "ids and spaces are stable"),
           ("depth_longest_path_all_histories", "run_DepthOK_all", None), ("depth_longest_path", "depth_longest_path", None),
           ("depth_is_max", "depth_is_max", None), ("depth_attained", "depth_attained", None), ("raise_depth_spec", "raise_depth_spec", None),
           ("space_key_inj", "space_key_inj", None), ("is_subgraph_spec", "is_subgraph_b_spec", "node-set and edge-set inclusion"),
           ("block_expansion_depth", "expand_block_DepthOK", "depth = longest root path after block expansion (source shortcut included)"),
           ("aseeds_expansion_depth", "expand_aseeds_DepthOK", None),
           ("source_space_unique_key", "py_space_unique_key_spec", "translator tie: the node key generated from the current source of space_utils.space_unique_key is the model's space_key"),
           ("source_space_unique_key_raises", "py_space_unique_key_raises", "IndexError exactly for unknown variables"),
           ("is_isomorphic_spec", "is_isomorphic_b_spec", "is_isomorphic = is_subgraph both ways = same node spaces and same edges"),
           ("is_isomorphic_symmetric", "is_isomorphic_b_sym", None)],
 examples="")
