#!/usr/bin/env python3
"""py2coq_getters.py -- the small read-only methods of biobalm.SuccessionDiagram through which the properties OBSERVE a diagram
(node_ids, stub_ids, expanded_ids, minimal_trap_spaces, find_node, edge_stable_motif, edge_all_stable_motifs).

These methods use generators, comprehensions over generators and try/except, which the statement translators do not cover; they are
tied by PINNING instead: the body of each method in the CURRENT source of /repo is compared, as a syntax tree (comments, docstrings and
layout are free), with the reference text below, and only if they are identical the Gallina reading of that reference text (written
next to it, by hand: part of the trusted base, like a prelude) is emitted into coq/theories/PySrcGetters.v.  Any change of a method's
text is refused (fail closed): the properties importing the file then report that the tie no longer checks.
PySrcGettersFacts.v proves the emitted definitions equal to the model's observation functions (Diagram.minimal_ids, find_node, ...).
"""
import ast, os, sys, textwrap

REPO = os.environ.get("VERIF_REPO", "/repo")
OUT = os.path.join(os.path.dirname(os.path.abspath(__file__)), "..", "coq", "theories", "PySrcGetters.v")
SRC = "biobalm/succession_diagram.py"

class Unsupported(Exception):
    pass

# name -> (parameters after self, defaults, reference body, Gallina reading)
PINNED = [
    ("node_ids", [], [], '''
for i in range(len(self)):
    yield i
''', '''Definition py_node_ids (w_ : pyst) : list nat := seq 0 (size (p_sd w_)).'''),
    ("stub_ids", [], [], '''
for i in range(len(self)):
    if not self.node_data(i)["expanded"]:
        yield i
''', '''Definition py_stub_ids (w_ : pyst) : list nat := filter (fun i => negb (n_exp (get (p_sd w_) i))) (seq 0 (size (p_sd w_))).'''),
    ("expanded_ids", [], [], '''
for i in range(len(self)):
    if self.node_data(i)["expanded"]:
        yield i
''', '''Definition py_expanded_ids (w_ : pyst) : list nat := filter (fun i => n_exp (get (p_sd w_) i)) (seq 0 (size (p_sd w_))).'''),
    ("minimal_trap_spaces", [], [], '''
return [i for i in self.expanded_ids() if self.node_is_minimal(i)]
''', '''(* the condition is the GENERATED node_is_minimal of PySrcCore.v; an exception in it would end the comprehension: None *)
Fixpoint py_filter_minimal (fuel : nat) (N : net) (cfg : config) (pnc : nat -> bool) (w_ : pyst) (l : list nat) : option (list nat) :=
  match l with
  | [] => Some []
  | i :: r => match py_node_is_minimal fuel N cfg pnc w_ i with
              | CRet _ b => option_map (fun t => if b then i :: t else t) (py_filter_minimal fuel N cfg pnc w_ r)
              | _ => None
              end
  end.
Definition py_minimal_trap_spaces (fuel : nat) (N : net) (cfg : config) (pnc : nat -> bool) (w_ : pyst) : option (list nat) :=
  py_filter_minimal fuel N cfg pnc w_ (py_expanded_ids w_).'''),
    ("find_node", ["node_space"], [], '''
try:
    key = space_unique_key(node_space, self.network)  # throws IndexError
    if key in self.node_indices:
        return self.node_indices[key]
    else:
        return None
except IndexError:
    return None
''', '''(* a space of the model ranges over the network's variables, so space_unique_key (tied to BN.space_key by PySrcKey.v) cannot raise IndexError *)
Definition py_find_node (w_ : pyst) (node_space : space) : option nat :=
  let key := space_key node_space in
  if idx_mem key (p_idx w_) then idx_get (p_idx w_) key else None.'''),
    ("edge_stable_motif", ["parent_id", "child_id", "reduced"], [False], '''
if reduced:
    return cast(
        BooleanSpace,
        {
            k: v
            for k, v in self.dag.edges[parent_id, child_id]["motif"].items()  # type: ignore
            if k not in self.node_data(parent_id)["space"]
        },
    )
else:
    return cast(BooleanSpace, self.dag.edges[parent_id, child_id]["motif"])
''', '''(* self.dag.edges[p, c] raises KeyError without the edge: None; "motif" is the first entry of all_motifs (dag_add_edge / _ensure_edge, PyLibCore.v) *)
Definition py_edge_stable_motif (w_ : pyst) (parent_id child_id : nat) (reduced : bool) : option space :=
  if has_edge (p_sd w_) parent_id child_id then
    Some (if reduced then reduce_by (first_motif (p_sd w_) parent_id child_id) (n_space (get (p_sd w_) parent_id))
          else first_motif (p_sd w_) parent_id child_id)
  else None.'''),
    ("edge_all_stable_motifs", ["parent_id", "child_id", "reduced"], [False], '''
all_motifs: list[BooleanSpace] = cast(list[BooleanSpace], self.dag.edges[parent_id, child_id]["all_motifs"])  # type: ignore
if reduced:
    result: list[BooleanSpace] = []
    node_space = self.node_data(parent_id)["space"]
    for m in all_motifs:
        result.append({k: v for k, v in m.items() if k not in node_space})
    return result
else:
    return all_motifs
''', '''Definition py_edge_all_stable_motifs (w_ : pyst) (parent_id child_id : nat) (reduced : bool) : option (list space) :=
  match find (fun e => Nat.eqb (e_src e) parent_id && Nat.eqb (e_dst e) child_id) (sd_edges (p_sd w_)) with
  | Some e => Some (if reduced then map (fun m => reduce_by m (n_space (get (p_sd w_) parent_id))) (e_motifs e) else e_motifs e)
  | None => None
  end.'''),
]

def translate():
    mod = ast.parse(open(os.path.join(REPO, SRC)).read())
    cls = [n for n in mod.body if isinstance(n, ast.ClassDef) and n.name == "SuccessionDiagram"]
    if len(cls) != 1: raise Unsupported("class SuccessionDiagram not found exactly once")
    parts = ["(* PySrcGetters.v -- GENERATED by tools/py2coq_getters.py from the current source of /repo/biobalm/succession_diagram.py; do not edit.",
             "   Each definition is the Gallina reading of a method whose CURRENT body was found identical (as a syntax tree) to the reference text kept in the tool. *)",
             "From Coq Require Import List Bool Arith NArith.", "Import ListNotations.",
             "From BB Require Import BN Diagram Blocks PyLib PyLibCore PySrcCore.", ""]
    for name, params, defaults, ref, coq in PINNED:
        ms = [n for n in cls[0].body if isinstance(n, ast.FunctionDef) and n.name == name]
        if len(ms) != 1: raise Unsupported(f"method SuccessionDiagram.{name} not found exactly once")
        m = ms[0]
        a = m.args
        if a.vararg or a.kwarg or a.kwonlyargs or a.posonlyargs or m.decorator_list or [x.arg for x in a.args] != ["self"] + params:
            raise Unsupported(f"SuccessionDiagram.{name}: signature changed")
        if [d.value if isinstance(d, ast.Constant) else "?" for d in a.defaults] != defaults:
            raise Unsupported(f"SuccessionDiagram.{name}: default values changed")
        body = [b for b in m.body if not (isinstance(b, ast.Expr) and isinstance(b.value, ast.Constant) and isinstance(b.value.value, str))]
        if [ast.dump(b) for b in body] != [ast.dump(b) for b in ast.parse(textwrap.dedent(ref)).body]:
            raise Unsupported(f"SuccessionDiagram.{name}: the body differs from the reference text")
        parts += [f"(* {SRC}: def {name}(self{''.join(', ' + p for p in params)}):", textwrap.indent(textwrap.dedent(ref).strip(), "     "), "*)", coq, ""]
    return "\n".join(parts)

def main(argv):
    try:
        t = translate()
    except Unsupported as e:
        print(f"py2coq_getters: FAILED PySrcGetters.v: UNSUPPORTED: {e}", file=sys.stderr)
        return 2
    if len(argv) > 1 and argv[1] == "--check":
        same = os.path.exists(OUT) and open(OUT).read() == t
        print("unchanged" if same else "CHANGED")
        return 0 if same else 1
    if os.path.exists(OUT) and open(OUT).read() == t:
        print("unchanged", os.path.normpath(OUT))
    else:
        open(OUT, "w").write(t)
        print("wrote", os.path.normpath(OUT))
    return 0

if __name__ == "__main__":
    sys.exit(main(sys.argv))
