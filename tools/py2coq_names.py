#!/usr/bin/env python3
"""py2coq_names.py -- fail-closed translator of biobalm/petri_net_translation.sanitize_network_names into Gallina (coq/theories/PySrcNames.v).

The function is a fixed skeleton (copy the network; for every variable: test the name with a regular expression, under check_only raise,
otherwise substitute the invalid characters and retry `set_variable_name` with one more leading underscore until AEON accepts the name).  The
translator walks the CURRENT statements, refuses anything that is not this skeleton, and fills the holes -- the validity test, the substitution,
the prefix -- from tables of the regular expressions it knows how to read:
    re.fullmatch("[a-zA-Z0-9_]+", s)      Names.valid_name
    re.match("^[a-zA-Z0-9_]+$", s)        Names.valid_name_dollar   (`$` also matches before a trailing newline: the test used before fix D16)
    re.sub("[^a-zA-Z0-9_]", "_", s)       Names.subst_name
so that a change of the test to the older form still translates and then fails the proof PySrcNamesFacts.py_sanitize_spec (= Names.sanitize),
while an unknown expression is refused.  Embedding of the network: the list of its variable names in variable order (nothing else is touched);
`network.set_variable_name(var, n)` raises iff some variable -- the renamed one included -- currently has the name n (engine contract of AEON).
"""
import ast, os, sys, textwrap

REPO = os.environ.get("VERIF_REPO", "/repo")
OUT = os.path.join(os.path.dirname(os.path.abspath(__file__)), "..", "coq", "theories", "PySrcNames.v")
SRC = "biobalm/petri_net_translation.py"

class Unsupported(Exception):
    pass

D = ast.dump
def stmt(txt):
    return D(ast.parse(textwrap.dedent(txt).strip()).body[0])

VALID = {("fullmatch", "[a-zA-Z0-9_]+"): "valid_name", ("match", "^[a-zA-Z0-9_]+$"): "valid_name_dollar"}
SUBST = {("[^a-zA-Z0-9_]", "_"): "subst_name"}

def translate():
    mod = ast.parse(open(os.path.join(REPO, SRC)).read())
    fs = [n for n in mod.body if isinstance(n, ast.FunctionDef) and n.name == "sanitize_network_names"]
    if len(fs) != 1: raise Unsupported("sanitize_network_names not found exactly once")
    f = fs[0]; a = f.args
    if a.vararg or a.kwarg or a.kwonlyargs or a.posonlyargs or f.decorator_list or [x.arg for x in a.args] != ["network", "check_only"] \
            or len(a.defaults) != 1 or not (isinstance(a.defaults[0], ast.Constant) and a.defaults[0].value is False):
        raise Unsupported("sanitize_network_names: signature or default changed")
    body = [b for b in f.body if not (isinstance(b, ast.Expr) and isinstance(b.value, ast.Constant) and isinstance(b.value.value, str))]
    if len(body) != 3 or D(body[0]) != stmt("network = copy.copy(network)") or D(body[2]) != stmt("return network"):
        raise Unsupported("sanitize_network_names: outer skeleton changed")
    loop = body[1]
    if not (isinstance(loop, ast.For) and not loop.orelse and D(loop.target) == "Name(id='var', ctx=Store())" and D(loop.iter) == D(ast.parse("network.variables()", mode="eval").body)):
        raise Unsupported("sanitize_network_names: the loop over the variables changed")
    lb = loop.body
    if len(lb) != 2 or D(lb[0]) != stmt("name = network.get_variable_name(var)") or not isinstance(lb[1], ast.If) or lb[1].orelse:
        raise Unsupported("sanitize_network_names: loop body changed")
    test = lb[1].test
    ok = isinstance(test, ast.UnaryOp) and isinstance(test.op, ast.Not) and isinstance(test.operand, ast.Call) and isinstance(test.operand.func, ast.Attribute) \
        and D(test.operand.func.value) == "Name(id='re', ctx=Load())" and len(test.operand.args) == 2 and not test.operand.keywords \
        and isinstance(test.operand.args[0], ast.Constant) and isinstance(test.operand.args[0].value, str) and D(test.operand.args[1]) == "Name(id='name', ctx=Load())"
    if not ok: raise Unsupported("sanitize_network_names: the validity test is not `not re.<f>(<pattern>, name)`")
    key = (test.operand.func.attr, test.operand.args[0].value)
    if key not in VALID: raise Unsupported(f"sanitize_network_names: unknown validity test re.{key[0]}({key[1]!r}, name)")
    valid = VALID[key]
    ib = lb[1].body
    if len(ib) != 3: raise Unsupported("sanitize_network_names: body of the invalid-name branch changed")
    if not (isinstance(ib[0], ast.If) and not ib[0].orelse and D(ib[0].test) == "Name(id='check_only', ctx=Load())" and len(ib[0].body) == 1 and isinstance(ib[0].body[0], ast.Raise)
            and isinstance(ib[0].body[0].exc, ast.Call) and D(ib[0].body[0].exc.func) == "Name(id='RuntimeError', ctx=Load())"):
        raise Unsupported("sanitize_network_names: the check_only branch changed")
    s = ib[1]
    ok = isinstance(s, ast.Assign) and len(s.targets) == 1 and D(s.targets[0]) == "Name(id='new_name', ctx=Store())" and isinstance(s.value, ast.Call) \
        and D(s.value.func) == D(ast.parse("re.sub", mode="eval").body) and len(s.value.args) == 3 and not s.value.keywords \
        and all(isinstance(x, ast.Constant) and isinstance(x.value, str) for x in s.value.args[:2]) and D(s.value.args[2]) == "Name(id='name', ctx=Load())"
    if not ok: raise Unsupported("sanitize_network_names: the substitution is not `new_name = re.sub(<pattern>, <repl>, name)`")
    skey = (s.value.args[0].value, s.value.args[1].value)
    if skey not in SUBST: raise Unsupported(f"sanitize_network_names: unknown substitution re.sub({skey[0]!r}, {skey[1]!r}, name)")
    subst = SUBST[skey]
    retry = '''
    while True:
        try:
            network.set_variable_name(var, new_name)
            break
        except Exception:
            new_name = "_" + new_name
    '''
    if D(ib[2]) != stmt(retry): raise Unsupported("sanitize_network_names: the retry loop changed")
    return "\n".join([
        "(* PySrcNames.v -- GENERATED by tools/py2coq_names.py from the current source of /repo/biobalm/petri_net_translation.py; do not edit.",
        "   sanitize_network_names: its skeleton was checked statement by statement, the holes (validity test, substitution) were read from the regular expressions.",
        "   A network is the list of its variable names; set_variable_name raises iff the name is taken (by any variable, the renamed one included). *)",
        "From Coq Require Import List Bool Arith NArith.", "Import ListNotations.",
        "From BB Require Import BN Names.", "",
        "Inductive nres := NRet (names : list name) | NRaise | NFuel.", "",
        "(* while True: try: network.set_variable_name(var, new_name); break  except Exception: new_name = \"_\" + new_name *)",
        "Fixpoint py_rename_loop (fuel : nat) (cur : list name) (var : nat) (new_name : name) : option (list name) :=",
        "  match fuel with",
        "  | O => None",
        "  | S f => if existsb (eqb_name new_name) cur then py_rename_loop f cur var (95%N :: new_name) else Some (set_nth var new_name cur)",
        "  end.", "",
        f"(* for var in network.variables(): name = ...; if not re.{key[0]}({key[1]!r}, name): if check_only: raise; new_name = re.sub({skey[0]!r}, {skey[1]!r}, name); <retry loop> *)",
        "Fixpoint py_sanitize_loop (fuel : nat) (vars : list nat) (cur : list name) (check_only : bool) : nres :=",
        "  match vars with",
        "  | [] => NRet cur",
        "  | var :: rest =>",
        "      let name_ := nth var cur [] in",
        f"      if negb ({valid} name_) then",
        "        if check_only then NRaise else",
        f"        let new_name := {subst} name_ in",
        "        match py_rename_loop fuel cur var new_name with",
        "        | Some cur' => py_sanitize_loop fuel rest cur' check_only",
        "        | None => NFuel",
        "        end",
        "      else py_sanitize_loop fuel rest cur check_only",
        "  end.", "",
        f"(* {SRC}: def sanitize_network_names(network, check_only=False) *)",
        "Definition py_sanitize_network_names (fuel : nat) (names : list name) (check_only : bool) : nres :=",
        "  py_sanitize_loop fuel (seq 0 (length names)) names check_only.", ""])

def main(argv):
    try:
        t = translate()
    except Unsupported as e:
        print(f"py2coq_names: FAILED PySrcNames.v: UNSUPPORTED: {e}", file=sys.stderr)
        return 2
    if len(argv) > 1 and argv[1] == "--check":
        same = os.path.exists(OUT) and open(OUT).read() == t
        print("unchanged" if same else "CHANGED")
        return 0 if same else 1
    if os.path.exists(OUT) and open(OUT).read() == t:
        print("unchanged", os.path.normpath(OUT))
    else:
        open(OUT, "w").write(t)
        print("wrote", os.path.normpath(OUT))
    return 0

if __name__ == "__main__":
    sys.exit(main(sys.argv))
