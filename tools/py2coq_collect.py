#!/usr/bin/env python3
"""py2coq_collect.py -- fail-closed translator of the collecting halves of biobalm/trappist_core.trappist and compute_fixed_point_reduced_STG
(C09: "a solution limit only truncates the list") into Gallina: coq/theories/PySrcCollect.v.

Both functions are: defaults for the optional arguments, `results = []`, the guard for a non-positive limit, the closure `save_result` that
appends and answers whether the enumeration should go on, the call of the *_async enumerator (which calls `on_solution` for every answer set in
the engine's order and stops as soon as it returns False), `return results`.  The translator checks that skeleton statement by statement and reads
the two places where the limit is compared -- the guard's `<=` against 0 and the closure's `<` -- from the text.  The enumerator is the list of
its answers (engine contract).  PySrcCollectFacts.v proves: the result is firstn (limit) of the answers (everything for limit None).
"""
import ast, os, sys, textwrap

REPO = os.environ.get("VERIF_REPO", "/repo")
OUT = os.path.join(os.path.dirname(os.path.abspath(__file__)), "..", "coq", "theories", "PySrcCollect.v")
SRC = "biobalm/trappist_core.py"

class Unsupported(Exception):
    pass

D = ast.dump
def body_of(txt):
    return [D(x) for x in ast.parse(textwrap.dedent(txt)).body]

CMP = {ast.Lt: "Nat.ltb", ast.LtE: "Nat.leb"}

def guard_of(s, name):
    """if solution_limit is not None and solution_limit <op> <k>: return results"""
    ok = isinstance(s, ast.If) and not s.orelse and isinstance(s.test, ast.BoolOp) and isinstance(s.test.op, ast.And) and len(s.test.values) == 2 \
        and D(s.test.values[0]) == D(ast.parse("solution_limit is not None", mode="eval").body) \
        and isinstance(s.test.values[1], ast.Compare) and len(s.test.values[1].ops) == 1 and type(s.test.values[1].ops[0]) in CMP \
        and D(s.test.values[1].left) == "Name(id='solution_limit', ctx=Load())" and isinstance(s.test.values[1].comparators[0], ast.Constant) \
        and type(s.test.values[1].comparators[0].value) is int and s.test.values[1].comparators[0].value >= 0 \
        and [D(b) for b in s.body] == body_of("return results")
    if not ok: raise Unsupported(f"{name}: the guard for a non-positive limit changed")
    return CMP[type(s.test.values[1].ops[0])], s.test.values[1].comparators[0].value

def closure_of(s, name):
    """def save_result(x): results.append(x); if solution_limit is None: return True else: return len(results) <op> solution_limit"""
    ok = isinstance(s, ast.FunctionDef) and s.name == "save_result" and [a.arg for a in s.args.args] == ["x"] and not s.decorator_list and len(s.body) == 2 \
        and D(s.body[0]) == body_of("results.append(x)")[0] and isinstance(s.body[1], ast.If) \
        and D(s.body[1].test) == D(ast.parse("solution_limit is None", mode="eval").body) and [D(b) for b in s.body[1].body] == body_of("return True") \
        and len(s.body[1].orelse) == 1 and isinstance(s.body[1].orelse[0], ast.Return) and isinstance(s.body[1].orelse[0].value, ast.Compare) \
        and len(s.body[1].orelse[0].value.ops) == 1 and type(s.body[1].orelse[0].value.ops[0]) in CMP \
        and D(s.body[1].orelse[0].value.left) == D(ast.parse("len(results)", mode="eval").body) \
        and D(s.body[1].orelse[0].value.comparators[0]) == "Name(id='solution_limit', ctx=Load())"
    if not ok: raise Unsupported(f"{name}: the closure save_result changed")
    return CMP[type(s.body[1].orelse[0].value.ops[0])]

def one(mod, name, pre, call):
    fs = [n for n in mod.body if isinstance(n, ast.FunctionDef) and n.name == name]
    if len(fs) != 1: raise Unsupported(f"{name} not found exactly once")
    body = [b for b in fs[0].body if not (isinstance(b, ast.Expr) and isinstance(b.value, ast.Constant) and isinstance(b.value.value, str))]
    n = len(pre)
    if [D(x) for x in body[:n]] != pre or len(body) != n + 5: raise Unsupported(f"{name}: skeleton changed")
    if D(body[n]) != body_of("results: list[BooleanSpace] = []")[0]: raise Unsupported(f"{name}: results declaration changed")
    g_op, g_k = guard_of(body[n + 1], name)
    c_op = closure_of(body[n + 2], name)
    if D(body[n + 3]) != body_of(call)[0]: raise Unsupported(f"{name}: the call of the enumerator changed")
    if D(body[n + 4]) != body_of("return results")[0]: raise Unsupported(f"{name}: return changed")
    return g_op, g_k, c_op

def emit(cname, pyname, g_op, g_k, c_op):
    return [f"(* {SRC}: def {pyname}(.., solution_limit, ..): guard `solution_limit {'<=' if g_op == 'Nat.leb' else '<'} {g_k}`, closure `len(results) {'<=' if c_op == 'Nat.leb' else '<'} solution_limit` *)",
            f"Definition {cname} {{A : Type}} (solution_limit : option nat) (answers : list A) : list A :=",
            f"  if (match solution_limit with Some l_ => {g_op} l_ {g_k} | None => false end) then []",
            f"  else py_enumerate (fun results => match solution_limit with None => true | Some l_ => {c_op} (length results) l_ end) answers [].", ""]

def translate():
    mod = ast.parse(open(os.path.join(REPO, SRC)).read())
    t = one(mod, "trappist", body_of('''
        if ensure_subspace is None:
            ensure_subspace = {}
        if avoid_subspaces is None:
            avoid_subspaces = []
        '''), '''
        trappist_async(
            network,
            on_solution=save_result,
            problem=problem,
            reverse_time=reverse_time,
            ensure_subspace=ensure_subspace,
            avoid_subspaces=avoid_subspaces,
            optimize_source_variables=optimize_source_variables,
        )''')
    f = one(mod, "compute_fixed_point_reduced_STG", [], '''
        compute_fixed_point_reduced_STG_async(
            petri_net,
            retained_set,
            on_solution=save_result,
            ensure_subspace=ensure_subspace,
            avoid_subspaces=avoid_subspaces,
        )''')
    # the enumerators stop when on_solution returns False:  `if not on_solution(..): break`
    for name, conv in (("trappist_async", "_clingo_model_to_space"), ("compute_fixed_point_reduced_STG_async", "_clingo_model_to_fixed_point")):
        fs = [n for n in mod.body if isinstance(n, ast.FunctionDef) and n.name == name]
        if len(fs) != 1: raise Unsupported(f"{name} not found exactly once")
        want = body_of(f'''
            if isinstance(result, SolveHandle):
                with result as iterator:
                    for model in iterator:
                        if not on_solution({conv}(model)):
                            break
            ''')[0]
        if D(fs[0].body[-1]) != want: raise Unsupported(f"{name}: the enumeration loop changed")
    return "\n".join([
        "(* PySrcCollect.v -- GENERATED by tools/py2coq_collect.py from the current source of /repo/biobalm/trappist_core.py; do not edit.",
        "   The collecting halves of trappist / compute_fixed_point_reduced_STG: skeleton checked statement by statement, the limit comparisons read from the text. *)",
        "From Coq Require Import List Bool Arith.", "Import ListNotations.", "",
        "(* for model in iterator: if not on_solution(convert(model)): break   with   on_solution = save_result: results.append(x); return <go on?> *)",
        "Fixpoint py_enumerate {A : Type} (go_on : list A -> bool) (answers : list A) (results : list A) : list A :=",
        "  match answers with",
        "  | [] => results",
        "  | x :: r => let results := results ++ [x] in if go_on results then py_enumerate go_on r results else results",
        "  end.", ""] + emit("py_trappist_collect", "trappist", *t) + emit("py_reduced_stg_collect", "compute_fixed_point_reduced_STG", *f))

def main(argv):
    try:
        t = translate()
    except Unsupported as e:
        print(f"py2coq_collect: FAILED PySrcCollect.v: UNSUPPORTED: {e}", file=sys.stderr)
        return 2
    if len(argv) > 1 and argv[1] == "--check":
        same = os.path.exists(OUT) and open(OUT).read() == t
        print("unchanged" if same else "CHANGED")
        return 0 if same else 1
    if os.path.exists(OUT) and open(OUT).read() == t:
        print("unchanged", os.path.normpath(OUT))
    else:
        open(OUT, "w").write(t)
        print("wrote", os.path.normpath(OUT))
    return 0

if __name__ == "__main__":
    sys.exit(main(sys.argv))
