#!/usr/bin/env python3
"""py2coq_core.py -- fail-closed translator of the core methods of biobalm.SuccessionDiagram into Gallina.

_update_node_depth, _ensure_edge, _ensure_node, _expand_one_node, node_successors, node_is_minimal, __len__, root are
read from the CURRENT source of biobalm/succession_diagram.py with `ast`; every construct outside the supported subset
raises Unsupported (nothing is skipped silently except docstrings, bare type annotations and `if self.config["debug"]:`
blocks that contain only print calls); the result is written to coq/theories/PySrcCore.v.  PySrcCoreFacts.v proves the
generated functions equal to the hand-written model functions of Diagram.v (raise_depth / ensure_edge / ensure_node /
expand_one / node_successors / is_minimal).  The embedding of networkx, the engines and dict aliasing is
coq/theories/PyLibCore.v (trusted; its header lists every mapping).
"""
import ast, sys, os, textwrap

REPO = os.environ.get("VERIF_REPO", "/repo")
OUTDIR = os.path.join(os.path.dirname(os.path.abspath(__file__)), "..", "coq", "theories")
SRC = "biobalm/succession_diagram.py"

class Unsupported(Exception):
    pass

def fail(node, why):
    raise Unsupported(f"line {getattr(node, 'lineno', '?')}: {why}: {ast.dump(node)[:220]}")

COQ_TY = {"nat": "nat", "optnat": "(option nat)", "bool": "bool", "space": "space", "spacelist": "(list space)", "natlist": "(list nat)",
          "key": "BinNums.N", "unit": "unit", "pn": "bool", "pnobj": "unit", "idspacelist": "(list (nat * space))"}
DFLT = {"nat": "0", "optnat": "(@None nat)", "bool": "false", "space": "(@nil (option bool))", "spacelist": "(@nil space)",
        "natlist": "(@nil nat)", "key": "0%N", "pn": "false", "pnobj": "Datatypes.tt", "idspacelist": "(@nil (nat * space))"}

# method -> arguments (after self), result type, local types.  "alias" locals are Python names bound to a node dict.
FUNCS = [
    dict(name="_update_node_depth", args=[("node_id", "nat"), ("parent_id", "nat")], ret="unit", recursive=True,
         locs={"parent_depth": "nat", "current_depth": "nat"}, loopvars={"successor_id": "nat"}, alias=[]),
    dict(name="_ensure_edge", args=[("parent_id", "nat"), ("child_id", "nat"), ("stable_motif", "space")], ret="unit",
         locs={}, loopvars={}, alias=[]),
    dict(name="_ensure_node", args=[("parent_id", "optnat"), ("stable_motif", "space")], ret="nat",
         locs={"fixed_vars": "space", "key": "key", "child_id": "optnat"}, loopvars={}, alias=[]),
    dict(name="_expand_one_node", args=[("node_id", "nat")], ret="unit",
         locs={"current_space": "space", "source_nodes": "natlist", "sub_spaces": "spacelist", "partial_sub_spaces": "spacelist", "pn": "pn"},
         loopvars={"sub_space": "space"}, alias=["node"]),
    dict(name="node_successors", args=[("node_id", "nat"), ("compute", "bool")], ret="natlist", defaults={"compute": False},
         locs={}, loopvars={}, alias=["node"]),
    dict(name="node_is_minimal", args=[("node_id", "nat")], ret="bool", locs={"is_leaf": "bool"}, loopvars={}, alias=[]),
    dict(name="__len__", args=[], ret="nat", locs={}, loopvars={}, alias=[]),
    dict(name="root", args=[], ret="nat", locs={}, loopvars={}, alias=[]),
    # ---- group 2 (PySrcCore2.v): skip operations, depth, reclaim_node_data.  tape = the answer of trappist(problem="min")
    dict(name="skip_to_minimal", group=2, tape=True, args=[("node_id", "nat")], ret="bool",
         locs={"pn": "pnobj", "minimal_traps": "spacelist", "m_id": "nat"}, loopvars={"m_trap": "space"}, alias=["node", "m_data"]),
    dict(name="skip_remaining", group=2, tape=True, args=[], ret="nat",
         locs={"pn": "pnobj", "root_space": "space", "minimal_traps": "spacelist", "trap_with_id": "idspacelist", "m_id": "nat",
               "skipped_nodes": "nat", "skip_edges": "nat"},
         loopvars={"m_trap": "space", "node_id": "nat", "m_id": "nat"}, alias=["m_data", "node"]),
    dict(name="depth", group=2, args=[], ret="nat", locs={"d": "nat"}, loopvars={"node": "nat"}, alias=[]),
    dict(name="reclaim_node_data", group=2, args=[], ret="unit", locs={}, loopvars={"node_id": "nat"}, alias=["data"]),
]
METHODS = {f["name"]: f for f in FUNCS}
EXC = {"RuntimeError": "ErrMotifLimit", "KeyError": "ErrKey", "AssertionError": "ErrAssert"}
# node dict field -> (type, getter, setter-of-a-constant)
FIELD_GET = {"depth": ("nat", "n_depth"), "expanded": ("bool", "n_exp"), "space": ("space", "n_space"), "attractor_seeds": ("opttag", "n_seeds")}
NOOP_FIELDS = ("percolated_petri_net", "percolated_network", "percolated_nfvs")
NONE_FIELDS = {"attractor_seeds": "set_seeds", "attractor_candidates": "set_cands", "attractor_sets": "set_sets"}
ADD_NODE_KW = {"depth": 0, "expanded": False, "percolated_network": None, "percolated_petri_net": None, "percolated_nfvs": None,
               "attractor_candidates": None, "attractor_seeds": None, "attractor_sets": None, "skipped": None}

def is_self(e, attr=None):
    if attr is None:
        return isinstance(e, ast.Name) and e.id == "self"
    return isinstance(e, ast.Attribute) and e.attr == attr and is_self(e.value)

def const(e, v):
    return isinstance(e, ast.Constant) and e.value is v if v in (None, True, False) else (isinstance(e, ast.Constant) and e.value == v and type(e.value) is type(v))

def is_config(e, key):
    return isinstance(e, ast.Subscript) and is_self(e.value, "config") and const(e.slice, key)

class Fn:
    def __init__(self, spec):
        self.spec = spec
        self.env = dict(spec["args"]); self.env.update(spec["loopvars"]); self.env.update(spec["locs"])
        for k, v in spec["loopvars"].items():
            if k in spec["locs"] and spec["locs"][k] != v: raise Unsupported(f"{spec['name']}: loop variable {k} typed differently from the local")
        self.in_loop_top = False
        self.locs = spec["locs"]
        self.alias = {}            # python name -> Coq term of the node id it aliases
        self.state = []

    # ---------- helpers ----------
    def lift(self, t, r):
        return t if r else f"(Some {t})"
    def map1(self, te, f, ty):
        t, r, _ = te
        return (f"(omap (fun a_ => {f('a_')}) {t})", True, ty) if r else (f(t), False, ty)
    def map2(self, a, b, f, ty):
        (ta, ra, _), (tb, rb, _) = a, b
        if not ra and not rb: return (f(ta, tb), False, ty)
        if ra and not rb: return (f"(omap (fun a_ => {f('a_', tb)}) {ta})", True, ty)
        if rb and not ra: return (f"(omap (fun b_ => {f(ta, 'b_')}) {tb})", True, ty)
        return (f"(obind {ta} (fun a_ => obind {tb} (fun b_ => Some {f('a_', 'b_')})))", True, ty)
    def as_nat(self, te, node):
        t, r, ty = te
        if ty == "nat": return te
        if ty == "optnat":
            if r: fail(node, "nested raising optional")
            return (t, True, "nat")                    # using None as an int raises
        fail(node, f"not a number ({ty})")
    def nat_arg(self, e):
        return self.as_nat(self.expr(e), e)

    def dag_nodes_item(self, e):
        """self.dag.nodes[X]  ->  X"""
        if isinstance(e, ast.Subscript) and isinstance(e.value, ast.Attribute) and e.value.attr == "nodes" and is_self(e.value.value, "dag"):
            return e.slice
        return None
    def dag_edges_item(self, e):
        """self.dag.edges[P, C]  ->  (P, C)"""
        if isinstance(e, ast.Subscript) and isinstance(e.value, ast.Attribute) and e.value.attr == "edges" and is_self(e.value.value, "dag") \
                and isinstance(e.slice, ast.Tuple) and len(e.slice.elts) == 2:
            return e.slice.elts
        return None
    def dag_call(self, e, meth, nargs):
        if isinstance(e, ast.Call) and isinstance(e.func, ast.Attribute) and e.func.attr == meth and is_self(e.func.value, "dag") \
                and len(e.args) == nargs and not e.keywords:
            return e.args
        return None
    def node_of(self, e):
        """an expression denoting a node dict -> (Coq term of its id, raises)"""
        if isinstance(e, ast.Name) and e.id in self.alias:
            return self.alias[e.id], False
        x = self.dag_nodes_item(e)
        if x is not None:
            t, r, _ = self.nat_arg(x)
            return t, r
        if isinstance(e, ast.Call) and isinstance(e.func, ast.Attribute) and e.func.attr == "node_data" and is_self(e.func.value) \
                and len(e.args) == 1 and not e.keywords:
            t, r, _ = self.nat_arg(e.args[0])
            return t, r
        if isinstance(e, ast.Call) and isinstance(e.func, ast.Name) and e.func.id == "cast" and len(e.args) == 2 and not e.keywords:
            return self.node_of(e.args[1])
        return None

    # ---------- expressions: (term, may_raise, type) ----------
    def expr(self, e, want=None):
        if isinstance(e, ast.Name):
            if e.id in self.alias: fail(e, "a node dict used as a value")
            if e.id not in self.env: fail(e, "unknown name")
            return (e.id, False, self.env[e.id])
        if isinstance(e, ast.Constant):
            v = e.value
            if v is None: return ("None", False, want if want in ("optnat",) else "none")
            if v is True: return ("true", False, "bool")
            if v is False: return ("false", False, "bool")
            if isinstance(v, int) and v >= 0: return (str(v), False, "nat")
            fail(e, "constant")
        if isinstance(e, ast.Call) and isinstance(e.func, ast.Name) and e.func.id == "cast" and len(e.args) == 2 and not e.keywords:
            return self.expr(e.args[1], want)                      # typing.cast is the identity
        if isinstance(e, ast.Call) and isinstance(e.func, ast.Name) and e.func.id == "int" and len(e.args) == 1 and not e.keywords:
            return self.nat_arg(e.args[0])
        if isinstance(e, ast.Subscript) and isinstance(e.slice, ast.Constant) and isinstance(e.slice.value, str) and isinstance(e.ctx, ast.Load):
            if is_self(e.value, "config"):
                if e.slice.value == "max_motifs_per_node": return ("(max_motifs cfg)", False, "nat")
                fail(e, "configuration key")
            nd = self.node_of(e.value)
            if nd is not None:
                t, r = nd
                f = e.slice.value
                if f in FIELD_GET:
                    ty, getter = FIELD_GET[f]
                    return self.map1((t, r, "nat"), lambda x: f"({getter} (get (p_sd w_) {x}))", ty)
                if f == "percolated_petri_net":
                    return self.map1((t, r, "nat"), lambda x: f"(pnc {x})", "pn")
                fail(e, "node field")
            fail(e, "subscript")
        if isinstance(e, ast.Subscript) and isinstance(e.ctx, ast.Load) and const(e.slice, 0):
            a = self.expr(e.value)
            if a[2] != "spacelist" or a[1]: fail(e, "l[0]")
            return (f"(hd_error {a[0]})", True, "space")                       # IndexError on the empty list
        if isinstance(e, ast.Subscript) and isinstance(e.ctx, ast.Load):
            pc = self.dag_edges_item(e)
            if pc is not None:
                a, b = self.nat_arg(pc[0]), self.nat_arg(pc[1])
                if a[1] or b[1]: fail(e, "raising edge index")
                return (f"(dag_edge w_ {a[0]} {b[0]})", True, "edge")
            if is_self(e.value, "node_indices"):
                k = self.expr(e.slice)
                if k[2] != "key" or k[1]: fail(e, "node_indices key")
                return (f"(idx_get (p_idx w_) {k[0]})", True, "nat")          # KeyError
            fail(e, "subscript")
        if isinstance(e, ast.UnaryOp) and isinstance(e.op, ast.Not):
            a = self.expr(e.operand)
            if a[2] != "bool": fail(e, "not on a non-bool")
            return self.map1(a, lambda x: f"(negb {x})", "bool")
        if isinstance(e, ast.BoolOp):
            vals = [self.expr(v) for v in e.values]
            if any(v[2] != "bool" for v in vals): fail(e, "and/or on non-bool values")
            acc = vals[-1]
            for v in reversed(vals[:-1]):
                if isinstance(e.op, ast.And):
                    if not v[1] and not acc[1]: acc = (f"({v[0]} && {acc[0]})", False, "bool")
                    elif not v[1]: acc = (f"(if {v[0]} then {self.lift(acc[0], acc[1])} else Some false)", True, "bool")
                    else: acc = (f"(obind {v[0]} (fun a_ => if a_ then {self.lift(acc[0], acc[1])} else Some false))", True, "bool")
                elif isinstance(e.op, ast.Or):
                    if not v[1] and not acc[1]: acc = (f"({v[0]} || {acc[0]})", False, "bool")
                    elif not v[1]: acc = (f"(if {v[0]} then Some true else {self.lift(acc[0], acc[1])})", True, "bool")
                    else: acc = (f"(obind {v[0]} (fun a_ => if a_ then Some true else {self.lift(acc[0], acc[1])}))", True, "bool")
                else: fail(e, "boolop")
            return acc
        if isinstance(e, ast.Compare):
            if len(e.ops) != 1: fail(e, "chained comparison")
            op, l, r = e.ops[0], e.left, e.comparators[0]
            if isinstance(op, (ast.Is, ast.IsNot)):
                if not const(r, None): fail(e, "is")
                a = self.expr(l)
                if a[2] == "optnat":
                    res = self.map1(a, lambda x: f"(match {x} with None => true | Some _ => false end)", "bool")
                elif a[2] == "pn":
                    res = self.map1(a, lambda x: f"(negb {x})", "bool")          # pnc i = true: a percolated net is cached
                elif a[2] == "opttag":
                    res = self.map1(a, lambda x: f"(match {x} with None => true | Some _ => false end)", "bool")
                elif a[2] == "edge":
                    res = (f"(omap (fun _ => false) {a[0]})", True, "bool")     # an edge attribute dict is never None
                else: fail(e, "`is None` on a value that is never None")
                return res if isinstance(op, ast.Is) else self.map1(res, lambda x: f"(negb {x})", "bool")
            if isinstance(op, (ast.In, ast.NotIn)):
                if not is_self(r, "node_indices"): fail(e, "in")
                k = self.expr(l)
                if k[2] != "key": fail(e, "key type")
                res = self.map1(k, lambda x: f"(idx_mem {x} (p_idx w_))", "bool")
                return res if isinstance(op, ast.In) else self.map1(res, lambda x: f"(negb {x})", "bool")
            if isinstance(op, ast.Eq):
                a, b = self.expr(l), self.expr(r)
                if a[2] == "space" and b[2] == "space":
                    return self.map2(a, b, lambda x, y: f"(eqb_space {x} {y})", "bool")
            fn = {ast.GtE: lambda x, y: f"(Nat.leb {y} {x})", ast.Gt: lambda x, y: f"(Nat.ltb {y} {x})",
                  ast.LtE: lambda x, y: f"(Nat.leb {x} {y})", ast.Lt: lambda x, y: f"(Nat.ltb {x} {y})",
                  ast.Eq: lambda x, y: f"(Nat.eqb {x} {y})"}.get(type(op))
            if fn is None: fail(e, "comparison")
            return self.map2(self.nat_arg(l), self.nat_arg(r), fn, "bool")
        if isinstance(e, ast.BinOp) and isinstance(e.op, ast.Add):
            return self.map2(self.nat_arg(e.left), self.nat_arg(e.right), lambda x, y: f"({x} + {y})", "nat")
        if isinstance(e, ast.BinOp) and isinstance(e.op, ast.BitOr):
            a, b = self.expr(e.left), self.expr(e.right)
            if a[2] != "space" or b[2] != "space": fail(e, "| on non-dict values")
            return self.map2(a, b, lambda x, y: f"(space_union {x} {y})", "space")
        if isinstance(e, ast.Tuple) and len(e.elts) == 2:
            a, b = self.nat_arg(e.elts[0]), self.expr(e.elts[1])
            if a[1] or b[1] or b[2] != "space": fail(e, "tuple")
            return (f"({a[0]}, {b[0]})", False, "idspace")
        if isinstance(e, ast.List) and not e.elts and want in ("natlist", "spacelist", "idspacelist"):
            return (DFLT[want], False, want)
        if isinstance(e, ast.ListComp):
            if len(e.generators) != 1: fail(e, "comprehension")
            g = e.generators[0]
            if g.ifs or g.is_async or not isinstance(g.target, ast.Name): fail(e, "comprehension shape")
            it = self.expr(g.iter)
            if it[2] != "spacelist" or it[1]: fail(e, "comprehension iterable")
            v = g.target.id
            if v in self.env: fail(e, "comprehension variable shadows a local")
            self.env[v] = "space"
            try:
                body = self.expr(e.elt)
            finally:
                del self.env[v]
            if body[2] != "space" or body[1]: fail(e, "comprehension element")
            return (f"(map (fun {v} => {body[0]}) {it[0]})", False, "spacelist")
        if isinstance(e, ast.Call):
            f = e.func
            # self.dag.*
            a = self.dag_call(e, "successors", 1)
            if a is not None: fail(e, "self.dag.successors(..) must be wrapped in list(..)")
            if isinstance(f, ast.Name) and f.id == "list" and len(e.args) == 1 and not e.keywords:
                a = self.dag_call(e.args[0], "successors", 1)
                if a is None: fail(e, "list(..)")
                return self.map1(self.nat_arg(a[0]), lambda x: f"(successors_of (sd_edges (p_sd w_)) {x})", "natlist")
            a = self.dag_call(e, "out_degree", 1)
            if a is not None:
                return self.map1(self.nat_arg(a[0]), lambda x: f"(length (successors_of (sd_edges (p_sd w_)) {x}))", "nat")
            a = self.dag_call(e, "has_edge", 2)
            if a is not None:
                return self.map2(self.nat_arg(a[0]), self.nat_arg(a[1]), lambda x, y: f"(has_edge (p_sd w_) {x} {y})", "bool")
            a = self.dag_call(e, "number_of_nodes", 0)
            if a is not None: return ("(size (p_sd w_))", False, "nat")
            if isinstance(f, ast.Attribute) and f.attr == "variable_count" and is_self(f.value, "network") and not e.args and not e.keywords:
                return ("(nvars N)", False, "nat")
            if isinstance(f, ast.Attribute) and f.attr == "root" and is_self(f.value) and not e.args and not e.keywords:
                return ("0", False, "nat")            # tied by py_root below
            if isinstance(f, ast.Name) and f.id == "len" and len(e.args) == 1 and not e.keywords:
                a = self.expr(e.args[0])
                if a[2] == "space": return self.map1(a, lambda x: f"(count_fixed {x})", "nat")
                if a[2] in ("spacelist", "natlist"): return self.map1(a, lambda x: f"(length {x})", "nat")
                fail(e, "len")
            if isinstance(f, ast.Name) and f.id == "percolate_space" and len(e.args) == 2 and not e.keywords and is_self(e.args[0], "symbolic"):
                a = self.expr(e.args[1])
                if a[2] != "space": fail(e, "percolate_space argument")
                return self.map1(a, lambda x: f"(percolate_b N {x})", "space")
            if isinstance(f, ast.Name) and f.id == "space_unique_key" and len(e.args) == 2 and not e.keywords and is_self(e.args[1], "network"):
                a = self.expr(e.args[0])
                if a[2] != "space": fail(e, "space_unique_key argument")
                return self.map1(a, lambda x: f"(space_key {x})", "key")
            if isinstance(f, ast.Name) and f.id == "extract_source_variables" and len(e.args) == 1 and not e.keywords and is_self(e.args[0], "petri_net"):
                return ("(sources_b N)", False, "natlist")
            if isinstance(f, ast.Name) and f.id == "trappist":
                return self.trappist(e)
            if isinstance(f, ast.Attribute) and f.attr in ("node_percolated_petri_net", "node_percolated_network") and is_self(f.value) \
                    and len(e.args) == 1 and len(e.keywords) == 1 and e.keywords[0].arg == "compute" and const(e.keywords[0].value, True):
                a = self.nat_arg(e.args[0])
                if a[1]: fail(e, "raising node id")
                self.last_pn_node = a[0]
                return ("Datatypes.tt", False, "pnobj")          # the cache side effect is not modelled (PyLibCore.v)
            if isinstance(f, ast.Attribute) and f.attr == "node_ids" and is_self(f.value) and not e.args and not e.keywords:
                return ("(seq 0 (size (p_sd w_)))", False, "natlist")
            if isinstance(f, ast.Attribute) and f.attr == "nodes" and is_self(f.value, "dag") and not e.args and not e.keywords:
                return ("(seq 0 (size (p_sd w_)))", False, "natlist")     # the node ids (a set in Python: only used order-independently)
            if isinstance(f, ast.Name) and f.id == "max" and len(e.args) == 2 and not e.keywords:
                return self.map2(self.nat_arg(e.args[0]), self.nat_arg(e.args[1]), lambda x, y: f"(Nat.max {x} {y})", "nat")
            if isinstance(f, ast.Name) and f.id == "is_subspace" and len(e.args) == 2 and not e.keywords:
                a, b = self.expr(e.args[0]), self.expr(e.args[1])
                if a[2] != "space" or b[2] != "space": fail(e, "is_subspace arguments")
                return self.map2(a, b, lambda x, y: f"(subspace {x} {y})", "bool")
            if isinstance(f, ast.Name) and f.id == "sorted" and len(e.args) == 1 and len(e.keywords) == 1 and e.keywords[0].arg == "key":
                lam = e.keywords[0].value
                ok = isinstance(lam, ast.Lambda) and len(lam.args.args) == 1 and isinstance(lam.body, ast.Call) \
                    and isinstance(lam.body.func, ast.Name) and lam.body.func.id == "space_unique_key" and len(lam.body.args) == 2 \
                    and isinstance(lam.body.args[0], ast.Name) and lam.body.args[0].id == lam.args.args[0].arg and is_self(lam.body.args[1], "network")
                a = self.expr(e.args[0])
                if not ok or a[2] != "spacelist": fail(e, "sorted(..., key=...)")
                return self.map1(a, lambda x: f"(sort_by_key {x})", "spacelist")
        fail(e, "unsupported expression")

    def trappist(self, e):
        kw = {k.arg: k.value for k in e.keywords}
        if not e.args and set(kw) == {"network", "problem"} and const(kw["problem"], "min"):
            net = kw["network"]
            if not self.spec.get("tape"): fail(e, "trappist(min) in a function without a tape")
            if not (isinstance(net, ast.Name) and self.env.get(net.id) == "pnobj" and net.id in self.pn_of): fail(e, "trappist(min) network")
            # the percolated net / network of node nid: the minimal trap spaces inside that node's space, in the solver's order = the tape
            return (f"(trappist_min N (n_space (get (p_sd w_) {self.pn_of[net.id]})) tape)", False, "spacelist")
        if len(e.args) != 1 or set(kw) - {"problem", "ensure_subspace", "optimize_source_variables", "solution_limit"}: fail(e, "trappist arguments")
        if not const(kw.get("problem"), "max"): fail(e, "trappist problem")
        if "optimize_source_variables" not in kw or "solution_limit" not in kw: fail(e, "trappist: sources and limit must be given")
        src = self.expr(kw["optimize_source_variables"])
        lim = self.expr(kw["solution_limit"])
        if src[2] != "natlist" or src[1] or lim[2] != "nat" or lim[1]: fail(e, "trappist: source list / limit types")
        net = e.args[0]
        if is_self(net, "petri_net"):
            if "ensure_subspace" not in kw: fail(e, "trappist on the global net without ensure_subspace")
            sp = self.expr(kw["ensure_subspace"])
            if sp[2] != "space" or sp[1]: fail(e, "ensure_subspace type")
            return (f"(trappist_max N {sp[0]} {src[0]} {lim[0]})", False, "spacelist")
        if isinstance(net, ast.Name) and self.env.get(net.id) == "pn":
            if "ensure_subspace" in kw: fail(e, "trappist on a percolated net with ensure_subspace")
            if self.pn_of.get(net.id) is None: fail(e, "percolated net of an unknown node")
            nid = self.pn_of[net.id]
            # the cached percolated net of node nid: the trap spaces of that node's space (engine contract, see PyLibCore.v)
            return (f"(trappist_max N (n_space (get (p_sd w_) {nid})) {src[0]} {lim[0]})", False, "spacelist")
        fail(e, "trappist network argument")

    # ---------- statements ----------
    def st_tuple(self):
        return "Datatypes.tt" if not self.state else ("(" + ", ".join(self.state) + ")" if len(self.state) > 1 else self.state[0])
    def st_ty(self):
        tys = [COQ_TY[self.env[v]] for v in self.state]
        return "unit" if not tys else ("(" + " * ".join(tys) + ")" if len(tys) > 1 else tys[0])
    def st_pat(self):
        return "_" if not self.state else ("'(" + ", ".join(self.state) + ")" if len(self.state) > 1 else self.state[0])
    def flow_ty(self):
        return f"cflow {COQ_TY[self.spec['ret']]} {self.st_ty()}"
    def nxt(self):
        return f"CNext w_ {self.st_tuple()}"
    def guard(self, term, raises, name, k):
        if raises:
            return f"(match {term} with Some {name} => {k} | None => CBad w_ end)"
        return f"(let {name} := {term} in {k})"
    def need_state(self, name, node):
        if name not in self.state: fail(node, f"local {name} is not in the threaded state")

    def method_call(self, c):
        """self.m(args) -> (coq term of type cflow R unit, spec of m)"""
        if not (isinstance(c, ast.Call) and isinstance(c.func, ast.Attribute) and is_self(c.func.value) and c.func.attr in METHODS and not c.keywords):
            return None
        m = METHODS[c.func.attr]
        if c.func.attr not in self.defined and c.func.attr != self.spec["name"]: fail(c, "call of a method that is translated later")
        if len(c.args) != len(m["args"]): fail(c, "method arity")
        args, binds = [], []
        for j, (a, (_, ty)) in enumerate(zip(c.args, m["args"])):
            t = self.expr(a, want=ty)
            if t[1]: fail(c, "raising argument")
            if t[2] == ty: args.append(t[0])
            elif t[2] == "nat" and ty == "optnat": args.append(f"(Some {t[0]})")
            elif t[2] in ("none", "optnat") and ty == "optnat" and t[0] == "None": args.append("(@None nat)")
            elif t[2] == "optnat" and ty == "nat":
                # None passed where the callee's parameter is an int: treated as a run-time error at the call (PyLibCore.v)
                binds.append((f"a{j}_", t[0])); args.append(f"a{j}_")
            else: fail(c, f"argument type {t[2]} for {ty}")
        term = f"(py_{m['name'].strip('_')} fuel N cfg pnc w_ {' '.join(args)})".replace("  ", " ")
        for v, t in reversed(binds):
            term = f"(match {t} with Some {v} => {term} | None => CBad w_ end)"
        return term, m

    def is_debug_block(self, s):
        return isinstance(s, ast.If) and is_config(s.test, "debug") and not s.orelse and \
            all(isinstance(b, ast.Expr) and isinstance(b.value, ast.Call) and isinstance(b.value.func, ast.Name) and b.value.func.id == "print" for b in s.body)

    def block(self, stmts):
        if not stmts:
            return self.nxt()
        s, rest = stmts[0], stmts[1:]
        if isinstance(s, ast.Expr) and isinstance(s.value, ast.Constant) and isinstance(s.value.value, str):
            return self.block(rest)                                   # docstring
        if self.is_debug_block(s):
            return self.block(rest)                                   # if self.config["debug"]: print(...)
        if isinstance(s, ast.AnnAssign) and s.value is None and isinstance(s.target, ast.Name) and s.target.id in self.locs:
            return self.block(rest)                                   # bare type annotation
        if isinstance(s, ast.Return):
            if s.value is None:
                if self.spec["ret"] != "unit": fail(s, "bare return in a function with a result")
                return "(CRet w_ Datatypes.tt)"
            t, r, ty = self.expr(s.value)
            if ty == "optnat" and self.spec["ret"] == "nat": r, ty = True, "nat"        # returning None where an int is promised
            if ty != self.spec["ret"]: fail(s, f"return type {ty}")
            return f"(match {t} with Some r_ => CRet w_ r_ | None => CBad w_ end)" if r else f"(CRet w_ {t})"
        if isinstance(s, ast.Raise):
            if not (isinstance(s.exc, ast.Call) and isinstance(s.exc.func, ast.Name) and s.exc.func.id in EXC): fail(s, "raise")
            return f"(CRaise w_ (RRaised {EXC[s.exc.func.id]}))"
        if isinstance(s, ast.Assert) and isinstance(s.test, ast.UnaryOp) and isinstance(s.test.op, ast.Not) and self.method_call(s.test.operand) is not None:
            term, m = self.method_call(s.test.operand)
            if m["ret"] != "bool": fail(s, "assert on a non-bool method")
            return (f"(c_call {term} (fun w_ r_ => match r_ with Some b_ => if negb b_ then {self.block(rest)} "
                    f"else CRaise w_ (RRaised ErrAssert) | None => CBad w_ end))")
        if isinstance(s, ast.Assert):
            t, r, ty = self.expr(s.test)
            if ty != "bool": fail(s, "assert type")
            k = self.block(rest)
            if r: return f"(match {t} with Some c_ => if c_ then {k} else CRaise w_ (RRaised ErrAssert) | None => CBad w_ end)"
            return f"(if {t} then {k} else CRaise w_ (RRaised ErrAssert))"
        if isinstance(s, (ast.Assign, ast.AnnAssign, ast.AugAssign)):
            if isinstance(s, ast.Assign):
                if len(s.targets) != 1: fail(s, "multiple targets")
                tgt, val = s.targets[0], s.value
            else:
                tgt, val = s.target, s.value
            if isinstance(s, ast.AugAssign):
                if not (isinstance(tgt, ast.Name) and self.locs.get(tgt.id) == "nat" and isinstance(s.op, ast.Add)): fail(s, "augmented assignment")
                self.need_state(tgt.id, s)
                v = self.nat_arg(val)
                return self.guard(f"(omap (fun b_ => {tgt.id} + b_) {v[0]})" if v[1] else f"({tgt.id} + {v[0]})", v[1], tgt.id, self.block(rest))
            if val is None: fail(s, "declaration without value")
            # X[...] = value
            if isinstance(tgt, ast.Subscript):
                if is_self(tgt.value, "node_indices"):
                    k, v = self.expr(tgt.slice), self.nat_arg(val)
                    if k[2] != "key" or k[1]: fail(s, "node_indices key")
                    return self.guard(f"(omap (fun a_ => w_idx_set w_ {k[0]} a_) {v[0]})" if v[1] else f"(w_idx_set w_ {k[0]} {v[0]})", v[1], "w_", self.block(rest))
                if isinstance(tgt.slice, ast.Constant) and isinstance(tgt.slice.value, str):
                    nd = self.node_of(tgt.value)
                    if nd is None: fail(s, "item assignment")
                    nid, nr = nd
                    f = tgt.slice.value
                    if f == "depth":
                        v = self.nat_arg(val)
                        setter = lambda x: f"(fun y_ => set_depth y_ {x})"
                    elif f == "expanded":
                        v = self.expr(val)
                        if v[2] != "bool": fail(s, "expanded flag type")
                        setter = lambda x: f"(fun y_ => set_exp y_ {x})"
                    elif f in NONE_FIELDS:
                        if not const(val, None): fail(s, "cache field set to something else than None")
                        v = ("None", False, "none"); setter = lambda x, f=f: f"(fun y_ => {NONE_FIELDS[f]} y_ None)"
                    elif f == "skipped":
                        v = self.expr(val)
                        if v[2] != "bool": fail(s, "skipped flag type")
                        setter = lambda x: f"(fun y_ => set_skip y_ {x})"
                    elif f in NOOP_FIELDS:
                        if not const(val, None): fail(s, f"{f} set to something else than None")
                        return self.block(rest)                    # not modelled (PyLibCore.v)
                    else: fail(s, "node field")
                    k = self.block(rest)
                    inner = self.guard(f"(w_upd w_ i_ {setter('v_')})", False, "w_", k)
                    if f not in NONE_FIELDS:
                        inner = self.guard(v[0], v[1], "v_", inner)
                    return self.guard(nid, nr, "i_", inner)
                fail(s, "item assignment")
            if not isinstance(tgt, ast.Name): fail(s, "assignment target")
            name = tgt.id
            # node = self.dag.nodes[i] / self.node_data(i): an alias
            if name in self.spec["alias"]:
                nd = self.node_of(val)
                if nd is None or nd[1]: fail(s, "alias of something that is not a node dict")
                if name in self.alias: fail(s, "alias rebound")
                self.alias_n = getattr(self, "alias_n", 0) + 1
                v = f"{name}_id{self.alias_n}_"
                self.alias[name] = v                  # the id is captured now: later assignments to the id variable do not move the alias
                return f"(let {v} := {nd[0]} in {self.block(rest)})"
            if name not in self.locs: fail(s, "assignment to an undeclared local")
            self.need_state(name, s)
            lty = self.locs[name]
            mc = self.method_call(val)
            if mc is not None:
                term, m = mc
                if m["ret"] != lty: fail(s, "method result type")
                return f"(c_call {term} (fun w_ r_ => match r_ with Some {name} => {self.block(rest)} | None => CBad w_ end))"
            t, r, ty = self.expr(val, want=lty)
            if lty == "pnobj":
                if ty != "pnobj": fail(s, "percolated net local")
                self.pn_of[name] = self.last_pn_node
            if lty == "pn":
                nd = val.value if isinstance(val, ast.Subscript) else None
                nid = self.node_of(nd) if nd is not None else None
                if ty != "pn" or nid is None: fail(s, "pn local")
                self.pn_of[name] = nid[0]
            if ty == "nat" and lty == "optnat": t = f"(omap Some {t})" if r else f"(Some {t})"
            elif ty in ("none", "optnat") and lty == "optnat" and t == "None": t = "(@None nat)"
            elif ty != lty: fail(s, f"type of assignment: {ty} into {lty}")
            return self.guard(t, r, name, self.block(rest))
        if isinstance(s, ast.Expr) and isinstance(s.value, ast.Call):
            c = s.value
            mc = self.method_call(c)
            if mc is not None:
                term, m = mc
                return f"(c_call {term} (fun w_ _ => {self.block(rest)}))"
            f = c.func
            if isinstance(f, ast.Attribute) and f.attr == "add_node" and is_self(f.value, "dag"):
                kw = {k.arg: k.value for k in c.keywords}
                if len(c.args) != 1 or set(kw) != set(ADD_NODE_KW) | {"space", "parent_node"}: fail(s, "add_node arguments")
                for k, v in ADD_NODE_KW.items():
                    if not const(kw[k], v): fail(s, f"add_node: {k} is not {v!r}")
                i, sp, par = self.nat_arg(c.args[0]), self.expr(kw["space"]), self.expr(kw["parent_node"], want="optnat")
                if sp[2] != "space" or sp[1] or par[1]: fail(s, "add_node space / parent")
                par_t = par[0] if par[2] == "optnat" else (f"(Some {par[0]})" if par[2] == "nat" else None)
                if par_t is None: fail(s, "add_node parent type")
                k = self.block(rest)
                return self.guard(i[0], i[1], "i_", f"(match dag_add_node w_ i_ {sp[0]} {par_t} with Some w_ => {k} | None => CBad w_ end)")
            if isinstance(f, ast.Attribute) and f.attr == "add_edge" and is_self(f.value, "dag"):
                kw = {k.arg: k.value for k in c.keywords}
                if len(c.args) != 2 or set(kw) != {"motif", "all_motifs"}: fail(s, "add_edge arguments")
                m = self.expr(kw["motif"])
                am = kw["all_motifs"]
                if not (isinstance(am, ast.List) and len(am.elts) == 1 and ast.dump(am.elts[0]) == ast.dump(kw["motif"])) or m[2] != "space" or m[1]:
                    fail(s, "add_edge: all_motifs must be [motif]")
                p, ch = self.nat_arg(c.args[0]), self.nat_arg(c.args[1])
                if p[1] or ch[1]: fail(s, "raising edge endpoints")
                return self.guard(f"(dag_add_edge w_ {p[0]} {ch[0]} {m[0]})", False, "w_", self.block(rest))
            if isinstance(f, ast.Attribute) and f.attr == "append" and isinstance(f.value, ast.Subscript) and const(f.value.slice, "all_motifs") \
                    and len(c.args) == 1 and not c.keywords:
                pc = self.dag_edges_item(f.value.value)
                if pc is None: fail(s, "append")
                p, ch, m = self.nat_arg(pc[0]), self.nat_arg(pc[1]), self.expr(c.args[0])
                if p[1] or ch[1] or m[1] or m[2] != "space": fail(s, "append arguments")
                return f"(match dag_append_motif w_ {p[0]} {ch[0]} {m[0]} with Some w_ => {self.block(rest)} | None => CRaise w_ (RRaised ErrKey) end)"
            if isinstance(f, ast.Attribute) and f.attr == "append" and isinstance(f.value, ast.Name) and self.locs.get(f.value.id) == "idspacelist" \
                    and len(c.args) == 1 and not c.keywords:
                self.need_state(f.value.id, s)
                a = self.expr(c.args[0])
                if a[2] != "idspace" or a[1]: fail(s, "append element")
                return self.guard(f"({f.value.id} ++ [{a[0]}])", False, f.value.id, self.block(rest))
            fail(s, "call statement")
        if isinstance(s, ast.If) and not s.orelse and s.body and isinstance(s.body[-1], ast.Continue):
            # `if c: A; continue` followed by REST, directly in a loop body  ==  `if c: A  else: REST`
            if not self.in_loop_top: fail(s, "continue outside the top level of a loop body")
            c, r, ty = self.expr(s.test)
            if ty != "bool": fail(s, "condition type")
            saved = (dict(self.env), dict(self.alias), dict(self.pn_of))
            b1 = self.block(s.body[:-1])
            self.env, self.alias, self.pn_of = dict(saved[0]), dict(saved[1]), dict(saved[2])
            b2 = self.block(rest)
            self.env, self.alias, self.pn_of = saved
            return f"(match {c} with Some c_ => if c_ then {b1} else {b2} | None => CBad w_ end)" if r else f"(if {c} then {b1} else {b2})"
        if isinstance(s, ast.If):
            c, r, ty = self.expr(s.test)
            if ty != "bool": fail(s, "condition type")
            saved = (dict(self.env), dict(self.alias), dict(self.pn_of))
            top, self.in_loop_top = self.in_loop_top, False
            b1 = self.block(s.body)
            self.env, self.alias, self.pn_of = dict(saved[0]), dict(saved[1]), dict(saved[2])
            b2 = self.block(s.orelse)
            self.env, self.alias, self.pn_of = saved
            self.in_loop_top = top
            head = f"(match {c} with Some c_ => if c_ then {b1} else {b2} | None => CBad w_ end)" if r else f"(if {c} then {b1} else {b2})"
            return self.seq(head, rest)
        if isinstance(s, ast.For):
            if s.orelse: fail(s, "for-else")
            it = self.expr(s.iter)
            if it[1]: fail(s, "raising loop iterable")
            if isinstance(s.target, ast.Name):
                names = [s.target.id]
                if s.target.id not in self.spec["loopvars"]: fail(s, "loop variable")
                want = {"nat": "natlist", "space": "spacelist"}[self.spec["loopvars"][s.target.id]]
                itpat = s.target.id
            elif isinstance(s.target, ast.Tuple) and len(s.target.elts) == 2 and all(isinstance(x, ast.Name) for x in s.target.elts):
                names = [x.id for x in s.target.elts]
                if [self.spec["loopvars"].get(n) for n in names] != ["nat", "space"]: fail(s, "tuple loop variables")
                want = "idspacelist"
                itpat = f"'({names[0]}, {names[1]})"
            else: fail(s, "loop target")
            if it[2] != want: fail(s, "loop iterable type")
            saved = (dict(self.env), dict(self.alias), dict(self.pn_of))
            top, self.in_loop_top = self.in_loop_top, True
            body = self.block(s.body)
            self.in_loop_top = top
            self.env, self.alias, self.pn_of = saved
            # a loop variable that is also a threaded local is assigned by the loop (binding order: state first, then the item)
            head = (f"(c_for {it[0]} (fun it_ w_ (st_ : {self.st_ty()}) => let {self.st_pat()} := st_ in let {itpat} := it_ in "
                    f"({body} : {self.flow_ty()})) w_ {self.st_tuple()})")
            return self.seq(head, rest)
        fail(s, "unsupported statement")

    def seq(self, head, rest):
        if not rest:
            return head
        return f"(match {head} with CNext w_ st_ => let {self.st_pat()} := st_ in {self.block(rest)} | other_ => other_ end)"

def assigned_locals(fn_node, locs):
    out = []
    for n in ast.walk(fn_node):
        tgt = None
        if isinstance(n, ast.Assign) and len(n.targets) == 1: tgt = n.targets[0]
        elif isinstance(n, ast.AnnAssign) and n.value is not None: tgt = n.target
        if isinstance(tgt, ast.Name) and tgt.id in locs and tgt.id not in out:
            out.append(tgt.id)
    return out

def pretty(t):
    out, depth, line = [], 0, ""
    for i, c in enumerate(t):
        line += c
        if c == "(": depth += 1
        if c == ")": depth -= 1
        for kw in (" with ", " in ", " else ", " then ", " => "):
            if t.startswith(kw, i + 1 - len(kw)) and len(line) > 70:
                out.append(line.rstrip()); line = "  " * min(depth, 14)
                break
    out.append(line)
    return "\n".join(out)

def translate(group):
    fname = "PySrcCore.v" if group == 1 else "PySrcCore2.v"
    parts = [f"(* {fname} -- GENERATED by tools/py2coq_core.py from the current source of /repo/biobalm/succession_diagram.py; do not edit.",
             "   Each definition is the translation of the SuccessionDiagram method of the same name (embedding: PyLibCore.v" + (", PyLibCore2.v" if group == 2 else "") + ").",
             "   PySrcCoreFacts.v / PySrcCore2Facts.v prove them equal to the model's functions of Diagram.v. *)",
             "From Coq Require Import List Bool Arith NArith.", "Import ListNotations.",
             "From BB Require Import BN Brute Diagram PyLib PyLibCore" + (" PyLibCore2 PySrcCore" if group == 2 else "") + ".", ""]
    mod = ast.parse(open(os.path.join(REPO, SRC)).read())
    classes = [n for n in mod.body if isinstance(n, ast.ClassDef) and n.name == "SuccessionDiagram"]
    if len(classes) != 1: raise Unsupported("class SuccessionDiagram not found exactly once")
    defined = set()
    for spec in FUNCS:
        name = spec["name"]
        if spec.get("group", 1) != group:
            if spec.get("group", 1) < group: defined.add(name)
            continue
        nodes = [n for n in classes[0].body if isinstance(n, ast.FunctionDef) and n.name == name]
        if len(nodes) != 1: raise Unsupported(f"method {name} not found exactly once")
        node = nodes[0]
        a = node.args
        want_args = ["self"] + [x for x, _ in spec["args"]]
        if a.vararg or a.kwarg or a.kwonlyargs or a.posonlyargs or [x.arg for x in a.args] != want_args:
            raise Unsupported(f"{name}: signature changed: {[x.arg for x in a.args]}")
        dflt = spec.get("defaults", {})
        got = dict(zip([x.arg for x in a.args][len(a.args) - len(a.defaults):], a.defaults))
        if set(got) != set(dflt) or any(not const(got[k], v) for k, v in dflt.items()):
            raise Unsupported(f"{name}: default values changed")
        decos = [d.id if isinstance(d, ast.Name) else "?" for d in node.decorator_list]
        if decos != spec.get("decorators", []): raise Unsupported(f"{name}: decorators {decos}")
        fn = Fn(spec)
        fn.defined = defined
        fn.pn_of = {}
        fn.state = assigned_locals(node, spec["locs"])
        body = fn.block(node.body)
        sig = " ".join(f"({x} : {COQ_TY[t]})" for x, t in spec["args"])
        if spec.get("tape"): sig = "(tape : list space) " + sig
        init = "".join(f"let {v} := {DFLT[spec['locs'][v]]} in " for v in fn.state)
        cname = "py_" + name.strip("_")
        parts.append(f"(* {SRC}: def {name}({', '.join(want_args)}) *)")
        ret = f"cflow {COQ_TY[spec['ret']]} unit"
        # the state tuple of the body is not part of the result type: close the block
        closed = (f"match ({body} : {fn.flow_ty()}) with CRet w_ r_ => CRet w_ r_ | CRaise w_ e_ => CRaise w_ e_ | CBad w_ => CBad w_ "
                  f"| CFuel w_ => CFuel w_ | CNext w_ _ => CNext w_ Datatypes.tt end")
        if spec.get("recursive"):
            parts.append(f"Fixpoint {cname} (fuel : nat) (N : net) (cfg : config) (pnc : nat -> bool) (w_ : pyst) {sig} {{struct fuel}} : {ret} :=")
            parts.append("  match fuel with\n  | O => CFuel w_\n  | S fuel =>")
            parts.append(f"  {init}")
            parts.append(textwrap.indent(pretty(closed), "    ") + "\n  end.")
        else:
            parts.append(f"Definition {cname} (fuel : nat) (N : net) (cfg : config) (pnc : nat -> bool) (w_ : pyst) {sig} : {ret} :=")
            parts.append(f"  {init}")
            parts.append(textwrap.indent(pretty(closed), "    ") + ".")
        parts.append("")
        defined.add(name)
    if group == 2:
        parts += translate_init()
    return "\n".join(parts)

# ---------------------------------------------------------------- __getstate__ / __setstate__ (PySrcPickle.v)
OBJ_FIELDS = ["network", "symbolic", "petri_net", "nfvs", "dag", "node_indices", "config"]

def translate_pickle():
    """SuccessionDiagram.__getstate__ / __setstate__ over an object record whose fields have an abstract value type; the engine
    functions to_aeon, BooleanNetwork.from_aeon, cleanup_network, AsynchronousGraph are parameters (PySrcPickleFacts.v states what it
    assumes of them)"""
    mod = ast.parse(open(os.path.join(REPO, SRC)).read())
    cls = [n for n in mod.body if isinstance(n, ast.ClassDef) and n.name == "SuccessionDiagram"][0]
    def method(name, params):
        ms = [n for n in cls.body if isinstance(n, ast.FunctionDef) and n.name == name]
        if len(ms) != 1: raise Unsupported(f"method {name} not found exactly once")
        m = ms[0]
        if [x.arg for x in m.args.args] != params or m.args.defaults or m.decorator_list or m.args.vararg or m.args.kwarg:
            raise Unsupported(f"{name}: signature changed")
        return [b for b in m.body if not (isinstance(b, ast.Expr) and isinstance(b.value, ast.Constant) and isinstance(b.value.value, str))]
    def self_attr(e):
        return e.attr if isinstance(e, ast.Attribute) and is_self(e.value) and e.attr in OBJ_FIELDS else None
    def value(e, reading_state):
        a = self_attr(e)
        if a: return f"(o_{a} self_)", False
        if isinstance(e, ast.Call) and isinstance(e.func, ast.Attribute) and e.func.attr == "to_aeon" and not e.args and not e.keywords:
            t, r = value(e.func.value, reading_state)
            return f"(to_aeon {t})", r
        if reading_state and isinstance(e, ast.Subscript) and isinstance(e.value, ast.Name) and e.value.id == "state" \
                and isinstance(e.slice, ast.Constant) and isinstance(e.slice.value, str):
            return f'(st_get state "{e.slice.value}")', True                      # KeyError on a missing key
        if isinstance(e, ast.Call) and isinstance(e.func, ast.Name) and e.func.id in ("cleanup_network", "AsynchronousGraph") and len(e.args) == 1 and not e.keywords:
            t, r = value(e.args[0], reading_state)
            fn = {"cleanup_network": "cleanup_network", "AsynchronousGraph": "async_graph"}[e.func.id]
            return (f"(omap {fn} {t})", True) if r else (f"({fn} {t})", False)
        if isinstance(e, ast.Call) and isinstance(e.func, ast.Attribute) and e.func.attr == "from_aeon" and isinstance(e.func.value, ast.Name) \
                and e.func.value.id == "BooleanNetwork" and len(e.args) == 1 and not e.keywords:
            t, r = value(e.args[0], reading_state)
            return (f"(omap from_aeon {t})", True) if r else (f"(from_aeon {t})", False)
        fail(e, "unsupported expression in __getstate__ / __setstate__")
    # __getstate__
    body = method("__getstate__", ["self"])
    if len(body) != 1 or not isinstance(body[0], ast.Return) or not isinstance(body[0].value, ast.Dict): raise Unsupported("__getstate__: body is not `return {...}`")
    items = []
    for k, v in zip(body[0].value.keys, body[0].value.values):
        if not (isinstance(k, ast.Constant) and isinstance(k.value, str)): fail(body[0], "__getstate__ key")
        t, r = value(v, False)
        if r: fail(v, "raising value")
        items.append(f'("{k.value}", {t})')
    getstate = "[" + "; ".join(items) + "]"
    # __setstate__
    body = method("__setstate__", ["self", "state"])
    term = "Some self_"
    lets = []
    for st in body:
        if not (isinstance(st, ast.Assign) and len(st.targets) == 1 and self_attr(st.targets[0])): fail(st, "__setstate__ statement")
        a = self_attr(st.targets[0])
        t, r = value(st.value, True)
        lets.append((a, t, r))
    for a, t, r in reversed(lets):
        if r: term = f"(match {t} with Some v_ => let self_ := set_{a} self_ v_ in {term} | None => None end)"
        else: term = f"(let self_ := set_{a} self_ {t} in {term})"
    parts = ["(* PySrcPickle.v -- GENERATED by tools/py2coq_core.py from SuccessionDiagram.__getstate__ / __setstate__ in the current",
             "   source of /repo/biobalm/succession_diagram.py; do not edit.  Embedding: PyLibPickle.v.  PySrcPickleFacts.v proves the round trip. *)",
             "From Coq Require Import List String.", "Import ListNotations.", "Open Scope string_scope.", "From BB Require Import PyLib PyLibPickle.", "",
             "Section Pickle.", "Variable V : Type.", "Variables to_aeon from_aeon cleanup_network async_graph : V -> V.", "",
             f"(* {SRC}: def __getstate__(self) *)", "Definition py_getstate (self_ : pobj V) : list (string * V) :=", "  " + getstate + ".", "",
             f"(* {SRC}: def __setstate__(self, state) *)", "Definition py_setstate (self_ : pobj V) (state : list (string * V)) : option (pobj V) :=",
             textwrap.indent(pretty(term), "  ") + ".", "", "End Pickle.", ""]
    return "\n".join(parts)

def translate_init():
    """SuccessionDiagram.__init__: the attributes that are the environment of the model (config, network, symbolic, petri_net, nfvs) must be
    assigned from exactly the expected expressions; self.dag / self.node_indices start empty; then the root is created by _ensure_node(None, {})"""
    mod = ast.parse(open(os.path.join(REPO, SRC)).read())
    cls = [n for n in mod.body if isinstance(n, ast.ClassDef) and n.name == "SuccessionDiagram"][0]
    ms = [n for n in cls.body if isinstance(n, ast.FunctionDef) and n.name == "__init__"]
    if len(ms) != 1: raise Unsupported("__init__ not found exactly once")
    m = ms[0]
    if [x.arg for x in m.args.args] != ["self", "network", "config"] or len(m.args.defaults) != 1 or not const(m.args.defaults[0], None) or m.decorator_list:
        raise Unsupported("__init__: signature changed")
    ENV = {"config": "Name(id='config', ctx=Load())",
           "network": "Call(func=Name(id='cleanup_network', ctx=Load()), args=[Name(id='network', ctx=Load())], keywords=[])",
           "symbolic": "Call(func=Name(id='AsynchronousGraph', ctx=Load()), args=[Attribute(value=Name(id='self', ctx=Load()), attr='network', ctx=Load())], keywords=[])",
           "petri_net": "Call(func=Name(id='network_to_petrinet', ctx=Load()), args=[Name(id='network', ctx=Load())], keywords=[])",
           "nfvs": "Constant(value=None)"}
    seen, dag_empty, idx_empty, term = set(), False, False, None
    dummy = Fn(dict(name="__init__", args=[], ret="unit", locs={}, loopvars={}, alias=[]))
    for st in m.body:
        if isinstance(st, ast.Expr) and isinstance(st.value, ast.Constant) and isinstance(st.value.value, str): continue          # attribute docstrings
        if dummy.is_debug_block(st): continue
        if term is not None: fail(st, "statement after the creation of the root")
        if isinstance(st, ast.If) and not st.orelse and ast.dump(st.test) == "Compare(left=Name(id='config', ctx=Load()), ops=[Is()], comparators=[Constant(value=None)])" \
                and len(st.body) == 1 and ast.dump(st.body[0]) == "Assign(targets=[Name(id='config', ctx=Store())], value=Call(func=Attribute(value=Name(id='SuccessionDiagram', ctx=Load()), attr='default_config', ctx=Load()), args=[], keywords=[]))":
            continue                                           # the default configuration: the model's cfg is the configuration in force
        tgt, val = (st.targets[0], st.value) if isinstance(st, ast.Assign) and len(st.targets) == 1 else ((st.target, st.value) if isinstance(st, ast.AnnAssign) else (None, None))
        if tgt is not None and isinstance(tgt, ast.Attribute) and is_self(tgt.value):
            a = tgt.attr
            if a in ENV:
                if ast.dump(val) != ENV[a] or a in seen: fail(st, f"self.{a} is not assigned as expected")
                seen.add(a); continue
            if a == "dag" and ast.dump(val) == "Call(func=Attribute(value=Name(id='nx', ctx=Load()), attr='DiGraph', ctx=Load()), args=[], keywords=[])":
                dag_empty = True; continue
            if a == "node_indices" and isinstance(val, ast.Dict) and not val.keys:
                idx_empty = True; continue
            fail(st, "attribute assignment")
        if isinstance(st, ast.Expr) and ast.dump(st.value) == "Call(func=Attribute(value=Name(id='self', ctx=Load()), attr='_ensure_node', ctx=Load()), args=[Constant(value=None), Dict(keys=[], values=[])], keywords=[])":
            if not (dag_empty and idx_empty and seen == set(ENV)): fail(st, "root created before the object is set up")
            term = ("(let w_ := {| p_sd := {| sd_nodes := []; sd_edges := [] |}; p_idx := [] |} in "
                    "c_call (py_ensure_node fuel N cfg pnc w_ (@None nat) (top_space (nvars N))) (fun w_ _ => CNext w_ Datatypes.tt))")
            continue
        fail(st, "unsupported statement in __init__")
    if term is None: raise Unsupported("__init__: the root node is never created")
    return ["(* biobalm/succession_diagram.py: def __init__(self, network, config): the empty space {} is top_space *)",
            "Definition py_init (fuel : nat) (N : net) (cfg : config) (pnc : nat -> bool) : cflow unit unit :=", "  " + term + ".", ""]

def main(argv):
    texts, failed = [], []
    try:
        texts.append((os.path.join(OUTDIR, "PySrcPickle.v"), translate_pickle()))
    except Unsupported as e:
        print(f"py2coq_core: FAILED PySrcPickle.v: UNSUPPORTED: {e}", file=sys.stderr)
        failed.append("PySrcPickle.v")
    for g, f in ((1, "PySrcCore.v"), (2, "PySrcCore2.v")):
        try:
            texts.append((os.path.join(OUTDIR, f), translate(g)))
        except Unsupported as e:
            print(f"py2coq_core: FAILED {f}: UNSUPPORTED: {e}", file=sys.stderr)
            failed.append(f)
            if g == 1:
                print("py2coq_core: FAILED PySrcCore2.v: depends on PySrcCore.v", file=sys.stderr); failed.append("PySrcCore2.v")
                break
    if len(argv) > 1 and argv[1] == "--check":
        same = not failed and all(os.path.exists(o) and open(o).read() == t for o, t in texts)
        print("unchanged" if same else "CHANGED")
        return 0 if same else 1
    for o, t in texts:
        if os.path.exists(o) and open(o).read() == t:
            print("unchanged", os.path.normpath(o))
        else:
            open(o, "w").write(t)
            print("wrote", os.path.normpath(o))
    return 2 if failed else 0

if __name__ == "__main__":
    sys.exit(main(sys.argv))
