#!/usr/bin/env python3
"""py2coq_blocks.py -- fail-closed translator of biobalm/_sd_algorithms/expand_source_blocks.expand_source_blocks (the block
strategy behind SuccessionDiagram.expand_block and build()) into Gallina: coq/theories/PySrcSdBlocks.v.

Reuses the expression / statement translation of py2coq_sd.Fn (the forms of expand_source_SCCs) and adds the forms that only the
block strategy uses: lists of (block, successor list) pairs with loops over them, `break` in `for` loops, set comparison of
blocks, and -- compared word for word with a reference text, not translated -- the construction of a block's sub-diagram with
its candidate query, which becomes the next entry of the `is_clean` tape (Blocks.v).  PySrcSdBlocksFacts.v proves the generated
function equal to Blocks.expand_block.  Embedding: PyLibSd.v, PyLibCore.v, PyLibControl.v, PyLibBlocks.v (trusted).
"""
import ast, os, sys, textwrap
sys.path.insert(0, os.path.dirname(os.path.abspath(__file__)))
import py2coq_sd as S
from py2coq_sd import Fn, Unsupported, fail, COQ_TY, DFLT

REPO = S.REPO
OUT = os.path.join(S.OUTDIR, "PySrcSdBlocks.v")
COQ_TY.update({"blocklist": "(list (list nat * list nat))", "btape": "(list bool)", "bool_btape": "(bool * list bool)"})
DFLT.update({"blocklist": "(@nil (list nat * list nat))", "btape": "tape", "comp": "(@nil nat)", "bitlist": "(@nil bool)"})

SPEC = dict(name="expand_source_blocks", path="biobalm/_sd_algorithms/expand_source_blocks.py", sccmain=True, scc=True, blocks=True,
            args=[("check_maa", "bool"), ("size_limit", "optnat"), ("optimize_source_nodes", "bool"), ("check_maa_exact", "bool")], ret="bool_btape",
            defaults={"check_maa": True, "size_limit": None, "optimize_source_nodes": True, "check_maa_exact": False},
            locs={"root": "nat", "current_level": "natset", "next_level": "natset", "visited": "natset", "bfs_depth": "nat", "node_bn": "netobj",
                  "node_space": "space", "sources": "natlist", "expected_size": "nat", "bin_values_iter": "bitlistlist", "valuation": "space",
                  "sub_space": "space", "successors": "natlist", "blocks": "blocklist", "motif": "space", "motif_block": "comp",
                  "motif_block_names": "comp", "found": "bool", "minimal_blocks": "blocklist", "is_minimal": "bool", "to_expand": "natlist",
                  "clean_block_found": "bool", "is_clean": "bool", "tape_": "btape"},
            loopvars={"node": "nat", "bin_values": "bitlist", "s": "nat"},
            pairvars={"block": "comp", "nodes": "natlist", "b2": "comp", "block_nodes": "natlist", "_": None},
            debug_locals={"total_fixed_vars"}, alias=[], fuels=["fuel"])

# the part of the loop over the minimal blocks that is NOT translated: it works on a second diagram (the block's sub-diagram) and ends
# in a candidate (or seed) query whose outcome -- "no candidates", anything else or a RuntimeError -- is the next entry of the tape.
# The current text must be this text (compared as syntax trees, so comments and layout are free).
CLEAN_QUERY = '''
block_sd = sd.component_subdiagram(list(block), node)
for succ_id in block_nodes:
    succ_motif = sd.edge_stable_motif(node, succ_id, reduced=True)
    block_sd._ensure_node(block_sd.root(), succ_motif)  # type: ignore
block_sd.node_data(block_sd.root())["expanded"] = True
is_clean = False
try:
    if check_maa_exact:
        block_sd_candidates = block_sd.node_attractor_seeds(
            block_sd.root(), compute=True, symbolic_fallback=True
        )
    else:
        block_sd_candidates = block_sd.node_attractor_candidates(
            block_sd.root(), compute=True
        )
    is_clean = len(block_sd_candidates) == 0
except RuntimeError:
    is_clean = False
'''
CLEAN_QUERY_DUMP = [ast.dump(x) for x in ast.parse(textwrap.dedent(CLEAN_QUERY)).body]

SORT_KEY = "Call(func=Name(id='sorted', ctx=Load()), args=[Name(id='minimal_blocks', ctx=Load())], keywords=[keyword(arg='key', value=Lambda(args=arguments(posonlyargs=[], args=[arg(arg='x')], kwonlyargs=[], kw_defaults=[], defaults=[]), body=Call(func=Name(id='len', ctx=Load()), args=[Subscript(value=Name(id='x', ctx=Load()), slice=Constant(value=1), ctx=Load())], keywords=[])))])"

API_BODY = '''
return expand_source_blocks(
    self,
    find_motif_avoidant_attractors,
    size_limit=size_limit,
    optimize_source_nodes=optimize_source_nodes,
    check_maa_exact=exact_attractor_detection,
)
'''

class BFn(Fn):
    def __init__(self, spec):
        super().__init__(spec)
        self.loops = []          # enclosing pair loops: (list name, index variable, first name, second name)
        self.nloop = 0

    # ---------------- expressions ----------------
    def expr(self, e, want=None):
        env = self.env
        isname = lambda x, ty=None: isinstance(x, ast.Name) and x.id in env and (ty is None or env[x.id] == ty)
        # source_nodes(node_bn) on the percolated network of a node
        if isinstance(e, ast.Call) and isinstance(e.func, ast.Name) and e.func.id == "source_nodes" and len(e.args) == 1 and not e.keywords \
                and isname(e.args[0], "netobj") and e.args[0].id in self.obj_of:
            return (f"(sources_in_b N (n_space (get sd_ {self.obj_of[e.args[0].id]})))", False, "natlist")
        # sd.edge_stable_motif(p, c, reduced=True)
        if isinstance(e, ast.Call) and isinstance(e.func, ast.Attribute) and e.func.attr == "edge_stable_motif" and self.is_sd(e.func.value) and len(e.args) == 2 \
                and len(e.keywords) == 1 and e.keywords[0].arg == "reduced" and isinstance(e.keywords[0].value, ast.Constant) and e.keywords[0].value.value is True:
            a, b = self.expr(e.args[0]), self.expr(e.args[1])
            if a[2] != "nat" or b[2] != "nat" or a[1] or b[1]: fail(e, "edge ids")
            return (f"(reduce_by (first_motif sd_ {a[0]} {b[0]}) (n_space (get sd_ {a[0]})))", False, "space")
        # node_bn.backward_reachable(list(motif.keys())): the block of the motif inside the node's space
        if isinstance(e, ast.Call) and isinstance(e.func, ast.Attribute) and e.func.attr == "backward_reachable" and isname(e.func.value, "netobj") \
                and e.func.value.id in self.obj_of and len(e.args) == 1 and not e.keywords:
            a = e.args[0]
            ok = isinstance(a, ast.Call) and isinstance(a.func, ast.Name) and a.func.id == "list" and len(a.args) == 1 and not a.keywords \
                and isinstance(a.args[0], ast.Call) and isinstance(a.args[0].func, ast.Attribute) and a.args[0].func.attr == "keys" and not a.args[0].args \
                and isname(a.args[0].func.value, "space")
            if not ok: fail(e, "backward_reachable argument")
            self.last_block_net = e.func.value.id
            return (f"(block_of N (n_space (get sd_ {self.obj_of[e.func.value.id]})) {a.args[0].func.value.id})", False, "comp")
        # {node_bn.get_variable_name(v) for v in motif_block}: the same set, by names
        if isinstance(e, ast.SetComp) and len(e.generators) == 1 and not e.generators[0].ifs and isinstance(e.generators[0].target, ast.Name) \
                and isname(e.generators[0].iter, "comp") and isinstance(e.elt, ast.Call) and isinstance(e.elt.func, ast.Attribute) \
                and e.elt.func.attr == "get_variable_name" and isname(e.elt.func.value, "netobj") and e.elt.func.value.id == getattr(self, "last_block_net", None) \
                and len(e.elt.args) == 1 and isinstance(e.elt.args[0], ast.Name) and e.elt.args[0].id == e.generators[0].target.id and not e.elt.keywords:
            return (e.generators[0].iter.id, False, "comp")
        # block == names ; b2 < block   (sets of variables)
        if isinstance(e, ast.Compare) and len(e.ops) == 1 and isname(e.left, "comp") and isname(e.comparators[0], "comp"):
            if isinstance(e.ops[0], ast.Eq): return (f"(same_set {e.left.id} {e.comparators[0].id})", False, "bool")
            if isinstance(e.ops[0], ast.Lt): return (f"(strict_subset {e.left.id} {e.comparators[0].id})", False, "bool")
            fail(e, "comparison of variable sets")
        # len(blocks)
        if isinstance(e, ast.Call) and isinstance(e.func, ast.Name) and e.func.id == "len" and len(e.args) == 1 and not e.keywords and isname(e.args[0], "blocklist"):
            return (f"(length {e.args[0].id})", False, "nat")
        # l[0]
        if isinstance(e, ast.Subscript) and isinstance(e.ctx, ast.Load) and isinstance(e.slice, ast.Constant) and e.slice.value == 0 and type(e.slice.value) is int \
                and isname(e.value, "natlist"):
            return (f"(hd_error {e.value.id})", True, "nat")                            # IndexError when empty
        # minimal_blocks[0][1]
        if isinstance(e, ast.Subscript) and isinstance(e.ctx, ast.Load) and isinstance(e.slice, ast.Constant) and e.slice.value == 1 and type(e.slice.value) is int \
                and isinstance(e.value, ast.Subscript) and isinstance(e.value.slice, ast.Constant) and e.value.slice.value == 0 and type(e.value.slice.value) is int \
                and isname(e.value.value, "blocklist"):
            return (f"(omap snd (hd_error {e.value.value.id}))", True, "natlist")       # IndexError when empty
        # sorted(minimal_blocks, key=lambda x: len(x[1])): stable sort by the number of successors
        if isinstance(e, ast.Call) and isinstance(e.func, ast.Name) and e.func.id == "sorted" and e.keywords:
            if ast.dump(e) != SORT_KEY or env.get("minimal_blocks") != "blocklist": fail(e, "sorted with a key")
            return ("(sort_blocks minimal_blocks)", False, "blocklist")
        # (names, [s]) ; (block, nodes)
        if isinstance(e, ast.Tuple) and len(e.elts) == 2 and want == "blockitem":
            a = self.expr(e.elts[0])
            if isinstance(e.elts[1], ast.List) and len(e.elts[1].elts) == 1:
                b = self.expr(e.elts[1].elts[0])
                if b[2] != "nat" or b[1]: fail(e, "block item")
                b = (f"[{b[0]}]", False, "natlist")
            else:
                b = self.expr(e.elts[1])
            if a[2] != "comp" or b[2] != "natlist" or a[1] or b[1]: fail(e, "block item")
            return (f"({a[0]}, {b[0]})", False, "blockitem")
        # X | set(L) with a list that may raise
        if isinstance(e, ast.BinOp) and isinstance(e.op, ast.BitOr) and isinstance(e.right, ast.Call) and isinstance(e.right.func, ast.Name) \
                and e.right.func.id == "set" and len(e.right.args) == 1 and not e.right.keywords:
            a, b = self.expr(e.left), self.expr(e.right.args[0])
            if a[2] != "natset" or b[2] != "natlist" or a[1]: fail(e, "set union")
            return self.map2(a, b, lambda x, y: f"(union_nat {x} {y})", "natset")
        if isinstance(e, ast.List) and not e.elts and want == "blocklist":
            return (DFLT["blocklist"], False, "blocklist")
        return super().expr(e, want)

    # ---------------- statements ----------------
    def debug_only(self, stmts):
        for b in stmts:
            if isinstance(b, ast.Expr) and isinstance(b.value, ast.Call) and isinstance(b.value.func, ast.Name) and b.value.func.id == "print":
                continue
            if isinstance(b, ast.Assign) and len(b.targets) == 1 and isinstance(b.targets[0], ast.Name) and b.targets[0].id in self.spec["debug_locals"]:
                continue
            if isinstance(b, ast.AugAssign) and isinstance(b.target, ast.Name) and b.target.id in self.spec["debug_locals"]:
                continue
            if isinstance(b, ast.For) and not b.orelse and isinstance(b.target, ast.Name) and b.target.id in self.spec["loopvars"] and self.debug_only(b.body):
                continue
            return False
        return True

    def is_debug_block(self, s):
        if super().is_debug_block(s): return True
        return isinstance(s, ast.If) and not s.orelse and ast.dump(s.test) == "Subscript(value=Attribute(value=Name(id='sd', ctx=Load()), attr='config', ctx=Load()), slice=Constant(value='debug'), ctx=Load())" \
            and self.debug_only(s.body)

    def block(self, stmts):
        if not stmts:
            return self.nxt()
        s, rest = stmts[0], stmts[1:]
        if isinstance(s, ast.Expr) and isinstance(s.value, ast.Constant) and isinstance(s.value.value, str):
            return self.block(rest)
        if self.is_debug_block(s):
            return self.block(rest)
        # the sub-diagram of a block and its candidate query: the next entry of the tape
        if isinstance(s, ast.Assign) and len(s.targets) == 1 and isinstance(s.targets[0], ast.Name) and s.targets[0].id == "block_sd":
            n = len(CLEAN_QUERY_DUMP)
            if [ast.dump(x) for x in stmts[:n]] != CLEAN_QUERY_DUMP: fail(s, "the clean-block query differs from the reference text")
            if not self.loops or self.loops[-1][2:] != ("block", "block_nodes") or self.env.get("node") != "nat": fail(s, "clean-block query outside its loop")
            for v in ("is_clean", "tape_"): self.need_state(v, s)
            return f"(let '(is_clean, tape_) := tape_next tape_ in {self.block(stmts[n:])})"
        if isinstance(s, ast.Try):
            fail(s, "try outside the reference text")
        # for A, B in L
        if isinstance(s, ast.For) and isinstance(s.target, ast.Tuple):
            if s.orelse or len(s.target.elts) != 2 or not all(isinstance(x, ast.Name) for x in s.target.elts): fail(s, "pair loop")
            A, B = (x.id for x in s.target.elts)
            pv = self.spec["pairvars"]
            if A not in pv or B not in pv or pv[A] != "comp" or pv[B] not in ("natlist", None): fail(s, "pair loop variables")
            if not (isinstance(s.iter, ast.Name) and self.env.get(s.iter.id) == "blocklist"): fail(s, "pair loop iterable")
            L = s.iter.id
            self.need_state(L, s)
            for n_ in ast.walk(s):                        # the list is not resized while it is being iterated
                if isinstance(n_, ast.Call) and isinstance(n_.func, ast.Attribute) and isinstance(n_.func.value, ast.Name) and n_.func.value.id == L:
                    fail(s, "the iterated list is modified in the loop")
                if isinstance(n_, (ast.Assign, ast.AugAssign)):
                    for t in (n_.targets if isinstance(n_, ast.Assign) else [n_.target]):
                        if isinstance(t, ast.Name) and t.id == L: fail(s, "the iterated list is reassigned in the loop")
            has_break = any(isinstance(n_, ast.Break) for n_ in S.walk_no_loops(s.body))
            self.nloop += 1
            i = f"i{self.nloop}_"
            saved = {k: self.env.get(k) for k in (A, B)}
            self.env[A] = "comp"
            if pv[B]: self.env[B] = pv[B]
            self.loops.append((L, i, A, B))
            try:
                body = self.block(s.body)
            finally:
                self.loops.pop()
                for k, v in saved.items():
                    if v is None: self.env.pop(k, None)
                    else: self.env[k] = v
            bind = f"let {A} := fst (nth_block {L} {i}) in " + (f"let {B} := snd (nth_block {L} {i}) in " if pv[B] else "")
            skip = f"if brk_ then {self.nxt()} else " if has_break else ""
            if has_break: self.need_state("brk_", s)
            head = (("(let brk_ := false in " if has_break else "(") +
                    f"s_for (seq 0 (length {L})) (fun {i} sd_ (st_ : {self.st_ty()}) => let {self.st_pat()} := st_ in "
                    f"({skip}{bind}{body} : {self.flow_ty()})) sd_ {self.st_tuple()})")
            if not has_break:
                return self.seq(head, rest)
            return f"(match {head} with SNext sd_ st_ => let {self.st_pat()} := st_ in let brk_ := false in {self.block(rest)} | other_ => other_ end)"
        if isinstance(s, ast.For) and any(isinstance(n_, ast.Break) for n_ in S.walk_no_loops(s.body)):
            fail(s, "break in a loop that is not prepared for it")
        # L.append((a, b)) ;  nodes.append(x) on the list inside the current pair
        if isinstance(s, ast.Expr) and isinstance(s.value, ast.Call) and isinstance(s.value.func, ast.Attribute) and s.value.func.attr == "append" \
                and isinstance(s.value.func.value, ast.Name) and len(s.value.args) == 1 and not s.value.keywords:
            obj = s.value.func.value.id
            if self.env.get(obj) == "blocklist" and obj in self.locs:
                self.need_state(obj, s)
                if any(l[0] == obj for l in self.loops): fail(s, "append to a list that is being iterated")
                a = self.expr(s.value.args[0], want="blockitem")
                if a[2] != "blockitem" or a[1]: fail(s, "append element type")
                return self.guard(f"({obj} ++ [{a[0]}])", False, obj, self.block(rest))
            if self.loops and obj == self.loops[-1][3] and self.spec["pairvars"].get(obj) == "natlist":
                L, i, A, B = self.loops[-1]
                self.need_state(L, s)
                a = self.expr(s.value.args[0])
                if a[2] != "nat" or a[1]: fail(s, "append element type")
                return f"(let {L} := upd_block {L} {i} ({A}, {B} ++ [{a[0]}]) in let {B} := {B} ++ [{a[0]}] in {self.block(rest)})"
            if obj in self.spec["pairvars"]: fail(s, "append to a pair component outside its loop")
        # X = X | set(E)
        if isinstance(s, ast.Assign) and len(s.targets) == 1 and isinstance(s.targets[0], ast.Name) and self.locs.get(s.targets[0].id) == "natset" \
                and isinstance(s.value, ast.BinOp) and isinstance(s.value.op, ast.BitOr) and isinstance(s.value.left, ast.Name) and s.value.left.id == s.targets[0].id \
                and isinstance(s.value.right, ast.Call) and isinstance(s.value.right.func, ast.Name) and s.value.right.func.id == "set" \
                and len(s.value.right.args) == 1 and not (isinstance(s.value.right.args[0], ast.Call) and s.value.right.args[0].keywords):
            t = self.expr(s.value)
            if t[2] != "natset": fail(s, "set union")
            self.need_state(s.targets[0].id, s)
            return self.guard(t[0], t[1], s.targets[0].id, self.block(rest))
        # assignments of pair lists
        if isinstance(s, (ast.Assign, ast.AnnAssign)):
            tgt = s.targets[0] if isinstance(s, ast.Assign) and len(s.targets) == 1 else (s.target if isinstance(s, ast.AnnAssign) else None)
            if isinstance(tgt, ast.Name) and self.locs.get(tgt.id) == "blocklist":
                if s.value is None: fail(s, "declaration without value")
                self.need_state(tgt.id, s)
                if any(l[0] == tgt.id for l in self.loops): fail(s, "assignment to a list that is being iterated")
                t = self.expr(s.value, want="blocklist")
                if t[2] != "blocklist" or t[1]: fail(s, "pair list value")
                return self.guard(t[0], False, tgt.id, self.block(rest))
            if isinstance(tgt, ast.Name) and tgt.id in self.spec["pairvars"]: fail(s, "assignment to a loop variable")
        return super().block(stmts)


def api_wrapper():
    mod = ast.parse(open(os.path.join(REPO, "biobalm/succession_diagram.py")).read())
    cls = [n for n in mod.body if isinstance(n, ast.ClassDef) and n.name == "SuccessionDiagram"]
    if len(cls) != 1: raise Unsupported("class SuccessionDiagram not found exactly once")
    ms = [n for n in cls[0].body if isinstance(n, ast.FunctionDef) and n.name == "expand_block"]
    if len(ms) != 1: raise Unsupported("method SuccessionDiagram.expand_block not found exactly once")
    m = ms[0]
    a = m.args
    if a.vararg or a.kwarg or a.kwonlyargs or a.posonlyargs or m.decorator_list: raise Unsupported("SuccessionDiagram.expand_block: signature")
    params = [x.arg for x in a.args]
    if params != ["self", "find_motif_avoidant_attractors", "size_limit", "optimize_source_nodes", "exact_attractor_detection"]:
        raise Unsupported("SuccessionDiagram.expand_block: parameters")
    dfl = [d.value if isinstance(d, ast.Constant) else "?" for d in a.defaults]
    if len(dfl) != 4 or dfl[0] is not True or dfl[1] is not None or dfl[2] is not True or dfl[3] is not False:
        raise Unsupported("SuccessionDiagram.expand_block: default values")
    body = [b for b in m.body if not (isinstance(b, ast.Expr) and isinstance(b.value, ast.Constant) and isinstance(b.value.value, str))]
    if [ast.dump(b) for b in body] != [ast.dump(b) for b in ast.parse(textwrap.dedent(API_BODY)).body]:
        raise Unsupported("SuccessionDiagram.expand_block: body is not the call of expand_source_blocks with its four parameters")
    return ["(* biobalm/succession_diagram.py: def SuccessionDiagram.expand_block(self, find_motif_avoidant_attractors=True, size_limit=None, optimize_source_nodes=True, exact_attractor_detection=False) *)",
            "Definition py_api_expand_block (fuel : nat) (N : net) (cfg : config) (sd_ : sd) (tape : list bool) (find_motif_avoidant_attractors : bool) (size_limit : option nat)",
            "    (optimize_source_nodes exact_attractor_detection : bool) : sflow (bool * list bool) unit :=",
            "  py_expand_source_blocks fuel N cfg sd_ tape find_motif_avoidant_attractors size_limit optimize_source_nodes exact_attractor_detection.", ""]


def translate():
    spec = SPEC
    mod = ast.parse(open(os.path.join(REPO, spec["path"])).read())
    nodes = [n for n in mod.body if isinstance(n, ast.FunctionDef) and n.name == spec["name"]]
    if len(nodes) != 1: raise Unsupported(f"{spec['path']}: function {spec['name']} not found exactly once")
    node = nodes[0]
    a = node.args
    if a.vararg or a.kwarg or a.kwonlyargs or a.posonlyargs or node.decorator_list or [x.arg for x in a.args] != ["sd"] + [x for x, _ in spec["args"]]:
        raise Unsupported(f"{spec['name']}: signature changed")
    got = dict(zip([x.arg for x in a.args][len(a.args) - len(a.defaults):], a.defaults))
    if set(got) != set(spec["defaults"]) or any(not (isinstance(got[k], ast.Constant) and got[k].value is v) for k, v in spec["defaults"].items()):
        raise Unsupported(f"{spec['name']}: default values changed")
    fn = BFn(spec)
    locs = dict(spec["locs"], brk_="bool")
    fn.locs = locs; fn.env["brk_"] = "bool"
    fn.state = S.assigned_locals(node, locs)
    for hidden in ("brk_", "tape_"):
        if hidden not in fn.state: fn.state.append(hidden)
    body = fn.block(node.body)
    if fn.fuels: raise Unsupported(f"{spec['name']}: fewer while loops than declared")
    sig = " ".join(f"({x} : {COQ_TY[t]})" for x, t in spec["args"])
    init = "".join(f"let {v} := {DFLT[locs[v]]} in " for v in fn.state)
    parts = ["(* PySrcSdBlocks.v -- GENERATED by tools/py2coq_blocks.py from the current source of /repo/biobalm/_sd_algorithms/expand_source_blocks.py; do not edit.",
             "   The definition is the translation of the Python function of the same name (embedding: PyLibSd.v, PyLibCore.v, PyLibControl.v, PyLibBlocks.v);",
             "   PySrcSdBlocksFacts.v proves it equal to the model's Blocks.expand_block. *)",
             "From Coq Require Import List Bool Arith.", "Import ListNotations.",
             "From BB Require Import BN Diagram PyLib PyLibSd Brute Blocks SCC PyLibCore PyLibSd2 PyLibScc Control PyLibControl PyLibBlocks.", "",
             f"(* {spec['path']}: def {spec['name']}(sd, {', '.join(x for x, _ in spec['args'])}) *)",
             f"Definition py_{spec['name']} (fuel : nat) (N : net) (cfg : config) (sd_ : sd) (tape : list bool) {sig} : sflow {COQ_TY[fn.ret]} unit :=",
             f"  {init}",
             "  s_close\n" + textwrap.indent(S.pretty(f"({body} : {fn.flow_ty()})"), "    ") + ".", ""]
    parts += api_wrapper()
    return "\n".join(parts)


# ---- the public methods expand_scc and build: compared with reference texts, emitted as calls of the generated drivers ----
OUT_API = os.path.join(S.OUTDIR, "PySrcApi.v")
SCC_BODY = "return expand_source_SCCs(self, check_maa=find_motif_avoidant_attractors)"
BUILD_BODY = '''
self.expand_block()
for node_id in self.expanded_ids():
    self.node_attractor_seeds(node_id, compute=True)
'''

def method(name):
    mod = ast.parse(open(os.path.join(REPO, "biobalm/succession_diagram.py")).read())
    cls = [n for n in mod.body if isinstance(n, ast.ClassDef) and n.name == "SuccessionDiagram"]
    if len(cls) != 1: raise Unsupported("class SuccessionDiagram not found exactly once")
    ms = [n for n in cls[0].body if isinstance(n, ast.FunctionDef) and n.name == name]
    if len(ms) != 1: raise Unsupported(f"method SuccessionDiagram.{name} not found exactly once")
    m = ms[0]
    a = m.args
    if a.vararg or a.kwarg or a.kwonlyargs or a.posonlyargs or m.decorator_list: raise Unsupported(f"SuccessionDiagram.{name}: signature")
    body = [b for b in m.body if not (isinstance(b, ast.Expr) and isinstance(b.value, ast.Constant) and isinstance(b.value.value, str))]
    return m, [x.arg for x in a.args], [d.value if isinstance(d, ast.Constant) else "?" for d in a.defaults], [ast.dump(b) for b in body]

def translate_api():
    dump = lambda txt: [ast.dump(b) for b in ast.parse(textwrap.dedent(txt)).body]
    _, params, dfl, body = method("expand_scc")
    if params != ["self", "find_motif_avoidant_attractors"] or len(dfl) != 1 or dfl[0] is not True: raise Unsupported("SuccessionDiagram.expand_scc: signature or default")
    if body != dump(SCC_BODY): raise Unsupported("SuccessionDiagram.expand_scc: body is not the call of expand_source_SCCs with check_maa")
    _, params, dfl, body = method("build")
    if params != ["self"] or dfl: raise Unsupported("SuccessionDiagram.build: signature")
    if body != dump(BUILD_BODY): raise Unsupported("SuccessionDiagram.build: body differs from the reference text (expand_block with its defaults, then seeds of every expanded node)")
    return "\n".join([
        "(* PySrcApi.v -- GENERATED by tools/py2coq_blocks.py from the current source of /repo/biobalm/succession_diagram.py; do not edit.",
        "   The public methods expand_scc and build, whose bodies were compared with reference texts: they are calls of the generated drivers. *)",
        "From Coq Require Import List Bool Arith.", "Import ListNotations.",
        "From BB Require Import BN Diagram PyLib PyLibSd PySrcSdSccMain PySrcSdBlocks.", "",
        "(* def SuccessionDiagram.expand_scc(self, find_motif_avoidant_attractors=True): return expand_source_SCCs(self, check_maa=find_motif_avoidant_attractors)",
        "   -- recursion and expander keep the defaults of expand_source_SCCs (0, the recursive call) *)",
        "Definition py_api_expand_scc (fuel : nat) (N : net) (cfg : config) (sd_ : sd) (tape : list (option bool)) (find_motif_avoidant_attractors : bool) :=",
        "  py_expand_source_SCCs fuel N cfg sd_ tape find_motif_avoidant_attractors 0.", "",
        "(* def SuccessionDiagram.build(self): self.expand_block() with the method's defaults (True, None, True, False); the loop that follows asks for the seeds of every",
        "   expanded node (attractor caches only; compared with the reference text, not translated) *)",
        "Definition py_api_build (fuel : nat) (N : net) (cfg : config) (sd_ : sd) (tape : list bool) :=",
        "  py_api_expand_block fuel N cfg sd_ tape true None true false.", ""])

def main(argv):
    rc = 0
    for out, fn, label in ((OUT, translate, "PySrcSdBlocks.v"), (OUT_API, translate_api, "PySrcApi.v")):
        try:
            t = fn()
        except Unsupported as e:
            print(f"py2coq_blocks: FAILED {label}: UNSUPPORTED: {e}", file=sys.stderr)
            rc = 2
            continue
        if len(argv) > 1 and argv[1] == "--check":
            if not (os.path.exists(out) and open(out).read() == t): rc = max(rc, 1)
            continue
        if os.path.exists(out) and open(out).read() == t:
            print("unchanged", os.path.normpath(out))
        else:
            open(out, "w").write(t)
            print("wrote", os.path.normpath(out))
    if len(argv) > 1 and argv[1] == "--check":
        print("unchanged" if rc == 0 else "CHANGED")
    return rc

if __name__ == "__main__":
    sys.exit(main(sys.argv))
