#!/usr/bin/env python3
"""Generate coq/props/Cxx.v: each property file only restates library theorems (statement obtained
from Coq itself with `Check`) and closes them by `exact`, followed by Print Assumptions.
The hand-written header comment and the Examples come from tools/props_spec.py."""
import subprocess, re, sys, os
sys.path.insert(0, os.path.dirname(__file__))
from props_spec import SPEC, IMPORTS, imports_for, imports_all

COQ = "/verif/coq"

def check_types(names):
    tmp = os.path.join(COQ, "props", "_check_tmp.v")
    open(tmp, "w").write(imports_all() + "\nSet Printing Width 1000000.\nSet Printing Depth 100000.\n" + "".join(f"Check {n}.\n" for n in names))
    p = subprocess.run(["coqc", "-Q", "theories", "BB", tmp], capture_output=True, text=True, cwd=COQ, timeout=900)
    for ext in (".v", ".vo", ".glob", ".vok", ".vos"):
        try:
            os.remove(tmp[:-2] + ext)
        except OSError:
            pass
    try:
        os.remove(os.path.join(COQ, "props", "._check_tmp.aux"))
    except OSError:
        pass
    if p.returncode != 0:
        raise SystemExit(p.stdout[-3000:] + p.stderr[-3000:])
    types = {}
    cur = None
    for line in p.stdout.splitlines():
        if line and not line[0].isspace():
            cur = line.strip()
            types[cur] = ""
        elif cur is not None:
            types[cur] += " " + line.strip()
    out = {}
    for n in names:
        t = types.get(n, "").strip()
        if not t.startswith(":"):
            raise SystemExit(f"cannot find type of {n}: {t[:200]}")
        out[n] = t[1:].strip()
    return out

def main():
    allnames = sorted({t for spec in SPEC.values() for (_, t, _) in spec["theorems"]})
    types = check_types(allnames)
    for pid, spec in SPEC.items():
        lines = [f"(* {pid} -- {spec['title']}", ""]
        lines += ["   " + l for l in spec["comment"].strip().splitlines()]
        lines += ["", "   This file contains only restatements closed by `exact` (statements produced by Coq's own",
                  "   `Check` of the library lemma) plus non-vacuity Examples, each followed by Print Assumptions. *)", imports_for(pid), ""]
        for (name, lemma, note) in spec["theorems"]:
            if note:
                lines.append(f"(* {note} *)")
            lines.append(f"Theorem {pid}_{name} : {types[lemma]}.")
            lines.append(f"Proof. exact {lemma}. Qed.")
            lines.append("")
        if spec.get("examples"):
            lines.append(spec["examples"].strip()); lines.append("")
        for (name, lemma, note) in spec["theorems"]:
            lines.append(f"Print Assumptions {pid}_{name}.")
        open(os.path.join(COQ, "props", pid + ".v"), "w").write("\n".join(lines) + "\n")
        print(pid, len(spec["theorems"]), "theorems")

if __name__ == "__main__":
    main()
