(* ControlFacts5.v -- SPEC (prove the theorems).
   C06 "on a fresh diagram or one that was already partially expanded": the target-directed expansion establishes the
   hypotheses of ControlFacts3.succession_control_sound from ANY diagram reached by plain operations, so the end-to-end
   soundness of reported interventions holds after arbitrary plain histories. *)
From Coq Require Import List Bool Arith NArith Lia Permutation.
Import ListNotations.
From BB Require Import BN Brute SpaceFacts TrapFacts PercolateFacts AttractorFacts Diagram Invariants DiagramStruct
  DiagramSem1 DiagramComplete MinExpandFacts Control ControlFacts ControlFacts2 ASeedsFacts ControlFacts3 ControlFacts4.

Theorem target_expansion_TargetExpanded_from : forall fuel N cfg target d d', 1 <= max_motifs cfg ->
  length target = nvars N -> PlainInv N d ->
  expand_to_target fuel N cfg d target None = (d', RBool true) ->
  PlainInv N d' /\ TargetExpanded target d'.

(* the whole control call on a plainly reached diagram: expand towards the target, then compute the interventions *)
Theorem control_after_plain_history_sound : forall fuel N cfg target d d' all_strategy maxd forbidden b succ ctl,
  1 <= max_motifs cfg -> length target = nvars N -> PlainInv N d ->
  expand_to_target fuel N cfg d target None = (d', RBool true) ->
  In (succ, ctl, true) (succession_control_ff N d' target all_strategy maxd forbidden b) ->
  let spaces := chain N succ (top_space (nvars N)) in
  length ctl = length succ /\
  (forall i, i < length succ ->
     trap_space N (nth i spaces []) /\ trap_space N (nth (S i) spaces []) /\
     subspace (nth (S i) spaces []) (nth i spaces []) = true /\
     nth i ctl [] <> [] /\
     forall drv, In drv (nth i ctl []) ->
       subspace (percolate_b N (merge drv (nth i spaces []))) (nth i succ []) = true /\
       forced (override N drv) (nth i spaces []) (nth i succ [])) /\
  intersect (last spaces []) target <> None /\
  (forall M, min_trap N M -> subspace M (last spaces []) = true -> subspace M target = true).
