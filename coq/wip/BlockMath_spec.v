(* BlockMath.v -- SPEC (definitions are fixed; prove the theorems).
   The network-level mathematics behind source-block expansion ("independence of minimal source blocks",
   "clean-block argument"): a set B of free variables of a trap space S that is closed under regulators
   evolves autonomously inside S, so trap spaces and attractors project onto it. *)
From Coq Require Import List Bool Arith NArith Lia Permutation.
Import ListNotations.
From BB Require Import BN Brute SpaceFacts TrapFacts PercolateFacts AttractorFacts Filter FilterFacts Diagram
  DiagramComplete Blocks BlocksFacts OwnerFacts.

(* B is a set of variables free in S, closed under regulators inside S *)
Definition closed_in (N : net) (S : space) (B : list nat) : Prop :=
  (forall v, In v B -> v < nvars N /\ free_in S v = true) /\
  (forall i j, In j B -> i < nvars N -> free_in S i = true -> regulates_b N S i j = true -> In i B).

(* the variables of m that are fixed beyond S all lie in B *)
Definition fixes_within (m S : space) (B : list nat) : Prop :=
  forall v, v < length S -> nth v m None <> nth v S None -> In v B.

(* M restricted to the variables of B, everything else as in S *)
Definition proj_space (M S : space) (B : list nat) : space :=
  map (fun v => if mem_nat v B then nth v M None else nth v S None) (seq 0 (length S)).

(* the block sub-network: variables outside B are frozen (the code drops them; inside S this is the same
   dynamics on the variables of B) *)
Definition freeze (N : net) (B : list nat) : net :=
  map (fun v => fun s : state => if mem_nat v B then upd N v s else nth v s false) (seq 0 (nvars N)).

(* contract of "is_clean": no attractor of the block network inside S avoids all the block's motifs *)
Definition block_clean (N : net) (S : space) (B : list nat) (motifs : list space) : Prop :=
  forall A, attractor (freeze N B) A -> inside A S -> exists m, In m motifs /\ inside A m.

(* executable twin of the contract (extracted; run on every recorded is_clean answer) *)
Definition block_clean_b (N : net) (S : space) (B : list nat) (motifs : list space) : bool :=
  forallb (fun L => negb (inside_b L S) || existsb (inside_b L) motifs) (attractors_b (freeze N B)).

(* ---- to prove ---- *)

Theorem block_clean_b_spec : forall N S B motifs, length S = nvars N ->
  (forall m, In m motifs -> length m = nvars N) ->
  (block_clean_b N S B motifs = true <-> block_clean N S B motifs).


(* 1. the backward closure computed by the model is closed (fuel nvars N is enough) *)
Theorem bwd_closure_closed : forall N S cur, length S = nvars N ->
  (forall v, In v cur -> v < nvars N /\ free_in S v = true) ->
  closed_in N S (bwd_closure (nvars N) N S cur) /\ (forall v, In v cur -> In v (bwd_closure (nvars N) N S cur)).
Theorem bwd_closure_least : forall N S cur B, closed_in N S B -> (forall v, In v cur -> In v B) ->
  forall v, In v (bwd_closure (nvars N) N S cur) -> In v B.
Theorem block_of_closed : forall N S m, trap_space N S -> length m = nvars N -> subspace m S = true ->
  closed_in N S (block_of N S (reduce_by m S)) /\ fixes_within m S (block_of N S (reduce_by m S)).

(* 2. update functions of B only read B inside S *)
Theorem closed_in_reads_B : forall N S B j s t, closed_in N S B -> In j B ->
  wf_state N s -> wf_state N t -> in_space s S = true -> in_space t S = true ->
  (forall v, In v B -> nth v s false = nth v t false) -> upd N j s = upd N j t.

(* 3. trap spaces project *)
Theorem proj_trap : forall N S M B, trap_space N S -> trap_space N M -> subspace M S = true ->
  closed_in N S B -> trap_space N (proj_space M S B) /\ subspace M (proj_space M S B) = true /\
  subspace (proj_space M S B) S = true /\ fixes_within (proj_space M S B) S B.

(* 4. independence: a minimal trap space strictly inside S fixes something in every closed block that carries
      a motif, and lies below a maximal trap space (child motif) whose new fixed variables are in that block *)
Theorem min_trap_meets_block : forall N S B m0 M, trap_space N S -> closed_in N S B ->
  trap_space N m0 -> subspace m0 S = true -> m0 <> S -> fixes_within m0 S B ->
  min_trap N M -> subspace M S = true -> proj_space M S B <> S.
Theorem min_trap_in_block : forall N S srcs B m0 M, trap_space N S -> closed_in N S B ->
  In m0 (max_traps_b N S srcs) -> fixes_within m0 S B ->
  min_trap N M -> subspace M S = true -> fixes_all M srcs = true ->
  (forall v, In v srcs -> nth v S None = None -> In v B) ->
  exists T, In T (max_traps_b N S srcs) /\ subspace M T = true /\ fixes_within T S B.

(* 5. attractors project onto the block network *)
Theorem proj_attractor : forall N S B A s0, trap_space N S -> closed_in N S B ->
  attractor N A -> inside A S -> A s0 ->
  attractor (freeze N B)
    (fun t => wf_state N t /\ exists s, A s /\ (forall v, In v B -> nth v t false = nth v s false) /\
                                       (forall v, v < nvars N -> ~ In v B -> nth v t false = nth v s0 false)).
Theorem clean_block_covers : forall N S B motifs, trap_space N S -> closed_in N S B ->
  (forall m, In m motifs -> length m = nvars N /\ subspace m S = true /\ fixes_within m S B) ->
  block_clean N S B motifs ->
  forall A, attractor N A -> inside A S -> exists m, In m motifs /\ inside A m.

(* 6. two maximal trap spaces (motifs) with the same percolation belong to the same closed block: needed because the
      code computes a successor's block from its FIRST motif only.  S is percolated (a node space). *)
Theorem same_child_same_block : forall N S srcs B T m1, trap_space N S -> percolate_b N S = S -> closed_in N S B ->
  In T (max_traps_b N S srcs) -> In m1 (max_traps_b N S srcs) ->
  (forall v, In v srcs -> nth v S None = None -> In v B) ->
  fixes_within T S B -> percolate_b N m1 = percolate_b N T -> fixes_within m1 S B.
