(* SCCTerm.v -- SPEC (prove the theorems; the model is theories/SCC.v, do not edit it; theories/SCCStruct.v provides the
   weak invariant WI, good_at, graft_trap, the unfolding lemmas and expand_scc_grows / expand_scc_TrapNodes).
   The source-SCC strategy keeps edges strict (every edge leads to a strictly smaller space -- in particular the assertion
   `main_node_id != main_succ_id` of attach_scc_subdiagram can never fire) and terminates: the BFS levels descend
   strictly, the recursion on sub-diagrams loses at least one free variable per nesting level, so fuel
   nvars N + 2 is always enough. *)
From Coq Require Import List Bool Arith NArith Lia Permutation Relations.
Import ListNotations.
From BB Require Import BN Brute SpaceFacts TrapFacts PercolateFacts Diagram Invariants DiagramStruct DiagramSem1
  Termination Blocks BlocksFacts BlockMath SCC SCCStruct.

Theorem expand_scc_EdgeStrict : forall fuel N cfg d maa tape, 1 <= max_motifs cfg ->
  SWF N d -> TrapNodes N d -> EdgeStrict d -> EdgeStrict (fst (expand_scc fuel N cfg d maa tape)).

(* the assertion main_node_id != main_succ_id never fails, nor does the assertion on nodes without source SCC *)
Theorem expand_scc_no_assert : forall fuel N cfg d maa tape, 1 <= max_motifs cfg ->
  SWF N d -> TrapNodes N d -> EdgeStrict d -> snd (expand_scc fuel N cfg d maa tape) <> RRaised ErrAssert.

Theorem expand_scc_terminates : forall fuel N cfg d maa tape, 1 <= max_motifs cfg ->
  SWF N d -> TrapNodes N d -> EdgeStrict d -> nvars N + 2 <= fuel ->
  snd (expand_scc fuel N cfg d maa tape) <> RFuel.
