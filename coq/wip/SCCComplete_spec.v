(* SCCComplete.v -- SPEC (prove the theorems; the model is theories/SCC.v, do not edit it; theories/SCCStruct.v and
   theories/SCCTerm.v provide the invariants WI / SI, good_at, the graft lemmas (G_*), unfolding lemmas and the induction
   scheme over the fuel of scc_main generalised over the network).
   C03 for the source-SCC strategy, from a fresh diagram: when it reports completion, the expanded leaves of the
   diagram are exactly the minimal trap spaces of the network -- none missing (MinFound), none spurious (LeafOK).
   Idea: a minimal trap space M of N inside a node space sp projects onto every source SCC B to a minimal trap space
   of the component sub-network (otherwise grafting a smaller one back would give a smaller trap space of N:
   graft_trap / glue_trap); by induction on the nesting depth the fully expanded sub-diagram has that projection as a
   leaf, so after attaching all components there is an attach point whose space contains M; at the next level the
   argument repeats, and strictness bounds the number of levels. *)
From Coq Require Import List Bool Arith NArith Lia Permutation Relations.
Import ListNotations.
From BB Require Import BN Brute SpaceFacts TrapFacts PercolateFacts Diagram Invariants DiagramStruct DiagramSem1
  DiagramComplete MinExpandFacts Termination Blocks BlocksFacts BlockMath SCC SCCStruct SCCTerm.

Theorem expand_scc_LeafOK : forall fuel N cfg d' maa tape, 1 <= max_motifs cfg ->
  expand_scc fuel N cfg (init N) maa tape = (d', RBool true) -> LeafOK N d'.

Theorem expand_scc_MinFound : forall fuel N cfg d' maa tape, 1 <= max_motifs cfg ->
  expand_scc fuel N cfg (init N) maa tape = (d', RBool true) -> MinFound N d'.

(* every node is expanded when the strategy reports completion (no stub is left behind) *)
Theorem expand_scc_AllExpanded : forall fuel N cfg d' maa tape, 1 <= max_motifs cfg ->
  expand_scc fuel N cfg (init N) maa tape = (d', RBool true) -> AllExpanded d'.
