(* PartialOwner.v -- SPEC (definitions are fixed; prove the theorems).
   Generalises OwnerFacts.v (fully expanded diagrams) to partially expanded diagrams with stubs,
   as left by block expansion and attractor-seed expansion: owners are EXPANDED nodes.  *)
From Coq Require Import List Bool Arith NArith Lia Permutation.
Import ListNotations.
From BB Require Import BN Brute SpaceFacts TrapFacts PercolateFacts AttractorFacts Filter FilterFacts Diagram Invariants
  DiagramStruct DiagramSem1 DiagramComplete DiagramDepth MinExpandFacts Blocks BlocksFacts OwnerFacts.

(* an expanded node in "fast-forward form": its motifs are the valuations of the sources of its space *)
Definition ff_form (N : net) (d : sd) (i : nat) : Prop :=
  sources_in_b N (n_space (get d i)) <> [] /\
  Permutation (out_motifs d i) (ff_motifs N (n_space (get d i))).
Definition CanonOrFF (N : net) (d : sd) : Prop :=
  forall i, i < size d -> n_exp (get d i) = true -> n_skip (get d i) = false ->
    canonical N d i \/ ff_form N d i.

Definition owns_exp (N : net) (d : sd) (i : nat) (A : state -> Prop) : Prop :=
  owns N d i A /\ n_exp (get d i) = true.
Definition AttrServed (N : net) (d : sd) : Prop :=
  forall A, attractor N A -> exists i, owns_exp N d i A.

(* "work list" invariants: every attractor / minimal trap space inside an expanded node is either settled at
   that node or lies inside a successor that is expanded or still pending *)
Definition attr_good (N : net) (d : sd) (pending : list nat) : Prop :=
  forall x A, x < size d -> n_exp (get d x) = true -> attractor N A -> inside A (n_space (get d x)) ->
    owns N d x A \/
    exists c, In c (successors d x) /\ inside A (n_space (get d c)) /\ (n_exp (get d c) = true \/ In c pending).
Definition min_good (N : net) (d : sd) (pending : list nat) : Prop :=
  forall x M, x < size d -> n_exp (get d x) = true -> min_trap N M -> subspace M (n_space (get d x)) = true ->
    n_space (get d x) = M \/
    exists c, In c (successors d x) /\ subspace M (n_space (get d c)) = true /\ (n_exp (get d c) = true \/ In c pending).

Definition exp_seeds_ok (N : net) (d : sd) (seeds : nat -> list state) : Prop :=
  forall i, i < size d -> n_exp (get d i) = true ->
    one_to_one N (n_space (get d i)) (out_motifs d i) (seeds i).

(* ---- to prove ---- *)

(* a node in fast-forward form owns nothing: sources of the node space are constant on every attractor inside it *)
Theorem ff_form_owns_nothing : forall N d i A, SWF N d -> TrapNodes N d -> i < size d ->
  ff_form N d i -> attractor N A -> ~ owns N d i A.

(* two expanded owners of one attractor coincide *)
Theorem owner_unique_partial : forall N d A i j,
  SWF N d -> TrapNodes N d -> NoSkips d -> CanonOrFF N d -> attractor N A ->
  owns_exp N d i A -> owns_exp N d j A -> i = j.

(* with an empty work list, descending from the expanded root finds an expanded owner / an expanded leaf *)
Theorem attr_good_served : forall N d,
  SWF N d -> TrapNodes N d -> EdgeStrict d ->
  n_space (get d 0) = percolate_b N (top_space (nvars N)) -> n_exp (get d 0) = true ->
  attr_good N d [] -> AttrServed N d.
Theorem min_good_found : forall N d,
  SWF N d -> TrapNodes N d -> EdgeStrict d ->
  n_space (get d 0) = percolate_b N (top_space (nvars N)) -> n_exp (get d 0) = true ->
  min_good N d [] -> MinFound N d.

(* the global statement of C01 for partial diagrams: seeds requested for every EXPANDED node *)
Theorem partial_one_to_one : forall N d seeds,
  SWF N d -> TrapNodes N d -> NoSkips d -> CanonOrFF N d -> AttrServed N d -> exp_seeds_ok N d seeds ->
  (forall A, attractor N A -> exists i s, i < size d /\ n_exp (get d i) = true /\ In s (seeds i) /\ A s) /\
  (forall A i j s t, attractor N A -> i < size d -> j < size d ->
     n_exp (get d i) = true -> n_exp (get d j) = true ->
     In s (seeds i) -> In t (seeds j) -> A s -> A t -> i = j /\ s = t) /\
  (forall i s, i < size d -> n_exp (get d i) = true -> In s (seeds i) ->
     exists A, attractor N A /\ A s /\ inside A (n_space (get d i))).

(* the invariants a fully expanded hierarchy satisfies are an instance *)
Theorem Faithful_CanonOrFF : forall N d, Faithful N d -> CanonOrFF N d.
