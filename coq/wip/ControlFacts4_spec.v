(* ControlFacts4.v -- SPEC (prove the theorems; definitions are in theories/Control.v, do not edit it).
   skip_feedforward_successions: the filter only removes successions (so everything proved about reported
   interventions -- C06 -- still holds), every removed succession is subsumed by a kept one with a weaker
   signature, and the kept signatures are pairwise incomparable. *)
From Coq Require Import List Bool Arith NArith Lia Permutation.
Import ListNotations.
From BB Require Import BN Brute SpaceFacts Diagram Invariants Control ControlFacts ControlFacts2 ASeedsFacts ControlFacts3.

Theorem ff_filter_incl : forall succs s, In s (ff_filter succs) -> In s succs.
Theorem ff_filter_covers : forall succs s, (forall x, In x succs -> forall m, In m x -> length m = length (signature s)) ->
  In s succs -> exists k, In k (ff_filter succs) /\ subspace (signature s) (signature k) = true.
Theorem ff_filter_antichain : forall succs a b, (forall x, In x succs -> forall m y, In m x -> In y succs -> forall m', In m' y -> length m = length m') ->
  In a (ff_filter succs) -> In b (ff_filter succs) ->
  subspace (signature a) (signature b) = true -> signature a = signature b.
Theorem successions_ff_incl : forall d target b s, In s (successions_ff d target b) -> In s (successions d target).
(* C06 with the option on: the interventions reported are among those reported with the option off *)
Theorem succession_control_ff_incl : forall N d target all_strategy maxd forbidden b x,
  In x (succession_control_ff N d target all_strategy maxd forbidden b) ->
  In x (succession_control N d target all_strategy maxd forbidden).
Theorem succession_control_ff_sound : forall N d target all_strategy maxd forbidden b succ ctl,
  PlainInv N d -> length target = nvars N -> TargetExpanded target d ->
  In (succ, ctl, true) (succession_control_ff N d target all_strategy maxd forbidden b) ->
  let spaces := chain N succ (top_space (nvars N)) in
  length ctl = length succ /\
  (forall i, i < length succ ->
     trap_space N (nth i spaces []) /\ trap_space N (nth (S i) spaces []) /\
     subspace (nth (S i) spaces []) (nth i spaces []) = true /\
     nth i ctl [] <> [] /\
     forall drv, In drv (nth i ctl []) ->
       subspace (percolate_b N (merge drv (nth i spaces []))) (nth i succ []) = true /\
       forced (override N drv) (nth i spaces []) (nth i succ [])) /\
  intersect (last spaces []) target <> None /\
  (forall M, min_trap N M -> subspace M (last spaces []) = true -> subspace M target = true).
