(* ControlFacts6.v -- SPEC (prove the theorems).
   C06 on "skipped" diagrams: the end-to-end soundness of reported interventions for EVERY diagram reached by ANY history
   of operations of Diagram.step, skip operations included (SkipSem.AnyInv + DiagramDepth.Anch), not only plain ones. *)
From Coq Require Import List Bool Arith NArith Lia Permutation.
Import ListNotations.
From BB Require Import BN Brute SpaceFacts TrapFacts PercolateFacts AttractorFacts Diagram Invariants DiagramStruct
  DiagramSem1 DiagramComplete DiagramDepth MinExpandFacts Control ControlFacts ControlFacts2 ASeedsFacts ControlFacts3
  ControlFacts4 ControlFacts5 SkipSem.

(* what holds after every history *)
Theorem run_AnyInv_Anch : forall fuel N cfg h d r, 1 <= max_motifs cfg ->
  In (d, r) (run fuel N cfg (init N) h) -> AnyInv N d /\ Anch d.

Theorem target_expansion_TargetExpanded_any : forall fuel N cfg target d d', 1 <= max_motifs cfg ->
  length target = nvars N -> AnyInv N d -> Anch d ->
  expand_to_target fuel N cfg d target None = (d', RBool true) ->
  AnyInv N d' /\ Anch d' /\ TargetExpanded target d'.

Theorem succession_control_sound_any : forall N d target all_strategy maxd forbidden b succ ctl,
  AnyInv N d -> Anch d -> length target = nvars N -> TargetExpanded target d ->
  In (succ, ctl, true) (succession_control_ff N d target all_strategy maxd forbidden b) ->
  let spaces := chain N succ (top_space (nvars N)) in
  length ctl = length succ /\
  (forall i, i < length succ ->
     trap_space N (nth i spaces []) /\ trap_space N (nth (S i) spaces []) /\
     subspace (nth (S i) spaces []) (nth i spaces []) = true /\
     nth i ctl [] <> [] /\
     forall drv, In drv (nth i ctl []) ->
       subspace (percolate_b N (merge drv (nth i spaces []))) (nth i succ []) = true /\
       forced (override N drv) (nth i spaces []) (nth i succ [])) /\
  intersect (last spaces []) target <> None /\
  (forall M, min_trap N M -> subspace M (last spaces []) = true -> subspace M target = true).

(* the whole call after an arbitrary history *)
Theorem control_after_any_history_sound : forall fuel N cfg h d r target d' all_strategy maxd forbidden b succ ctl,
  1 <= max_motifs cfg -> length target = nvars N ->
  In (d, r) (run fuel N cfg (init N) h) ->
  expand_to_target fuel N cfg d target None = (d', RBool true) ->
  In (succ, ctl, true) (succession_control_ff N d' target all_strategy maxd forbidden b) ->
  let spaces := chain N succ (top_space (nvars N)) in
  length ctl = length succ /\
  (forall i, i < length succ ->
     forall drv, In drv (nth i ctl []) ->
       subspace (percolate_b N (merge drv (nth i spaces []))) (nth i succ []) = true /\
       forced (override N drv) (nth i spaces []) (nth i succ [])) /\
  intersect (last spaces []) target <> None /\
  (forall M, min_trap N M -> subspace M (last spaces []) = true -> subspace M target = true).
