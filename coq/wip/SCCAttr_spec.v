(* SCCAttr.v -- SPEC (prove the theorems; the model is theories/SCC.v, do not edit it).
   C01 for the source-SCC strategy, the half that holds: although two expanded nodes can own the same attractor
   (SCCFacts.D15_refuted), NO attractor is lost -- with motif-avoidance checks off, from a fresh diagram, when the
   strategy reports completion every attractor of the network has an expanded owner (a node whose space contains it
   while none of its out-motifs does).  Exact per-node seeds therefore represent every attractor at least once. *)
From Coq Require Import List Bool Arith NArith Lia Permutation Relations.
Import ListNotations.
From BB Require Import BN Brute SpaceFacts TrapFacts PercolateFacts AttractorFacts Filter FilterFacts Diagram Invariants
  DiagramStruct DiagramSem1 DiagramComplete MinExpandFacts Termination Blocks BlocksFacts BlockMath OwnerFacts PartialOwner
  BlockComplete SCC SCCStruct SCCTerm SCCComplete.

Theorem expand_scc_AttrServed : forall fuel N cfg d' tape, 1 <= max_motifs cfg ->
  expand_scc fuel N cfg (init N) false tape = (d', RBool true) -> AttrServed N d'.

(* hence: seeds that are exact for every expanded node represent every attractor at least once *)
Theorem expand_scc_every_attractor_reported : forall fuel N cfg d' tape seeds, 1 <= max_motifs cfg ->
  expand_scc fuel N cfg (init N) false tape = (d', RBool true) -> exp_seeds_ok N d' seeds ->
  forall A, attractor N A -> exists i s, i < size d' /\ n_exp (get d' i) = true /\ In s (seeds i) /\ A s.
