(* PermFacts.v -- SPEC (prove the theorems; the definitions are in theories/Perm.v, do not edit it).
   C17, reordering clause: everything the library computes is equivariant under a permutation of the variable
   declarations -- dynamics, trap spaces, percolation, maximal / minimal trap spaces, attractors, and the whole
   fully expanded succession diagram (same node spaces and edges up to the permutation). *)
From Coq Require Import List Bool Arith NArith Lia Permutation Relations.
Import ListNotations.
From BB Require Import BN Brute SpaceFacts TrapFacts PercolateFacts AttractorFacts Diagram Invariants
  DiagramStruct DiagramSem1 DiagramComplete ObsFacts Meta MetaFacts Perm.

(* -- permutations -- *)
Theorem inv_perm_is_perm : forall n p, is_perm n p -> is_perm n (inv_perm p).
Theorem perm_list_length : forall (A : Type) (d : A) p l, length (perm_list d p l) = length p.
Theorem perm_inv_left : forall (A : Type) (d : A) n p l, is_perm n p -> length l = n ->
  perm_list d (inv_perm p) (perm_list d p l) = l.
Theorem perm_inv_right : forall (A : Type) (d : A) n p l, is_perm n p -> length l = n ->
  perm_list d p (perm_list d (inv_perm p) l) = l.
Theorem perm_net_nvars : forall n p N, is_perm n p -> nvars N = n -> nvars (perm_net p N) = n.
Theorem perm_upd : forall n p N i s, is_perm n p -> nvars N = n -> length s = n -> i < n ->
  upd (perm_net p N) i (perm_state p s) = upd N (nth i p 0) s.

(* -- dynamics -- *)
Theorem perm_trans : forall n p N s t, is_perm n p -> nvars N = n -> length s = n -> length t = n ->
  (trans N s t <-> trans (perm_net p N) (perm_state p s) (perm_state p t)).
Theorem perm_reach : forall n p N s t, is_perm n p -> nvars N = n -> length s = n -> length t = n ->
  (reach N s t <-> reach (perm_net p N) (perm_state p s) (perm_state p t)).
Theorem perm_attractor : forall n p N A, is_perm n p -> nvars N = n ->
  (attractor N A <-> attractor (perm_net p N) (perm_set p A)).

(* -- spaces -- *)
Theorem perm_in_space : forall n p s S, is_perm n p -> length s = n -> length S = n ->
  in_space (perm_state p s) (perm_space p S) = in_space s S.
Theorem perm_subspace : forall n p (X Y : space), is_perm n p -> length X = n -> length Y = n ->
  subspace (perm_space p X) (perm_space p Y) = subspace X Y.
Theorem perm_trap_space : forall n p N S, is_perm n p -> nvars N = n -> length S = n ->
  (trap_space N S <-> trap_space (perm_net p N) (perm_space p S)).
Theorem perm_percolate : forall n p N S, is_perm n p -> nvars N = n -> length S = n ->
  percolate_b (perm_net p N) (perm_space p S) = perm_space p (percolate_b N S).
Theorem perm_min_trap : forall n p N M, is_perm n p -> nvars N = n -> length M = n ->
  (min_trap N M <-> min_trap (perm_net p N) (perm_space p M)).
Theorem perm_max_trap_in : forall n p N S M, is_perm n p -> nvars N = n -> length S = n -> length M = n ->
  (max_trap_in N S M <-> max_trap_in (perm_net p N) (perm_space p S) (perm_space p M)).
Theorem perm_sources : forall n p N i, is_perm n p -> nvars N = n -> i < n ->
  (In i (sources_b (perm_net p N)) <-> In (nth i p 0) (sources_b N)).
Theorem perm_max_traps_b : forall n p N S srcs, is_perm n p -> nvars N = n -> length S = n ->
  (forall v, In v srcs -> v < n) ->
  Permutation (max_traps_b (perm_net p N) (perm_space p S) (map (fun j => index_of j p) srcs))
              (map (perm_space p) (max_traps_b N S srcs)).
Theorem perm_min_traps_b : forall n p N S, is_perm n p -> nvars N = n -> length S = n ->
  Permutation (min_traps_b (perm_net p N) (perm_space p S)) (map (perm_space p) (min_traps_b N S)).

(* -- the fully expanded diagram: isomorphic under the permutation -- *)
Theorem perm_hierarchy : forall n p N d d', is_perm n p -> nvars N = n ->
  Hierarchy N d -> Rooted d -> Hierarchy (perm_net p N) d' -> Rooted d' ->
  (forall X, length X = n -> (In X (spaces d) <-> In (perm_space p X) (spaces d'))) /\
  (forall X Y ms, edge_view d X Y ms -> edge_view d' (perm_space p X) (perm_space p Y) (map (perm_space p) ms)).
