(* ASeedsFacts.v -- SPEC (definitions are fixed; prove the theorems).
   Attractor-seed expansion (ASeeds.expand_aseeds): it only uses the plain primitives of the diagram, so all
   invariants of plain histories are preserved; it terminates; and, when every NFVS on the tape hits every
   negative cycle of the successor it was computed for (the contract of C08), a run reporting completion leaves
   no attractor and no minimal trap space unserved: pruned successors contain no attractor that is not already
   inside an expanded sibling. *)
From Coq Require Import List Bool Arith NArith Lia Permutation.
Import ListNotations.
From BB Require Import BN Brute SpaceFacts TrapFacts PercolateFacts AttractorFacts Filter FilterFacts Diagram Invariants
  DiagramStruct DiagramSem1 DiagramCache DiagramComplete DiagramDepth Termination MinExpandFacts
  Candidates CandidatesFacts Signed ReductionFacts Blocks BlocksFacts OwnerFacts PartialOwner ASeeds.

(* log twin: one entry (successor space, NFVS read from the tape) per evaluation of has_new_candidate *)
Fixpoint aseeds_inner_log (N : net) (d : sd) (node : nat) (seen : list nat) (succ : list nat)
         (tape : list (list nat)) : list (space * list nat) :=
  match succ with
  | [] => []
  | s :: r =>
      if mem_nat s seen then aseeds_inner_log N d node seen r tape
      else if n_exp (get d s) then []
      else (n_space (get d s), hd [] tape) ::
           (if has_new_candidate N d node s (hd [] tape) then [] else aseeds_inner_log N d node seen r (tl tape))
  end.

Fixpoint aseeds_loop_log (fuel : nat) (N : net) (cfg : config) (size_limit : option nat)
         (d : sd) (seen : list nat) (stack : list (nat * option (list nat))) (tape : list (list nat))
  : list (space * list nat) :=
  match fuel with
  | O => []
  | S f =>
      match stack with
      | [] => []
      | (x, osucc) :: stack' =>
          let step :=
            match osucc with
            | Some l => Some (d, RUnit, l)
            | None => if over_limit size_limit d && negb (n_exp (get d x)) then None
                      else let '(d1, r, succ) := node_successors N cfg d x in Some (d1, r, sort_nat succ)
            end in
          match step with
          | None => []
          | Some (d1, r, succ) =>
              match r with
              | RUnit =>
                  let here := aseeds_inner_log N d1 x seen succ tape in
                  let '(succ2, tape2) := aseeds_inner N d1 x seen succ tape in
                  match succ2 with
                  | [] => here ++ aseeds_loop_log f N cfg size_limit d1 seen stack' tape2
                  | s :: rest => here ++ aseeds_loop_log f N cfg size_limit d1 (s :: seen) ((s, None) :: (x, Some rest) :: stack') tape2
                  end
              | _ => []
              end
          end
      end
  end.

Definition expand_aseeds_log (fuel : nat) (N : net) (cfg : config) (d : sd) (size_limit : option nat)
           (min_tape : list space) (tape : list (list nat)) : list (space * list nat) :=
  let '(d0, r0) := expand_min fuel N cfg d None size_limit false min_tape in
  match r0 with
  | RRaised _ | RFuel => []
  | _ => aseeds_loop_log fuel N cfg size_limit d0 [0] [(0, None)] tape
  end.

(* contract of the tape (checked at run time by the extracted no_neg_walk_b) *)
Definition nfvs_log_ok (N : net) (lg : list (space * list nat)) : Prop :=
  forall sp nfvs, In (sp, nfvs) lg ->
    NoDup nfvs /\ (forall v, In v nfvs -> v < nvars N) /\ no_neg_walk N sp nfvs.

(* the invariants of plain histories *)
Definition PlainInv (N : net) (d : sd) : Prop :=
  SWF N d /\ TrapNodes N d /\ EdgeStrict d /\ NoStubEdges d /\ Rooted d /\ Faithful N d /\ NoSkips d /\
  n_space (get d 0) = percolate_b N (top_space (nvars N)).

(* ---- to prove ---- *)

(* PART 1: invariants, whatever the result (early stop, raised error, fuel) *)
Theorem expand_aseeds_transfer : forall N cfg (P : sd -> Prop),
  (forall d x, SWF N d -> P d -> x < size d -> P (fst (expand_one N cfg d x))) ->
  forall fuel d seen stack sz tape, SWF N d -> P d ->
    (forall x o, In (x, o) stack -> x < size d) ->
    P (fst (aseeds_loop fuel N cfg sz d seen stack tape)).
Theorem expand_aseeds_PlainInv : forall fuel N cfg d sz min_tape tape, 1 <= max_motifs cfg ->
  PlainInv N d -> PlainInv N (fst (expand_aseeds fuel N cfg d sz min_tape tape)).
Theorem expand_aseeds_extends : forall fuel N cfg d sz min_tape tape, SWF N d ->
  extends d (fst (expand_aseeds fuel N cfg d sz min_tape tape)).
Theorem expand_aseeds_CacheOK : forall fuel N cfg d sz min_tape tape, 1 <= max_motifs cfg ->
  SWF N d -> NoStubEdges d -> CacheOK d -> CacheOK (fst (expand_aseeds fuel N cfg d sz min_tape tape)).
Theorem expand_aseeds_LeafOK : forall fuel N cfg d sz min_tape tape, 1 <= max_motifs cfg ->
  PlainInv N d -> LeafOK N d -> LeafOK N (fst (expand_aseeds fuel N cfg d sz min_tape tape)).

(* PART 2: termination *)
Theorem expand_aseeds_terminates : forall fuel N cfg d sz min_tape tape, SWF N d ->
  2 * max_nodes N + 3 <= fuel -> snd (expand_aseeds fuel N cfg d sz min_tape tape) <> RFuel.

(* PART 3: a pruned successor hides nothing *)
Theorem heuristic_retained_total : forall N S nfvs avoid, NoDup nfvs ->
  retained_total nfvs (heuristic_retained N S nfvs avoid).
Theorem no_new_candidate_sound : forall N d node s nfvs A,
  SWF N d -> TrapNodes N d -> node < size d -> s < size d ->
  (forall m, In m (expanded_motifs d node) -> trap_space N m) ->
  NoDup nfvs -> (forall v, In v nfvs -> v < nvars N) -> no_neg_walk N (n_space (get d s)) nfvs ->
  has_new_candidate N d node s nfvs = false ->
  attractor N A -> inside A (n_space (get d s)) ->
  exists m, In m (expanded_motifs d node) /\ inside A m.

(* PART 4: completeness of a run that reports completion, from any diagram reached by plain operations *)
Theorem expand_aseeds_AttrServed : forall fuel N cfg d d' sz min_tape tape, 1 <= max_motifs cfg ->
  PlainInv N d ->
  expand_aseeds fuel N cfg d sz min_tape tape = (d', RBool true) ->
  nfvs_log_ok N (expand_aseeds_log fuel N cfg d sz min_tape tape) ->
  AttrServed N d'.
Theorem expand_aseeds_MinFound : forall fuel N cfg d d' sz min_tape tape, 1 <= max_motifs cfg ->
  PlainInv N d ->
  expand_aseeds fuel N cfg d sz min_tape tape = (d', RBool true) ->
  nfvs_log_ok N (expand_aseeds_log fuel N cfg d sz min_tape tape) ->
  MinFound N d'.
Theorem expand_aseeds_one_to_one : forall fuel N cfg d d' sz min_tape tape seeds, 1 <= max_motifs cfg ->
  PlainInv N d ->
  expand_aseeds fuel N cfg d sz min_tape tape = (d', RBool true) ->
  nfvs_log_ok N (expand_aseeds_log fuel N cfg d sz min_tape tape) ->
  exp_seeds_ok N d' seeds ->
  (forall A, attractor N A -> exists i s, i < size d' /\ n_exp (get d' i) = true /\ In s (seeds i) /\ A s) /\
  (forall A i j s t, attractor N A -> i < size d' -> j < size d' ->
     n_exp (get d' i) = true -> n_exp (get d' j) = true ->
     In s (seeds i) -> In t (seeds j) -> A s -> A t -> i = j /\ s = t).
