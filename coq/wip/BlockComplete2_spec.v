(* BlockComplete2.v -- SPEC (prove the theorems).
   After the repair of defect D18 block expansion continues below nodes that were expanded before the call, so its
   completeness no longer needs a fresh diagram: from ANY diagram reached by plain operations (PlainInv: in particular after
   an earlier, size-limited block expansion without source shortcuts, or after BFS / DFS / single expansions) a run
   reporting completion finds every minimal trap space, and with motif-avoidance checks on and an honest is_clean tape
   every attractor has an expanded owner.  This is also the resumption clause of C15 for block expansion. *)
From Coq Require Import List Bool Arith NArith Lia Permutation.
Import ListNotations.
From BB Require Import BN Brute SpaceFacts TrapFacts PercolateFacts AttractorFacts Filter FilterFacts Diagram Invariants
  DiagramStruct DiagramSem1 DiagramCache DiagramComplete DiagramDepth Termination MinExpandFacts Blocks BlocksFacts
  OwnerFacts PartialOwner BlockMath BlockComplete ASeedsFacts.

Theorem expand_block_MinFound_from : forall fuel N cfg d d' maa opt sz tape, 1 <= max_motifs cfg ->
  PlainInv N d ->
  expand_block fuel N cfg d maa opt sz tape = (d', RBool true) -> MinFound N d'.

Theorem expand_block_LeafOK_from : forall fuel N cfg d maa opt sz tape, 1 <= max_motifs cfg ->
  PlainInv N d -> LeafOK N d -> LeafOK N (fst (expand_block fuel N cfg d maa opt sz tape)).

Theorem expand_block_AttrServed_from : forall fuel N cfg d d' opt sz tape, 1 <= max_motifs cfg ->
  PlainInv N d ->
  expand_block fuel N cfg d true opt sz tape = (d', RBool true) ->
  clean_log_ok N (fst (expand_block_log fuel N cfg d true opt sz tape)) ->
  AttrServed N d'.

Theorem expand_block_one_to_one_from : forall fuel N cfg d d' opt sz tape seeds, 1 <= max_motifs cfg ->
  PlainInv N d ->
  expand_block fuel N cfg d true opt sz tape = (d', RBool true) ->
  clean_log_ok N (fst (expand_block_log fuel N cfg d true opt sz tape)) ->
  exp_seeds_ok N d' seeds ->
  (forall A, attractor N A -> exists i s, i < size d' /\ n_exp (get d' i) = true /\ In s (seeds i) /\ A s) /\
  (forall A i j s t, attractor N A -> i < size d' -> j < size d' ->
     n_exp (get d' i) = true -> n_exp (get d' j) = true ->
     In s (seeds i) -> In t (seeds j) -> A s -> A t -> i = j /\ s = t).
