(* SCCStruct.v -- SPEC (prove the theorems; the model is theories/SCC.v, do not edit it).
   Structural facts about the source-SCC strategy: what source_sccs returns, the component sub-network agrees with
   the network on the component, grafting a trap space of the sub-network onto a trap space of the network gives a
   trap space, the strategy only adds nodes (ids and spaces are stable), and every node it creates is a trap space
   of the network.  (The strategy does NOT keep the diagram faithful: see SCCFacts.D15_refuted.) *)
From Coq Require Import List Bool Arith NArith Lia Permutation.
Import ListNotations.
From BB Require Import BN Brute SpaceFacts TrapFacts PercolateFacts Diagram Invariants DiagramStruct DiagramSem1
  Blocks BlocksFacts BlockMath SCC.

(* -- source_sccs -- *)
Theorem source_sccs_spec : forall N S B, length S = nvars N -> In B (source_sccs N S) ->
  B <> [] /\ closed_in N S B /\ NoDup B /\
  (forall u v, In u B -> In v B -> In v (fwd_closure (nvars N) N S [u])).
Theorem source_sccs_disjoint : forall N S B1 B2 v, length S = nvars N ->
  In B1 (source_sccs N S) -> In B2 (source_sccs N S) -> In v B1 -> In v B2 -> B1 = B2.

(* -- the component sub-network -- *)
Theorem sub_net_nvars : forall N S B, nvars (sub_net N S B) = nvars N.
Theorem sub_net_upd_in : forall N S B v s, length S = nvars N -> v < nvars N -> In v B -> wf_state N s -> in_space s S = true ->
  upd (sub_net N S B) v s = upd N v s.
Theorem sub_net_upd_out : forall N S B v s, v < nvars N -> ~ In v B ->
  upd (sub_net N S B) v s = match nth v S None with Some b => b | None => false end.
(* the root of the sub-diagram fixes every variable outside the component *)
Theorem sub_net_root_fixes : forall N S B v, length S = nvars N -> v < nvars N -> ~ In v B ->
  nth v (n_space (get (init (sub_net N S B)) 0)) None <> None.

(* -- grafting -- *)
Theorem graft_length : forall B inner outer, length (graft B inner outer) = length outer.
Theorem graft_trap : forall N S B T A, trap_space N S -> closed_in N S B ->
  trap_space (sub_net N S B) T -> trap_space N A -> subspace A S = true ->
  (forall v, In v B -> nth v A None = None) ->
  trap_space N (graft B T A).

(* -- the strategy only adds nodes; spaces of existing nodes never change -- *)
Theorem expand_scc_grows : forall fuel N cfg d maa tape,
  size d <= size (fst (expand_scc fuel N cfg d maa tape)) /\
  forall i, i < size d -> n_space (get (fst (expand_scc fuel N cfg d maa tape)) i) = n_space (get d i).

(* -- every node is a trap space -- *)
Theorem expand_scc_TrapNodes : forall fuel N cfg d maa tape, 1 <= max_motifs cfg ->
  SWF N d -> TrapNodes N d -> TrapNodes N (fst (expand_scc fuel N cfg d maa tape)).
