(* BlockComplete.v -- SPEC (definitions are fixed; prove the theorems).
   Completeness of source-block expansion (Blocks.expand_block) started on a fresh diagram:
   every minimal trap space of the network becomes an expanded leaf, and -- when motif-avoidance checks are on
   and every "is_clean = True" answer on the tape meets its contract (BlockMath.block_clean) -- every attractor has
   an expanded owner and the nodes whose seeds were set to [] by the strategy own nothing. *)
From Coq Require Import List Bool Arith NArith Lia Permutation.
Import ListNotations.
From BB Require Import BN Brute SpaceFacts TrapFacts PercolateFacts AttractorFacts Filter FilterFacts Diagram Invariants
  DiagramStruct DiagramSem1 DiagramCache DiagramComplete DiagramDepth Termination MinExpandFacts Blocks BlocksFacts
  OwnerFacts PartialOwner BlockMath.

(* one log entry per examined block: node space, block variables, first motifs of the block's successors, answer *)
Definition clean_entry : Type := (space * list nat * list space * bool)%type.

Fixpoint first_clean_log (sp : space) (motif_of : nat -> space) (blocks : list (list nat * list nat))
         (tape : list bool) : list clean_entry :=
  match blocks with
  | [] => []
  | (b, ns) :: r => match tape with
                    | true :: _ => [(sp, b, map motif_of ns, true)]
                    | _ :: t => (sp, b, map motif_of ns, false) :: first_clean_log sp motif_of r t
                    | [] => (sp, b, map motif_of ns, false) :: first_clean_log sp motif_of r []
                    end
  end.

(* twin of Blocks.block_level that threads the diagram in exactly the same way and returns
   (log of examined blocks, nodes whose seeds/sets were set to []) *)
Fixpoint block_level_log (N : net) (cfg : config) (check_maa opt_src : bool) (size_limit : option nat)
         (d : sd) (cur : list nat) (next : list nat) (tape : list bool) (visited : list nat)
  : list clean_entry * list nat :=
  match cur with
  | [] => ([], [])
  | x :: cur' =>
      if n_exp (get d x) then
        (if mem_nat x visited then block_level_log N cfg check_maa opt_src size_limit d cur' next tape visited
         else block_level_log N cfg check_maa opt_src size_limit d cur' (union_nat next (successors d x)) tape (x :: visited))
      else
      let visited := x :: visited in
      if over_limit size_limit d then ([], []) else
      let sp := n_space (get d x) in
      let srcs := sources_in_b N sp in
      if negb (match srcs with [] => true | _ => false end) && opt_src then
        let expected := size d + Nat.pow 2 (length srcs) in
        if Nat.ltb (max_motifs cfg) expected then ([], [])
        else if match size_limit with Some k => Nat.ltb k expected | None => false end then ([], [])
        else
          let '(d1, kids) := ensure_children N d x (map (merge sp) (source_valuations (nvars N) srcs)) [] in
          let d2 := set_empty_seeds (clear_cands (upd_node d1 x (fun y => set_exp y true)) x) x in
          let '(lg, em) := block_level_log N cfg check_maa opt_src size_limit d2 cur' (union_nat next kids) tape visited in
          (lg, x :: em)
      else
        let '(d1, r, succ0) := node_successors N cfg d x in
        match r with
        | RUnit =>
            let succ := sort_nat succ0 in
            match succ with
            | [] => block_level_log N cfg check_maa opt_src size_limit d1 cur' next tape visited
            | [s] => if negb check_maa
                     then block_level_log N cfg check_maa opt_src size_limit d1 cur' (union_nat next [s]) tape visited
                     else
                       let blocks := sort_blocks (minimal_blocks (group_blocks N d1 x succ)) in
                       let here := first_clean_log sp (first_motif d1 x) blocks tape in
                       let '(clean, tape1) := first_clean blocks tape in
                       match clean with
                       | Some ns =>
                           let '(lg, em) := block_level_log N cfg check_maa opt_src size_limit (set_empty_seeds d1 x) cur' (union_nat next ns) tape1 visited in
                           (here ++ lg, x :: em)
                       | None =>
                           let '(lg, em) := block_level_log N cfg check_maa opt_src size_limit d1 cur' (union_nat next succ) tape1 visited in
                           (here ++ lg, em)
                       end
            | _ =>
                let blocks := sort_blocks (minimal_blocks (group_blocks N d1 x succ)) in
                if negb check_maa
                then block_level_log N cfg check_maa opt_src size_limit d1 cur'
                                 (union_nat next (match blocks with (_, ns) :: _ => ns | [] => [] end)) tape visited
                else
                  let here := first_clean_log sp (first_motif d1 x) blocks tape in
                  let '(clean, tape1) := first_clean blocks tape in
                  match clean with
                  | Some ns =>
                      let '(lg, em) := block_level_log N cfg check_maa opt_src size_limit (set_empty_seeds d1 x) cur' (union_nat next ns) tape1 visited in
                      (here ++ lg, x :: em)
                  | None =>
                      let '(lg, em) := block_level_log N cfg check_maa opt_src size_limit d1 cur' (union_nat next succ) tape1 visited in
                      (here ++ lg, em)
                  end
            end
        | _ => ([], [])
        end
  end.

Fixpoint block_loop_log (fuel : nat) (N : net) (cfg : config) (check_maa opt_src : bool) (size_limit : option nat)
         (d : sd) (cur : list nat) (tape : list bool) (visited : list nat) : list clean_entry * list nat :=
  match fuel with
  | O => ([], [])
  | S f =>
      match cur with
      | [] => ([], [])
      | _ =>
          let '(d1, r, next, tape1, visited1) := block_level N cfg check_maa opt_src size_limit d (sort_nat cur) [] tape visited in
          let '(lg, em) := block_level_log N cfg check_maa opt_src size_limit d (sort_nat cur) [] tape visited in
          match r with
          | RUnit => let '(lg2, em2) := block_loop_log f N cfg check_maa opt_src size_limit d1 next tape1 visited1 in
                     (lg ++ lg2, em ++ em2)
          | _ => (lg, em)
          end
      end
  end.

Definition expand_block_log (fuel : nat) (N : net) (cfg : config) (d : sd) (check_maa opt_src : bool)
           (size_limit : option nat) (tape : list bool) : list clean_entry * list nat :=
  block_loop_log fuel N cfg check_maa opt_src size_limit d [0] tape [].

(* the contract of the tape: every positive answer is justified *)
Definition clean_log_ok (N : net) (lg : list clean_entry) : Prop :=
  forall sp B motifs, In (sp, B, motifs, true) lg -> block_clean N sp B motifs.

(* ---- to prove ---- *)

(* invariants of the strategy (any start diagram satisfying the standard invariants) *)
Theorem expand_block_CanonOrFF : forall fuel N cfg d maa opt sz tape, 1 <= max_motifs cfg ->
  SWF N d -> TrapNodes N d -> NoStubEdges d -> CanonOrFF N d ->
  CanonOrFF N (fst (expand_block fuel N cfg d maa opt sz tape)).
Theorem expand_block_NoSkips : forall fuel N cfg d maa opt sz tape, SWF N d -> NoSkips d ->
  NoSkips (fst (expand_block fuel N cfg d maa opt sz tape)).

(* C03: no minimal trap space is missed (with LeafOK from BlocksFacts.expand_block_LeafOK: exactly) *)
Theorem expand_block_MinFound : forall fuel N cfg d' maa opt sz tape, 1 <= max_motifs cfg ->
  expand_block fuel N cfg (init N) maa opt sz tape = (d', RBool true) -> MinFound N d'.

(* C01: with motif-avoidance checks on and an honest tape, every attractor has an expanded owner ... *)
Theorem expand_block_AttrServed : forall fuel N cfg d' opt sz tape, 1 <= max_motifs cfg ->
  expand_block fuel N cfg (init N) true opt sz tape = (d', RBool true) ->
  clean_log_ok N (fst (expand_block_log fuel N cfg (init N) true opt sz tape)) ->
  AttrServed N d'.
(* ... and the nodes whose seeds the strategy set to [] own nothing in the final diagram *)
Theorem expand_block_emptied_sound : forall fuel N cfg d' opt sz tape x A, 1 <= max_motifs cfg ->
  expand_block fuel N cfg (init N) true opt sz tape = (d', RBool true) ->
  clean_log_ok N (fst (expand_block_log fuel N cfg (init N) true opt sz tape)) ->
  In x (snd (expand_block_log fuel N cfg (init N) true opt sz tape)) -> ~ owns N d' x A.
(* the global one-to-one statement for block expansion *)
Theorem expand_block_one_to_one : forall fuel N cfg d' opt sz tape seeds, 1 <= max_motifs cfg ->
  expand_block fuel N cfg (init N) true opt sz tape = (d', RBool true) ->
  clean_log_ok N (fst (expand_block_log fuel N cfg (init N) true opt sz tape)) ->
  exp_seeds_ok N d' seeds ->
  (forall A, attractor N A -> exists i s, i < size d' /\ n_exp (get d' i) = true /\ In s (seeds i) /\ A s) /\
  (forall A i j s t, attractor N A -> i < size d' -> j < size d' ->
     n_exp (get d' i) = true -> n_exp (get d' j) = true ->
     In s (seeds i) -> In t (seeds j) -> A s -> A t -> i = j /\ s = t).
