(* StrategyFacts.v -- SPEC (prove the theorems; definitions are in the model files, do not edit them).
   The three strategies that are not `op`s of Diagram.step -- block, attractor-seed and source-SCC expansion --
   satisfy the same metadata / transparency theorems as the ops:
   * C16: run on two observationally equal diagrams (e.g. one of them reclaimed), they produce the same result and
     observationally equal diagrams (so reclaim_node_data at any earlier point is invisible to them);
   * C20: after block and attractor-seed expansion every node's depth is still the length of the longest root path. *)
From Coq Require Import List Bool Arith NArith Lia Permutation.
Import ListNotations.
From BB Require Import BN Brute SpaceFacts TrapFacts PercolateFacts Diagram Invariants DiagramStruct DiagramSem1
  DiagramDepth DiagramCache Termination MinExpandFacts ObsFacts Blocks BlocksFacts ASeeds ASeedsFacts SCC SCCStruct.

(* -- C16 -- *)
Theorem expand_block_obs_eq : forall fuel N cfg d d' maa opt sz tape, obs_eq d d' ->
  rel2 (expand_block fuel N cfg d maa opt sz tape) (expand_block fuel N cfg d' maa opt sz tape).
Theorem expand_aseeds_obs_eq : forall fuel N cfg d d' sz min_tape tape, obs_eq d d' ->
  rel2 (expand_aseeds fuel N cfg d sz min_tape tape) (expand_aseeds fuel N cfg d' sz min_tape tape).
Theorem expand_scc_obs_eq : forall fuel N cfg d d' maa tape, obs_eq d d' ->
  rel2 (expand_scc fuel N cfg d maa tape) (expand_scc fuel N cfg d' maa tape).
(* in particular reclaiming first changes nothing observable *)
Theorem expand_block_after_reclaim : forall fuel N cfg d maa opt sz tape,
  rel2 (expand_block fuel N cfg d maa opt sz tape) (expand_block fuel N cfg (reclaim d) maa opt sz tape).
Theorem expand_aseeds_after_reclaim : forall fuel N cfg d sz min_tape tape,
  rel2 (expand_aseeds fuel N cfg d sz min_tape tape) (expand_aseeds fuel N cfg (reclaim d) sz min_tape tape).
Theorem expand_scc_after_reclaim : forall fuel N cfg d maa tape,
  rel2 (expand_scc fuel N cfg d maa tape) (expand_scc fuel N cfg (reclaim d) maa tape).

(* -- C20 -- *)
Theorem expand_block_DepthOK : forall fuel N cfg d maa opt sz tape, 1 <= max_motifs cfg ->
  DInv N d -> let d' := fst (expand_block fuel N cfg d maa opt sz tape) in DepthOK d' /\ EdgeDepth d'.
Theorem expand_aseeds_DepthOK : forall fuel N cfg d sz min_tape tape, 1 <= max_motifs cfg ->
  DInv N d -> let d' := fst (expand_aseeds fuel N cfg d sz min_tape tape) in DepthOK d' /\ EdgeDepth d'.
