(* SkipRuleFacts2.v -- SPEC (prove the theorems; definitions are in theories/SkipRule.v, do not edit it).
   The positive half of C05 on the model of the exclusion rule: attractors inside minimal trap spaces are never
   lost -- a leaf of the diagram (an expanded ordinary node without successors) has an empty avoid list, so the
   ideal engine reports every attractor inside it, whatever was computed before.  Hence on a diagram whose leaves
   are all the minimal trap spaces (what skip_remaining guarantees: MinExpandFacts.skip_remaining_exact) a network
   WITHOUT motif-avoidant attractors loses nothing; the loss of C05_refuted needs a motif-avoidant attractor. *)
From Coq Require Import List Bool Arith NArith Lia.
Import ListNotations.
From BB Require Import BN Brute SpaceFacts AttractorFacts FilterFacts Diagram Invariants MinExpandFacts SkipRule SkipRuleFacts.

(* after querying node i its cache entry is the engine's answer at that moment, and it is never overwritten *)
Theorem query_order_keeps : forall attrs d order c i l, nth i c None = Some l ->
  nth i (query_order attrs d c order) None = Some l.
Theorem query_order_length : forall attrs d order c, length (query_order attrs d c order) = length c.
Theorem query_order_answers : forall attrs d order c i, In i order -> i < length c ->
  exists c', nth i (query_order attrs d c order) None = Some (ideal_seeds attrs d c' i) \/
             (exists l, nth i c None = Some l /\ nth i (query_order attrs d c order) None = Some l).

(* a leaf reports every attractor inside its space *)
Theorem leaf_attractors_represented : forall N d i L, i < size d ->
  is_minimal d i = true -> n_skip (get d i) = false ->
  In L (attractors_b N) -> L <> [] -> inside_b L (n_space (get d i)) = true ->
  represented (seeds_everywhere N d) L = true.

(* no motif-avoidant attractor => nothing is lost *)
Theorem no_maa_nothing_lost : forall N d,
  MinFound N d -> (forall i, i < size d -> is_minimal d i = true -> n_skip (get d i) = false) ->
  (forall L, In L (attractors_b N) -> L <> [] /\ exists M, min_trap N M /\ inside_b L M = true) ->
  lost (attractors_b N) (seeds_everywhere N d) = [].
