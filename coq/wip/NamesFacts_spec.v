(* NamesFacts.v -- SPEC (prove the theorems; definitions are in theories/Names.v, do not edit it).
   sanitize_network_names is total, produces solver-safe pairwise distinct names, keeps valid names and the
   order of the variables (so the dynamics, which is indexed by position, is untouched); the clash loop needs at
   most one more round than there are variables; place names round-trip.  The test used before fix D16
   (`$` instead of fullmatch) let a name ending in a newline through. *)
From Coq Require Import List Bool Arith NArith Lia.
Import ListNotations.
From BB Require Import BN Names.

Theorem eqb_name_spec : forall a b, eqb_name a b = true <-> a = b.
Theorem subst_name_valid : forall s, s <> [] -> valid_name (subst_name s) = true.
Theorem subst_name_id : forall s, valid_name s = true -> subst_name s = s.
(* the clash loop: S (length cur) rounds always suffice, the result is new, and it is the candidate with the
   fewest underscores in front *)
Theorem fresh_total : forall cur nm, exists k,
  fresh (S (length cur)) cur nm = Some (repeat 95%N k ++ nm) /\ k <= length cur /\
  ~ In (repeat 95%N k ++ nm) cur /\ (forall j, j < k -> In (repeat 95%N j ++ nm) cur).
Theorem sanitize_total : forall names, exists out, sanitize names = Some out.
Theorem sanitize_length : forall names out, sanitize names = Some out -> length out = length names.
Theorem sanitize_valid : forall names out, sanitize names = Some out ->
  forall s, In s out -> valid_name s = true.
Theorem sanitize_distinct : forall names out, NoDup names -> sanitize names = Some out -> NoDup out.
Theorem sanitize_keeps_valid : forall names out i, sanitize names = Some out -> i < length names ->
  valid_name (nth i names []) = true -> nth i out [] = nth i names [].
Theorem sanitize_renamed_shape : forall names out i, sanitize names = Some out -> i < length names ->
  valid_name (nth i names []) = false ->
  exists k, nth i out [] = repeat 95%N k ++ subst_name (nth i names []).
Theorem sanitize_idempotent : forall names out, sanitize names = Some out -> sanitize out = Some out.
Theorem check_only_spec : forall names, check_only_ok names = true <-> sanitize names = Some names /\ (forall s, In s names -> valid_name s = true).
(* place names *)
Theorem place_round_trip : forall v b, place_to_variable (place_name v b) = Some (v, b).
Theorem place_name_inj : forall v b w c, place_name v b = place_name w c -> v = w /\ b = c.
Theorem place_name_valid : forall v b, valid_name v = true -> valid_name (place_name v b) = true.
(* D16: with the `$` test a name ending in a newline is accepted unchanged although it is not solver-safe *)
Theorem dollar_test_unsafe : exists names out s,
  NoDup names /\ sanitize_with valid_name_dollar names = Some out /\ In s out /\ valid_name s = false.
