(* PySrcSuccCtlFacts.v -- SPEC (prove the theorems).
   succession_control AS WRITTEN IN THE SOURCE (PySrcSuccCtl.v: its straight-line body pinned to a reference text, calling the GENERATED
   successions_to_target of PySrcSucc.v and the GENERATED drivers_of_succession of PySrcControl.v) is the model's Control.succession_control_ff on the
   diagram left by expand_to_target, filtered by successful_only -- and therefore sound after ANY history (C06 for the source text). *)
From Coq Require Import List Bool Arith Lia.
Import ListNotations.
From BB Require Import BN Brute SpaceFacts TrapFacts PercolateFacts Diagram Invariants DiagramStruct DiagramSem1 Blocks Control ControlFacts ControlFacts2
  ControlFacts3 ControlFacts4 ControlFacts5 SkipSem ControlFacts6
  PyLib PyLibSd PyLibCore PyLibSd2 PyLibControl PySrcControl PySrcControlFacts PyLibSucc PySrcSdBase PySrcSdTarget PySrcSdTargetFacts PySrcSucc PySrcSuccFacts PySrcSuccCtl.

Definition forb_list (forb : option (list nat)) : list nat := match forb with Some l => l | None => [] end.

Theorem py_succession_control_spec : forall fuel N cfg d target strat maxd forb so ff, succ_inv N d -> length target = nvars N -> 0 < count_fixed target ->
  let '(d1, r) := expand_to_target fuel N cfg d target None in
  py_succession_control fuel N cfg d target strat maxd forb so ff =
  match r with
  | RRaised _ | RFuel => SRaise d1 r
  | _ => SRet d1 (filter (fun iv => negb so || snd iv) (succession_control_ff N d1 target strat maxd (forb_list forb) ff))
  end.

(* C06 for the source text: whatever happened to the diagram before (any history of operations of the model's API, which is tied to the code operation by
   operation), every intervention that the generated succession_control reports as successful is sound *)
Theorem py_succession_control_after_any_history_sound : forall fuel N cfg h d r target d' l strat maxd forb so ff succ ctl,
  1 <= max_motifs cfg -> length target = nvars N -> 0 < count_fixed target ->
  In (d, r) (run fuel N cfg (init N) h) ->
  py_succession_control fuel N cfg d target strat maxd forb so ff = SRet d' l ->
  In (succ, ctl, true) l ->
  let spaces := chain N succ (top_space (nvars N)) in
  length ctl = length succ /\
  (forall i, i < length succ ->
     forall drv, In drv (nth i ctl []) ->
       subspace (percolate_b N (merge drv (nth i spaces []))) (nth i succ []) = true /\
       forced (override N drv) (nth i spaces []) (nth i succ [])) /\
  intersect (last spaces []) target <> None /\
  (forall M, min_trap N M -> subspace M (last spaces []) = true -> subspace M target = true).
