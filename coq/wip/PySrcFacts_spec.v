(* PySrcFacts.v -- SPEC (definitions are fixed; prove the theorems).
   The translator tie: the functions that tools/py2coq.py generates from the CURRENT Python sources
   (theories/PySrc.v, regenerated on every run) equal the functions of the hand-written model, through the
   abstraction of a Python dict {variable: 0|1} as a model space.  If one of the Python functions changes, PySrc.v
   changes and these proofs are re-checked against the new text. *)
From Coq Require Import List Bool Arith NArith Lia.
Import ListNotations.
From BB Require Import BN SpaceFacts Names PyLib PySrc.

(* a dict over the variables 0..n-1: unique keys, all < n *)
Definition wf_dict (n : nat) (d : pdict) : Prop :=
  NoDup (map fst d) /\ forall k, In k (map fst d) -> k < n.
(* the space it denotes *)
Definition to_space (n : nat) (d : pdict) : space := map (fun i => d_get d i) (seq 0 n).

(* ---- to prove ---- *)
Theorem to_space_length : forall n d, length (to_space n d) = n.
Theorem to_space_nth : forall n d i, i < n -> nth i (to_space n d) None = d_get d i.

(* space_utils.is_subspace *)
Theorem py_is_subspace_spec : forall n x y, wf_dict n x -> wf_dict n y ->
  py_is_subspace x y = Some (subspace (to_space n x) (to_space n y)).

(* space_utils.intersect *)
Theorem py_intersect_spec : forall n x y, wf_dict n x -> wf_dict n y ->
  match py_intersect x y with
  | Some (Some r) => wf_dict n r /\ intersect (to_space n x) (to_space n y) = Some (to_space n r)
  | Some None => intersect (to_space n x) (to_space n y) = None
  | None => False
  end.

(* space_utils.space_unique_key: the key of the model, IndexError exactly for unknown variables *)
Theorem py_space_unique_key_spec : forall n d, wf_dict n d ->
  py_space_unique_key d n = Some (space_key (to_space n d)).
Theorem py_space_unique_key_raises : forall n d, (exists k, In k (map fst d) /\ n <= k) ->
  py_space_unique_key d n = None.

(* petri_net_translation.variable_to_place / place_to_variable *)
Theorem py_variable_to_place_spec : forall v b, py_variable_to_place v b = Some (place_name v b).
Theorem py_place_to_variable_spec : forall p, py_place_to_variable p = place_to_variable p.
