(* SkipSem.v -- SPEC (definitions are fixed; prove the theorems).
   What a skip node IS, as an invariant of every history (skip operations included): it is expanded, each of its
   out-edges leads to a minimal trap space and carries exactly that space as its only motif, and EVERY minimal trap space
   inside the skip node is one of its successors.  Together with Faithful (ordinary expanded nodes are canonical) this
   describes every expanded node of every reachable diagram, which is what the control theorems need on "skipped" diagrams. *)
From Coq Require Import List Bool Arith NArith Lia Permutation.
Import ListNotations.
From BB Require Import BN Brute SpaceFacts TrapFacts PercolateFacts Diagram Invariants DiagramStruct DiagramSem1
  DiagramCache DiagramComplete MinExpandFacts.

Definition SkipSem (N : net) (d : sd) : Prop :=
  forall i, i < size d -> n_skip (get d i) = true ->
    n_exp (get d i) = true /\
    (forall e, In e (out_edges d i) ->
       e_motifs e = [n_space (get d (e_dst e))] /\ min_trap N (n_space (get d (e_dst e)))) /\
    (forall M, min_trap N M -> subspace M (n_space (get d i)) = true ->
       exists c, In c (successors d i) /\ n_space (get d c) = M).

(* the invariants of arbitrary histories (skip operations allowed): PlainInv without NoSkips, plus SkipSem *)
Definition AnyInv (N : net) (d : sd) : Prop :=
  SWF N d /\ TrapNodes N d /\ EdgeStrict d /\ NoStubEdges d /\ Faithful N d /\ SkipSem N d /\
  n_space (get d 0) = percolate_b N (top_space (nvars N)).

(* ---- to prove ---- *)
Theorem init_AnyInv : forall N, AnyInv N (init N).

Theorem step_SkipSem : forall fuel N cfg d o, 1 <= max_motifs cfg ->
  AnyInv N d -> SkipSem N (fst (step fuel N cfg d o)).

Theorem step_AnyInv : forall fuel N cfg d o, 1 <= max_motifs cfg ->
  AnyInv N d -> AnyInv N (fst (step fuel N cfg d o)).

Theorem run_AnyInv : forall fuel N cfg h d r, 1 <= max_motifs cfg ->
  In (d, r) (run fuel N cfg (init N) h) -> AnyInv N d.

(* consequences used by the control theorems: below an expanded node every minimal trap space is the node itself or
   lies in a successor, whether the node is ordinary or a skip node *)
Theorem expanded_min_descends : forall N d i M, AnyInv N d -> i < size d -> n_exp (get d i) = true ->
  min_trap N M -> subspace M (n_space (get d i)) = true ->
  n_space (get d i) = M \/ exists c, In c (successors d i) /\ subspace M (n_space (get d c)) = true.
