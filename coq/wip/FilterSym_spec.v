(* FilterSym.v -- SPEC (definitions are fixed; prove the theorems).
   compute_attractors_symbolic with the REAL reachability procedure: the candidate filter of Filter.v where the
   contract-level attractor_test is replaced by the model of symbolic_attractor_test (SymbolicTest.symbolic_test,
   interleaved forward / backward saturation, with its heuristic tapes).  For every tape and enough fuel it returns
   the same seeds, in the same order, and the same sets (as sets of states) as Filter.compute_attractors_filter,
   so filter_exact applies to it: the composition C01 / C12 rely on. *)
From Coq Require Import List Bool Arith NArith Lia.
Import ListNotations.
From BB Require Import BN Brute SpaceFacts TrapFacts AttractorFacts Filter FilterFacts SymbolicTest SymbolicTestFacts.

(* the explicit avoid set handed to symbolic_attractor_test: states of the child motifs and the explicit states *)
Definition avoid_states (a : avoid_set) : list state :=
  dedup (flat_map states_of (av_spaces a) ++ av_states a).

(* one tape entry per tested candidate: (outcomes of the "avoid is larger" comparison, variable orders) *)
Definition sym_tape : Type := list (list bool * list (list nat)).

Fixpoint filter_loop_sym (fuel : nat) (N : net) (S : space) (seeds_only minimal : bool) (a : avoid_set)
         (cands : list state) (seeds : list state) (sets : list (list state)) (tapes : sym_tape)
  : option (list state * option (list (list state))) :=
  match cands with
  | [] => Some (rev seeds, Some (rev sets))
  | c :: rest =>
      if seeds_only && minimal && (match rest with [] => true | _ => false end)
         && (match seeds with [] => true | _ => false end)
      then Some ([c], None)
      else
        let a1 := {| av_spaces := av_spaces a; av_states := remove_state c (av_states a) |} in
        let tp := hd ([], []) tapes in
        match symbolic_test fuel N S c (avoid_states a1) (fst tp) (snd tp) with
        | TNone => filter_loop_sym fuel N S seeds_only minimal a1 rest seeds sets (tl tapes)
        | TSome cl =>
            filter_loop_sym fuel N S seeds_only minimal
                            {| av_spaces := av_spaces a1; av_states := cl ++ av_states a1 |}
                            rest (c :: seeds) (cl :: sets) (tl tapes)
        | TFuel => None
        end
  end.

Definition compute_attractors_sym (fuel : nat) (N : net) (S : space) (seeds_only : bool) (motifs : list space)
           (cands : list state) (tapes : sym_tape) : option (list state * option (list (list state))) :=
  filter_loop_sym fuel N S seeds_only (match motifs with [] => true | _ => false end)
                  {| av_spaces := motifs; av_states := cands |} cands [] [] tapes.

Definition same_members (X Y : list state) : Prop := forall t, In t X <-> In t Y.
Definition same_sets (a b : option (list (list state))) : Prop :=
  match a, b with
  | None, None => True
  | Some l, Some l' => Forall2 same_members l l'
  | _, _ => False
  end.

(* ---- to prove ---- *)

(* hypotheses: the node space is a trap space, the child motifs are subspaces of it (of the right length), the
   candidates lie in the node space and outside every child motif (as the pipeline guarantees) *)
Theorem compute_attractors_sym_total : forall fuel N S seeds_only motifs cands tapes,
  trap_space N S -> (forall M, In M motifs -> length M = nvars N /\ subspace M S = true) ->
  (forall c, In c cands -> in_space c S = true) -> NoDup cands ->
  symbolic_test_fuel S <= fuel ->
  compute_attractors_sym fuel N S seeds_only motifs cands tapes <> None.

Theorem compute_attractors_sym_agrees : forall fuel N S seeds_only motifs cands tapes seeds sets,
  trap_space N S -> (forall M, In M motifs -> length M = nvars N /\ subspace M S = true) ->
  (forall c, In c cands -> in_space c S = true) ->
  compute_attractors_sym fuel N S seeds_only motifs cands tapes = Some (seeds, sets) ->
  seeds = fst (compute_attractors_filter N seeds_only motifs cands) /\
  same_sets sets (snd (compute_attractors_filter N seeds_only motifs cands)).

(* hence the exactness theorem of the filter holds for the real reachability procedure, for every tape *)
Theorem compute_attractors_sym_exact : forall fuel N S motifs cands tapes seeds sets,
  trap_space N S -> (forall M, In M motifs -> trap_space N M /\ subspace M S = true) ->
  NoDup cands -> (forall c, In c cands -> in_space c S = true) -> covers N S motifs cands ->
  compute_attractors_sym fuel N S false motifs cands tapes = Some (seeds, Some sets) ->
  one_to_one N S motifs seeds /\ length sets = length seeds /\
  (forall i s X, nth_error seeds i = Some s -> nth_error sets i = Some X -> forall t, In t X <-> reach N s t).
