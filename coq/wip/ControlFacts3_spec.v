(* ControlFacts3.v -- SPEC (definitions are fixed; prove the theorems).
   C06 end to end: every intervention that succession control reports as successful is a chain of nested trap
   spaces starting from the whole state space; every listed override of a step has the step's motif in its
   logical domain of influence and forces every attractor of the overridden network that is reachable from the
   previous trap space to have the motif's values; the final trap space is consistent with the target and every
   minimal trap space inside it lies inside the target. *)
From Coq Require Import List Bool Arith NArith Lia Permutation.
Import ListNotations.
From BB Require Import BN Brute SpaceFacts TrapFacts PercolateFacts AttractorFacts Diagram Invariants DiagramStruct
  DiagramSem1 DiagramComplete MinExpandFacts Control ControlFacts ControlFacts2 ASeedsFacts.

(* the trap spaces a_0 = whole space, a_(i+1) = a_i merged with the percolation of (step motif + a_i) *)
Fixpoint chain (N : net) (succ : list space) (a : space) : list space :=
  match succ with
  | [] => [a]
  | ts :: r => a :: chain N r (merge a (percolate_b N (merge ts a)))
  end.

(* what expand_to_target guarantees (ControlFacts2.target_expansion_post): every node that meets the target and
   is not strictly inside it is expanded *)
Definition TargetExpanded (target : space) (d : sd) : Prop :=
  forall i, i < size d -> tcond (n_space (get d i)) target = true -> n_exp (get d i) = true.

(* ---- to prove ---- *)

Theorem chain_length : forall N succ a, length (chain N succ a) = S (length succ).

(* the diagram produced by the target-directed expansion of a fresh diagram *)
Theorem target_expansion_TargetExpanded : forall fuel N cfg target d', 1 <= max_motifs cfg ->
  length target = nvars N ->
  expand_to_target fuel N cfg (init N) target None = (d', RBool true) ->
  PlainInv N d' /\ TargetExpanded target d'.

(* along a root path the chain is the sequence of node spaces *)
Theorem chain_follows_path : forall N d s es succ, PlainInv N d -> epath d 0 s es -> choice d es succ -> es <> [] ->
  last (chain N succ (top_space (nvars N))) [] = n_space (get d s).

(* C06 *)
Theorem succession_control_sound : forall N d target all_strategy maxd forbidden succ ctl,
  PlainInv N d -> length target = nvars N -> TargetExpanded target d ->
  In (succ, ctl, true) (succession_control N d target all_strategy maxd forbidden) ->
  let spaces := chain N succ (top_space (nvars N)) in
  length ctl = length succ /\
  (forall i, i < length succ ->
     trap_space N (nth i spaces []) /\ trap_space N (nth (S i) spaces []) /\
     subspace (nth (S i) spaces []) (nth i spaces []) = true /\
     nth i ctl [] <> [] /\
     forall drv, In drv (nth i ctl []) ->
       subspace (percolate_b N (merge drv (nth i spaces []))) (nth i succ []) = true /\
       forced (override N drv) (nth i spaces []) (nth i succ [])) /\
  intersect (last spaces []) target <> None /\
  (forall M, min_trap N M -> subspace M (last spaces []) = true -> subspace M target = true).
