(* PySrcPlaceFacts.v -- translator tie for petri_net_translation.variable_to_place / place_to_variable (theories/PySrcPlace.v, generated). *)
From Coq Require Import List Bool Arith NArith Lia.
Import ListNotations.
From BB Require Import BN SpaceFacts Names PyLib PySrcBase PySrcPlace.


(* ------------------------------------------------------------------ *)
(* petri_net_translation.variable_to_place / place_to_variable         *)
(* ------------------------------------------------------------------ *)

Theorem py_variable_to_place_spec : forall v b, py_variable_to_place v b = Some (place_name v b).
Proof. intros v [|]; reflexivity. Qed.

Theorem py_place_to_variable_spec : forall p, py_place_to_variable p = place_to_variable p.
Proof.
  intros p. unfold py_place_to_variable.
  destruct p as [|a [|b [|c p]]].
  - reflexivity.
  - simpl. rewrite !andb_false_r.
    destruct a as [|q]; [reflexivity|].
    do 7 (try destruct q as [q|q|]; try reflexivity).
  - simpl. rewrite !andb_false_r. simpl.
    destruct a as [|q]; [reflexivity|].
    do 7 (try destruct q as [q|q|]; try reflexivity);
    destruct b as [|q]; try reflexivity;
    do 6 (try destruct q as [q|q|]; try reflexivity).
  - destruct (N.eqb_spec 98 a) as [<-|Ha].
    + destruct (N.eqb_spec 49 b) as [<-|Hb].
      * destruct (N.eqb_spec 95 c) as [<-|Hc]; [reflexivity|].
        simpl. replace (N.eqb 95 c) with false by (symmetry; apply N.eqb_neq; exact Hc).
        simpl.
        destruct c as [|q]; [reflexivity|].
        do 7 (try destruct q as [q|q|]; try reflexivity); try congruence.
      * destruct (N.eqb_spec 48 b) as [<-|Hb'].
        -- destruct (N.eqb_spec 95 c) as [<-|Hc]; [reflexivity|].
           simpl. replace (N.eqb 95 c) with false by (symmetry; apply N.eqb_neq; exact Hc).
           simpl.
           destruct c as [|q]; [reflexivity|].
           do 7 (try destruct q as [q|q|]; try reflexivity); try congruence.
        -- simpl. replace (N.eqb 49 b) with false by (symmetry; apply N.eqb_neq; exact Hb).
           replace (N.eqb 48 b) with false by (symmetry; apply N.eqb_neq; exact Hb').
           simpl.
           destruct b as [|q]; [reflexivity|].
           do 6 (try destruct q as [q|q|]; try reflexivity); try congruence.
    + simpl. replace (N.eqb 98 a) with false by (symmetry; apply N.eqb_neq; exact Ha).
      simpl.
      destruct a as [|q]; [reflexivity|].
      do 7 (try destruct q as [q|q|]; try reflexivity); try congruence.
Qed.

Print Assumptions py_variable_to_place_spec.
Print Assumptions py_place_to_variable_spec.

