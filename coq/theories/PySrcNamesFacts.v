(* PySrcNamesFacts.v -- translator tie for sanitize_network_names (C17): the function generated from the current text
   (PySrcNames.v: skeleton checked statement by statement, validity test and substitution read from the regular expressions) computes the model's
   Names.sanitize, and under check_only it raises exactly when some name is invalid.  With the theorems of NamesFacts.v (sanitize_total, sanitize_valid,
   sanitize_nodup, ...) these are statements about the text. *)
From Coq Require Import List Bool Arith NArith Lia.
Import ListNotations.
From BB Require Import BN Names NamesFacts PySrcNames.

Lemma fresh_mono : forall f cur nm x, fresh f cur nm = Some x -> forall f', f <= f' -> fresh f' cur nm = Some x.
Proof.
  induction f as [|f IH]; intros cur nm x H f' Hle; [discriminate H|].
  destruct f' as [|f']; [lia|]. cbn [fresh] in *.
  destruct (existsb (eqb_name nm) cur); [|exact H]. apply (IH _ _ _ H). lia.
Qed.

Lemma py_rename_loop_fresh : forall f cur var nm,
  py_rename_loop f cur var nm = option_map (fun x => set_nth var x cur) (fresh f cur nm).
Proof.
  induction f as [|f IH]; intros cur var nm; [reflexivity|]. cbn [py_rename_loop fresh].
  destruct (existsb (eqb_name nm) cur); [apply IH|reflexivity].
Qed.

Lemma py_sanitize_loop_spec : forall k i cur fuel out, S (length cur) <= fuel ->
  sanitize_from valid_name k i cur = Some out -> py_sanitize_loop fuel (seq i k) cur false = NRet out.
Proof.
  induction k as [|k IH]; intros i cur fuel out Hf H; cbn [seq py_sanitize_loop sanitize_from] in *.
  - injection H as <-. reflexivity.
  - destruct (sanitize_one valid_name cur i) as [cur'|] eqn:E1; [|discriminate H].
    pose proof (NF_one_length valid_name cur i cur' E1) as Hlen.
    unfold sanitize_one in E1. destruct (valid_name (nth i cur [])) eqn:Ev; cbn [negb].
    + injection E1 as <-. apply IH; assumption.
    + destruct (fresh (S (length cur)) cur (subst_name (nth i cur []))) as [nm'|] eqn:Ef; [|discriminate E1].
      injection E1 as <-. rewrite py_rename_loop_fresh, (fresh_mono _ _ _ _ Ef fuel Hf). cbn [option_map].
      apply IH; [rewrite Hlen; exact Hf|exact H].
Qed.

(* check_only=False: the generated function returns what the model's sanitize returns *)
Theorem py_sanitize_spec : forall fuel names, S (length names) <= fuel ->
  exists out, sanitize names = Some out /\ py_sanitize_network_names fuel names false = NRet out.
Proof.
  intros fuel names Hf. destruct (sanitize_total names) as [out Hout]. exists out. split; [exact Hout|].
  unfold py_sanitize_network_names. apply py_sanitize_loop_spec; [exact Hf|exact Hout].
Qed.

(* check_only=True: RuntimeError exactly when some name is invalid; otherwise the names are returned unchanged *)
Lemma py_sanitize_loop_check : forall k i cur fuel, i + k <= length cur ->
  py_sanitize_loop fuel (seq i k) cur true = if forallb valid_name (firstn k (skipn i cur)) then NRet cur else NRaise.
Proof.
  induction k as [|k IH]; intros i cur fuel Hle; cbn [seq py_sanitize_loop].
  - reflexivity.
  - assert (Hsk : skipn i cur = nth i cur [] :: skipn (S i) cur).
    { clear IH. revert i Hle. induction cur as [|x r IHc]; intros i Hle; cbn [length] in Hle; [lia|].
      destruct i as [|i]; [reflexivity|]. cbn [skipn nth]. apply IHc. lia. }
    rewrite Hsk. cbn [firstn forallb]. destruct (valid_name (nth i cur [])); cbn [negb andb]; [|reflexivity].
    apply IH. lia.
Qed.

Theorem py_sanitize_check_only_spec : forall fuel names,
  py_sanitize_network_names fuel names true = if check_only_ok names then NRet names else NRaise.
Proof.
  intros fuel names. unfold py_sanitize_network_names, check_only_ok.
  rewrite (py_sanitize_loop_check (length names) 0 names fuel (le_n _)). cbn [skipn]. rewrite firstn_all. reflexivity.
Qed.

Print Assumptions py_sanitize_spec.
Print Assumptions py_sanitize_check_only_spec.
