(* SymbolicTestFacts.v -- correctness of the model of symbolic_attractor_test (SymbolicTest.v):
   for every tape of heuristic outcomes, every tape of variable orders and every fuel, an
   answer TSome R is exactly the set of states reachable from the pivot and misses avoid, an
   answer TNone proves that a state of avoid is reachable; the procedure meets the contract
   attractor_test used by the filtering theorem; with the progress fix (the force flag) the
   fuel symbolic_test_fuel always suffices; without the flag the procedure can stall (D6). *)
From Coq Require Import List Bool Arith Lia Relations Permutation.
Import ListNotations.
From BB Require Import BN Brute SpaceFacts TrapFacts AttractorFacts Filter SymbolicTest.

(* ------------------------------------------------------------------ *)
(* List helpers                                                        *)
(* ------------------------------------------------------------------ *)

Lemma ST_dedup_cons : forall a l,
  dedup (a :: l) = if mem_state a (dedup l) then dedup l else a :: dedup l.
Proof. intros a l. reflexivity. Qed.

Lemma ST_dedup_In : forall l x, In x (dedup l) <-> In x l.
Proof.
  induction l as [|a l IH]; intros x.
  - simpl. tauto.
  - rewrite ST_dedup_cons. destruct (mem_state a (dedup l)) eqn:E.
    + rewrite IH. split; [intros H; right; exact H|].
      intros [H|H]; [|exact H]. subst x. apply mem_state_spec in E. apply IH. exact E.
    + simpl. rewrite IH. tauto.
Qed.

Lemma ST_dedup_NoDup : forall l, NoDup (dedup l).
Proof.
  induction l as [|a l IH].
  - constructor.
  - rewrite ST_dedup_cons. destruct (mem_state a (dedup l)) eqn:E; [exact IH|].
    constructor; [|exact IH]. apply A_mem_state_false. exact E.
Qed.

Lemma ST_filter_length_le : forall (A : Type) (f : A -> bool) l, length (filter f l) <= length l.
Proof.
  intros A f l. induction l as [|a l IH]; simpl; [apply le_n|].
  destruct (f a); simpl; lia.
Qed.

Lemma ST_filter_length_lt : forall (A : Type) (f : A -> bool) l x,
  In x l -> f x = false -> length (filter f l) < length l.
Proof.
  intros A f l x. induction l as [|a l IH]; intros Hin Hf; [destruct Hin|].
  simpl. destruct Hin as [Hin|Hin].
  - subst a. rewrite Hf. pose proof (ST_filter_length_le A f l) as Hle. lia.
  - specialize (IH Hin Hf). destruct (f a); simpl; lia.
Qed.

Lemma ST_app_nonempty_length : forall (A : Type) (l m : list A), m <> [] -> length l < length (l ++ m).
Proof.
  intros A l m Hm. rewrite app_length. destruct m as [|x m]; [contradiction|]. simpl. lia.
Qed.

(* ------------------------------------------------------------------ *)
(* The one-variable image operators                                    *)
(* ------------------------------------------------------------------ *)

Lemma var_post_out_spec : forall N v X t,
  In t (var_post_out N v X) <-> (exists s, In s X /\ t = step_i N v s /\ t <> s) /\ ~ In t X.
Proof.
  intros N v X t. unfold var_post_out. rewrite ST_dedup_In, filter_In, in_flat_map. split.
  - intros [[s [Hs Hin]] Hm]. apply negb_true_iff in Hm. apply A_mem_state_false in Hm.
    split; [|exact Hm]. exists s. split; [exact Hs|].
    cbv zeta in Hin. destruct (eqb_state (step_i N v s) s) eqn:E; [destruct Hin|].
    destruct Hin as [Hin|[]]. subst t. split; [reflexivity|]. apply A_eqb_state_false. exact E.
  - intros [[s [Hs [Ht Hne]]] Hn]. split.
    + exists s. split; [exact Hs|]. cbv zeta. subst t. apply A_eqb_state_false in Hne.
      rewrite Hne. left. reflexivity.
    + apply negb_true_iff. apply A_mem_state_false. exact Hn.
Qed.

Lemma var_pre_out_spec : forall N U v X s,
  In s (var_pre_out N U v X) <->
  In s U /\ ~ In s X /\ step_i N v s <> s /\ In (step_i N v s) X.
Proof.
  intros N U v X s. unfold var_pre_out. rewrite filter_In. cbv zeta.
  rewrite !andb_true_iff, !negb_true_iff, A_mem_state_false, A_eqb_state_false, A_mem_state_In.
  tauto.
Qed.

Lemma var_post_out_NoDup : forall N v X, NoDup (var_post_out N v X).
Proof. intros N v X. unfold var_post_out. apply ST_dedup_NoDup. Qed.

Lemma var_post_out_ext_NoDup : forall N v X, NoDup X -> NoDup (X ++ var_post_out N v X).
Proof.
  intros N v X HX. apply NoDup_app_disjoint; [exact HX|apply var_post_out_NoDup|].
  intros x H1 H2. apply var_post_out_spec in H2. destruct H2 as [_ H2]. exact (H2 H1).
Qed.

Lemma var_pre_out_ext_NoDup : forall N U v X, NoDup U -> NoDup X -> NoDup (X ++ var_pre_out N U v X).
Proof.
  intros N U v X HU HX. apply NoDup_app_disjoint; [exact HX| |].
  - unfold var_pre_out. apply NoDup_filter. exact HU.
  - intros x H1 H2. apply var_pre_out_spec in H2. destruct H2 as (_ & H2 & _). exact (H2 H1).
Qed.

Lemma meets_spec : forall a b, meets a b = true <-> exists s, In s a /\ In s b.
Proof.
  intros a b. unfold meets. rewrite existsb_exists. split.
  - intros [s [H1 H2]]. exists s. split; [exact H1|]. apply A_mem_state_In. exact H2.
  - intros [s [H1 H2]]. exists s. split; [exact H1|]. apply A_mem_state_In. exact H2.
Qed.

Arguments var_post_out : simpl never.
Arguments var_pre_out : simpl never.
Arguments meets : simpl never.

(* ------------------------------------------------------------------ *)
(* Shapes of the component procedures (independent of the space)       *)
(* ------------------------------------------------------------------ *)

Definition avl (o : option (list state)) : list state :=
  match o with Some a => a | None => [] end.

Section Shapes.
Variable N : net.
Variable U : list state.

(* forward growth: a chain of one-variable extensions *)
Inductive fgrow : list state -> list state -> Prop :=
| fg_refl : forall X, fgrow X X
| fg_step : forall X v Y, fgrow (X ++ var_post_out N v X) Y -> fgrow X Y.

Inductive bgrow : option (list state) -> option (list state) -> Prop :=
| bg_refl : forall o, bgrow o o
| bg_step : forall a v o, bgrow (Some (a ++ var_pre_out N U v a)) o -> bgrow (Some a) o.

Lemma fgrow_length : forall X Y, fgrow X Y -> length X <= length Y.
Proof.
  intros X Y H. induction H as [X|X v Y H IH]; [apply le_n|].
  rewrite app_length in IH. lia.
Qed.

Lemma fgrow_NoDup : forall X Y, fgrow X Y -> NoDup X -> NoDup Y.
Proof.
  intros X Y H. induction H as [X|X v Y H IH]; intros HX; [exact HX|].
  apply IH. apply var_post_out_ext_NoDup. exact HX.
Qed.

Lemma bgrow_length : forall o o', bgrow o o' -> length (avl o) <= length (avl o').
Proof.
  intros o o' H. induction H as [o|a v o H IH]; [apply le_n|].
  simpl in *. rewrite app_length in IH. lia.
Qed.

Lemma bgrow_NoDup : forall o o', NoDup U -> bgrow o o' -> NoDup (avl o) -> NoDup (avl o').
Proof.
  intros o o' HU H. induction H as [o|a v o H IH]; intros Ho; [exact Ho|].
  apply IH. simpl. apply var_pre_out_ext_NoDup; [exact HU|exact Ho].
Qed.

Lemma fwd_try_spec : forall force vars st st' grew p,
  fwd_try N force vars st = (st', grew, p) ->
  t_avoid st' = t_avoid st /\ t_sat st' = t_sat st /\ t_rest st' = t_rest st /\
  (grew = false -> t_reach st' = t_reach st) /\
  (grew = true -> exists v, var_post_out N v (t_reach st) <> [] /\
                            t_reach st' = t_reach st ++ var_post_out N v (t_reach st)) /\
  (p = false -> st' = st /\ forall v, In v vars -> var_post_out N v (t_reach st) = []) /\
  (force = true -> p = true -> grew = true).
Proof.
  intros force vars. induction vars as [|v r IH]; intros st st' grew p H; cbn [fwd_try] in H.
  - injection H as <- <- <-.
    repeat split; try reflexivity; try discriminate. intros v [].
  - destruct (var_post_out N v (t_reach st)) as [|x succ] eqn:Es.
    + apply IH in H. destruct H as (Ha & Hs & Hr & Hg0 & Hg1 & Hp0 & Hpf).
      repeat split; try assumption.
      * apply Hp0. assumption.
      * intros w [Hw|Hw]; [subst w; exact Es|]. apply Hp0; assumption.
    + match type of H with (if ?c then _ else _) = _ => destruct c eqn:Ec end.
      * injection H as <- <- <-. simpl.
        repeat split; try reflexivity; try discriminate.
        intros _. exists v. rewrite Es. split; [discriminate|reflexivity].
      * match type of H with context [fwd_try N force r ?s] =>
          destruct (fwd_try N force r s) as [[st2 g] p2] eqn:Er end.
        injection H as <- <- <-. apply IH in Er. simpl in Er.
        destruct Er as (Ha & Hs & Hr & Hg0 & Hg1 & Hp0 & Hpf).
        repeat split; try assumption; try discriminate.
        intros Hf _. subst force. rewrite !orb_true_r in Ec. discriminate.
Qed.

Lemma fwd_sat_spec : forall fuel force st pr0 pe0 st1 pr pe,
  fwd_sat fuel N force st pr0 pe0 = Some (st1, pr, pe) ->
  fgrow (t_reach st) (t_reach st1) /\
  t_avoid st1 = t_avoid st /\ t_sat st1 = t_sat st /\ t_rest st1 = t_rest st /\
  (pr = true -> pr0 = true \/ length (t_reach st) < length (t_reach st1)) /\
  (force = true -> pe = true -> pe0 = true \/ length (t_reach st) < length (t_reach st1)).
Proof.
  induction fuel as [|f IH]; intros force st pr0 pe0 st1 pr pe H; cbn [fwd_sat] in H.
  - injection H as <- <- <-. split; [apply fg_refl|]. repeat split; auto.
  - match type of H with (if ?c then _ else _) = _ => destruct c eqn:Em end; [discriminate|].
    destruct (fwd_try N force (t_sat st) st) as [[st' g] p] eqn:Et.
    apply fwd_try_spec in Et. destruct Et as (Ha & Hs & Hr & Hg0 & Hg1 & Hp0 & Hpf).
    destruct g.
    + apply IH in H. destruct H as (Hfg & Ha' & Hs' & Hr' & Hpr & Hpe).
      destruct (Hg1 eq_refl) as [v [Hne Hre]].
      assert (Hlt : length (t_reach st) < length (t_reach st1)).
      { pose proof (fgrow_length _ _ Hfg) as Hle. rewrite Hre in Hle.
        pose proof (ST_app_nonempty_length _ (t_reach st) _ Hne) as Hl. lia. }
      split; [apply fg_step with (v := v); rewrite <- Hre; exact Hfg|].
      repeat split; try congruence; intros; right; exact Hlt.
    + injection H as <- <- <-. rewrite (Hg0 eq_refl). split; [apply fg_refl|].
      repeat split; try assumption.
      * intros Hpr. left. exact Hpr.
      * intros Hf Hpe. destruct pe0; [left; reflexivity|]. simpl in Hpe.
        specialize (Hpf Hf Hpe). discriminate.
Qed.

Lemma fwd_sat_none : forall fuel force st pr0 pe0,
  fwd_sat fuel N force st pr0 pe0 = None ->
  exists X a, fgrow (t_reach st) X /\ t_avoid st = Some a /\ meets a X = true.
Proof.
  induction fuel as [|f IH]; intros force st pr0 pe0 H; cbn [fwd_sat] in H; [discriminate|].
  destruct (t_avoid st) as [a|] eqn:Ea.
  - destruct (meets a (t_reach st)) eqn:Em.
    + exists (t_reach st), a. split; [apply fg_refl|]. split; [reflexivity|exact Em].
    + destruct (fwd_try N force (t_sat st) st) as [[st' g] p] eqn:Et.
      apply fwd_try_spec in Et. destruct Et as (Ha & Hs & Hr & Hg0 & Hg1 & Hp0 & Hpf).
      destruct g; [|discriminate].
      apply IH in H. destruct H as [X [a' [Hfg [Ha' Hm]]]].
      destruct (Hg1 eq_refl) as [v [Hne Hre]].
      exists X, a'. split; [apply fg_step with (v := v); rewrite <- Hre; exact Hfg|].
      split; [congruence|exact Hm].
  - destruct (fwd_try N force (t_sat st) st) as [[st' g] p] eqn:Et.
    apply fwd_try_spec in Et. destruct Et as (Ha & Hs & Hr & Hg0 & Hg1 & Hp0 & Hpf).
    destruct g; [|discriminate].
    apply IH in H. destruct H as [X [a' [Hfg [Ha' Hm]]]]. congruence.
Qed.

Lemma fwd_sat_pending : forall fuel force st pr0 st1 pr pe,
  fwd_sat fuel N force st pr0 true = Some (st1, pr, pe) -> pe = true.
Proof.
  induction fuel as [|f IH]; intros force st pr0 st1 pr pe H; cbn [fwd_sat] in H.
  - injection H as _ _ <-. reflexivity.
  - match type of H with (if ?c then _ else _) = _ => destruct c end; [discriminate|].
    destruct (fwd_try N force (t_sat st) st) as [[st' g] p].
    destruct g.
    + apply IH in H. exact H.
    + injection H as _ _ <-. reflexivity.
Qed.

(* a forward saturation that reports nothing pending did nothing, found no saturated variable
   with successors outside, and checked that avoid is not met *)
Lemma fwd_sat_quiet : forall f force st pr0 st1 pr,
  fwd_sat (S f) N force st pr0 false = Some (st1, pr, false) ->
  st1 = st /\
  (forall v, In v (t_sat st) -> var_post_out N v (t_reach st) = []) /\
  match t_avoid st with Some a => meets a (t_reach st) = false | None => True end.
Proof.
  intros f force st pr0 st1 pr H. cbn [fwd_sat] in H.
  match type of H with (if ?c then _ else _) = _ => destruct c eqn:Em end; [discriminate|].
  destruct (fwd_try N force (t_sat st) st) as [[st' g] p] eqn:Et.
  apply fwd_try_spec in Et. destruct Et as (Ha & Hs & Hr & Hg0 & Hg1 & Hp0 & Hpf).
  destruct g.
  - apply fwd_sat_pending in H. discriminate.
  - injection H as <- _ Hp. simpl in Hp. destruct (Hp0 Hp) as [He Hall].
    split; [exact He|]. split; [exact Hall|].
    destruct (t_avoid st); [exact Em|exact I].
Qed.

Lemma bwd_try_spec : forall vars a a',
  bwd_try N U vars a = Some a' ->
  exists v, var_pre_out N U v a <> [] /\ a' = a ++ var_pre_out N U v a.
Proof.
  induction vars as [|v r IH]; intros a a' H; cbn [bwd_try] in H; [discriminate|].
  destruct (var_pre_out N U v a) as [|x pre] eqn:Ep.
  - apply IH. exact H.
  - injection H as <-. exists v. rewrite Ep. split; [discriminate|reflexivity].
Qed.

Lemma bwd_sat_spec : forall fuel st pr0 st2 pr,
  bwd_sat fuel N U st pr0 = Some (st2, pr) ->
  t_reach st2 = t_reach st /\ bgrow (t_avoid st) (t_avoid st2) /\
  t_sat st2 = t_sat st /\ t_rest st2 = t_rest st /\
  (pr = true -> pr0 = true \/ length (avl (t_avoid st)) < length (avl (t_avoid st2))).
Proof.
  induction fuel as [|f IH]; intros st pr0 st2 pr H; cbn [bwd_sat] in H.
  - injection H as <- <-. split; [reflexivity|]. split; [apply bg_refl|]. repeat split; auto.
  - destruct (t_avoid st) as [a|] eqn:Ea.
    + destruct (meets a (t_reach st)); [discriminate|].
      destruct (bwd_try N U (t_sat st) a) as [a'|] eqn:Eb.
      * apply bwd_try_spec in Eb. destruct Eb as [v [Hne Ha']]. subst a'.
        apply IH in H. simpl in H. destruct H as (Hre & Hbg & Hs & Hr & Hpr).
        assert (Hlt : length a < length (avl (t_avoid st2))).
        { pose proof (bgrow_length _ _ Hbg) as Hle. simpl in Hle.
          pose proof (ST_app_nonempty_length _ a _ Hne) as Hl. lia. }
        split; [exact Hre|]. split; [apply bg_step with (v := v); exact Hbg|].
        repeat split; try assumption. intros _. right. simpl. exact Hlt.
      * injection H as <- <-. rewrite Ea. split; [reflexivity|]. split; [apply bg_refl|].
        repeat split; auto.
    + injection H as <- <-. rewrite Ea. split; [reflexivity|]. split; [apply bg_refl|].
      repeat split; auto.
Qed.

Lemma bwd_sat_none : forall fuel st pr0,
  bwd_sat fuel N U st pr0 = None ->
  exists a, bgrow (t_avoid st) (Some a) /\ meets a (t_reach st) = true.
Proof.
  induction fuel as [|f IH]; intros st pr0 H; cbn [bwd_sat] in H; [discriminate|].
  destruct (t_avoid st) as [a|] eqn:Ea; [|discriminate].
  destruct (meets a (t_reach st)) eqn:Em.
  - exists a. split; [apply bg_refl|exact Em].
  - destruct (bwd_try N U (t_sat st) a) as [a'|] eqn:Eb; [|discriminate].
    apply bwd_try_spec in Eb. destruct Eb as [v [Hne Ha']]. subst a'.
    apply IH in H. simpl in H. destruct H as [a2 [Hbg Hm]].
    exists a2. split; [apply bg_step with (v := v); exact Hbg|exact Hm].
Qed.

Lemma add_var_spec : forall order st st3,
  add_var N U order st = Some st3 ->
  exists v, In v order /\
    t_reach st3 = t_reach st ++ var_post_out N v (t_reach st) /\
    t_avoid st3 = match t_avoid st with
                  | Some a => Some (a ++ var_pre_out N U v a)
                  | None => None
                  end /\
    t_sat st3 = v :: t_sat st /\
    t_rest st3 = filter (fun w => negb (Nat.eqb w v)) (t_rest st).
Proof.
  induction order as [|v r IH]; intros st st3 H; cbn [add_var] in H; [discriminate|].
  assert (Hhere : forall st', st' = {| t_reach := t_reach st ++ var_post_out N v (t_reach st);
             t_avoid := match t_avoid st with
                        | Some a => Some (a ++ match t_avoid st with
                                               | Some a0 => var_pre_out N U v a0
                                               | None => []
                                               end)
                        | None => None
                        end;
             t_sat := v :: t_sat st;
             t_rest := filter (fun w => negb (Nat.eqb w v)) (t_rest st);
             t_bools := t_bools st |} ->
           exists v0, In v0 (v :: r) /\
             t_reach st' = t_reach st ++ var_post_out N v0 (t_reach st) /\
             t_avoid st' = match t_avoid st with
                           | Some a => Some (a ++ var_pre_out N U v0 a)
                           | None => None
                           end /\
             t_sat st' = v0 :: t_sat st /\
             t_rest st' = filter (fun w => negb (Nat.eqb w v0)) (t_rest st)).
  { intros st' ->. exists v. split; [left; reflexivity|]. simpl.
    destruct (t_avoid st); repeat split; reflexivity. }
  destruct (var_post_out N v (t_reach st)) as [|x fwd] eqn:Ef.
  - destruct (match t_avoid st with Some a => var_pre_out N U v a | None => [] end)
      as [|y bwd] eqn:Eb.
    + apply IH in H. destruct H as [v0 [Hin Hrest]]. exists v0. split; [right; exact Hin|exact Hrest].
    + injection H as <-. apply Hhere. reflexivity.
  - injection H as <-. apply Hhere. reflexivity.
Qed.

Lemma add_var_none : forall order st,
  add_var N U order st = None ->
  forall v, In v order -> var_post_out N v (t_reach st) = [].
Proof.
  induction order as [|v r IH]; intros st H w Hw; [destruct Hw|].
  cbn [add_var] in H.
  destruct (var_post_out N v (t_reach st)) as [|x fwd] eqn:Ef; [|discriminate].
  destruct (match t_avoid st with Some a => var_pre_out N U v a | None => [] end)
    as [|y bwd] eqn:Eb; [|discriminate].
  destruct Hw as [Hw|Hw]; [subst w; exact Ef|]. apply IH; assumption.
Qed.

End Shapes.

(* ------------------------------------------------------------------ *)
(* Invariants of the main cycle inside a trap space                    *)
(* ------------------------------------------------------------------ *)

Lemma ST_step_neq_lt : forall N v s, wf_state N s -> step_i N v s <> s -> v < nvars N.
Proof.
  intros N v s Hwf Hne. destruct (le_lt_dec (nvars N) v) as [Hle|Hlt]; [|exact Hlt].
  exfalso. apply Hne. unfold step_i. apply set_nth_beyond. rewrite Hwf. exact Hle.
Qed.

Lemma ST_free_vars_In : forall (Sp : space) v,
  In v (free_vars Sp) <-> v < length Sp /\ nth v Sp None = None.
Proof.
  intros Sp v. unfold free_vars. rewrite filter_In, in_seq. split.
  - intros [[_ Hlt] Hn]. split; [exact Hlt|]. destruct (nth v Sp None); [discriminate|reflexivity].
  - intros [Hlt Hn]. split; [lia|]. rewrite Hn. reflexivity.
Qed.

Lemma ST_perm_nat_In : forall a b v, perm_nat a b = true -> (In v a <-> In v b).
Proof.
  intros a b v H. unfold perm_nat in H. rewrite !andb_true_iff in H. destruct H as [[_ H1] H2].
  rewrite forallb_forall in H1, H2. split; intros Hin.
  - apply H1 in Hin. apply existsb_exists in Hin. destruct Hin as [y [Hy He]].
    apply Nat.eqb_eq in He. subst y. exact Hy.
  - apply H2 in Hin. apply existsb_exists in Hin. destruct Hin as [y [Hy He]].
    apply Nat.eqb_eq in He. subst y. exact Hy.
Qed.

Section Sym.
Variable N : net.
Variable Sp : space.
Variable pivot : state.
Variable avoid : list state.
Hypothesis Htrap : trap_space N Sp.
Hypothesis Hpiv : in_space pivot Sp = true.
Hypothesis Havoid : forall a, In a avoid -> in_space a Sp = true.

Lemma Sym_len : length Sp = nvars N.
Proof. apply trap_space_length. exact Htrap. Qed.

Lemma Sym_wf : forall s, in_space s Sp = true -> wf_state N s.
Proof. intros s H. apply (in_space_wf N s Sp Sym_len H). Qed.

Lemma Sym_reach_in : forall s t, in_space s Sp = true -> reach N s t -> in_space t Sp = true.
Proof.
  intros s t Hs Hr.
  assert (H : sp_states N Sp t).
  { apply (A_closed_reach N (sp_states N Sp) s t); [exact (proj2 Htrap)| |exact Hr].
    split; [apply Sym_wf; exact Hs|exact Hs]. }
  exact (proj2 H).
Qed.

Definition Rok (X : list state) : Prop :=
  (forall t, In t X -> reach N pivot t) /\ In pivot X.

Definition Aok (o : option (list state)) : Prop :=
  match o with
  | None => avoid = []
  | Some a => incl avoid a /\
              forall x, In x a -> in_space x Sp = true /\ exists y, reach N x y /\ In y avoid
  end.

Lemma Rok_in : forall X t, Rok X -> In t X -> in_space t Sp = true.
Proof. intros X t [HX _] Ht. apply (Sym_reach_in pivot t Hpiv). apply HX. exact Ht. Qed.

Lemma Rok_incl : forall X, Rok X -> incl X (states_of Sp).
Proof. intros X HX t Ht. apply states_of_spec. apply (Rok_in X t HX Ht). Qed.

Lemma Aok_incl : forall o, Aok o -> incl (avl o) (states_of Sp).
Proof.
  intros [a|] Ho t Ht; [|destruct Ht]. simpl in Ht. apply states_of_spec.
  destruct Ho as [_ Ho]. exact (proj1 (Ho t Ht)).
Qed.

Lemma Rok_post : forall X v, Rok X -> Rok (X ++ var_post_out N v X).
Proof.
  intros X v HX. pose proof HX as [Hr Hp]. split; [|apply in_or_app; left; exact Hp].
  intros t Ht. apply in_app_or in Ht. destruct Ht as [Ht|Ht]; [apply Hr; exact Ht|].
  apply var_post_out_spec in Ht. destruct Ht as [[s [Hs [Hts Hne]]] _].
  apply (A_reach_step_r N pivot s t); [apply Hr; exact Hs|].
  exists v. split; [|split; [exact Hts|exact Hne]].
  apply (ST_step_neq_lt N v s); [apply Sym_wf; apply (Rok_in X s HX Hs)|].
  rewrite <- Hts. exact Hne.
Qed.

Lemma Aok_pre : forall a v, Aok (Some a) -> Aok (Some (a ++ var_pre_out N (states_of Sp) v a)).
Proof.
  intros a v [Hi Ha]. split; [apply incl_appl; exact Hi|].
  intros x Hx. apply in_app_or in Hx. destruct Hx as [Hx|Hx]; [apply Ha; exact Hx|].
  apply var_pre_out_spec in Hx. destruct Hx as (HU & _ & Hne & Hin).
  apply states_of_spec in HU. split; [exact HU|].
  destruct (Ha _ Hin) as [_ [y [Hry Hy]]]. exists y. split; [|exact Hy].
  apply (A_reach_trans N x (step_i N v x) y); [|exact Hry].
  apply rt_step. exists v. split; [|split; [reflexivity|exact Hne]].
  apply (ST_step_neq_lt N v x); [apply Sym_wf; exact HU|exact Hne].
Qed.

Lemma fgrow_Rok : forall X Y, fgrow N X Y -> Rok X -> Rok Y.
Proof.
  intros X Y H. induction H as [X|X v Y H IH]; intros HX; [exact HX|].
  apply IH. apply Rok_post. exact HX.
Qed.

Lemma bgrow_Aok : forall o o', bgrow N (states_of Sp) o o' -> Aok o -> Aok o'.
Proof.
  intros o o' H. induction H as [o|a v o H IH]; intros Ho; [exact Ho|].
  apply IH. apply Aok_pre. exact Ho.
Qed.

(* a meeting point of the two sets proves that the pivot reaches avoid *)
Lemma Sym_hit : forall X a, Rok X -> Aok (Some a) -> meets a X = true ->
  exists t, reach N pivot t /\ In t avoid.
Proof.
  intros X a [HX _] [_ Ha] Hm. apply meets_spec in Hm. destruct Hm as [s [Hsa HsX]].
  destruct (Ha s Hsa) as [_ [y [Hry Hy]]]. exists y. split; [|exact Hy].
  apply (A_reach_trans N pivot s y); [apply HX; exact HsX|exact Hry].
Qed.

(* a set that no free variable of the space leaves is closed under the dynamics *)
Lemma Sym_closed : forall X, Rok X ->
  (forall v, In v (free_vars Sp) -> var_post_out N v X = []) ->
  forall t, reach N pivot t -> In t X.
Proof.
  intros X HX Hfree.
  assert (Hstep : forall s t, trans N s t -> In s X -> In t X).
  { intros s t [i [Hi [Hts Hne]]] Hs.
    pose proof (Rok_in X s HX Hs) as HsS. pose proof (Sym_wf s HsS) as Hwf.
    destruct (nth i Sp None) as [b|] eqn:Ei.
    - exfalso. apply Hne. rewrite Hts. unfold step_i.
      assert (Hc : const_on N i Sp b).
      { apply (proj1 (trap_space_char N Sp Sym_len) Htrap i b Ei). }
      rewrite (Hc s Hwf HsS).
      assert (Hb : nth i s false = b).
      { apply (proj1 (in_space_nth s Sp (in_space_length s Sp HsS)) HsS i b Ei). }
      rewrite <- Hb. apply set_nth_same. rewrite Hwf. exact Hi.
    - destruct (in_dec A_state_eq_dec t X) as [Hin|Hnin]; [exact Hin|]. exfalso.
      assert (Hf : In i (free_vars Sp)).
      { apply ST_free_vars_In. split; [rewrite Sym_len; exact Hi|exact Ei]. }
      assert (Hpost : In t (var_post_out N i X)).
      { apply var_post_out_spec. split; [|exact Hnin]. exists s. auto. }
      rewrite (Hfree i Hf) in Hpost. destruct Hpost. }
  assert (Hall : forall s t, reach N s t -> In s X -> In t X).
  { intros s t Hr. induction Hr as [s t Hst|s|s u t H1 IH1 H2 IH2]; intros Hs.
    - apply (Hstep s t Hst Hs).
    - exact Hs.
    - apply IH2. apply IH1. exact Hs. }
  intros t Ht. apply (Hall pivot t Ht). exact (proj2 HX).
Qed.

Definition Inv (st : stest) : Prop :=
  Rok (t_reach st) /\ Aok (t_avoid st) /\
  (forall v, In v (free_vars Sp) -> In v (t_sat st) \/ In v (t_rest st)).

Definition InvD (st : stest) : Prop :=
  NoDup (t_reach st) /\ NoDup (avl (t_avoid st)).

Lemma Inv_fwd : forall fuel force st pr0 pe0 st1 pr pe,
  fwd_sat fuel N force st pr0 pe0 = Some (st1, pr, pe) -> Inv st -> Inv st1.
Proof.
  intros fuel force st pr0 pe0 st1 pr pe H (HR & HA & HV).
  apply fwd_sat_spec in H. destruct H as (Hfg & Ha & Hs & Hr & _).
  split; [apply (fgrow_Rok _ _ Hfg HR)|]. split; [rewrite Ha; exact HA|].
  rewrite Hs, Hr. exact HV.
Qed.

Lemma InvD_fwd : forall fuel force st pr0 pe0 st1 pr pe,
  fwd_sat fuel N force st pr0 pe0 = Some (st1, pr, pe) -> InvD st -> InvD st1.
Proof.
  intros fuel force st pr0 pe0 st1 pr pe H (HR & HA).
  apply fwd_sat_spec in H. destruct H as (Hfg & Ha & _).
  split; [apply (fgrow_NoDup N _ _ Hfg HR)|rewrite Ha; exact HA].
Qed.

Lemma Inv_bwd : forall fuel st pr0 st2 pr,
  bwd_sat fuel N (states_of Sp) st pr0 = Some (st2, pr) -> Inv st -> Inv st2.
Proof.
  intros fuel st pr0 st2 pr H (HR & HA & HV).
  apply bwd_sat_spec in H. destruct H as (Hre & Hbg & Hs & Hr & _).
  split; [rewrite Hre; exact HR|]. split; [apply (bgrow_Aok _ _ Hbg HA)|].
  rewrite Hs, Hr. exact HV.
Qed.

Lemma InvD_bwd : forall fuel st pr0 st2 pr,
  bwd_sat fuel N (states_of Sp) st pr0 = Some (st2, pr) -> InvD st -> InvD st2.
Proof.
  intros fuel st pr0 st2 pr H (HR & HA).
  apply bwd_sat_spec in H. destruct H as (Hre & Hbg & _).
  split; [rewrite Hre; exact HR|].
  apply (bgrow_NoDup N (states_of Sp) _ _ (states_of_NoDup Sp) Hbg HA).
Qed.

Lemma Inv_add : forall order st st3,
  add_var N (states_of Sp) order st = Some st3 -> Inv st -> Inv st3.
Proof.
  intros order st st3 H (HR & HA & HV).
  apply add_var_spec in H. destruct H as [v (_ & Hre & Ha & Hs & Hr)].
  split; [rewrite Hre; apply Rok_post; exact HR|]. split.
  - rewrite Ha. destruct (t_avoid st) as [a|]; [apply Aok_pre; exact HA|exact HA].
  - intros w Hw. rewrite Hs, Hr. destruct (Nat.eq_dec w v) as [He|Hne].
    + left. left. symmetry. exact He.
    + destruct (HV w Hw) as [Hin|Hin]; [left; right; exact Hin|].
      right. apply filter_In. split; [exact Hin|].
      apply negb_true_iff. apply Nat.eqb_neq. exact Hne.
Qed.

Lemma InvD_add : forall order st st3,
  add_var N (states_of Sp) order st = Some st3 -> InvD st -> InvD st3.
Proof.
  intros order st st3 H (HR & HA).
  apply add_var_spec in H. destruct H as [v (_ & Hre & Ha & _)].
  split; [rewrite Hre; apply var_post_out_ext_NoDup; exact HR|].
  rewrite Ha. destruct (t_avoid st) as [a|]; [|exact HA].
  simpl. apply var_pre_out_ext_NoDup; [apply states_of_NoDup|exact HA].
Qed.

Definition the_order (orders : list (list nat)) (st : stest) : list nat :=
  match orders with
  | o :: _ => if perm_nat o (t_rest st) then o else t_rest st
  | [] => t_rest st
  end.

Lemma the_order_In : forall orders st v, In v (the_order orders st) <-> In v (t_rest st).
Proof.
  intros orders st v. unfold the_order. destruct orders as [|o r]; [tauto|].
  destruct (perm_nat o (t_rest st)) eqn:E; [|tauto]. apply ST_perm_nat_In. exact E.
Qed.

Lemma main_loop_unfold : forall f U st force orders,
  main_loop (S f) N U st force orders =
  match fwd_sat (S (length U)) N force st false false with
  | None => TNone
  | Some (st1, prog1, pend1) =>
      match bwd_sat (S (length U)) N U st1 false with
      | None => TNone
      | Some (st2, prog2) =>
          match add_var N U (the_order orders st2) st2 with
          | Some st3 => main_loop f N U st3 false (tl orders)
          | None =>
              if pend1 || prog2
              then main_loop f N U st2 (negb (prog1 || prog2)) (tl orders)
              else TSome (t_reach st2)
          end
      end
  end.
Proof. intros f U st force orders. reflexivity. Qed.

(* ------------------------------------------------------------------ *)
(* Soundness of the answers                                            *)
(* ------------------------------------------------------------------ *)

Lemma main_loop_sound : forall fuel st force orders, Inv st ->
  match main_loop fuel N (states_of Sp) st force orders with
  | TNone => exists t, reach N pivot t /\ In t avoid
  | TSome R => (forall t, In t R <-> reach N pivot t) /\ (forall t, In t R -> ~ In t avoid)
  | TFuel => True
  end.
Proof.
  induction fuel as [|f IH]; intros st force orders HI; [exact I|].
  rewrite main_loop_unfold.
  destruct (fwd_sat (S (length (states_of Sp))) N force st false false)
    as [[[st1 pr1] pe1]|] eqn:Ef.
  2:{ apply fwd_sat_none in Ef. destruct Ef as [X [a [Hfg [Ha Hm]]]].
      destruct HI as (HR & HA & _). rewrite Ha in HA.
      apply (Sym_hit X a (fgrow_Rok _ _ Hfg HR) HA Hm). }
  pose proof (Inv_fwd _ _ _ _ _ _ _ _ Ef HI) as HI1.
  destruct (bwd_sat (S (length (states_of Sp))) N (states_of Sp) st1 false)
    as [[st2 pr2]|] eqn:Eb.
  2:{ apply bwd_sat_none in Eb. destruct Eb as [a [Hbg Hm]].
      destruct HI1 as (HR & HA & _).
      apply (Sym_hit (t_reach st1) a HR (bgrow_Aok _ _ Hbg HA) Hm). }
  pose proof (Inv_bwd _ _ _ _ _ Eb HI1) as HI2.
  destruct (add_var N (states_of Sp) (the_order orders st2) st2) as [st3|] eqn:Ea.
  - apply IH. apply (Inv_add _ _ _ Ea HI2).
  - destruct (pe1 || pr2) eqn:Ep; [apply IH; exact HI2|].
    apply orb_false_iff in Ep. destruct Ep as [Hpe _]. subst pe1.
    apply fwd_sat_quiet in Ef. destruct Ef as (He & Hsat & Hmeet). subst st1.
    apply bwd_sat_spec in Eb. destruct Eb as (Hre & Hbg & Hs & Hr & _).
    destruct HI2 as (HR2 & HA2 & HV2). destruct HI as (HR & HA & HV).
    assert (Hcl : forall t, reach N pivot t -> In t (t_reach st2)).
    { apply (Sym_closed _ HR2). intros v Hv. destruct (HV2 v Hv) as [Hin|Hin].
      - rewrite Hre. apply Hsat. rewrite <- Hs. exact Hin.
      - apply (add_var_none _ _ _ _ Ea). apply the_order_In. exact Hin. }
    split.
    + intros t. split; [apply (proj1 HR2)|apply Hcl].
    + intros t Ht Hav. rewrite Hre in Ht.
      destruct (t_avoid st) as [a|].
      * assert (Hm : meets a (t_reach st) = true).
        { apply meets_spec. exists t. split; [apply (proj1 HA); exact Hav|exact Ht]. }
        rewrite Hm in Hmeet. discriminate.
      * simpl in HA. rewrite HA in Hav. destruct Hav.
Qed.

(* ------------------------------------------------------------------ *)
(* Termination: the progress fix rules out a stall                     *)
(* ------------------------------------------------------------------ *)

Lemma main_loop_term : forall fuel st (force : bool) orders, Inv st -> InvD st ->
  2 * (2 * length (states_of Sp) + length (t_rest st)) + 2 <=
    fuel + 2 * (length (t_reach st) + length (avl (t_avoid st))) + (if force then 1 else 0) ->
  main_loop fuel N (states_of Sp) st force orders <> TFuel.
Proof.
  induction fuel as [|f IH]; intros st force orders HI HD Hm.
  - exfalso. destruct HI as (HR & HA & _). destruct HD as (HDR & HDA).
    pose proof (NoDup_incl_length HDR (Rok_incl _ HR)) as H1.
    pose proof (NoDup_incl_length HDA (Aok_incl _ HA)) as H2.
    destruct force; lia.
  - rewrite main_loop_unfold.
    destruct (fwd_sat (S (length (states_of Sp))) N force st false false)
      as [[[st1 pr1] pe1]|] eqn:Ef; [|discriminate].
    pose proof (Inv_fwd _ _ _ _ _ _ _ _ Ef HI) as HI1.
    pose proof (InvD_fwd _ _ _ _ _ _ _ _ Ef HD) as HD1.
    destruct (bwd_sat (S (length (states_of Sp))) N (states_of Sp) st1 false)
      as [[st2 pr2]|] eqn:Eb; [|discriminate].
    pose proof (Inv_bwd _ _ _ _ _ Eb HI1) as HI2.
    pose proof (InvD_bwd _ _ _ _ _ Eb HD1) as HD2.
    apply fwd_sat_spec in Ef. destruct Ef as (Hfg & Ha1 & Hs1 & Hr1 & Hpr1 & Hpe1).
    pose proof (fgrow_length _ _ _ Hfg) as Hl1.
    apply bwd_sat_spec in Eb. destruct Eb as (Hre2 & Hbg & Hs2 & Hr2 & Hpr2).
    pose proof (bgrow_length _ _ _ _ Hbg) as Hl2.
    rewrite Ha1 in Hl2, Hpr2.
    destruct (add_var N (states_of Sp) (the_order orders st2) st2) as [st3|] eqn:Ea.
    + apply IH; [apply (Inv_add _ _ _ Ea HI2)|apply (InvD_add _ _ _ Ea HD2)|].
      apply add_var_spec in Ea. destruct Ea as [v (Hv & Hre3 & Ha3 & _ & Hr3)].
      apply the_order_In in Hv.
      assert (Hlt : length (t_rest st3) < length (t_rest st2)).
      { rewrite Hr3. apply (ST_filter_length_lt _ _ _ v Hv).
        apply negb_false_iff. apply Nat.eqb_refl. }
      assert (Hge1 : length (t_reach st2) <= length (t_reach st3)).
      { rewrite Hre3, app_length. lia. }
      assert (Hge2 : length (avl (t_avoid st2)) <= length (avl (t_avoid st3))).
      { rewrite Ha3. destruct (t_avoid st2) as [a|]; simpl; [rewrite app_length; lia|apply le_n]. }
      rewrite Hr2, Hr1 in Hlt. rewrite Hre2 in Hge1.
      destruct force; lia.
    + destruct (pe1 || pr2) eqn:Ep; [|discriminate].
      apply IH; [exact HI2|exact HD2|].
      rewrite Hr2, Hr1, Hre2.
      destruct pr1.
      * destruct (Hpr1 eq_refl) as [Hx|Hx]; [discriminate|].
        simpl. destruct force; lia.
      * destruct pr2.
        -- destruct (Hpr2 eq_refl) as [Hx|Hx]; [discriminate|].
           simpl. destruct force; lia.
        -- simpl. rewrite orb_false_r in Ep. subst pe1. destruct force; [|lia].
           destruct (Hpe1 eq_refl eq_refl) as [Hx|Hx]; [discriminate|]. lia.
Qed.

End Sym.

(* ------------------------------------------------------------------ *)
(* The theorems about symbolic_test                                    *)
(* ------------------------------------------------------------------ *)

Definition init_stest (S : space) (pivot : state) (avoid : list state) (bools : list bool) : stest :=
  {| t_reach := [pivot]; t_avoid := match avoid with [] => None | _ => Some avoid end;
     t_sat := []; t_rest := rev (free_vars S); t_bools := bools |}.

Lemma init_avl : forall avoid : list state,
  avl (match avoid with [] => None | _ => Some avoid end) = avoid.
Proof. intros [|a l]; reflexivity. Qed.

Lemma init_Inv : forall N S pivot avoid bools,
  (forall a, In a avoid -> in_space a S = true) ->
  Inv N S pivot avoid (init_stest S pivot avoid bools).
Proof.
  intros N S pivot avoid bools Havoid. split; [|split].
  - split; [|left; reflexivity]. intros t [Ht|[]]. subst t. apply A_reach_refl.
  - simpl. destruct avoid as [|a l]; [reflexivity|]. split; [apply incl_refl|].
    intros x Hx. split; [apply Havoid; exact Hx|]. exists x. split; [apply A_reach_refl|exact Hx].
  - intros v Hv. right. simpl. apply in_rev in Hv. exact Hv.
Qed.

Theorem symbolic_test_some : forall fuel N S pivot avoid bools orders R,
  trap_space N S -> in_space pivot S = true ->
  (forall a, In a avoid -> in_space a S = true) ->
  symbolic_test fuel N S pivot avoid bools orders = TSome R ->
  (forall t, In t R <-> reach N pivot t) /\ (forall t, In t R -> ~ In t avoid).
Proof.
  intros fuel N S pivot avoid bools orders R Htrap Hpiv Havoid H.
  pose proof (main_loop_sound N S pivot avoid Htrap Hpiv fuel
                (init_stest S pivot avoid bools) false orders
                (init_Inv N S pivot avoid bools Havoid)) as Hs.
  unfold symbolic_test in H. unfold init_stest in Hs. rewrite H in Hs. exact Hs.
Qed.

Theorem symbolic_test_none : forall fuel N S pivot avoid bools orders,
  trap_space N S -> in_space pivot S = true ->
  (forall a, In a avoid -> in_space a S = true) ->
  symbolic_test fuel N S pivot avoid bools orders = TNone ->
  exists t, reach N pivot t /\ In t avoid.
Proof.
  intros fuel N S pivot avoid bools orders Htrap Hpiv Havoid H.
  pose proof (main_loop_sound N S pivot avoid Htrap Hpiv fuel
                (init_stest S pivot avoid bools) false orders
                (init_Inv N S pivot avoid bools Havoid)) as Hs.
  unfold symbolic_test in H. unfold init_stest in Hs. rewrite H in Hs. exact Hs.
Qed.

(* agreement with the contract used by the filtering theorem *)
Corollary symbolic_test_meets_spec : forall fuel N S pivot avoid_spaces avoid_states bools orders,
  trap_space N S -> in_space pivot S = true ->
  let a := {| av_spaces := avoid_spaces; av_states := avoid_states |} in
  let explicit := filter (in_avoid a) (states_of S) in
  match symbolic_test fuel N S pivot explicit bools orders with
  | TSome R => exists r, attractor_test N pivot a = Some r /\ forall t, In t R <-> In t r
  | TNone => attractor_test N pivot a = None
  | TFuel => True
  end.
Proof.
  intros fuel N S pivot avoid_spaces avoid_states bools orders Htrap Hpiv a explicit.
  assert (Hex : forall x, In x explicit -> in_space x S = true).
  { intros x Hx. apply filter_In in Hx. apply states_of_spec. exact (proj1 Hx). }
  assert (Hwf : wf_state N pivot).
  { apply (in_space_wf N pivot S (trap_space_length N S Htrap) Hpiv). }
  destruct (symbolic_test fuel N S pivot explicit bools orders) as [|R|] eqn:E; [| |exact I].
  - destruct (symbolic_test_none _ _ _ _ _ _ _ Htrap Hpiv Hex E) as [t [Hr Ht]].
    unfold attractor_test.
    assert (Hb : existsb (in_avoid a) (reach_list N pivot) = true).
    { apply existsb_exists. exists t. split; [apply reach_list_complete; assumption|].
      apply filter_In in Ht. exact (proj2 Ht). }
    rewrite Hb. reflexivity.
  - destruct (symbolic_test_some _ _ _ _ _ _ _ _ Htrap Hpiv Hex E) as [HR Hno].
    exists (reach_list N pivot). unfold attractor_test.
    assert (Hb : existsb (in_avoid a) (reach_list N pivot) = false).
    { destruct (existsb (in_avoid a) (reach_list N pivot)) eqn:Eb; [|reflexivity]. exfalso.
      apply existsb_exists in Eb. destruct Eb as [x [Hx Hax]].
      apply reach_list_sound in Hx.
      apply (Hno x); [apply HR; exact Hx|].
      apply filter_In. split; [|exact Hax]. apply states_of_spec.
      apply (Sym_reach_in N S Htrap pivot x Hpiv Hx). }
    rewrite Hb. split; [reflexivity|].
    intros t. rewrite HR. symmetry. apply A_reach_list_spec. exact Hwf.
Qed.

Theorem symbolic_test_terminates : forall fuel N S pivot avoid bools orders,
  trap_space N S -> in_space pivot S = true ->
  (forall a, In a avoid -> in_space a S = true) -> NoDup avoid ->
  symbolic_test_fuel S <= fuel -> symbolic_test fuel N S pivot avoid bools orders <> TFuel.
Proof.
  intros fuel N S pivot avoid bools orders Htrap Hpiv Havoid Hnd Hfuel.
  unfold symbolic_test.
  apply (main_loop_term N S pivot avoid Htrap Hpiv fuel (init_stest S pivot avoid bools) false orders).
  - apply init_Inv. exact Havoid.
  - split; simpl.
    + constructor; [intros []|constructor].
    + rewrite init_avl. exact Hnd.
  - unfold symbolic_test_fuel in Hfuel. simpl t_rest. simpl t_reach. simpl t_avoid.
    rewrite init_avl, rev_length.
    assert (Hfv : length (free_vars S) <= length S).
    { unfold free_vars. etransitivity; [apply ST_filter_length_le|]. rewrite seq_length. apply le_n. }
    simpl length at 3. lia.
Qed.

(* ------------------------------------------------------------------ *)
(* Defect D6: without the force flag the procedure can stall           *)
(* ------------------------------------------------------------------ *)

(* main_loop with the progress fix removed: force is always false *)
Fixpoint main_loop_noforce (fuel : nat) (N : net) (universe : list state) (st : stest)
         (orders : list (list nat)) : tres :=
  match fuel with
  | O => TFuel
  | S f =>
      match fwd_sat (S (length universe)) N false st false false with
      | None => TNone
      | Some (st1, prog1, pend1) =>
          match bwd_sat (S (length universe)) N universe st1 false with
          | None => TNone
          | Some (st2, prog2) =>
              let order := match orders with o :: _ => if perm_nat o (t_rest st2) then o else t_rest st2 | [] => t_rest st2 end in
              match add_var N universe order st2 with
              | Some st3 => main_loop_noforce f N universe st3 (tl orders)
              | None =>
                  if pend1 || prog2
                  then main_loop_noforce f N universe st2 (tl orders)
                  else TSome (t_reach st2)
              end
          end
      end
  end.

(* x0' = if x2 then x0 else not x1;  x1' = if x2 then x1 else x0;  x2' = x2.
   From 000 the layer x2 = 0 is the cycle 000 -> 100 -> 110 -> 010 -> 000; avoid = {001}
   lies in the frozen layer x2 = 1 and has no predecessors.  Variable 2 can never be added,
   so "all variables saturated" never holds, and once 0 and 1 are saturated the growth
   110 -> 010 along variable 0 is declined by the always-false tape, forever. *)
Definition stall_net : net :=
  [ (fun s => if nth 2 s false then nth 0 s false else negb (nth 1 s false));
    (fun s => if nth 2 s false then nth 1 s false else nth 0 s false);
    (fun s => nth 2 s false) ].
Definition stall_space : space := [None; None; None].
Definition stall_pivot : state := [false; false; false].
Definition stall_avoid : list state := [[false; false; true]].

Definition stall_state : stest :=
  {| t_reach := [[false; false; false]; [true; false; false]; [true; true; false]];
     t_avoid := Some stall_avoid; t_sat := [1; 0]; t_rest := [2]; t_bools := [] |}.

Lemma stall_fixpoint : forall fuel,
  main_loop_noforce fuel stall_net (states_of stall_space) stall_state [] = TFuel.
Proof.
  induction fuel as [|f IH]; [reflexivity|].
  change (main_loop_noforce (S f) stall_net (states_of stall_space) stall_state [])
    with (main_loop_noforce f stall_net (states_of stall_space) stall_state []).
  exact IH.
Qed.

Lemma stall_prefix : forall f,
  main_loop_noforce (S (S f)) stall_net (states_of stall_space)
    (init_stest stall_space stall_pivot stall_avoid []) [] =
  main_loop_noforce f stall_net (states_of stall_space) stall_state [].
Proof. intros f. reflexivity. Qed.

Theorem noforce_can_stall_wf : exists N S pivot avoid,
  trap_space N S /\ in_space pivot S = true /\
  (forall a, In a avoid -> in_space a S = true) /\ NoDup avoid /\
  (forall fuel,
     main_loop_noforce fuel N (states_of S)
       {| t_reach := [pivot]; t_avoid := Some avoid; t_sat := []; t_rest := rev (free_vars S);
          t_bools := [] |} [] = TFuel) /\
  (forall fuel, symbolic_test_fuel S <= fuel -> symbolic_test fuel N S pivot avoid [] [] <> TFuel).
Proof.
  exists stall_net, stall_space, stall_pivot, stall_avoid.
  assert (Htrap : trap_space stall_net stall_space) by apply (trap_space_top stall_net).
  assert (Hav : forall a, In a stall_avoid -> in_space a stall_space = true).
  { intros a [Ha|[]]. subst a. reflexivity. }
  assert (Hnd : NoDup stall_avoid).
  { constructor; [intros []|constructor]. }
  split; [exact Htrap|]. split; [reflexivity|]. split; [exact Hav|]. split; [exact Hnd|]. split.
  - intros fuel. destruct fuel as [|[|f]]; [reflexivity|reflexivity|].
    change (main_loop_noforce (S (S f)) stall_net (states_of stall_space)
              (init_stest stall_space stall_pivot stall_avoid []) [] = TFuel).
    rewrite stall_prefix. apply stall_fixpoint.
  - intros fuel Hfuel. apply symbolic_test_terminates; try assumption. reflexivity.
Qed.

Theorem noforce_can_stall : exists N S pivot avoid, forall fuel,
  main_loop_noforce fuel N (states_of S)
    {| t_reach := [pivot]; t_avoid := Some avoid; t_sat := []; t_rest := rev (free_vars S);
       t_bools := [] |} [] = TFuel.
Proof.
  destruct noforce_can_stall_wf as [N [S [pivot [avoid (_ & _ & _ & _ & H & _)]]]].
  exists N, S, pivot, avoid. exact H.
Qed.

(* on the same instance the fixed procedure answers after five iterations *)
Lemma stall_fixed_answer :
  symbolic_test 5 stall_net stall_space stall_pivot stall_avoid [] [] =
  TSome [[false; false; false]; [true; false; false]; [true; true; false]; [false; true; false]].
Proof. vm_compute. reflexivity. Qed.

Print Assumptions symbolic_test_some.
Print Assumptions symbolic_test_none.
Print Assumptions symbolic_test_terminates.
