(* SymbolicTestFacts.v -- correctness of the model of symbolic_attractor_test (SymbolicTest.v):
   for every tape of heuristic outcomes, every tape of variable orders and every fuel, an
   answer TSome R is exactly the set of states reachable from the pivot and misses avoid, an
   answer TNone proves that a state of avoid is reachable; the procedure meets the contract
   attractor_test used by the filtering theorem; with the progress fix (the force flag) the
   fuel symbolic_test_fuel always suffices; without the flag the procedure can stall (D6). *)
From Coq Require Import List Bool Arith Lia Relations Permutation.
Import ListNotations.
From BB Require Import BN Brute SpaceFacts TrapFacts AttractorFacts Filter SymbolicTest.

(* ------------------------------------------------------------------ *)
(* List helpers                                                        *)
(* ------------------------------------------------------------------ *)

Lemma ST_dedup_cons : forall a l,
  dedup (a :: l) = if mem_state a (dedup l) then dedup l else a :: dedup l.
Proof. intros a l. reflexivity. Qed.

Lemma ST_dedup_In : forall l x, In x (dedup l) <-> In x l.
Proof.
  induction l as [|a l IH]; intros x.
  - simpl. tauto.
  - rewrite ST_dedup_cons. destruct (mem_state a (dedup l)) eqn:E.
    + rewrite IH. split; [intros H; right; exact H|].
      intros [H|H]; [|exact H]. subst x. apply mem_state_spec in E. apply IH. exact E.
    + simpl. rewrite IH. tauto.
Qed.

Lemma ST_dedup_NoDup : forall l, NoDup (dedup l).
Proof.
  induction l as [|a l IH].
  - constructor.
  - rewrite ST_dedup_cons. destruct (mem_state a (dedup l)) eqn:E; [exact IH|].
    constructor; [|exact IH]. apply A_mem_state_false. exact E.
Qed.

Lemma ST_filter_length_le : forall (A : Type) (f : A -> bool) l, length (filter f l) <= length l.
Proof.
  intros A f l. induction l as [|a l IH]; simpl; [apply le_n|].
  destruct (f a); simpl; lia.
Qed.

Lemma ST_filter_length_lt : forall (A : Type) (f : A -> bool) l x,
  In x l -> f x = false -> length (filter f l) < length l.
Proof.
  intros A f l x. induction l as [|a l IH]; intros Hin Hf; [destruct Hin|].
  simpl. destruct Hin as [Hin|Hin].
  - subst a. rewrite Hf. pose proof (ST_filter_length_le A f l) as Hle. lia.
  - specialize (IH Hin Hf). destruct (f a); simpl; lia.
Qed.

Lemma ST_app_nonempty_length : forall (A : Type) (l m : list A), m <> [] -> length l < length (l ++ m).
Proof.
  intros A l m Hm. rewrite app_length. destruct m as [|x m]; [contradiction|]. simpl. lia.
Qed.

(* ------------------------------------------------------------------ *)
(* The one-variable image operators                                    *)
(* ------------------------------------------------------------------ *)

Lemma var_post_out_spec : forall N v X t,
  In t (var_post_out N v X) <-> (exists s, In s X /\ t = step_i N v s /\ t <> s) /\ ~ In t X.
Proof.
  intros N v X t. unfold var_post_out. rewrite ST_dedup_In, filter_In, in_flat_map. split.
  - intros [[s [Hs Hin]] Hm]. apply negb_true_iff in Hm. apply A_mem_state_false in Hm.
    split; [|exact Hm]. exists s. split; [exact Hs|].
    cbv zeta in Hin. destruct (eqb_state (step_i N v s) s) eqn:E; [destruct Hin|].
    destruct Hin as [Hin|[]]. subst t. split; [reflexivity|]. apply A_eqb_state_false. exact E.
  - intros [[s [Hs [Ht Hne]]] Hn]. split.
    + exists s. split; [exact Hs|]. cbv zeta. subst t. apply A_eqb_state_false in Hne.
      rewrite Hne. left. reflexivity.
    + apply negb_true_iff. apply A_mem_state_false. exact Hn.
Qed.

Lemma var_pre_out_spec : forall N U v X s,
  In s (var_pre_out N U v X) <->
  In s U /\ ~ In s X /\ step_i N v s <> s /\ In (step_i N v s) X.
Proof.
  intros N U v X s. unfold var_pre_out. rewrite filter_In. cbv zeta.
  rewrite !andb_true_iff, !negb_true_iff, A_mem_state_false, A_eqb_state_false, A_mem_state_In.
  tauto.
Qed.

Lemma var_post_out_NoDup : forall N v X, NoDup (var_post_out N v X).
Proof. intros N v X. unfold var_post_out. apply ST_dedup_NoDup. Qed.

Lemma var_post_out_ext_NoDup : forall N v X, NoDup X -> NoDup (X ++ var_post_out N v X).
Proof.
  intros N v X HX. apply NoDup_app_disjoint; [exact HX|apply var_post_out_NoDup|].
  intros x H1 H2. apply var_post_out_spec in H2. destruct H2 as [_ H2]. exact (H2 H1).
Qed.

Lemma var_pre_out_ext_NoDup : forall N U v X, NoDup U -> NoDup X -> NoDup (X ++ var_pre_out N U v X).
Proof.
  intros N U v X HU HX. apply NoDup_app_disjoint; [exact HX| |].
  - unfold var_pre_out. apply NoDup_filter. exact HU.
  - intros x H1 H2. apply var_pre_out_spec in H2. destruct H2 as (_ & H2 & _). exact (H2 H1).
Qed.

Lemma meets_spec : forall a b, meets a b = true <-> exists s, In s a /\ In s b.
Proof.
  intros a b. unfold meets. rewrite existsb_exists. split.
  - intros [s [H1 H2]]. exists s. split; [exact H1|]. apply A_mem_state_In. exact H2.
  - intros [s [H1 H2]]. exists s. split; [exact H1|]. apply A_mem_state_In. exact H2.
Qed.

Arguments var_post_out : simpl never.
Arguments var_pre_out : simpl never.
Arguments meets : simpl never.
