(* Extract.v -- the only extraction directives of the development.
   ExtrOcamlBasic only (bool, option, unit, list, prod, sumbool, sumor -> OCaml);
   nat stays Peano, N/positive stay the library inductives. No Extract Constant. *)
Require Extraction.
Require Import ExtrOcamlBasic.
From BB Require Import BN Brute Diagram Filter Checks Strict PetriNet Control Candidates Blocks ASeeds Signed Names ASeedsFacts BlockMath BlockComplete LogChecks SkipRule SCC PyLib PySrc PySrcKey PySrcPlace.
Extraction Language OCaml.
Extraction "bbmodel_core.ml"
  net_of_tables percolate_b max_traps_b min_traps_b is_trap_b sources_b attractors_b
  node_attractors_b node_attractors_of check_cover check_seeds check_seeds_sound check_sets reduced_fixed_b reach_list const_on_b traps_in
  subspace intersect merge space_key in_space eqb_space
  percolate_strict_b percolate_strict_ord conflicts_b single_ldois single_drivers
  pn_faithful_b restrict_pn reduce_pn pn_sources trap_program deadlock_program net_to_pn
  override forced_b successions find_drivers drivers_of_succession succession_control succession_control_ff
  compute_candidates heuristic_retained nfvs_reduction_ok_b same_assignment_b
  expand_block expand_aseeds no_neg_walk_b
  expand_aseeds_log expand_block_log nfvs_log_ok_b clean_log_ok_b nfvs_entry_ok_b clean_entry_ok_b block_clean_b
  query_order lost times_represented compute_attractors_filter expand_scc source_sccs
  py_is_subspace py_intersect py_space_unique_key py_variable_to_place py_place_to_variable
  sanitize check_only_ok place_name place_to_variable
  init step run depth minimal_ids find_node successors is_minimal size get.
