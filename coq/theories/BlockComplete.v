(* BlockComplete.v -- SPEC (definitions are fixed; prove the theorems).
   Completeness of source-block expansion (Blocks.expand_block) started on a fresh diagram:
   every minimal trap space of the network becomes an expanded leaf, and -- when motif-avoidance checks are on
   and every "is_clean = True" answer on the tape meets its contract (BlockMath.block_clean) -- every attractor has
   an expanded owner and the nodes whose seeds were set to [] by the strategy own nothing. *)
From Coq Require Import List Bool Arith NArith Lia Permutation.
Import ListNotations.
From BB Require Import BN Brute SpaceFacts TrapFacts PercolateFacts AttractorFacts Filter FilterFacts Diagram Invariants
  DiagramStruct DiagramSem1 DiagramCache DiagramComplete DiagramDepth Termination MinExpandFacts Blocks BlocksFacts
  OwnerFacts PartialOwner BlockMath.

(* one log entry per examined block: node space, block variables, first motifs of the block's successors, answer *)
Definition clean_entry : Type := (space * list nat * list space * bool)%type.

Fixpoint first_clean_log (sp : space) (motif_of : nat -> space) (blocks : list (list nat * list nat))
         (tape : list bool) : list clean_entry :=
  match blocks with
  | [] => []
  | (b, ns) :: r => match tape with
                    | true :: _ => [(sp, b, map motif_of ns, true)]
                    | _ :: t => (sp, b, map motif_of ns, false) :: first_clean_log sp motif_of r t
                    | [] => (sp, b, map motif_of ns, false) :: first_clean_log sp motif_of r []
                    end
  end.

(* twin of Blocks.block_level that threads the diagram in exactly the same way and returns
   (log of examined blocks, nodes whose seeds/sets were set to []) *)
Fixpoint block_level_log (N : net) (cfg : config) (check_maa opt_src : bool) (size_limit : option nat)
         (d : sd) (cur : list nat) (next : list nat) (tape : list bool) (visited : list nat)
  : list clean_entry * list nat :=
  match cur with
  | [] => ([], [])
  | x :: cur' =>
      if n_exp (get d x) then
        (if mem_nat x visited then block_level_log N cfg check_maa opt_src size_limit d cur' next tape visited
         else block_level_log N cfg check_maa opt_src size_limit d cur' (union_nat next (successors d x)) tape (x :: visited))
      else
      let visited := x :: visited in
      if over_limit size_limit d then ([], []) else
      let sp := n_space (get d x) in
      let srcs := sources_in_b N sp in
      if negb (match srcs with [] => true | _ => false end) && opt_src then
        let expected := size d + Nat.pow 2 (length srcs) in
        if Nat.ltb (max_motifs cfg) expected then ([], [])
        else if match size_limit with Some k => Nat.ltb k expected | None => false end then ([], [])
        else
          let '(d1, kids) := ensure_children N d x (map (merge sp) (source_valuations (nvars N) srcs)) [] in
          let d2 := set_empty_seeds (clear_cands (upd_node d1 x (fun y => set_exp y true)) x) x in
          let '(lg, em) := block_level_log N cfg check_maa opt_src size_limit d2 cur' (union_nat next kids) tape visited in
          (lg, x :: em)
      else
        let '(d1, r, succ0) := node_successors N cfg d x in
        match r with
        | RUnit =>
            let succ := sort_nat succ0 in
            match succ with
            | [] => block_level_log N cfg check_maa opt_src size_limit d1 cur' next tape visited
            | [s] => if negb check_maa
                     then block_level_log N cfg check_maa opt_src size_limit d1 cur' (union_nat next [s]) tape visited
                     else
                       let blocks := sort_blocks (minimal_blocks (group_blocks N d1 x succ)) in
                       let here := first_clean_log sp (first_motif d1 x) blocks tape in
                       let '(clean, tape1) := first_clean blocks tape in
                       match clean with
                       | Some ns =>
                           let '(lg, em) := block_level_log N cfg check_maa opt_src size_limit (set_empty_seeds d1 x) cur' (union_nat next ns) tape1 visited in
                           (here ++ lg, x :: em)
                       | None =>
                           let '(lg, em) := block_level_log N cfg check_maa opt_src size_limit d1 cur' (union_nat next succ) tape1 visited in
                           (here ++ lg, em)
                       end
            | _ =>
                let blocks := sort_blocks (minimal_blocks (group_blocks N d1 x succ)) in
                if negb check_maa
                then block_level_log N cfg check_maa opt_src size_limit d1 cur'
                                 (union_nat next (match blocks with (_, ns) :: _ => ns | [] => [] end)) tape visited
                else
                  let here := first_clean_log sp (first_motif d1 x) blocks tape in
                  let '(clean, tape1) := first_clean blocks tape in
                  match clean with
                  | Some ns =>
                      let '(lg, em) := block_level_log N cfg check_maa opt_src size_limit (set_empty_seeds d1 x) cur' (union_nat next ns) tape1 visited in
                      (here ++ lg, x :: em)
                  | None =>
                      let '(lg, em) := block_level_log N cfg check_maa opt_src size_limit d1 cur' (union_nat next succ) tape1 visited in
                      (here ++ lg, em)
                  end
            end
        | _ => ([], [])
        end
  end.

Fixpoint block_loop_log (fuel : nat) (N : net) (cfg : config) (check_maa opt_src : bool) (size_limit : option nat)
         (d : sd) (cur : list nat) (tape : list bool) (visited : list nat) : list clean_entry * list nat :=
  match fuel with
  | O => ([], [])
  | S f =>
      match cur with
      | [] => ([], [])
      | _ =>
          let '(d1, r, next, tape1, visited1) := block_level N cfg check_maa opt_src size_limit d (sort_nat cur) [] tape visited in
          let '(lg, em) := block_level_log N cfg check_maa opt_src size_limit d (sort_nat cur) [] tape visited in
          match r with
          | RUnit => let '(lg2, em2) := block_loop_log f N cfg check_maa opt_src size_limit d1 next tape1 visited1 in
                     (lg ++ lg2, em ++ em2)
          | _ => (lg, em)
          end
      end
  end.

Definition expand_block_log (fuel : nat) (N : net) (cfg : config) (d : sd) (check_maa opt_src : bool)
           (size_limit : option nat) (tape : list bool) : list clean_entry * list nat :=
  block_loop_log fuel N cfg check_maa opt_src size_limit d [0] tape [].

(* the contract of the tape: every positive answer is justified *)
Definition clean_log_ok (N : net) (lg : list clean_entry) : Prop :=
  forall sp B motifs, In (sp, B, motifs, true) lg -> block_clean N sp B motifs.

Local Arguments percolate_b : simpl never.
Local Arguments expand_one : simpl never.
Local Arguments node_successors : simpl never.
Local Arguments ensure_node : simpl never.
Local Arguments ensure_edge : simpl never.
Local Arguments raise_depth : simpl never.
Local Arguments max_traps_b : simpl never.
Local Arguments min_traps_b : simpl never.
Local Arguments upd_node : simpl never.
Local Arguments sources_in_b : simpl never.
Local Arguments source_valuations : simpl never.
Local Arguments ensure_children : simpl never.
Local Arguments ensure_all : simpl never.
Local Arguments set_empty_seeds : simpl never.
Local Arguments clear_cands : simpl never.
Local Arguments group_blocks : simpl never.
Local Arguments minimal_blocks : simpl never.
Local Arguments sort_blocks : simpl never.
Local Arguments first_clean : simpl never.
Local Arguments first_clean_log : simpl never.
Local Arguments union_nat : simpl never.
Local Arguments sort_nat : simpl never.
Local Arguments over_limit : simpl never.
Local Arguments Nat.pow : simpl never.
Local Arguments Nat.ltb : simpl never.
Local Arguments ff_motifs : simpl never.
Local Arguments block_of : simpl never.
Local Arguments first_motif : simpl never.

(* ====================================================================== *)
(* PART 1 -- CanonOrFF and NoSkips are invariants of the strategy          *)
(* ====================================================================== *)

Lemma ff_form_same : forall N d d' j,
  out_edges d' j = out_edges d j -> n_space (get d' j) = n_space (get d j) ->
  ff_form N d j -> ff_form N d' j.
Proof.
  intros N d d' j Ho Hs [H1 H2]. unfold ff_form, out_motifs in *. rewrite Ho, Hs. split; assumption.
Qed.

Lemma CanonOrFF_grow : forall N d d' x, size d <= size d' ->
  (forall j, j < size d -> j <> x ->
     out_edges d' j = out_edges d j /\ n_space (get d' j) = n_space (get d j) /\
     n_exp (get d' j) = n_exp (get d j) /\ n_skip (get d' j) = n_skip (get d j)) ->
  (forall j, size d <= j -> j < size d' -> n_exp (get d' j) = false) ->
  (x < size d -> n_exp (get d' x) = true -> n_skip (get d' x) = false ->
     canonical N d' x \/ ff_form N d' x) ->
  CanonOrFF N d -> CanonOrFF N d'.
Proof.
  intros N d d' x Hsz Hold Hnew Hx H j Hj He Hs.
  destruct (lt_dec j (size d)) as [Hlt|Hge]; [|rewrite Hnew in He by lia; discriminate He].
  destruct (Nat.eq_dec j x) as [Heq|Hne]; [subst j; apply Hx; assumption|].
  destruct (Hold j Hlt Hne) as (A1 & A2 & A3 & A4). rewrite A3 in He. rewrite A4 in Hs.
  destruct (H j Hlt He Hs) as [Hc|Ho].
  - left. apply (canonical_same N d); assumption.
  - right. apply (ff_form_same N d); assumption.
Qed.

Lemma CanonOrFF_neutral : forall N d d', size d' = size d -> sd_edges d' = sd_edges d ->
  (forall j, n_space (get d' j) = n_space (get d j) /\ n_exp (get d' j) = n_exp (get d j) /\
             n_skip (get d' j) = n_skip (get d j)) ->
  CanonOrFF N d -> CanonOrFF N d'.
Proof.
  intros N d d' Hsz Hed Hn H. apply (CanonOrFF_grow N d d' (size d)); [lia| | | |exact H].
  - intros j _ _. split; [apply out_edges_same_edges; exact Hed|apply Hn].
  - intros j H1 H2. lia.
  - intro H0. lia.
Qed.

Lemma set_empty_seeds_fields : forall d i j,
  n_space (get (set_empty_seeds d i) j) = n_space (get d j) /\
  n_exp (get (set_empty_seeds d i) j) = n_exp (get d j) /\
  n_skip (get (set_empty_seeds d i) j) = n_skip (get d j).
Proof.
  intros d i j. rewrite set_empty_seeds_unfold.
  destruct (get_upd_node_cases (upd_node d i (fun y => set_seeds y (Some (cur_tag d i)))) i j
              (fun y => set_sets y (Some (cur_tag d i)))) as [Hg|(_ & _ & Hg)]; rewrite Hg; simpl;
  destruct (get_upd_node_cases d i j (fun y => set_seeds y (Some (cur_tag d i)))) as [Hg2|(_ & _ & Hg2)];
    rewrite Hg2; simpl; auto.
Qed.

Lemma set_empty_seeds_CanonOrFF : forall N d i, CanonOrFF N d -> CanonOrFF N (set_empty_seeds d i).
Proof.
  intros N d i H.
  apply (CanonOrFF_neutral N d); [apply size_set_empty_seeds|apply sd_edges_set_empty_seeds| |exact H].
  intro j. apply set_empty_seeds_fields.
Qed.

Lemma expand_one_CanonOrFF : forall N cfg d i, 1 <= max_motifs cfg -> SWF N d -> NoStubEdges d ->
  i < size d -> CanonOrFF N d -> CanonOrFF N (fst (expand_one N cfg d i)).
Proof.
  intros N cfg d i Hmm Hswf Hn Hi H.
  pose proof (expand_one_extends N cfg d i) as Hext.
  pose proof (expand_one_new_unexp N cfg d i) as Hnew.
  destruct (expand_one N cfg d i) as [d' r] eqn:E. simpl in Hext, Hnew |- *.
  pose proof (expand_one_canonical N cfg d i d' Hswf Hn Hi) as Hcan.
  destruct (expand_one_cases N cfg d i d' r E)
    as [(_ & A & _)|[(Hex & _ & _ & Hr)|[(_ & _ & _ & A & _)|(Hex & _ & _ & _ & Hr)]]].
  - subst d'. exact H.
  - subst r. destruct (Hcan Hex Hmm E) as (_ & _ & Hc & Hoth).
    apply (CanonOrFF_grow N d d' i); [apply extends_size; exact Hext| | | |exact H].
    + intros j Hj Hne. destruct (Hoth j Hj Hne) as (B1 & B2 & B3).
      split; [exact B1|]. split; [apply (extends_space d d' j Hext Hj)|]. split; assumption.
    + intros j Hj _. apply Hnew. exact Hj.
    + intros _ _ _. left. exact Hc.
  - subst d'. apply (CanonOrFF_neutral N d); [apply size_upd_node|apply sd_edges_upd_node| |exact H].
    intro j. destruct (get_upd_node_cases d i j clear_attr) as [Hg|(_ & _ & Hg)]; rewrite Hg; simpl; auto.
  - subst r. destruct (Hcan Hex Hmm E) as (_ & _ & Hc & Hoth).
    apply (CanonOrFF_grow N d d' i); [apply extends_size; exact Hext| | | |exact H].
    + intros j Hj Hne. destruct (Hoth j Hj Hne) as (B1 & B2 & B3).
      split; [exact B1|]. split; [apply (extends_space d d' j Hext Hj)|]. split; assumption.
    + intros j Hj _. apply Hnew. exact Hj.
    + intros _ _ _. left. exact Hc.
Qed.

(* what the fast-forward leaves alone *)
Lemma ff_step_other : forall N d x j, j < size d -> j <> x ->
  out_edges (ff_step N d x) j = out_edges d j /\ n_space (get (ff_step N d x) j) = n_space (get d j) /\
  n_exp (get (ff_step N d x) j) = n_exp (get d j) /\ n_skip (get (ff_step N d x) j) = n_skip (get d j).
Proof.
  intros N d x j Hj Hne.
  rewrite (out_edges_same_edges (ensure_all N d x (ff_motifs N (n_space (get d x)))))
    by apply sd_edges_ff_step.
  unfold ff_step. rewrite get_set_empty_seeds_other, get_clear_cands_other by exact Hne.
  rewrite upd_flag_get_other by exact Hne.
  rewrite ensure_all_out_other by exact Hne.
  destruct (ensure_all_old N (ff_motifs N (n_space (get d x))) d x j Hj) as (A1 & A2 & A3 & _).
  auto.
Qed.

Lemma ff_step_new : forall N d x j, x < size d -> size d <= j -> j < size (ff_step N d x) ->
  n_exp (get (ff_step N d x) j) = false.
Proof.
  intros N d x j Hx Hle Hlt. rewrite size_ff_step in Hlt. unfold ff_step.
  assert (Hne : j <> x) by lia.
  rewrite get_set_empty_seeds_other, get_clear_cands_other by exact Hne.
  rewrite upd_flag_get_other by exact Hne.
  apply (ensure_all_new N _ d x j Hle Hlt).
Qed.

Lemma out_motifs_ff_step : forall N d x, NoStubEdges d -> n_exp (get d x) = false ->
  Permutation (out_motifs (ff_step N d x) x) (ff_motifs N (n_space (get d x))).
Proof.
  intros N d x Hn Hex.
  rewrite (out_motifs_same_edges (ensure_all N d x (ff_motifs N (n_space (get d x)))))
    by apply sd_edges_ff_step.
  pose proof (ensure_all_out_motifs N (ff_motifs N (n_space (get d x))) d x) as Hp.
  unfold out_motifs at 2 in Hp. rewrite (NoStub_out_empty d x Hn Hex) in Hp. simpl in Hp. exact Hp.
Qed.

Lemma ff_step_ff_form : forall N d x, NoStubEdges d -> x < size d -> n_exp (get d x) = false ->
  sources_in_b N (n_space (get d x)) <> [] -> ff_form N (ff_step N d x) x.
Proof.
  intros N d x Hn Hx Hex Hsrc. unfold ff_form.
  rewrite (extends_space d (ff_step N d x) x (ff_step_extends N d x) Hx).
  split; [exact Hsrc|]. apply out_motifs_ff_step; assumption.
Qed.

Lemma ff_step_CanonOrFF : forall N d x, NoStubEdges d -> x < size d -> n_exp (get d x) = false ->
  sources_in_b N (n_space (get d x)) <> [] -> CanonOrFF N d -> CanonOrFF N (ff_step N d x).
Proof.
  intros N d x Hn Hx Hex Hsrc H.
  apply (CanonOrFF_grow N d (ff_step N d x) x); [apply extends_size; apply ff_step_extends| | | |exact H].
  - intros j Hj Hne. apply ff_step_other; assumption.
  - intros j Hle Hlt. apply ff_step_new; assumption.
  - intros _ _ _. right. apply ff_step_ff_form; assumption.
Qed.

Theorem expand_block_CanonOrFF : forall fuel N cfg d maa opt sz tape, 1 <= max_motifs cfg ->
  SWF N d -> TrapNodes N d -> NoStubEdges d -> CanonOrFF N d ->
  CanonOrFF N (fst (expand_block fuel N cfg d maa opt sz tape)).
Proof.
  intros fuel N cfg d maa opt sz tape Hmm Hswf _ Hn Hc.
  assert (H : NoStubEdges (fst (expand_block fuel N cfg d maa opt sz tape)) /\
              CanonOrFF N (fst (expand_block fuel N cfg d maa opt sz tape))).
  { apply (block_transfer N cfg opt (fun d0 => NoStubEdges d0 /\ CanonOrFF N d0)).
    - intros d0 x H1 [H2 H3] Hx _.
      split; [apply expand_one_NSE; assumption|apply expand_one_CanonOrFF; assumption].
    - intros d0 i _ [H2 H3] _ _. split; [|apply set_empty_seeds_CanonOrFF; exact H3].
      apply (set_empty_seeds_flag NoStubEdges); [|exact H2].
      intros d1 f Hf0 H0. apply NoStubEdges_upd; assumption.
    - intros d0 x _ H1 [H2 H3] Hx Hex Hsrc.
      split; [apply ff_step_NoStubEdges; assumption|apply ff_step_CanonOrFF; assumption].
    - exact Hswf.
    - split; assumption. }
  exact (proj2 H).
Qed.

Lemma NSk_set_empty_seeds : forall d i, NSk d -> NSk (set_empty_seeds d i).
Proof. intros d i H j. rewrite (proj2 (proj2 (set_empty_seeds_fields d i j))). apply H. Qed.

Lemma NSk_ff_step : forall N d x, NSk d -> NSk (ff_step N d x).
Proof.
  intros N d x H. unfold ff_step. apply NSk_set_empty_seeds. rewrite clear_cands_unfold.
  apply NSk_upd; [intro; reflexivity|]. apply NSk_upd; [intro; reflexivity|].
  apply NSk_ensure_all. exact H.
Qed.

Theorem expand_block_NoSkips : forall fuel N cfg d maa opt sz tape, SWF N d -> NoSkips d ->
  NoSkips (fst (expand_block fuel N cfg d maa opt sz tape)).
Proof.
  intros fuel N cfg d maa opt sz tape Hswf Hns. apply NoSkips_NSk.
  apply (block_transfer N cfg opt NSk).
  - intros d0 x _ H _ _. apply NSk_expand_one. exact H.
  - intros d0 i _ H _ _. apply NSk_set_empty_seeds. exact H.
  - intros d0 x _ _ H _ _ _. apply NSk_ff_step. exact H.
  - exact Hswf.
  - apply NoSkips_NSk. exact Hns.
Qed.

(* ====================================================================== *)
(* PART 2 -- the log twin walks in lockstep with block_level               *)
(* ====================================================================== *)

Lemma first_clean_some_log : forall sp mo blocks tape ns tape1,
  first_clean blocks tape = (Some ns, tape1) ->
  exists b, In (b, ns) blocks /\ In (sp, b, map mo ns, true) (first_clean_log sp mo blocks tape).
Proof.
  intros sp mo. induction blocks as [|[b ns0] r IH]; intros tape ns tape1 H.
  - cbn [first_clean] in H. discriminate H.
  - cbn [first_clean] in H. cbn [first_clean_log]. destruct tape as [|[|] t].
    + destruct (IH [] ns tape1 H) as (b0 & Hb & Hl). exists b0. split; [right; exact Hb|right; exact Hl].
    + injection H as H1 H2. subst ns0. exists b. split; left; reflexivity.
    + destruct (IH t ns tape1 H) as (b0 & Hb & Hl). exists b0. split; [right; exact Hb|right; exact Hl].
Qed.

Lemma sort_blocks_In : forall y blocks, In y (sort_blocks blocks) -> In y blocks.
Proof.
  intros y blocks. unfold sort_blocks.
  assert (G : forall l acc, In y (fold_left (fun acc x => insert_by_len x acc) l acc) -> In y l \/ In y acc).
  { induction l as [|x l IH]; intros acc H; simpl in H; [right; exact H|].
    destruct (IH _ H) as [H1|H1]; [left; right; exact H1|].
    apply insert_by_len_In in H1. destruct H1 as [H1|H1]; [left; left; symmetry; exact H1|right; exact H1]. }
  intro H. destruct (G _ _ H) as [H1|[]]. exact H1.
Qed.

Lemma insert_by_len_nonempty : forall x l, insert_by_len x l <> [].
Proof. intros x [|y r]; simpl; [discriminate|]. destruct (Nat.ltb _ _); discriminate. Qed.

Lemma sort_blocks_nonempty : forall blocks, blocks <> [] -> sort_blocks blocks <> [].
Proof.
  intros blocks. unfold sort_blocks.
  assert (G : forall l acc, (l <> [] \/ acc <> []) -> fold_left (fun acc x => insert_by_len x acc) l acc <> []).
  { induction l as [|x l IH]; intros acc H; simpl.
    - destruct H as [H|H]; [contradiction H; reflexivity|exact H].
    - apply IH. right. apply insert_by_len_nonempty. }
  intro H. apply G. left. exact H.
Qed.

(* some block is minimal: measure = number of distinct members *)
Definition blk_mu (K : nat) (b : list nat) : nat := length (filter (fun v => mem_nat v b) (seq 0 K)).

Lemma strict_subset_spec : forall a b, strict_subset a b = true ->
  (forall v, In v a -> In v b) /\ exists v, In v b /\ ~ In v a.
Proof.
  intros a b H. unfold strict_subset in H. apply andb_prop in H. destruct H as [H1 H2]. split.
  - intros v Hv. rewrite forallb_forall in H1. apply BM_mem_nat_In. apply H1. exact Hv.
  - apply negb_true_iff in H2.
    assert (G : forall l, forallb (fun x => mem_nat x a) l = false -> exists v, In v l /\ ~ In v a).
    { induction l as [|y l IH]; simpl; intro Hf; [discriminate|].
      destruct (mem_nat y a) eqn:Ey; simpl in Hf.
      - destruct (IH Hf) as (v & Hv & Hn). exists v. split; [right; exact Hv|exact Hn].
      - exists y. split; [left; reflexivity|]. apply BM_mem_nat_false. exact Ey. }
    apply G. exact H2.
Qed.

Lemma strict_subset_mu : forall K a b, (forall v, In v b -> v < K) -> strict_subset a b = true ->
  blk_mu K a < blk_mu K b.
Proof.
  intros K a b Hb H. destruct (strict_subset_spec a b H) as (Hsub & v & Hvb & Hva).
  unfold blk_mu. apply (filter_length_strict nat _ _ _ v).
  - intros x _ Hx. apply BM_mem_nat_In. apply Hsub. apply BM_mem_nat_In. exact Hx.
  - apply in_seq. pose proof (Hb v Hvb). lia.
  - apply BM_mem_nat_false. exact Hva.
  - apply BM_mem_nat_In. exact Hvb.
Qed.

Lemma exists_min_measure : forall (A : Type) (f : A -> nat) (l : list A), l <> [] ->
  exists x, In x l /\ forall y, In y l -> f x <= f y.
Proof.
  intros A f l. induction l as [|a l IH]; intro Hne; [contradiction Hne; reflexivity|].
  destruct l as [|a2 l'].
  - exists a. split; [left; reflexivity|]. intros y [Hy|[]]. subst y. apply le_n.
  - destruct IH as (x & Hx & Hmin); [discriminate|].
    destruct (le_lt_dec (f a) (f x)) as [Hle|Hlt].
    + exists a. split; [left; reflexivity|]. intros y [Hy|Hy]; [subst y; apply le_n|].
      pose proof (Hmin y Hy). lia.
    + exists x. split; [right; exact Hx|]. intros y [Hy|Hy]; [subst y; lia|apply Hmin; exact Hy].
Qed.

Lemma minimal_blocks_nonempty : forall G, G <> [] -> minimal_blocks G <> [].
Proof.
  intros G Hne. unfold minimal_blocks. destruct G as [|e1 [|e2 r]]; [contradiction Hne; reflexivity|discriminate|].
  remember (e1 :: e2 :: r) as G0 eqn:EG.
  set (K := S (list_max (flat_map fst G0))).
  assert (HK : forall e v, In e G0 -> In v (fst e) -> v < K).
  { intros e v He Hv. unfold K.
    assert (Hin : In v (flat_map fst G0)) by (apply in_flat_map; exists e; split; assumption).
    pose proof (proj1 (list_max_le (flat_map fst G0) (list_max (flat_map fst G0))) (le_n _)) as Hall.
    rewrite Forall_forall in Hall. pose proof (Hall v Hin). lia. }
  destruct (exists_min_measure _ (fun e => blk_mu K (fst e)) G0 Hne) as (x & Hx & Hmin).
  intro Hnil.
  assert (Hin : In x (filter (fun bn => negb (existsb (fun b2 => strict_subset (fst b2) (fst bn)) G0)) G0)).
  { apply filter_In. split; [exact Hx|]. apply negb_true_iff.
    destruct (existsb (fun b2 => strict_subset (fst b2) (fst x)) G0) eqn:Ee; [|reflexivity]. exfalso.
    apply existsb_exists in Ee. destruct Ee as (y & Hy & Hs).
    pose proof (strict_subset_mu K (fst y) (fst x) (fun v Hv => HK x v Hx Hv) Hs) as Hlt.
    pose proof (Hmin y Hy) as Hle. simpl in Hle. lia. }
  rewrite Hnil in Hin. destruct Hin.
Qed.

Lemma add_to_blocks_nonempty : forall blk s blocks, add_to_blocks blk s blocks <> [].
Proof. intros blk s [|[b ns] r]; simpl; [discriminate|]. destruct (same_set b blk); discriminate. Qed.

Lemma group_blocks_nonempty : forall N d x succ, succ <> [] -> group_blocks N d x succ <> [].
Proof.
  intros N d x succ Hne. unfold group_blocks.
  assert (G : forall l acc, (l <> [] \/ acc <> []) ->
            fold_left (fun acc s =>
              add_to_blocks (block_of N (n_space (get d x))
                               (reduce_by (first_motif d x s) (n_space (get d x)))) s acc) l acc <> []).
  { induction l as [|s l IH]; intros acc H; simpl.
    - destruct H as [H|H]; [contradiction H; reflexivity|exact H].
    - apply IH. right. apply add_to_blocks_nonempty. }
  apply G. left. exact Hne.
Qed.

(* how an ordinary expansion chooses the successors it hands to the next level *)
Inductive norm_choice (N : net) (maa : bool) (d1 : sd) (x : nat) (sp : space)
  : list nat -> bool -> list clean_entry -> Prop :=
| nc_all : forall here, norm_choice N maa d1 x sp (sort_nat (successors d1 x)) false here
| nc_block : forall blk ns b here,
    In (blk, ns) (minimal_blocks (group_blocks N d1 x (sort_nat (successors d1 x)))) ->
    (b = true -> maa = true /\ In (sp, blk, map (first_motif d1 x) ns, true) here) ->
    (b = false -> maa = false) ->
    norm_choice N maa d1 x sp ns b here.

Definition log_after (here : list clean_entry) (em0 : list nat) (p : list clean_entry * list nat)
  : list clean_entry * list nat := (here ++ fst p, em0 ++ snd p).

Lemma level_cons : forall N cfg maa opt sz d x cur next tape vis,
  (n_exp (get d x) = true /\ mem_nat x vis = true /\
   block_level N cfg maa opt sz d (x :: cur) next tape vis = block_level N cfg maa opt sz d cur next tape vis /\
   block_level_log N cfg maa opt sz d (x :: cur) next tape vis = block_level_log N cfg maa opt sz d cur next tape vis) \/
  (n_exp (get d x) = true /\ mem_nat x vis = false /\
   block_level N cfg maa opt sz d (x :: cur) next tape vis =
     block_level N cfg maa opt sz d cur (union_nat next (successors d x)) tape (x :: vis) /\
   block_level_log N cfg maa opt sz d (x :: cur) next tape vis =
     block_level_log N cfg maa opt sz d cur (union_nat next (successors d x)) tape (x :: vis)) \/
  (exists d' r next' tape' vis', (r = RBool false \/ r = RRaised ErrMotifLimit) /\
   block_level N cfg maa opt sz d (x :: cur) next tape vis = (d', r, next', tape', vis')) \/
  (n_exp (get d x) = false /\ opt = true /\ sources_in_b N (n_space (get d x)) <> [] /\
   block_level N cfg maa opt sz d (x :: cur) next tape vis =
     block_level N cfg maa opt sz (ff_step N d x) cur (union_nat next (ff_kids N d x)) tape (x :: vis) /\
   block_level_log N cfg maa opt sz d (x :: cur) next tape vis =
     log_after [] [x] (block_level_log N cfg maa opt sz (ff_step N d x) cur (union_nat next (ff_kids N d x)) tape (x :: vis))) \/
  (n_exp (get d x) = false /\ exists d1 ns b here tape1,
   expand_one N cfg d x = (d1, RUnit) /\ norm_choice N maa d1 x (n_space (get d x)) ns b here /\
   block_level N cfg maa opt sz d (x :: cur) next tape vis =
     block_level N cfg maa opt sz (if b then set_empty_seeds d1 x else d1) cur (union_nat next ns) tape1 (x :: vis) /\
   block_level_log N cfg maa opt sz d (x :: cur) next tape vis =
     log_after here (if b then [x] else [])
       (block_level_log N cfg maa opt sz (if b then set_empty_seeds d1 x else d1) cur (union_nat next ns) tape1 (x :: vis))).
Proof.
  intros N cfg maa opt sz d x cur next tape vis. cbn [block_level block_level_log].
  destruct (n_exp (get d x)) eqn:Ex.
  { destruct (mem_nat x vis) eqn:Em.
    - left. split; [reflexivity|]. split; [reflexivity|]. split; reflexivity.
    - right. left. split; [reflexivity|]. split; [reflexivity|]. split; reflexivity. }
  right. right.
  destruct (over_limit sz d).
  { left. exists d, (RBool false), next, tape, (x :: vis). split; [left; reflexivity|reflexivity]. }
  set (NORMAL := fun (P : sd * result * list nat * list bool * list nat) (L : list clean_entry * list nat) =>
    (exists d' r next' tape' vis', (r = RBool false \/ r = RRaised ErrMotifLimit) /\ P = (d', r, next', tape', vis')) \/
    (false = false /\ opt = true /\ sources_in_b N (n_space (get d x)) <> [] /\
     P = block_level N cfg maa opt sz (ff_step N d x) cur (union_nat next (ff_kids N d x)) tape (x :: vis) /\
     L = log_after [] [x] (block_level_log N cfg maa opt sz (ff_step N d x) cur (union_nat next (ff_kids N d x)) tape (x :: vis))) \/
    (false = false /\ exists d1 ns b here tape1,
     expand_one N cfg d x = (d1, RUnit) /\ norm_choice N maa d1 x (n_space (get d x)) ns b here /\
     P = block_level N cfg maa opt sz (if b then set_empty_seeds d1 x else d1) cur (union_nat next ns) tape1 (x :: vis) /\
     L = log_after here (if b then [x] else [])
       (block_level_log N cfg maa opt sz (if b then set_empty_seeds d1 x else d1) cur (union_nat next ns) tape1 (x :: vis)))).
  assert (Hnormal : NORMAL
      (let '(d1, r, succ0) := node_successors N cfg d x in
        match r with
        | RUnit =>
            let succ := sort_nat succ0 in
            match succ with
            | [] => block_level N cfg maa opt sz d1 cur next tape (x :: vis)
            | [s] => if negb maa
                     then block_level N cfg maa opt sz d1 cur (union_nat next [s]) tape (x :: vis)
                     else
                       let blocks := sort_blocks (minimal_blocks (group_blocks N d1 x succ)) in
                       let '(clean, tape1) := first_clean blocks tape in
                       match clean with
                       | Some ns => block_level N cfg maa opt sz (set_empty_seeds d1 x) cur (union_nat next ns) tape1 (x :: vis)
                       | None => block_level N cfg maa opt sz d1 cur (union_nat next succ) tape1 (x :: vis)
                       end
            | _ =>
                let blocks := sort_blocks (minimal_blocks (group_blocks N d1 x succ)) in
                if negb maa
                then block_level N cfg maa opt sz d1 cur
                                 (union_nat next (match blocks with (_, ns) :: _ => ns | [] => [] end)) tape (x :: vis)
                else
                  let '(clean, tape1) := first_clean blocks tape in
                  match clean with
                  | Some ns => block_level N cfg maa opt sz (set_empty_seeds d1 x) cur (union_nat next ns) tape1 (x :: vis)
                  | None => block_level N cfg maa opt sz d1 cur (union_nat next succ) tape1 (x :: vis)
                  end
            end
        | _ => (d1, r, next, tape, x :: vis)
        end)
      (let '(d1, r, succ0) := node_successors N cfg d x in
        match r with
        | RUnit =>
            let succ := sort_nat succ0 in
            match succ with
            | [] => block_level_log N cfg maa opt sz d1 cur next tape (x :: vis)
            | [s] => if negb maa
                     then block_level_log N cfg maa opt sz d1 cur (union_nat next [s]) tape (x :: vis)
                     else
                       let blocks := sort_blocks (minimal_blocks (group_blocks N d1 x succ)) in
                       let here := first_clean_log (n_space (get d x)) (first_motif d1 x) blocks tape in
                       let '(clean, tape1) := first_clean blocks tape in
                       match clean with
                       | Some ns =>
                           let '(lg, em) := block_level_log N cfg maa opt sz (set_empty_seeds d1 x) cur (union_nat next ns) tape1 (x :: vis) in
                           (here ++ lg, x :: em)
                       | None =>
                           let '(lg, em) := block_level_log N cfg maa opt sz d1 cur (union_nat next succ) tape1 (x :: vis) in
                           (here ++ lg, em)
                       end
            | _ =>
                let blocks := sort_blocks (minimal_blocks (group_blocks N d1 x succ)) in
                if negb maa
                then block_level_log N cfg maa opt sz d1 cur
                                 (union_nat next (match blocks with (_, ns) :: _ => ns | [] => [] end)) tape (x :: vis)
                else
                  let here := first_clean_log (n_space (get d x)) (first_motif d1 x) blocks tape in
                  let '(clean, tape1) := first_clean blocks tape in
                  match clean with
                  | Some ns =>
                      let '(lg, em) := block_level_log N cfg maa opt sz (set_empty_seeds d1 x) cur (union_nat next ns) tape1 (x :: vis) in
                      (here ++ lg, x :: em)
                  | None =>
                      let '(lg, em) := block_level_log N cfg maa opt sz d1 cur (union_nat next succ) tape1 (x :: vis) in
                      (here ++ lg, em)
                  end
            end
        | _ => ([], [])
        end)).
  { unfold node_successors.
    pose proof (Termination.expand_one_result N cfg d x) as Hres.
    destruct (expand_one N cfg d x) as [d1 r0] eqn:Ee. simpl in Hres.
    destruct Hres as [Hres|Hres]; subst r0.
    2:{ left. exists d1, (RRaised ErrMotifLimit), next, tape, (x :: vis). split; [right; reflexivity|reflexivity]. }
    right. right. split; [reflexivity|]. exists d1.
    (* the plain cases: everything is handed over, nothing is logged *)
    assert (Hall : forall tp,
      exists ns b here tape1, (d1, RUnit) = (d1, RUnit) /\ norm_choice N maa d1 x (n_space (get d x)) ns b here /\
        block_level N cfg maa opt sz d1 cur (union_nat next (sort_nat (successors d1 x))) tp (x :: vis) =
        block_level N cfg maa opt sz (if b then set_empty_seeds d1 x else d1) cur (union_nat next ns) tape1 (x :: vis) /\
        block_level_log N cfg maa opt sz d1 cur (union_nat next (sort_nat (successors d1 x))) tp (x :: vis) =
        log_after here (if b then [x] else [])
          (block_level_log N cfg maa opt sz (if b then set_empty_seeds d1 x else d1) cur (union_nat next ns) tape1 (x :: vis))).
    { intro tp. exists (sort_nat (successors d1 x)), false, [], tp. split; [reflexivity|].
      split; [apply nc_all|]. split; [reflexivity|]. unfold log_after. simpl.
      destruct (block_level_log N cfg maa opt sz d1 cur (union_nat next (sort_nat (successors d1 x))) tp (x :: vis)).
      reflexivity. }
    assert (Hclean : maa = true -> forall tp,
      exists ns b here tape1, (d1, RUnit) = (d1, RUnit) /\ norm_choice N maa d1 x (n_space (get d x)) ns b here /\
        (let '(clean, tape1) :=
           first_clean (sort_blocks (minimal_blocks (group_blocks N d1 x (sort_nat (successors d1 x))))) tp in
         match clean with
         | Some ns => block_level N cfg maa opt sz (set_empty_seeds d1 x) cur (union_nat next ns) tape1 (x :: vis)
         | None => block_level N cfg maa opt sz d1 cur (union_nat next (sort_nat (successors d1 x))) tape1 (x :: vis)
         end) =
        block_level N cfg maa opt sz (if b then set_empty_seeds d1 x else d1) cur (union_nat next ns) tape1 (x :: vis) /\
        (let '(clean, tape1) :=
           first_clean (sort_blocks (minimal_blocks (group_blocks N d1 x (sort_nat (successors d1 x))))) tp in
         match clean with
         | Some ns =>
             let '(lg, em) := block_level_log N cfg maa opt sz (set_empty_seeds d1 x) cur (union_nat next ns) tape1 (x :: vis) in
             (first_clean_log (n_space (get d x)) (first_motif d1 x)
                (sort_blocks (minimal_blocks (group_blocks N d1 x (sort_nat (successors d1 x))))) tp ++ lg, x :: em)
         | None =>
             let '(lg, em) := block_level_log N cfg maa opt sz d1 cur (union_nat next (sort_nat (successors d1 x))) tape1 (x :: vis) in
             (first_clean_log (n_space (get d x)) (first_motif d1 x)
                (sort_blocks (minimal_blocks (group_blocks N d1 x (sort_nat (successors d1 x))))) tp ++ lg, em)
         end) =
        log_after here (if b then [x] else [])
          (block_level_log N cfg maa opt sz (if b then set_empty_seeds d1 x else d1) cur (union_nat next ns) tape1 (x :: vis))).
    { intros Hmaa tp.
      pose proof (first_clean_some_log (n_space (get d x)) (first_motif d1 x)
                    (sort_blocks (minimal_blocks (group_blocks N d1 x (sort_nat (successors d1 x))))) tp) as Hlog.
      destruct (first_clean (sort_blocks (minimal_blocks (group_blocks N d1 x (sort_nat (successors d1 x))))) tp)
        as [[ns|] tape1] eqn:Ef.
      - destruct (Hlog ns tape1 eq_refl) as (b & Hb & Hl).
        exists ns, true, (first_clean_log (n_space (get d x)) (first_motif d1 x)
                (sort_blocks (minimal_blocks (group_blocks N d1 x (sort_nat (successors d1 x))))) tp), tape1.
        split; [reflexivity|]. split.
        + apply (nc_block N maa d1 x _ b ns true); [apply sort_blocks_In; exact Hb| |discriminate].
          intros _. split; [exact Hmaa|exact Hl].
        + split; [reflexivity|]. unfold log_after.
          destruct (block_level_log N cfg maa opt sz (set_empty_seeds d1 x) cur (union_nat next ns) tape1 (x :: vis)).
          reflexivity.
      - exists (sort_nat (successors d1 x)), false,
          (first_clean_log (n_space (get d x)) (first_motif d1 x)
                (sort_blocks (minimal_blocks (group_blocks N d1 x (sort_nat (successors d1 x))))) tp), tape1.
        split; [reflexivity|]. split; [apply nc_all|]. split; [reflexivity|]. unfold log_after.
        destruct (block_level_log N cfg maa opt sz d1 cur (union_nat next (sort_nat (successors d1 x))) tape1 (x :: vis)).
        reflexivity. }
    destruct (sort_nat (successors d1 x)) as [|s [|s2 rest]] eqn:Esucc.
    - specialize (Hall tape). rewrite union_nat_nil in Hall. exact Hall.
    - destruct maa; simpl negb; cbv iota; [apply Hclean; reflexivity|apply Hall].
    - destruct maa; simpl negb; cbv iota; [apply Hclean; reflexivity|].
      pose proof (sort_blocks_nonempty _ (minimal_blocks_nonempty _
                    (group_blocks_nonempty N d1 x (s :: s2 :: rest) ltac:(discriminate)))) as Hne.
      destruct (sort_blocks (minimal_blocks (group_blocks N d1 x (s :: s2 :: rest)))) as [|[b ns] rb] eqn:Eb;
        [contradiction Hne; reflexivity|].
      exists ns, false, [], tape. split; [reflexivity|]. split.
      + apply (nc_block N false d1 x _ b ns false); [|discriminate|reflexivity].
        apply sort_blocks_In. rewrite Esucc, Eb. left. reflexivity.
      + split; [reflexivity|]. unfold log_after. simpl.
        destruct (block_level_log N cfg false opt sz d1 cur (union_nat next ns) tape (x :: vis)). reflexivity. }
  destruct (sources_in_b N (n_space (get d x))) as [|w srcs] eqn:Es.
  { simpl negb. cbv iota. simpl andb. cbv iota.
    destruct Hnormal as [H|[(_ & _ & H & _)|(_ & H)]]; [left; exact H|contradiction H; reflexivity|].
    right. right. split; [reflexivity|exact H]. }
  destruct opt; simpl negb; simpl andb; cbv iota.
  2:{ destruct Hnormal as [H|[(_ & H & _)|(_ & H)]]; [left; exact H|discriminate H|].
      right. right. split; [reflexivity|exact H]. }
  clear Hnormal NORMAL.
  destruct (Nat.ltb (max_motifs cfg) (size d + Nat.pow 2 (length (w :: srcs)))).
  { left. exists d, (RRaised ErrMotifLimit), next, tape, (x :: vis). split; [right; reflexivity|reflexivity]. }
  destruct (match sz with Some k => Nat.ltb k (size d + Nat.pow 2 (length (w :: srcs))) | None => false end).
  { left. exists d, (RBool false), next, tape, (x :: vis). split; [left; reflexivity|reflexivity]. }
  right. left. split; [reflexivity|]. split; [reflexivity|]. split; [discriminate|].
  unfold ff_step, ff_kids, ff_motifs. rewrite Es.
  pose proof (ensure_children_fst N (map (merge (n_space (get d x))) (source_valuations (nvars N) (w :: srcs))) d x [])
    as Hfst.
  destruct (ensure_children N d x (map (merge (n_space (get d x))) (source_valuations (nvars N) (w :: srcs))) [])
    as [d1 kids]. simpl in Hfst. subst d1. split; [reflexivity|]. unfold log_after. simpl.
  destruct (block_level_log N cfg maa true sz _ cur (union_nat next kids) tape (x :: vis)). reflexivity.
Qed.

(* ====================================================================== *)
(* PART 3 -- the blocks computed by group_blocks                           *)
(* ====================================================================== *)

Lemma same_set_spec : forall a b, same_set a b = true <-> (forall v, In v a <-> In v b).
Proof.
  intros a b. unfold same_set. rewrite andb_true_iff, !forallb_forall. split.
  - intros [H1 H2] v. split; intro Hv; apply BM_mem_nat_In; [apply H1|apply H2]; exact Hv.
  - intro H. split; intros v Hv; apply BM_mem_nat_In; apply H; exact Hv.
Qed.

Lemma same_set_refl : forall a, same_set a a = true.
Proof. intro a. apply same_set_spec. intro v. reflexivity. Qed.

Lemma same_set_sym : forall a b, same_set a b = true -> same_set b a = true.
Proof. intros a b H. apply same_set_spec. intro v. symmetry. apply (proj1 (same_set_spec a b) H). Qed.

Lemma same_set_trans : forall a b c, same_set a b = true -> same_set b c = true -> same_set a c = true.
Proof.
  intros a b c H1 H2. apply same_set_spec. intro v.
  rewrite (proj1 (same_set_spec a b) H1 v). apply (proj1 (same_set_spec b c) H2).
Qed.

Lemma same_set_sym_false : forall a b, same_set a b = false -> same_set b a = false.
Proof.
  intros a b H. destruct (same_set b a) eqn:E; [|reflexivity].
  apply same_set_sym in E. congruence.
Qed.

Definition blocks := list (list nat * list nat).

Lemma add_to_blocks_In : forall blk s (acc : blocks) b ns, In (b, ns) (add_to_blocks blk s acc) ->
  In (b, ns) acc \/
  (exists ns0, In (b, ns0) acc /\ ns = ns0 ++ [s] /\ same_set b blk = true) \/
  (b = blk /\ ns = [s] /\ forall e, In e acc -> same_set (fst e) blk = false).
Proof.
  intros blk s. induction acc as [|[b0 ns0] r IH]; intros b ns H; simpl in H.
  - destruct H as [H|[]]. injection H as H1 H2. right. right. split; [auto|]. split; [auto|]. intros e [].
  - destruct (same_set b0 blk) eqn:Es.
    + destruct H as [H|H].
      * injection H as H1 H2. subst b ns. right. left. exists ns0. split; [left; reflexivity|]. split; [reflexivity|exact Es].
      * left. right. exact H.
    + destruct H as [H|H]; [left; left; exact H|].
      destruct (IH b ns H) as [H1|[(n1 & H1 & H2 & H3)|(H1 & H2 & H3)]].
      * left. right. exact H1.
      * right. left. exists n1. split; [right; exact H1|]. split; assumption.
      * right. right. split; [exact H1|]. split; [exact H2|]. intros e [He|He]; [subst e; exact Es|apply H3; exact He].
Qed.

Lemma add_to_blocks_has : forall blk s (acc : blocks),
  exists b ns, In (b, ns) (add_to_blocks blk s acc) /\ In s ns.
Proof.
  intros blk s. induction acc as [|[b0 ns0] r IH]; simpl.
  - exists blk, [s]. split; left; reflexivity.
  - destruct (same_set b0 blk).
    + exists b0, (ns0 ++ [s]). split; [left; reflexivity|]. apply in_or_app. right. left. reflexivity.
    + destruct IH as (b & ns & H1 & H2). exists b, ns. split; [right; exact H1|exact H2].
Qed.

Lemma add_to_blocks_keeps : forall blk s (acc : blocks) b ns y, In (b, ns) acc -> In y ns ->
  exists ns', In (b, ns') (add_to_blocks blk s acc) /\ In y ns'.
Proof.
  intros blk s. induction acc as [|[b0 ns0] r IH]; intros b ns y H Hy; simpl; [destruct H|].
  destruct (same_set b0 blk).
  - destruct H as [H|H].
    + injection H as H1 H2. subst b0 ns0. exists (ns ++ [s]). split; [left; reflexivity|].
      apply in_or_app. left. exact Hy.
    + exists ns. split; [right; exact H|exact Hy].
  - destruct H as [H|H].
    + exists ns. split; [left; exact H|exact Hy].
    + destruct (IH b ns y H Hy) as (ns' & H1 & H2). exists ns'. split; [right; exact H1|exact H2].
Qed.

Fixpoint distinct_blocks (l : blocks) : Prop :=
  match l with
  | [] => True
  | e :: r => (forall e', In e' r -> same_set (fst e) (fst e') = false) /\ distinct_blocks r
  end.

Lemma add_to_blocks_distinct : forall blk s (acc : blocks), distinct_blocks acc ->
  distinct_blocks (add_to_blocks blk s acc).
Proof.
  intros blk s. induction acc as [|[b0 ns0] r IH]; intro H; simpl.
  - split; [intros e' []|exact I].
  - destruct H as [H1 H2]. destruct (same_set b0 blk) eqn:Es.
    + split; [exact H1|exact H2].
    + split; [|apply IH; exact H2].
      intros [b' ns'] He'. simpl.
      destruct (add_to_blocks_In blk s r b' ns' He') as [H3|[(n1 & H3 & _)|(H3 & _)]].
      * apply (H1 _ H3).
      * apply (H1 _ H3).
      * subst b'. exact Es.
Qed.

Lemma distinct_blocks_eq : forall (l : blocks) e1 e2, distinct_blocks l -> In e1 l -> In e2 l ->
  same_set (fst e1) (fst e2) = true -> e1 = e2.
Proof.
  induction l as [|e r IH]; intros e1 e2 Hd H1 H2 Hs; [destruct H1|].
  destruct Hd as [Hd1 Hd2]. destruct H1 as [H1|H1]; destruct H2 as [H2|H2].
  - congruence.
  - subst e1. rewrite (Hd1 e2 H2) in Hs. discriminate Hs.
  - subst e2. apply same_set_sym in Hs. rewrite (Hd1 e1 H1) in Hs. discriminate Hs.
  - apply IH; assumption.
Qed.

(* the grouping invariant *)
Definition GI (f : nat -> list nat) (acc : blocks) : Prop :=
  (forall b ns, In (b, ns) acc -> exists s0, In s0 ns /\ b = f s0) /\
  (forall b ns s, In (b, ns) acc -> In s ns -> same_set b (f s) = true) /\
  distinct_blocks acc.

Lemma GI_add : forall f s acc, GI f acc -> GI f (add_to_blocks (f s) s acc).
Proof.
  intros f s acc (Ha & Hb & Hd). split; [|split].
  - intros b ns H. destruct (add_to_blocks_In _ _ _ _ _ H) as [H1|[(n1 & H1 & H2 & _)|(H1 & H2 & _)]].
    + apply (Ha b ns H1).
    + destruct (Ha b n1 H1) as (s0 & Hs0 & Hb0). exists s0. split; [|exact Hb0].
      subst ns. apply in_or_app. left. exact Hs0.
    + exists s. subst b ns. split; [left; reflexivity|reflexivity].
  - intros b ns y H Hy. destruct (add_to_blocks_In _ _ _ _ _ H) as [H1|[(n1 & H1 & H2 & H3)|(H1 & H2 & _)]].
    + apply (Hb b ns y H1 Hy).
    + subst ns. apply in_app_or in Hy. destruct Hy as [Hy|[Hy|[]]].
      * apply (Hb b n1 y H1 Hy).
      * subst y. exact H3.
    + subst b ns. destruct Hy as [Hy|[]]. subst y. apply same_set_refl.
  - apply add_to_blocks_distinct. exact Hd.
Qed.

Definition grp (f : nat -> list nat) (l : list nat) (acc : blocks) : blocks :=
  fold_left (fun acc s => add_to_blocks (f s) s acc) l acc.

Lemma GI_grp : forall f l acc, GI f acc -> GI f (grp f l acc).
Proof.
  intros f. induction l as [|s l IH]; intros acc H; simpl; [exact H|]. apply IH. apply GI_add. exact H.
Qed.

Lemma grp_has : forall f l acc s,
  (In s l \/ exists b ns, In (b, ns) acc /\ In s ns) ->
  exists b ns, In (b, ns) (grp f l acc) /\ In s ns.
Proof.
  intros f. induction l as [|y l IH]; intros acc s H; simpl.
  - destruct H as [[]|H]. exact H.
  - apply IH. destruct H as [[H|H]|(b & ns & H1 & H2)].
    + subst y. right. apply add_to_blocks_has.
    + left. exact H.
    + right. destruct (add_to_blocks_keeps (f y) y acc b ns s H1 H2) as (ns' & H3 & H4).
      exists b, ns'. split; assumption.
Qed.

Definition blk_of (N : net) (d : sd) (x s : nat) : list nat :=
  block_of N (n_space (get d x)) (reduce_by (first_motif d x s) (n_space (get d x))).

Lemma group_blocks_grp : forall N d x succ, group_blocks N d x succ = grp (blk_of N d x) succ [].
Proof. reflexivity. Qed.

Lemma group_blocks_GI : forall N d x succ, GI (blk_of N d x) (group_blocks N d x succ).
Proof.
  intros N d x succ. rewrite group_blocks_grp. apply GI_grp.
  split; [intros b ns []|]. split; [intros b ns s []|exact I].
Qed.

Lemma group_blocks_has : forall N d x succ s, In s succ ->
  exists b ns, In (b, ns) (group_blocks N d x succ) /\ In s ns.
Proof. intros N d x succ s H. rewrite group_blocks_grp. apply grp_has. left. exact H. Qed.

Lemma minimal_blocks_incl : forall (G : blocks) e, In e (minimal_blocks G) -> In e G.
Proof.
  intros G e H. unfold minimal_blocks in H. destruct G as [|e1 [|e2 r]]; try exact H.
  apply filter_In in H. apply H.
Qed.

(* a block that contains a chosen (minimal) block's worth of variables is that block *)
Lemma minimal_blocks_sub : forall (G : blocks) e e', In e (minimal_blocks G) -> In e' G ->
  (forall v, In v (fst e') -> In v (fst e)) -> distinct_blocks G -> e' = e.
Proof.
  intros G e e' He He' Hsub Hd. pose proof (minimal_blocks_incl G e He) as HeG.
  apply (distinct_blocks_eq G e' e Hd He' HeG).
  unfold minimal_blocks in He. destruct G as [|e1 [|e2 r]].
  - destruct He.
  - destruct He as [He|[]]. destruct He' as [He'|[]]. subst e e'. apply same_set_refl.
  - apply filter_In in He. destruct He as [_ Hf]. apply negb_true_iff in Hf.
    assert (Hns : strict_subset (fst e') (fst e) = false).
    { destruct (strict_subset (fst e') (fst e)) eqn:Es; [|reflexivity].
      assert (Hex : existsb (fun b2 => strict_subset (fst b2) (fst e)) (e1 :: e2 :: r) = true)
        by (apply existsb_exists; exists e'; split; assumption).
      congruence. }
    unfold strict_subset in Hns. unfold same_set.
    assert (H1 : forallb (fun x => mem_nat x (fst e)) (fst e') = true).
    { apply forallb_forall. intros v Hv. apply BM_mem_nat_In. apply Hsub. exact Hv. }
    rewrite H1 in Hns |- *. simpl in Hns |- *. apply negb_false_iff in Hns. exact Hns.
Qed.

(* ====================================================================== *)
(* PART 4 -- what an expanded node settles, locally                        *)
(* ====================================================================== *)

Definition min_local (N : net) (d : sd) (x : nat) (P : list nat) : Prop :=
  forall M, min_trap N M -> subspace M (n_space (get d x)) = true ->
    n_space (get d x) = M \/
    exists c, In c (successors d x) /\ subspace M (n_space (get d c)) = true /\ In c P.
Definition attr_local (N : net) (d : sd) (x : nat) (P : list nat) : Prop :=
  forall A, attractor N A -> inside A (n_space (get d x)) ->
    owns N d x A \/
    exists c, In c (successors d x) /\ inside A (n_space (get d c)) /\ In c P.
Definition NoOwn (N : net) (d : sd) (x : nat) : Prop :=
  x < size d /\ n_exp (get d x) = true /\ forall A, ~ owns N d x A.

Lemma min_local_mono : forall N d x P P', (forall c, In c P -> In c P') ->
  min_local N d x P -> min_local N d x P'.
Proof.
  intros N d x P P' Hsub H M HM Hs. destruct (H M HM Hs) as [He|(c & H1 & H2 & H3)]; [left; exact He|].
  right. exists c. split; [exact H1|]. split; [exact H2|apply Hsub; exact H3].
Qed.

Lemma attr_local_mono : forall N d x P P', (forall c, In c P -> In c P') ->
  attr_local N d x P -> attr_local N d x P'.
Proof.
  intros N d x P P' Hsub H A HA Hs. destruct (H A HA Hs) as [He|(c & H1 & H2 & H3)]; [left; exact He|].
  right. exists c. split; [exact H1|]. split; [exact H2|apply Hsub; exact H3].
Qed.

(* small general facts (also in ASeedsFacts, re-proved to keep the imports of the spec) *)
Lemma bc_trap_has_attractor : forall N M, trap_space N M -> exists A, attractor N A /\ inside A M.
Proof.
  intros N M Htrap. pose proof (trap_space_length N M Htrap) as Hl.
  destruct (space_nonempty_wf N M Hl) as (s & Hwf & Hs).
  destruct (closed_contains_attractor N (sp_states N M) s (proj2 Htrap) (conj Hwf Hs) Hwf)
    as (t & [Hwt HtM] & Hat).
  exists (fun u => reach N t u). split; [apply in_attractor_closed_class; exact Hat|].
  intros u Hu. apply (trap_reach_inside N M t u Htrap Hwt HtM Hu).
Qed.

Lemma bc_intersect_sub_l : forall x y z, intersect x y = Some z -> subspace z x = true.
Proof.
  intros x y z H. apply subspace_spec; [apply (intersect_length x y z H)|].
  intros s Hs. rewrite (intersect_spec_some x y z H s) in Hs. apply andb_prop in Hs. apply Hs.
Qed.

Lemma bc_intersect_sub_r : forall x y z, intersect x y = Some z -> subspace z y = true.
Proof.
  intros x y z H. apply subspace_spec; [apply (intersect_length x y z H)|].
  intros s Hs. rewrite (intersect_spec_some x y z H s) in Hs. apply andb_prop in Hs. apply Hs.
Qed.

Lemma bc_min_trap_around_attractor : forall N M T A, min_trap N M -> trap_space N T -> attractor N A ->
  inside A M -> inside A T -> subspace M T = true.
Proof.
  intros N M T A [HtM Hmin] HtT Hatt HinM HinT. pose proof Hatt as ((s0 & Hs0) & _).
  destruct (intersect M T) as [Z|] eqn:EZ.
  - pose proof (trap_space_intersect N M T Z HtM HtT EZ) as HtZ.
    rewrite <- (Hmin Z HtZ (bc_intersect_sub_l M T Z EZ)). apply (bc_intersect_sub_r M T Z EZ).
  - exfalso.
    assert (Hl : length M = length T)
      by (rewrite (trap_space_length N M HtM), (trap_space_length N T HtT); reflexivity).
    pose proof (intersect_spec_none M T Hl EZ s0) as Hn.
    rewrite (HinM s0 Hs0), (HinT s0 Hs0) in Hn. discriminate Hn.
Qed.

(* motifs of the out-edges lead to successors *)
Lemma out_motif_edge : forall N d x m, SWF N d -> In m (out_motifs d x) ->
  exists c, In c (successors d x) /\ percolate_b N m = n_space (get d c) /\ length m = nvars N.
Proof.
  intros N d x m Hswf Hm. unfold out_motifs in Hm. apply in_flat_map in Hm. destruct Hm as (e & He & Hme).
  apply out_edges_In in He. destruct He as [He Hsrc].
  exists (e_dst e). split.
  - apply In_successors. exists e. split; [exact He|]. split; [exact Hsrc|reflexivity].
  - destruct (swf_motif N d Hswf e m He Hme) as [H1 H2]. split; assumption.
Qed.

Lemma canon_motif : forall N d x m, SWF N d -> x < size d -> canonical N d x -> In m (out_motifs d x) ->
  In m (max_traps_b N (n_space (get d x)) (node_srcs N x)) /\ trap_space N m /\
  strict_subspace m (n_space (get d x)).
Proof.
  intros N d x m Hswf Hx Hcan Hm. unfold canonical in Hcan.
  assert (Hmax : In m (max_traps_b N (n_space (get d x)) (node_srcs N x)))
    by (eapply Permutation_in; [exact Hcan|exact Hm]).
  split; [exact Hmax|]. apply (max_traps_b_trap N _ _ m (swf_space_len N d x Hswf Hx) Hmax).
Qed.

Lemma first_motif_spec : forall N d x s, SWF N d -> In s (successors d x) ->
  In (first_motif d x s) (out_motifs d x) /\ percolate_b N (first_motif d x s) = n_space (get d s).
Proof.
  intros N d x s Hswf Hs. destruct (successor_edge d x s Hs) as (e & He & Hsrc & Hdst).
  unfold first_motif.
  destruct (find (fun e0 => Nat.eqb (e_src e0) x && Nat.eqb (e_dst e0) s) (sd_edges d)) as [e'|] eqn:Ef.
  - apply find_some in Ef. destruct Ef as [He' Hp]. apply andb_prop in Hp. destruct Hp as [H1 H2].
    apply Nat.eqb_eq in H1. apply Nat.eqb_eq in H2.
    destruct (swf_edges N d Hswf e' He') as (_ & _ & Hne).
    destruct (e_motifs e') as [|m0 r] eqn:Em; [contradiction Hne; reflexivity|]. simpl.
    assert (Hm : In m0 (e_motifs e')) by (rewrite Em; left; reflexivity).
    split.
    + unfold out_motifs. apply in_flat_map. exists e'. split; [|exact Hm].
      apply out_edges_In. split; assumption.
    + rewrite <- H2. apply (swf_motif N d Hswf e' m0 He' Hm).
  - exfalso. pose proof (find_none _ _ Ef e He) as Hn. simpl in Hn.
    rewrite Hsrc, Hdst, !Nat.eqb_refl in Hn. discriminate Hn.
Qed.

(* L1: every successor is handed over *)
Lemma canon_min_local : forall N d x, SWF N d -> TrapNodes N d -> x < size d -> canonical N d x ->
  min_local N d x (successors d x).
Proof.
  intros N d x Hswf Htn Hx Hcan M HM Hsub.
  destruct (eqb_space (n_space (get d x)) M) eqn:Eq; [left; apply eqb_space_spec; exact Eq|right].
  assert (Hstrict : strict_subspace M (n_space (get d x))).
  { split; [exact Hsub|]. intro Heq. rewrite Heq in Eq.
    rewrite (proj2 (eqb_space_spec _ _) eq_refl) in Eq. discriminate Eq. }
  destruct (closed_trap_below_child N (n_space (get d x)) M (node_srcs N x)
              (TrapNodes_get N d x Htn Hx) (swf_space_len N d x Hswf Hx) (proj1 HM)
              (min_trap_closed N M HM) Hstrict (min_trap_fixes_node_srcs N M x HM))
    as (M' & HM' & HsubM).
  assert (Hout : In M' (out_motifs d x)).
  { unfold canonical in Hcan. eapply Permutation_in; [apply Permutation_sym; exact Hcan|exact HM']. }
  destruct (out_motif_edge N d x M' Hswf Hout) as (c & Hc & Hperc & _).
  rewrite Hperc in HsubM. exists c. split; [exact Hc|]. split; [exact HsubM|exact Hc].
Qed.

Lemma motifs_attr_local : forall N d x, SWF N d -> x < size d ->
  (forall m, In m (out_motifs d x) -> trap_space N m) ->
  attr_local N d x (successors d x).
Proof.
  intros N d x Hswf Hx Htrap A Hatt Hin. pose proof Hatt as ((s0 & Hs0) & _).
  destruct (existsb (inside_b (reach_list N s0)) (out_motifs d x)) eqn:Ex.
  - right. apply existsb_exists in Ex. destruct Ex as (m & Hm & Hb).
    apply (inside_b_iff N A s0 m Hatt Hs0) in Hb.
    destruct (out_motif_edge N d x m Hswf Hm) as (c & Hc & Hperc & _).
    exists c. split; [exact Hc|]. split; [|exact Hc].
    rewrite <- Hperc. unfold inside. apply (attractor_in_percolation N A m Hatt (Htrap m Hm)). exact Hb.
  - left. split; [exact Hx|]. split; [exact Hatt|]. split; [exact Hin|].
    intros (M & HM & HinM). apply F_existsb_false in Ex. apply Ex.
    exists M. split; [exact HM|]. apply (inside_b_iff N A s0 M Hatt Hs0). exact HinM.
Qed.

Lemma canon_attr_local : forall N d x, SWF N d -> x < size d -> canonical N d x ->
  attr_local N d x (successors d x).
Proof.
  intros N d x Hswf Hx Hcan. apply motifs_attr_local; try assumption.
  intros m Hm. apply (canon_motif N d x m Hswf Hx Hcan Hm).
Qed.

(* ---------- blocks of a canonical node ---------- *)

Section CanonicalNode.
  Variable N : net.
  Variable d : sd.
  Variable x : nat.
  Hypothesis Hswf : SWF N d.
  Hypothesis Htn : TrapNodes N d.
  Hypothesis Hx : x < size d.
  Hypothesis Hcan : canonical N d x.

  Let sp := n_space (get d x).
  Let srcs := node_srcs N x.
  Let G := group_blocks N d x (sort_nat (successors d x)).

  Lemma sp_len : length sp = nvars N.
  Proof. apply (swf_space_len N d x Hswf Hx). Qed.

  Lemma sp_trap : trap_space N sp.
  Proof. apply (TrapNodes_get N d x Htn Hx). Qed.

  Lemma succ_first_motif : forall s, In s (successors d x) ->
    In (first_motif d x s) (max_traps_b N sp srcs) /\ trap_space N (first_motif d x s) /\
    length (first_motif d x s) = nvars N /\ subspace (first_motif d x s) sp = true /\
    percolate_b N (first_motif d x s) = n_space (get d s).
  Proof.
    intros s Hs. destruct (first_motif_spec N d x s Hswf Hs) as [Hout Hperc].
    destruct (canon_motif N d x _ Hswf Hx Hcan Hout) as (Hmax & Htrap & Hstrict).
    split; [exact Hmax|]. split; [exact Htrap|].
    split; [rewrite (max_traps_b_length N _ _ _ Hmax); apply sp_len|].
    split; [apply Hstrict|exact Hperc].
  Qed.

  Lemma blk_of_closed : forall s, In s (successors d x) ->
    closed_in N sp (blk_of N d x s) /\ fixes_within (first_motif d x s) sp (blk_of N d x s).
  Proof.
    intros s Hs. destruct (succ_first_motif s Hs) as (_ & _ & Hlen & Hsub & _).
    apply (block_of_closed N sp (first_motif d x s) sp_trap Hlen Hsub).
  Qed.

  Lemma G_entry : forall blk ns, In (blk, ns) G ->
    (exists s0, In s0 ns /\ blk = blk_of N d x s0) /\
    (forall s, In s ns -> In s (successors d x) /\ same_set blk (blk_of N d x s) = true).
  Proof.
    intros blk ns Hin. destruct (group_blocks_GI N d x (sort_nat (successors d x))) as (Ha & Hb & _).
    split; [apply (Ha blk ns Hin)|]. intros s Hs. split.
    - apply sort_nat_In. apply (group_blocks_in N d x (sort_nat (successors d x)) blk ns Hin s Hs).
    - apply (Hb blk ns s Hin Hs).
  Qed.

  Lemma G_entry_closed : forall blk ns, In (blk, ns) G -> closed_in N sp blk.
  Proof.
    intros blk ns Hin. destruct (G_entry blk ns Hin) as ((s0 & Hs0 & Hb) & Hall). subst blk.
    apply blk_of_closed. apply (Hall s0 Hs0).
  Qed.

  Lemma G_member_fixes : forall blk ns s, In (blk, ns) G -> In s ns ->
    fixes_within (first_motif d x s) sp blk.
  Proof.
    intros blk ns s Hin Hs. destruct (G_entry blk ns Hin) as (_ & Hall). destruct (Hall s Hs) as [Hsucc Hsame].
    destruct (blk_of_closed s Hsucc) as [_ Hfix]. intros v Hv Hne.
    apply (proj1 (same_set_spec _ _) Hsame v). apply (Hfix v Hv Hne).
  Qed.

  Lemma srcs_in_block : forall blk s0, In s0 (successors d x) ->
    fixes_within (first_motif d x s0) sp blk ->
    forall v, In v srcs -> nth v sp None = None -> In v blk.
  Proof.
    intros blk s0 Hs0 Hfix v Hv Hfree. destruct (succ_first_motif s0 Hs0) as (Hmax & _).
    apply (max_traps_b_spec_srcs N sp srcs _ sp_len) in Hmax. destruct Hmax as (_ & _ & Hfa & _).
    unfold fixes_all in Hfa. rewrite forallb_forall in Hfa. pose proof (Hfa v Hv) as Hfv.
    apply Hfix.
    - rewrite sp_len. unfold srcs, node_srcs in Hv. destruct (Nat.eqb x 0); [|destruct Hv].
      apply in_sources_b in Hv. apply Hv.
    - rewrite Hfree. destruct (nth v (first_motif d x s0) None); [discriminate|discriminate Hfv].
  Qed.

  (* the block of a motif whose new fixed variables lie in a closed block is included in that block *)
  Lemma blk_of_least : forall blk s, In s (successors d x) -> closed_in N sp blk ->
    fixes_within (first_motif d x s) sp blk -> forall v, In v (blk_of N d x s) -> In v blk.
  Proof.
    intros blk s Hs Hcl Hfix v Hv. destruct (succ_first_motif s Hs) as (_ & _ & Hlen & _).
    assert (Hll : length (first_motif d x s) = length sp) by (rewrite Hlen, sp_len; reflexivity).
    unfold blk_of, block_of in Hv. fold sp in Hv. apply sort_nat_In in Hv.
    apply (bwd_closure_least N sp _ blk Hcl) in Hv; [exact Hv|].
    intros w Hw. apply filter_In in Hw. destruct Hw as [Hw1 Hw2]. apply in_seq in Hw1.
    rewrite (reduce_by_length _ _ Hll) in Hw1. apply negb_true_iff in Hw2.
    unfold free_in in Hw2. rewrite (nth_reduce_by _ _ w Hll) in Hw2.
    apply Hfix; [lia|]. destruct (nth w sp None) as [b|]; [discriminate Hw2|].
    destruct (nth w (first_motif d x s) None); [discriminate|discriminate Hw2].
  Qed.

  (* L2: a minimal block keeps every minimal trap space *)
  Lemma block_min_local : forall blk ns, In (blk, ns) (minimal_blocks G) -> min_local N d x ns.
  Proof.
    intros blk ns Hmin M HM Hsub. pose proof (minimal_blocks_incl G _ Hmin) as HinG.
    destruct (eqb_space sp M) eqn:Eq; [left; apply eqb_space_spec; exact Eq|right].
    pose proof (G_entry_closed blk ns HinG) as Hcl.
    destruct (G_entry blk ns HinG) as ((s0 & Hs0 & Hb0) & Hall).
    destruct (Hall s0 Hs0) as [Hs0succ _].
    pose proof (G_member_fixes blk ns s0 HinG Hs0) as Hfix0.
    destruct (succ_first_motif s0 Hs0succ) as (Hmax0 & _).
    pose proof (srcs_in_block blk s0 Hs0succ Hfix0) as Hsrc.
    destruct (min_trap_in_block N sp srcs blk (first_motif d x s0) M sp_trap Hcl Hmax0 Hfix0 HM Hsub
                (min_trap_fixes_node_srcs N M x HM) Hsrc) as (T & HT & HMT & HfixT).
    assert (HoutT : In T (out_motifs d x)).
    { unfold canonical in Hcan. eapply Permutation_in; [apply Permutation_sym; exact Hcan|exact HT]. }
    destruct (out_motif_edge N d x T Hswf HoutT) as (c & Hc & HpercT & HlenT).
    destruct (succ_first_motif c Hc) as (Hmax1 & _ & _ & _ & Hperc1).
    assert (Hfix1 : fixes_within (first_motif d x c) sp blk).
    { apply (same_child_same_block N sp srcs blk T (first_motif d x c) sp_trap
               (swf_closed N d Hswf _ (get_In d x Hx)) Hcl HT Hmax1 Hsrc HfixT).
      rewrite Hperc1, HpercT. reflexivity. }
    pose proof (blk_of_least blk c Hc Hcl Hfix1) as Hleast.
    destruct (group_blocks_has N d x (sort_nat (successors d x)) c (sort_nat_In_rev c _ Hc))
      as (b' & ns' & Hin' & Hcns').
    fold G in Hin'. destruct (G_entry b' ns' Hin') as (_ & Hall'). destruct (Hall' c Hcns') as [_ Hsame'].
    assert (Heq : (b', ns') = (blk, ns)).
    { apply (minimal_blocks_sub G (blk, ns) (b', ns') Hmin Hin').
      - simpl. intros v Hv. apply Hleast. apply (proj1 (same_set_spec _ _) Hsame' v). exact Hv.
      - apply (group_blocks_GI N d x (sort_nat (successors d x))). }
    injection Heq as _ Hns. subst ns'.
    exists c. split; [exact Hc|]. split; [|exact Hcns'].
    rewrite <- HpercT. rewrite <- (min_trap_closed N M HM).
    apply (percolate_mono_weak N M T (proj1 HM)); [apply (trap_space_length N M (proj1 HM))|exact HlenT|exact HMT].
  Qed.

  (* L3: with a clean block every attractor moves on into a successor of the block *)
  Lemma block_attr_local : forall blk ns, In (blk, ns) (minimal_blocks G) ->
    block_clean N sp blk (map (first_motif d x) ns) ->
    forall A, attractor N A -> inside A sp ->
      (exists c, In c (successors d x) /\ inside A (n_space (get d c)) /\ In c ns) /\ ~ owns N d x A.
  Proof.
    intros blk ns Hmin Hclean A Hatt Hin. pose proof (minimal_blocks_incl G _ Hmin) as HinG.
    pose proof (G_entry_closed blk ns HinG) as Hcl.
    destruct (G_entry blk ns HinG) as (_ & Hall).
    destruct (clean_block_covers N sp blk (map (first_motif d x) ns) sp_trap Hcl) with (A := A)
      as (m & Hm & HinM); try assumption.
    { intros m Hm. apply in_map_iff in Hm. destruct Hm as (s & Hms & Hs). subst m.
      destruct (Hall s Hs) as [Hsucc _]. destruct (succ_first_motif s Hsucc) as (_ & _ & Hlen & Hsub & _).
      split; [exact Hlen|]. split; [exact Hsub|]. apply (G_member_fixes blk ns s HinG Hs). }
    apply in_map_iff in Hm. destruct Hm as (s & Hms & Hs). subst m.
    destruct (Hall s Hs) as [Hsucc _]. destruct (succ_first_motif s Hsucc) as (_ & Htrap & _ & _ & Hperc).
    split.
    - exists s. split; [exact Hsucc|]. split; [|exact Hs].
      rewrite <- Hperc. unfold inside. apply (attractor_in_percolation N A _ Hatt Htrap). exact HinM.
    - intros [_ (_ & _ & Hno)]. apply Hno. exists (first_motif d x s). split; [|exact HinM].
      apply (first_motif_spec N d x s Hswf Hsucc).
  Qed.
End CanonicalNode.

(* ---------- the fast-forwarded node ---------- *)

Lemma ensure_node_succ : forall N d p m c, In c (successors (fst (ensure_node N d (Some p) m)) p) ->
  In c (successors d p) \/ c = snd (ensure_node N d (Some p) m).
Proof.
  intros N d p m c Hc. apply In_successors in Hc. destruct Hc as (e & He & Hsrc & Hdst).
  rewrite sd_edges_ensure_child in He. apply edge_added_In in He. destruct He as [He|[_ Hd]].
  - left. apply In_successors. exists e. split; [exact He|]. split; assumption.
  - right. congruence.
Qed.

Lemma ensure_children_nil : forall N d p acc, ensure_children N d p [] acc = (d, acc).
Proof. reflexivity. Qed.

Lemma ensure_children_acc : forall N subs d p acc a, In a acc ->
  In a (snd (ensure_children N d p subs acc)).
Proof.
  intros N subs. induction subs as [|m r IH]; intros d p acc a Ha.
  - rewrite ensure_children_nil. exact Ha.
  - rewrite ensure_children_cons. apply IH. apply in_or_app. left. exact Ha.
Qed.

Lemma ensure_children_succ : forall N subs d p acc c, In c (successors (ensure_all N d p subs) p) ->
  In c (successors d p) \/ In c (snd (ensure_children N d p subs acc)).
Proof.
  intros N subs. induction subs as [|m r IH]; intros d p acc c Hc.
  - left. exact Hc.
  - rewrite ensure_all_cons in Hc. rewrite ensure_children_cons.
    destruct (IH _ p (acc ++ [snd (ensure_node N d (Some p) m)]) c Hc) as [H|H]; [|right; exact H].
    destruct (ensure_node_succ N d p m c H) as [H1|H1]; [left; exact H1|right].
    apply ensure_children_acc. apply in_or_app. right. left. symmetry. exact H1.
Qed.

Lemma ff_succ_kids : forall N d x c, NoStubEdges d -> n_exp (get d x) = false ->
  In c (successors (ff_step N d x) x) -> In c (ff_kids N d x).
Proof.
  intros N d x c Hn Hex Hc. unfold successors in Hc. rewrite sd_edges_ff_step in Hc.
  fold (successors (ensure_all N d x (ff_motifs N (n_space (get d x)))) x) in Hc.
  destruct (ensure_children_succ N _ d x [] c Hc) as [H|H]; [|exact H].
  rewrite successors_out, (NoStub_out_empty d x Hn Hex) in H. destruct H.
Qed.

Lemma ff_local : forall N d x, SWF N d -> TrapNodes N d -> NoStubEdges d -> x < size d ->
  n_exp (get d x) = false -> sources_in_b N (n_space (get d x)) <> [] ->
  attr_local N (ff_step N d x) x (ff_kids N d x) /\ min_local N (ff_step N d x) x (ff_kids N d x) /\
  NoOwn N (ff_step N d x) x.
Proof.
  intros N d x Hswf Htn Hn Hx Hex Hsrc.
  pose proof (ff_step_SWF N d x Hswf Hx) as Hswf'.
  pose proof (ff_step_TrapNodes N d x Hswf Htn Hx) as Htn'.
  pose proof (extends_space d _ x (ff_step_extends N d x) Hx) as Hsp.
  pose proof (extends_lt d _ x (ff_step_extends N d x) Hx) as Hx'.
  assert (Hattr : forall A, attractor N A -> inside A (n_space (get (ff_step N d x) x)) ->
            exists c, In c (successors (ff_step N d x) x) /\
                      inside A (n_space (get (ff_step N d x) c)) /\ In c (ff_kids N d x)).
  { intros A Hatt Hin. rewrite Hsp in Hin.
    destruct (attractor_in_ff_motif N A _ (swf_space_len N d x Hswf Hx) Hatt Hin) as (m & Hm & Hinm).
    assert (Hout : In m (out_motifs (ff_step N d x) x)).
    { eapply Permutation_in; [apply Permutation_sym; apply out_motifs_ff_step; assumption|exact Hm]. }
    destruct (out_motif_edge N _ x m Hswf' Hout) as (c & Hc & Hperc & _).
    exists c. split; [exact Hc|]. split; [|apply ff_succ_kids; assumption].
    rewrite <- Hperc. unfold inside.
    apply (attractor_in_percolation N A m Hatt (ff_motif_trap N _ m (TrapNodes_get N d x Htn Hx) Hm)).
    exact Hinm. }
  split; [|split].
  - intros A Hatt Hin. right. apply Hattr; assumption.
  - intros M HM Hsub. right.
    destruct (bc_trap_has_attractor N M (proj1 HM)) as (A & Hatt & HinM).
    destruct (Hattr A Hatt (inside_sub A M _ HinM Hsub)) as (c & Hc & Hinc & Hk).
    exists c. split; [exact Hc|]. split; [|exact Hk].
    apply (bc_min_trap_around_attractor N M _ A HM); try assumption.
    apply (TrapNodes_get N _ c Htn'). apply (successor_lt N _ x c Hswf' Hc).
  - split; [exact Hx'|]. split; [apply n_exp_ff_step; exact Hx|].
    intros A Hown. pose proof Hown as [_ (Hatt & _)].
    apply (ff_form_owns_nothing N _ x A Hswf' Htn' Hx' (ff_step_ff_form N d x Hn Hx Hex Hsrc) Hatt Hown).
Qed.

(* ====================================================================== *)
(* PART 5 -- one node of a level: frame and work-list invariants           *)
(* ====================================================================== *)

Definition frame (d d' : sd) (x : nat) : Prop :=
  extends d d' /\
  (forall j, j < size d -> j <> x -> out_edges d' j = out_edges d j /\ n_exp (get d' j) = n_exp (get d j)) /\
  (forall j, size d <= j -> j < size d' -> n_exp (get d' j) = false) /\
  n_exp (get d' x) = true.

Lemma frame_expand : forall N cfg d x d1, 1 <= max_motifs cfg -> SWF N d -> NoStubEdges d -> x < size d ->
  n_exp (get d x) = false -> expand_one N cfg d x = (d1, RUnit) -> frame d d1 x.
Proof.
  intros N cfg d x d1 Hmm Hswf Hn Hx Hex E.
  pose proof (expand_one_extends N cfg d x) as Hext.
  pose proof (expand_one_new_unexp N cfg d x) as Hnew. rewrite E in Hext, Hnew. simpl in Hext, Hnew.
  destruct (expand_one_canonical N cfg d x d1 Hswf Hn Hx Hex Hmm E) as (H1 & _ & _ & H4).
  split; [exact Hext|]. split; [|split; [|exact H1]].
  - intros j Hj Hne. destruct (H4 j Hj Hne) as (A & B & _). split; assumption.
  - intros j Hj _. apply Hnew. exact Hj.
Qed.

Lemma frame_seeds : forall d d1 x, frame d d1 x -> frame d (set_empty_seeds d1 x) x.
Proof.
  intros d d1 x (H1 & H2 & H3 & H4). split; [|split; [|split]].
  - eapply extends_trans; [exact H1|apply set_empty_seeds_extends].
  - intros j Hj Hne. rewrite (out_edges_same_edges d1) by apply sd_edges_set_empty_seeds.
    rewrite n_exp_set_empty_seeds. apply H2; assumption.
  - intros j Hj Hlt. rewrite size_set_empty_seeds in Hlt. rewrite n_exp_set_empty_seeds. apply H3; assumption.
  - rewrite n_exp_set_empty_seeds. exact H4.
Qed.

Lemma frame_ff : forall N d x, x < size d -> frame d (ff_step N d x) x.
Proof.
  intros N d x Hx. split; [apply ff_step_extends|]. split; [|split].
  - intros j Hj Hne. destruct (ff_step_other N d x j Hj Hne) as (A & _ & B & _). split; assumption.
  - intros j Hle Hlt. apply ff_step_new; assumption.
  - apply n_exp_ff_step. exact Hx.
Qed.

Lemma successors_same_out : forall d d' y, out_edges d' y = out_edges d y -> successors d' y = successors d y.
Proof. intros d d' y H. rewrite !successors_out, H. reflexivity. Qed.

Lemma owns_same : forall N d d' y A, out_edges d' y = out_edges d y ->
  n_space (get d' y) = n_space (get d y) -> y < size d' -> owns N d y A -> owns N d' y A.
Proof.
  intros N d d' y A Ho Hs Hy [_ H]. split; [exact Hy|]. unfold out_motifs in *. rewrite Ho, Hs. exact H.
Qed.

Lemma frame_old : forall d d' x y, frame d d' x -> y < size d' -> n_exp (get d' y) = true -> y <> x ->
  y < size d /\ n_exp (get d y) = true /\ out_edges d' y = out_edges d y /\
  n_space (get d' y) = n_space (get d y).
Proof.
  intros d d' x y (H1 & H2 & H3 & _) Hy Hexp Hne.
  destruct (lt_dec y (size d)) as [Hlt|Hge]; [|rewrite H3 in Hexp by lia; discriminate Hexp].
  destruct (H2 y Hlt Hne) as [A B]. split; [exact Hlt|]. split; [rewrite <- B; exact Hexp|].
  split; [exact A|apply (extends_space d d' y H1 Hlt)].
Qed.

Lemma ext_exp : forall d d' i, extends d d' -> i < size d -> n_exp (get d i) = true -> n_exp (get d' i) = true.
Proof. intros d d' i (_ & _ & H & _) Hi He. apply H; assumption. Qed.

Lemma min_good_step : forall N d d' x P P', SWF N d -> frame d d' x ->
  min_good N d (x :: P) -> min_local N d' x P' -> (forall c, In c P -> In c P') -> min_good N d' P'.
Proof.
  intros N d d' x P P' Hswf Hfr Hgood Hloc Hsub y M Hy Hexp HM Hs.
  destruct (Nat.eq_dec y x) as [Heq|Hne].
  - subst y. destruct (Hloc M HM Hs) as [He|(c & H1 & H2 & H3)]; [left; exact He|].
    right. exists c. split; [exact H1|]. split; [exact H2|right; exact H3].
  - destruct (frame_old d d' x y Hfr Hy Hexp Hne) as (Hyd & Hexpd & Ho & Hsp).
    pose proof Hfr as (Hext & _ & _ & Hxexp).
    rewrite Hsp in Hs |- *. rewrite (successors_same_out d d' y Ho).
    destruct (Hgood y M Hyd Hexpd HM Hs) as [He|(c & H1 & H2 & H3)]; [left; exact He|].
    right. exists c. split; [exact H1|].
    pose proof (successor_lt N d y c Hswf H1) as Hc.
    rewrite (extends_space d d' c Hext Hc). split; [exact H2|].
    destruct H3 as [H3|[H3|H3]].
    + left. apply (ext_exp d d' c Hext Hc H3).
    + left. subst c. exact Hxexp.
    + right. apply Hsub. exact H3.
Qed.

Lemma attr_good_step : forall N d d' x P P', SWF N d -> frame d d' x ->
  attr_good N d (x :: P) -> attr_local N d' x P' -> (forall c, In c P -> In c P') -> attr_good N d' P'.
Proof.
  intros N d d' x P P' Hswf Hfr Hgood Hloc Hsub y A Hy Hexp HA Hs.
  destruct (Nat.eq_dec y x) as [Heq|Hne].
  - subst y. destruct (Hloc A HA Hs) as [He|(c & H1 & H2 & H3)]; [left; exact He|].
    right. exists c. split; [exact H1|]. split; [exact H2|right; exact H3].
  - destruct (frame_old d d' x y Hfr Hy Hexp Hne) as (Hyd & Hexpd & Ho & Hsp).
    pose proof Hfr as (Hext & _ & _ & Hxexp).
    rewrite Hsp in Hs. rewrite (successors_same_out d d' y Ho).
    destruct (Hgood y A Hyd Hexpd HA Hs) as [He|(c & H1 & H2 & H3)].
    + left. apply (owns_same N d d' y A Ho Hsp Hy He).
    + right. exists c. split; [exact H1|].
      pose proof (successor_lt N d y c Hswf H1) as Hc.
      rewrite (extends_space d d' c Hext Hc). split; [exact H2|].
      destruct H3 as [H3|[H3|H3]].
      * left. apply (ext_exp d d' c Hext Hc H3).
      * left. subst c. exact Hxexp.
      * right. apply Hsub. exact H3.
Qed.

Lemma min_good_skip : forall N d x P, n_exp (get d x) = true -> min_good N d (x :: P) -> min_good N d P.
Proof.
  intros N d x P Hx H y M Hy Hexp HM Hs. destruct (H y M Hy Hexp HM Hs) as [He|(c & H1 & H2 & H3)];
    [left; exact He|]. right. exists c. split; [exact H1|]. split; [exact H2|].
  destruct H3 as [H3|[H3|H3]]; [left; exact H3|left; subst c; exact Hx|right; exact H3].
Qed.

Lemma attr_good_skip : forall N d x P, n_exp (get d x) = true -> attr_good N d (x :: P) -> attr_good N d P.
Proof.
  intros N d x P Hx H y A Hy Hexp HA Hs. destruct (H y A Hy Hexp HA Hs) as [He|(c & H1 & H2 & H3)];
    [left; exact He|]. right. exists c. split; [exact H1|]. split; [exact H2|].
  destruct H3 as [H3|[H3|H3]]; [left; exact H3|left; subst c; exact Hx|right; exact H3].
Qed.

(* expanded nodes keep their out-edges *)
Definition stable (d d' : sd) : Prop :=
  extends d d' /\ forall y, y < size d -> n_exp (get d y) = true -> out_edges d' y = out_edges d y.

Lemma stable_refl : forall d, stable d d.
Proof. intro d. split; [apply extends_refl|]. intros; reflexivity. Qed.

Lemma stable_trans : forall d1 d2 d3, stable d1 d2 -> stable d2 d3 -> stable d1 d3.
Proof.
  intros d1 d2 d3 [E1 H1] [E2 H2]. split; [eapply extends_trans; eauto|].
  intros y Hy Hexp. rewrite H2; [apply H1; assumption|eapply extends_lt; eauto|apply (ext_exp d1 d2 y E1 Hy Hexp)].
Qed.

Lemma frame_stable : forall d d' x, frame d d' x -> n_exp (get d x) = false -> stable d d'.
Proof.
  intros d d' x (H1 & H2 & _) Hex. split; [exact H1|]. intros y Hy Hexp.
  apply H2; [exact Hy|]. intro Heq. subst y. congruence.
Qed.

Lemma NoOwn_stable : forall N d d' y, stable d d' -> NoOwn N d y -> NoOwn N d' y.
Proof.
  intros N d d' y [He Hs] (Hy & Hexp & Hno).
  split; [eapply extends_lt; eauto|]. split; [apply (ext_exp d d' y He Hy Hexp)|].
  intros A Hown. apply (Hno A).
  apply (owns_same N d' d y A); [symmetry; apply Hs; assumption|symmetry; apply (extends_space d d' y He Hy)|exact Hy|exact Hown].
Qed.

(* ====================================================================== *)
(* PART 6 -- the loop invariant                                            *)
(* ====================================================================== *)

Definition LInv (N : net) (maa : bool) (d : sd) (P : list nat) : Prop :=
  SWF N d /\ TrapNodes N d /\ NoStubEdges d /\ ids_ok d P /\ (n_exp (get d 0) = true \/ In 0 P) /\
  min_good N d P /\ (maa = true -> attr_good N d P).

Lemma min_good_mono : forall N d P P', (forall c, In c P -> In c P') -> min_good N d P -> min_good N d P'.
Proof.
  intros N d P P' Hsub H y M Hy Hexp HM Hs. destruct (H y M Hy Hexp HM Hs) as [He|(c & H1 & H2 & H3)];
    [left; exact He|]. right. exists c. split; [exact H1|]. split; [exact H2|].
  destruct H3 as [H3|H3]; [left; exact H3|right; apply Hsub; exact H3].
Qed.

Lemma attr_good_mono : forall N d P P', (forall c, In c P -> In c P') -> attr_good N d P -> attr_good N d P'.
Proof.
  intros N d P P' Hsub H y A Hy Hexp HA Hs. destruct (H y A Hy Hexp HA Hs) as [He|(c & H1 & H2 & H3)];
    [left; exact He|]. right. exists c. split; [exact H1|]. split; [exact H2|].
  destruct H3 as [H3|H3]; [left; exact H3|right; apply Hsub; exact H3].
Qed.

Lemma LInv_ext : forall N maa d P P', (forall c, In c P <-> In c P') -> LInv N maa d P -> LInv N maa d P'.
Proof.
  intros N maa d P P' Hiff (H1 & H2 & H3 & H4 & H5 & H6 & H7).
  split; [exact H1|]. split; [exact H2|]. split; [exact H3|].
  split; [intros y Hy; apply H4; apply Hiff; exact Hy|].
  split; [destruct H5 as [H5|H5]; [left; exact H5|right; apply Hiff; exact H5]|].
  split; [apply (min_good_mono N d P); [intros c Hc; apply Hiff; exact Hc|exact H6]|].
  intro Hm. apply (attr_good_mono N d P); [intros c Hc; apply Hiff; exact Hc|apply H7; exact Hm].
Qed.

Lemma LInv_skip : forall N maa d x P, n_exp (get d x) = true -> LInv N maa d (x :: P) -> LInv N maa d P.
Proof.
  intros N maa d x P Hx (H1 & H2 & H3 & H4 & H5 & H6 & H7).
  split; [exact H1|]. split; [exact H2|]. split; [exact H3|].
  split; [intros y Hy; apply H4; right; exact Hy|].
  split; [destruct H5 as [H5|[H5|H5]]; [left; exact H5|left; subst x; exact Hx|right; exact H5]|].
  split; [apply (min_good_skip N d x P Hx H6)|].
  intro Hm. apply (attr_good_skip N d x P Hx (H7 Hm)).
Qed.

Lemma LInv_step : forall N maa d d' x P P', LInv N maa d (x :: P) -> frame d d' x ->
  SWF N d' -> TrapNodes N d' -> NoStubEdges d' -> ids_ok d' P' -> (forall c, In c P -> In c P') ->
  min_local N d' x P' -> (maa = true -> attr_local N d' x P') -> LInv N maa d' P'.
Proof.
  intros N maa d d' x P P' (H1 & H2 & H3 & H4 & H5 & H6 & H7) Hfr Hs' Ht' Hn' Hids Hsub Hmin Hattr.
  split; [exact Hs'|]. split; [exact Ht'|]. split; [exact Hn'|]. split; [exact Hids|].
  pose proof Hfr as (Hext & _ & _ & Hxexp).
  split.
  { destruct H5 as [H5|[H5|H5]].
    - left. apply (ext_exp d d' 0 Hext (swf_size N d H1) H5).
    - left. subst x. exact Hxexp.
    - right. apply Hsub. exact H5. }
  split; [apply (min_good_step N d d' x P P' H1 Hfr H6 Hmin Hsub)|].
  intro Hm. apply (attr_good_step N d d' x P P' H1 Hfr (H7 Hm) (Hattr Hm) Hsub).
Qed.

Lemma union_nat_l : forall a b y, In y a -> In y (union_nat a b).
Proof. intros a b y H. unfold union_nat. apply in_or_app. left. exact H. Qed.

Lemma union_nat_r : forall a b y, In y b -> In y (union_nat a b).
Proof.
  intros a b y H. unfold union_nat. apply in_or_app. destruct (mem_nat y a) eqn:E.
  - left. apply BM_mem_nat_In. exact E.
  - right. apply filter_In. split; [exact H|]. rewrite E. reflexivity.
Qed.

Lemma pending_sub : forall cur next ns c, In c (cur ++ next) -> In c (cur ++ union_nat next ns).
Proof.
  intros cur next ns c H. apply in_app_or in H. apply in_or_app.
  destruct H as [H|H]; [left; exact H|right; apply union_nat_l; exact H].
Qed.

Lemma pending_new : forall cur next ns c, In c ns -> In c (cur ++ union_nat next ns).
Proof. intros cur next ns c H. apply in_or_app. right. apply union_nat_r. exact H. Qed.

Lemma pending_ids : forall d d' cur next ns x, extends d d' -> ids_ok d (x :: cur ++ next) ->
  ids_ok d' ns -> ids_ok d' (cur ++ union_nat next ns).
Proof.
  intros d d' cur next ns x Hext H1 H2 y Hy. apply in_app_or in Hy. destruct Hy as [Hy|Hy].
  - eapply extends_lt; [exact Hext|]. apply H1. right. apply in_or_app. left. exact Hy.
  - apply union_nat_In in Hy. destruct Hy as [Hy|Hy]; [|apply H2; exact Hy].
    eapply extends_lt; [exact Hext|]. apply H1. right. apply in_or_app. right. exact Hy.
Qed.

Lemma ff_LInv : forall N maa d x cur next, LInv N maa d (x :: cur ++ next) ->
  n_exp (get d x) = false -> sources_in_b N (n_space (get d x)) <> [] ->
  LInv N maa (ff_step N d x) (cur ++ union_nat next (ff_kids N d x)) /\ NoOwn N (ff_step N d x) x.
Proof.
  intros N maa d x cur next Hinv Hex Hsrc. pose proof Hinv as (H1 & H2 & H3 & H4 & _).
  assert (Hx : x < size d) by (apply H4; left; reflexivity).
  destruct (ff_local N d x H1 H2 H3 Hx Hex Hsrc) as (La & Lm & Lno).
  split; [|exact Lno].
  apply (LInv_step N maa d (ff_step N d x) x (cur ++ next)); try assumption.
  - apply frame_ff. exact Hx.
  - apply ff_step_SWF; assumption.
  - apply ff_step_TrapNodes; assumption.
  - apply ff_step_NoStubEdges; assumption.
  - apply (pending_ids d _ cur next _ x (ff_step_extends N d x) H4).
    intros y Hy. apply ff_kids_valid; assumption.
  - intros c Hc. apply pending_sub. exact Hc.
  - apply (min_local_mono N _ x (ff_kids N d x)); [intros c Hc; apply pending_new; exact Hc|exact Lm].
  - intros _. apply (attr_local_mono N _ x (ff_kids N d x)); [intros c Hc; apply pending_new; exact Hc|exact La].
Qed.

Lemma same_local : forall N d d' x P, size d' = size d -> sd_edges d' = sd_edges d ->
  (forall j, n_space (get d' j) = n_space (get d j) /\ n_exp (get d' j) = n_exp (get d j)) ->
  (min_local N d x P -> min_local N d' x P) /\ (attr_local N d x P -> attr_local N d' x P) /\
  (NoOwn N d x -> NoOwn N d' x).
Proof.
  intros N d d' x P Hsz Hed Hf.
  assert (Hsucc : successors d' x = successors d x) by (unfold successors; rewrite Hed; reflexivity).
  split; [|split].
  - intros H M HM Hs. rewrite (proj1 (Hf x)) in Hs |- *. rewrite Hsucc.
    destruct (H M HM Hs) as [He|(c & H1 & H2 & H3)]; [left; exact He|].
    right. exists c. rewrite (proj1 (Hf c)). split; [exact H1|]. split; assumption.
  - intros H A HA Hs. rewrite (proj1 (Hf x)) in Hs. rewrite Hsucc.
    destruct (H A HA Hs) as [He|(c & H1 & H2 & H3)].
    + left. pose proof He as [Hx _].
      apply (owns_same N d d' x A (out_edges_same_edges d d' x Hed) (proj1 (Hf x))); [lia|exact He].
    + right. exists c. rewrite (proj1 (Hf c)). split; [exact H1|]. split; assumption.
  - intros (Hx & Hexp & Hno). split; [lia|]. split; [rewrite (proj2 (Hf x)); exact Hexp|].
    intros A Hown. apply (Hno A).
    apply (owns_same N d' d x A); [symmetry; apply (out_edges_same_edges d d' x Hed)|symmetry; apply Hf|exact Hx|exact Hown].
Qed.

Lemma seeds_local : forall N d x P,
  (min_local N d x P -> min_local N (set_empty_seeds d x) x P) /\
  (attr_local N d x P -> attr_local N (set_empty_seeds d x) x P) /\
  (NoOwn N d x -> NoOwn N (set_empty_seeds d x) x).
Proof.
  intros N d x P. apply same_local; [apply size_set_empty_seeds|apply sd_edges_set_empty_seeds|].
  intro j. destruct (set_empty_seeds_fields d x j) as (A & B & _). split; assumption.
Qed.

Lemma clean_log_ok_app : forall N a b, clean_log_ok N (a ++ b) -> clean_log_ok N a /\ clean_log_ok N b.
Proof.
  intros N a b H. split; intros sp B ms Hin; apply H; apply in_or_app; [left|right]; exact Hin.
Qed.

Lemma norm_choice_succ : forall N maa d1 x sp ns b here, norm_choice N maa d1 x sp ns b here ->
  forall c, In c ns -> In c (successors d1 x).
Proof.
  intros N maa d1 x sp ns b here H c Hc. destruct H as [here|blk ns b here Hin _ _].
  - apply sort_nat_In. exact Hc.
  - apply sort_nat_In. apply minimal_blocks_incl in Hin.
    apply (group_blocks_in N d1 x (sort_nat (successors d1 x)) blk ns Hin c Hc).
Qed.

Lemma norm_LInv : forall N cfg maa att d x cur next d1 ns b here, 1 <= max_motifs cfg ->
  (att = true -> maa = true) ->
  LInv N att d (x :: cur ++ next) -> n_exp (get d x) = false ->
  expand_one N cfg d x = (d1, RUnit) -> norm_choice N maa d1 x (n_space (get d x)) ns b here ->
  (att = true -> clean_log_ok N here) ->
  LInv N att (if b then set_empty_seeds d1 x else d1) (cur ++ union_nat next ns) /\
  frame d (if b then set_empty_seeds d1 x else d1) x /\
  (b = true -> att = true -> NoOwn N (if b then set_empty_seeds d1 x else d1) x).
Proof.
  intros N cfg maa att d x cur next d1 ns b here Hmm Hatt Hinv Hex Ee Hch Hlog.
  pose proof Hinv as (H1 & H2 & H3 & H4 & _).
  assert (Hx : x < size d) by (apply H4; left; reflexivity).
  assert (Hs1 : SWF N d1) by (rewrite (expand_one_eq_fst _ _ _ _ _ _ Ee); apply expand_one_SWF; assumption).
  assert (Ht1 : TrapNodes N d1).
  { rewrite (expand_one_eq_fst _ _ _ _ _ _ Ee).
    apply (expand_one_transfer_trap N (TrapNodes N) (prim_closed_trap_TrapNodes N)); assumption. }
  assert (Hn1 : NoStubEdges d1) by (rewrite (expand_one_eq_fst _ _ _ _ _ _ Ee); apply expand_one_NSE; assumption).
  pose proof (frame_expand N cfg d x d1 Hmm H1 H3 Hx Hex Ee) as Hfr1.
  pose proof Hfr1 as (Hext1 & _ & _ & Hxexp1).
  pose proof (extends_lt d d1 x Hext1 Hx) as Hx1.
  pose proof (extends_space d d1 x Hext1 Hx) as Hsp.
  destruct (expand_one_canonical N cfg d x d1 H1 H3 Hx Hex Hmm Ee) as (_ & _ & Hcan & _).
  pose proof (norm_choice_succ N maa d1 x _ ns b here Hch) as Hns.
  (* what node x settles in d1 *)
  assert (Hloc : min_local N d1 x ns /\ (att = true -> attr_local N d1 x ns) /\
                 (b = true -> att = true -> NoOwn N d1 x)).
  { destruct Hch as [here|blk ns b here Hin Hb1 Hb0].
    - split; [|split; [|discriminate]].
      + apply (min_local_mono N d1 x (successors d1 x)); [intros c Hc; apply sort_nat_In_rev; exact Hc|].
        apply canon_min_local; assumption.
      + intros _. apply (attr_local_mono N d1 x (successors d1 x)); [intros c Hc; apply sort_nat_In_rev; exact Hc|].
        apply canon_attr_local; assumption.
    - split; [apply (block_min_local N d1 x Hs1 Ht1 Hx1 Hcan blk ns Hin)|].
      destruct b.
      + destruct (Hb1 eq_refl) as [Hmaa Hentry].
        assert (Hclean : att = true -> block_clean N (n_space (get d1 x)) blk (map (first_motif d1 x) ns)).
        { intro Ha. rewrite Hsp. apply (Hlog Ha _ _ _ Hentry). }
        split.
        * intros Ha A HA Hs. right.
          apply (block_attr_local N d1 x Hs1 Ht1 Hx1 Hcan blk ns Hin (Hclean Ha) A HA Hs).
        * intros _ Ha. split; [exact Hx1|]. split; [exact Hxexp1|].
          intros A Hown. pose proof Hown as [_ (HA & Hs & _)].
          apply (proj2 (block_attr_local N d1 x Hs1 Ht1 Hx1 Hcan blk ns Hin (Hclean Ha) A HA Hs)). exact Hown.
      + split; [|discriminate]. intro Ha. rewrite (Hb0 eq_refl) in Hatt. specialize (Hatt Ha). discriminate Hatt. }
  destruct Hloc as (Lm & La & Lno).
  assert (Hids1 : ids_ok d1 ns).
  { intros c Hc. apply (successors_valid N d1 x c Hs1). apply Hns. exact Hc. }
  destruct b.
  - destruct (seeds_local N d1 x ns) as (S1 & S2 & S3).
    split; [|split; [apply frame_seeds; exact Hfr1|intros _ Ha; apply S3; apply Lno; [reflexivity|exact Ha]]].
    apply (LInv_step N att d (set_empty_seeds d1 x) x (cur ++ next)); try assumption.
    + apply frame_seeds. exact Hfr1.
    + apply set_empty_seeds_SWF. exact Hs1.
    + apply (set_empty_seeds_flag (TrapNodes N)); [|exact Ht1].
      intros d0 f Hf H0. apply TrapNodes_upd; assumption.
    + apply (set_empty_seeds_flag NoStubEdges); [|exact Hn1].
      intros d0 f Hf H0. apply NoStubEdges_upd; assumption.
    + apply (pending_ids d _ cur next ns x); [eapply extends_trans; [exact Hext1|apply set_empty_seeds_extends]|exact H4|].
      intros c Hc. rewrite size_set_empty_seeds. apply Hids1. exact Hc.
    + intros c Hc. apply pending_sub. exact Hc.
    + apply (min_local_mono N _ x ns); [intros c Hc; apply pending_new; exact Hc|apply S1; exact Lm].
    + intro Hm. apply (attr_local_mono N _ x ns); [intros c Hc; apply pending_new; exact Hc|apply S2; apply La; exact Hm].
  - split; [|split; [exact Hfr1|discriminate]].
    apply (LInv_step N att d d1 x (cur ++ next)); try assumption.
    + apply (pending_ids d _ cur next ns x Hext1 H4 Hids1).
    + intros c Hc. apply pending_sub. exact Hc.
    + apply (min_local_mono N _ x ns); [intros c Hc; apply pending_new; exact Hc|exact Lm].
    + intro Hm. apply (attr_local_mono N _ x ns); [intros c Hc; apply pending_new; exact Hc|apply La; exact Hm].
Qed.

Lemma LInv_mono : forall N maa d P P', (forall c, In c P -> In c P') -> ids_ok d P' ->
  LInv N maa d P -> LInv N maa d P'.
Proof.
  intros N maa d P P' Hsub Hids (H1 & H2 & H3 & H4 & H5 & H6 & H7).
  split; [exact H1|]. split; [exact H2|]. split; [exact H3|]. split; [exact Hids|].
  split; [destruct H5 as [H5|H5]; [left; exact H5|right; apply Hsub; exact H5]|].
  split; [apply (min_good_mono N d P); assumption|].
  intro Hm. apply (attr_good_mono N d P); [exact Hsub|apply H7; exact Hm].
Qed.

(* an expanded node the call meets for the first time hands on its successors: they become pending *)
Lemma LInv_hand : forall N maa d x cur next, n_exp (get d x) = true -> LInv N maa d (x :: cur ++ next) ->
  LInv N maa d (cur ++ union_nat next (successors d x)).
Proof.
  intros N maa d x cur next Hx Hinv. pose proof Hinv as (H1 & _ & _ & H4 & _).
  apply (LInv_mono N maa d (cur ++ next)).
  - intros c Hc. apply pending_sub. exact Hc.
  - apply (pending_ids d d cur next (successors d x) x (extends_refl d) H4).
    intros c Hc. apply (successors_valid N d x c H1 Hc).
  - apply (LInv_skip N maa d x (cur ++ next) Hx Hinv).
Qed.

Lemma level_inv : forall N cfg maa att opt sz, 1 <= max_motifs cfg -> (att = true -> maa = true) ->
  forall cur d next tape vis d1 next1 tape1 vis1,
  LInv N att d (cur ++ next) ->
  block_level N cfg maa opt sz d cur next tape vis = (d1, RUnit, next1, tape1, vis1) ->
  (att = true -> clean_log_ok N (fst (block_level_log N cfg maa opt sz d cur next tape vis))) ->
  LInv N att d1 next1 /\ stable d d1 /\
  (att = true -> forall y, In y (snd (block_level_log N cfg maa opt sz d cur next tape vis)) -> NoOwn N d1 y).
Proof.
  intros N cfg maa att opt sz Hmm Hatt. induction cur as [|x cur IH]; intros d next tape vis d1 next1 tape1 vis1 Hinv E Hlog.
  - cbn [block_level] in E. injection E as E1 E2 E3 E4. subst d1 next1 tape1 vis1.
    split; [exact Hinv|]. split; [apply stable_refl|]. intros _ y [].
  - destruct (level_cons N cfg maa opt sz d x cur next tape vis)
      as [(Hexp & _ & E1 & L1)|[(Hexp & _ & E1 & L1)|[(d' & r & n' & t' & v' & Hr & E1)|[(Hex & Hopt & Hsrc & E1 & L1)|
          (Hex & d1' & ns & b & here & tape1' & Ee & Hch & E1 & L1)]]]].
    + rewrite E1 in E. rewrite L1 in Hlog |- *.
      apply (IH d next tape vis d1 next1 tape1 vis1); [|exact E|exact Hlog].
      apply (LInv_skip N att d x (cur ++ next) Hexp). exact Hinv.
    + rewrite E1 in E. rewrite L1 in Hlog |- *.
      apply (IH d _ tape (x :: vis) d1 next1 tape1 vis1); [|exact E|exact Hlog].
      apply (LInv_hand N att d x cur next Hexp). exact Hinv.
    + rewrite E1 in E. injection E as _ E2 _ _ _. subst r. destruct Hr as [Hr|Hr]; discriminate Hr.
    + rewrite E1 in E. rewrite L1 in Hlog |- *. unfold log_after in Hlog |- *. simpl in Hlog |- *.
      destruct (ff_LInv N att d x cur next Hinv Hex Hsrc) as [Hinv' Hno].
      destruct (IH _ _ _ _ _ _ _ _ Hinv' E Hlog) as (K1 & K2 & K3).
      pose proof Hinv as (_ & _ & _ & H4 & _).
      assert (Hx : x < size d) by (apply H4; left; reflexivity).
      pose proof (frame_stable d _ x (frame_ff N d x Hx) Hex) as Hst.
      split; [exact K1|]. split; [eapply stable_trans; eauto|].
      intros Hm y [Hy|Hy]; [subst y; apply (NoOwn_stable N _ d1 x K2 Hno)|apply (K3 Hm y Hy)].
    + rewrite E1 in E. rewrite L1 in Hlog |- *. unfold log_after in Hlog |- *. simpl in Hlog |- *.
      assert (Hlog' : att = true -> clean_log_ok N here /\
                clean_log_ok N (fst (block_level_log N cfg maa opt sz (if b then set_empty_seeds d1' x else d1')
                                       cur (union_nat next ns) tape1' (x :: vis)))).
      { intro Hm. apply clean_log_ok_app. apply Hlog. exact Hm. }
      destruct (norm_LInv N cfg maa att d x cur next d1' ns b here Hmm Hatt Hinv Hex Ee Hch (fun Hm => proj1 (Hlog' Hm)))
        as (Hinv' & Hfr & Hno).
      destruct (IH _ _ _ _ _ _ _ _ Hinv' E (fun Hm => proj2 (Hlog' Hm))) as (K1 & K2 & K3).
      pose proof (frame_stable d _ x Hfr Hex) as Hst.
      split; [exact K1|]. split; [eapply stable_trans; eauto|].
      intros Hm y Hy. apply in_app_or in Hy. destruct Hy as [Hy|Hy]; [|apply (K3 Hm y Hy)].
      destruct b; [|destruct Hy]. destruct Hy as [Hy|[]]. subst y.
      apply (NoOwn_stable N _ d1 x K2 (Hno eq_refl Hm)).
Qed.

Lemma level_result : forall N cfg maa opt sz cur d next tape vis d1 r next1 tape1 vis1,
  block_level N cfg maa opt sz d cur next tape vis = (d1, r, next1, tape1, vis1) ->
  r = RUnit \/ r = RBool false \/ r = RRaised ErrMotifLimit.
Proof.
  intros N cfg maa opt sz. induction cur as [|x cur IH]; intros d next tape vis d1 r next1 tape1 vis1 E.
  - cbn [block_level] in E. injection E as _ E2 _ _ _. left. symmetry. exact E2.
  - destruct (level_cons N cfg maa opt sz d x cur next tape vis)
      as [(_ & _ & E1 & _)|[(_ & _ & E1 & _)|[(d' & r' & n' & t' & v' & Hr & E1)|[(_ & _ & _ & E1 & _)|
          (_ & d1' & ns & b & here & tape1' & _ & _ & E1 & _)]]]]; rewrite E1 in E.
    + apply (IH _ _ _ _ _ _ _ _ _ E).
    + apply (IH _ _ _ _ _ _ _ _ _ E).
    + injection E as _ E2 _ _ _. subst r'. right. exact Hr.
    + apply (IH _ _ _ _ _ _ _ _ _ E).
    + apply (IH _ _ _ _ _ _ _ _ _ E).
Qed.

Lemma loop_inv : forall N cfg maa att opt sz, 1 <= max_motifs cfg -> (att = true -> maa = true) ->
  forall fuel d cur tape vis d',
  LInv N att d cur -> block_loop fuel N cfg maa opt sz d cur tape vis = (d', RBool true) ->
  (att = true -> clean_log_ok N (fst (block_loop_log fuel N cfg maa opt sz d cur tape vis))) ->
  LInv N att d' [] /\ stable d d' /\
  (att = true -> forall y, In y (snd (block_loop_log fuel N cfg maa opt sz d cur tape vis)) -> NoOwn N d' y).
Proof.
  intros N cfg maa att opt sz Hmm Hatt. induction fuel as [|f IH]; intros d cur tape vis d' Hinv E Hlog.
  - cbn [block_loop] in E. discriminate E.
  - cbn [block_loop] in E. cbn [block_loop_log] in Hlog |- *. destruct cur as [|c cur'].
    { injection E as E1. subst d'. split; [exact Hinv|]. split; [apply stable_refl|]. intros _ y []. }
    remember (c :: cur') as cur eqn:Ecur.
    clear Ecur c cur'.
    destruct (block_level N cfg maa opt sz d (sort_nat cur) [] tape vis) as [[[[d1 r] next1] tape1] vis1] eqn:EL.
    destruct (block_level_log N cfg maa opt sz d (sort_nat cur) [] tape vis) as [lg em] eqn:ELog.
    destruct (level_result _ _ _ _ _ _ _ _ _ _ _ _ _ _ _ EL) as [Hr|[Hr|Hr]]; subst r; try discriminate E.
    assert (Hinv0 : LInv N att d (sort_nat cur ++ [])).
    { apply (LInv_ext N att d cur); [|exact Hinv]. intro y. rewrite app_nil_r. symmetry. apply BM_sort_nat_In. }
    destruct (block_loop_log f N cfg maa opt sz d1 next1 tape1 vis1) as [lg2 em2] eqn:EL2.
    simpl in Hlog |- *.
    assert (Hlog' : att = true -> clean_log_ok N lg /\ clean_log_ok N lg2)
      by (intro Hm; apply clean_log_ok_app; apply Hlog; exact Hm).
    destruct (level_inv N cfg maa att opt sz Hmm Hatt (sort_nat cur) d [] tape vis d1 next1 tape1 vis1 Hinv0 EL)
      as (K1 & K2 & K3).
    { rewrite ELog. simpl. intro Hm. apply (Hlog' Hm). }
    destruct (IH d1 next1 tape1 vis1 d' K1 E) as (J1 & J2 & J3).
    { rewrite EL2. simpl. intro Hm. apply (Hlog' Hm). }
    split; [exact J1|]. split; [eapply stable_trans; eauto|].
    intros Hm y Hy. apply in_app_or in Hy. destruct Hy as [Hy|Hy].
    + apply (NoOwn_stable N d1 d' y J2). apply (K3 Hm). rewrite ELog. exact Hy.
    + apply (J3 Hm). rewrite EL2. exact Hy.
Qed.

(* ====================================================================== *)
(* PART 7 -- the theorems                                                  *)
(* ====================================================================== *)

Lemma init_unexp : forall N i, n_exp (get (init N) i) = false.
Proof.
  intros N i. destruct (lt_dec i (size (init N))) as [Hi|Hi].
  - unfold init in *.
    apply (ensure_node_new N {| sd_nodes := []; sd_edges := [] |} None (top_space (nvars N)) i); [unfold size; simpl; lia|exact Hi].
  - rewrite get_beyond by lia. reflexivity.
Qed.

Lemma init_LInv : forall N maa, LInv N maa (init N) [0].
Proof.
  intros N maa. split; [apply init_SWF|]. split; [apply init_TrapNodes|]. split; [apply init_NoStubEdges|].
  split; [intros y [Hy|[]]; subst y; apply (swf_size N _ (init_SWF N))|].
  split; [right; left; reflexivity|].
  split; [intros y M _ Hexp; rewrite init_unexp in Hexp; discriminate Hexp|].
  intros _ y A _ Hexp. rewrite init_unexp in Hexp. discriminate Hexp.
Qed.

(* everything the run from the fresh diagram establishes; att = "the attractor part is tracked" *)
Lemma expand_block_final : forall fuel N cfg d' maa att opt sz tape, 1 <= max_motifs cfg ->
  (att = true -> maa = true) ->
  expand_block fuel N cfg (init N) maa opt sz tape = (d', RBool true) ->
  (att = true -> clean_log_ok N (fst (expand_block_log fuel N cfg (init N) maa opt sz tape))) ->
  SWF N d' /\ TrapNodes N d' /\ EdgeStrict d' /\
  n_space (get d' 0) = percolate_b N (top_space (nvars N)) /\ n_exp (get d' 0) = true /\
  min_good N d' [] /\ (att = true -> attr_good N d' []) /\
  (att = true -> forall y, In y (snd (expand_block_log fuel N cfg (init N) maa opt sz tape)) -> NoOwn N d' y).
Proof.
  intros fuel N cfg d' maa att opt sz tape Hmm Hatt E Hlog.
  pose proof (expand_block_EdgeStrict fuel N cfg (init N) maa opt sz tape (init_SWF N) (init_TrapNodes N)
                (init_EdgeStrict N)) as Hes.
  pose proof (expand_block_extends fuel N cfg (init N) maa opt sz tape (init_SWF N)) as Hext.
  rewrite E in Hes, Hext. simpl in Hes, Hext.
  unfold expand_block in E. unfold expand_block_log in Hlog |- *.
  destruct (loop_inv N cfg maa att opt sz Hmm Hatt fuel (init N) [0] tape [] d' (init_LInv N att) E Hlog)
    as ((H1 & H2 & _ & _ & H5 & H6 & H7) & _ & H8).
  split; [exact H1|]. split; [exact H2|]. split; [exact Hes|].
  split; [rewrite (extends_space _ _ 0 Hext (swf_size N _ (init_SWF N))); apply init_root|].
  split; [destruct H5 as [H5|[]]; exact H5|].
  split; [exact H6|]. split; [exact H7|exact H8].
Qed.

(* C03: no minimal trap space is missed (with LeafOK from BlocksFacts.expand_block_LeafOK: exactly) *)
Theorem expand_block_MinFound : forall fuel N cfg d' maa opt sz tape, 1 <= max_motifs cfg ->
  expand_block fuel N cfg (init N) maa opt sz tape = (d', RBool true) -> MinFound N d'.
Proof.
  intros fuel N cfg d' maa opt sz tape Hmm E.
  destruct (expand_block_final fuel N cfg d' maa false opt sz tape Hmm ltac:(discriminate) E ltac:(discriminate))
    as (H1 & H2 & H3 & H4 & H5 & H6 & _).
  apply (min_good_found N d' H1 H2 H3 H4 H5 H6).
Qed.

(* C01: with motif-avoidance checks on and an honest tape, every attractor has an expanded owner ... *)
Theorem expand_block_AttrServed : forall fuel N cfg d' opt sz tape, 1 <= max_motifs cfg ->
  expand_block fuel N cfg (init N) true opt sz tape = (d', RBool true) ->
  clean_log_ok N (fst (expand_block_log fuel N cfg (init N) true opt sz tape)) ->
  AttrServed N d'.
Proof.
  intros fuel N cfg d' opt sz tape Hmm E Hlog.
  destruct (expand_block_final fuel N cfg d' true true opt sz tape Hmm (fun _ => eq_refl) E (fun _ => Hlog))
    as (H1 & H2 & H3 & H4 & H5 & _ & H7 & _).
  apply (attr_good_served N d' H1 H2 H3 H4 H5 (H7 eq_refl)).
Qed.

(* ... and the nodes whose seeds the strategy set to [] own nothing in the final diagram *)
Theorem expand_block_emptied_sound : forall fuel N cfg d' opt sz tape x A, 1 <= max_motifs cfg ->
  expand_block fuel N cfg (init N) true opt sz tape = (d', RBool true) ->
  clean_log_ok N (fst (expand_block_log fuel N cfg (init N) true opt sz tape)) ->
  In x (snd (expand_block_log fuel N cfg (init N) true opt sz tape)) -> ~ owns N d' x A.
Proof.
  intros fuel N cfg d' opt sz tape x A Hmm E Hlog Hx.
  destruct (expand_block_final fuel N cfg d' true true opt sz tape Hmm (fun _ => eq_refl) E (fun _ => Hlog))
    as (_ & _ & _ & _ & _ & _ & _ & H8).
  destruct (H8 eq_refl x Hx) as (_ & _ & Hno). apply Hno.
Qed.

(* the global one-to-one statement for block expansion *)
Theorem expand_block_one_to_one : forall fuel N cfg d' opt sz tape seeds, 1 <= max_motifs cfg ->
  expand_block fuel N cfg (init N) true opt sz tape = (d', RBool true) ->
  clean_log_ok N (fst (expand_block_log fuel N cfg (init N) true opt sz tape)) ->
  exp_seeds_ok N d' seeds ->
  (forall A, attractor N A -> exists i s, i < size d' /\ n_exp (get d' i) = true /\ In s (seeds i) /\ A s) /\
  (forall A i j s t, attractor N A -> i < size d' -> j < size d' ->
     n_exp (get d' i) = true -> n_exp (get d' j) = true ->
     In s (seeds i) -> In t (seeds j) -> A s -> A t -> i = j /\ s = t).
Proof.
  intros fuel N cfg d' opt sz tape seeds Hmm E Hlog Hseeds.
  pose proof (expand_block_AttrServed fuel N cfg d' opt sz tape Hmm E Hlog) as Hserved.
  pose proof (expand_block_SWF fuel N cfg (init N) true opt sz tape (init_SWF N)) as Hswf.
  pose proof (expand_block_TrapNodes fuel N cfg (init N) true opt sz tape (init_SWF N) (init_TrapNodes N)) as Htn.
  pose proof (expand_block_NoSkips fuel N cfg (init N) true opt sz tape (init_SWF N) (init_NoSkips N)) as Hns.
  pose proof (expand_block_CanonOrFF fuel N cfg (init N) true opt sz tape Hmm (init_SWF N) (init_TrapNodes N)
                (init_NoStubEdges N) (Faithful_CanonOrFF N _ (init_Faithful N))) as Hcf.
  rewrite E in Hswf, Htn, Hns, Hcf. simpl in Hswf, Htn, Hns, Hcf.
  destruct (partial_one_to_one N d' seeds Hswf Htn Hns Hcf Hserved Hseeds) as (P1 & P2 & _).
  split; [exact P1|exact P2].
Qed.

Print Assumptions expand_block_CanonOrFF.
Print Assumptions expand_block_NoSkips.
Print Assumptions expand_block_MinFound.
Print Assumptions expand_block_AttrServed.
Print Assumptions expand_block_emptied_sound.
Print Assumptions expand_block_one_to_one.
