(* PyLibPerc.v -- hand-written prelude for the translation of space_utils.percolate_space_strict / percolation_conflicts
   (tools/py2coq_perc.py).  Definitions only; trusted.
     BooleanSpace dict {variable: 0|1}          the model's space (list of option bool; position = variable); d[v] = nth v d None (KeyError:
                                                None), v in d, d[v] = x is set_nth, d.items() = space_items (ascending variable order)
     set of variable names                      list of variables in network order (a Python set is iterated in arbitrary order: the model's
                                                Strict.strict_order_independent shows that the result does not depend on it); s.remove(v): KeyError
                                                if absent
     network.network_variable_names()           seq 0 (nvars N)
     network.mk_update_function(v)              an opaque handle on v;  .is_true() / .is_false(): the update function of v is constant true / false
     function_eval(bdd, space)                  Brute.const_on_b N v space: Some b if the update function of v is b on every state of the subspace
     percolate_space(network, space)            Brute.percolate_b N space  (AEON's Percolation: engine contract)
   The statements use the sflow machinery of PyLibSd.v with a dummy diagram (these functions do not touch a SuccessionDiagram). *)
From Coq Require Import List Bool Arith.
Import ListNotations.
From BB Require Import BN Brute Diagram PyLib PyLibSd.

Definition no_sd : sd := {| sd_nodes := []; sd_edges := [] |}.

Definition s_value {R S : Type} (f : sflow R S) : option R :=
  match f with SRet _ r => Some r | _ => None end.

Definition bdd_is_true (N : net) (v : nat) : bool :=
  match const_on_b N v (top_space (nvars N)) with Some true => true | _ => false end.
Definition bdd_is_false (N : net) (v : nat) : bool :=
  match const_on_b N v (top_space (nvars N)) with Some false => true | _ => false end.

Definition eqb_optbit (a b : option bool) : bool :=
  match a, b with
  | Some x, Some y => Bool.eqb x y
  | None, None => true
  | _, _ => false
  end.

Fixpoint set_remove (x : nat) (l : list nat) : option (list nat) :=
  match l with
  | [] => None
  | y :: r => if Nat.eqb x y then Some r else match set_remove x r with Some r' => Some (y :: r') | None => None end
  end.

Fixpoint space_items_from (i : nat) (X : space) : list (nat * bool) :=
  match X with
  | [] => []
  | Some b :: r => (i, b) :: space_items_from (S i) r
  | None :: r => space_items_from (S i) r
  end.
Definition space_items (X : space) : list (nat * bool) := space_items_from 0 X.
