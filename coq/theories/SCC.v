(* SCC.v -- model of expand_source_SCCs / attach_scc_subdiagram (_sd_algorithms/expand_source_SCCs.py),
   SuccessionDiagram.source_scc_subdiagrams / component_subdiagram and interaction_graph_utils.source_SCCs.
   A component sub-network keeps all n positions: the variables outside the component are constants (the value
   of the node space, or false), so its diagram's spaces agree with the library's on the component's variables.
   Tape: one entry per call of scc_sd.node_attractor_candidates made while attaching
   (Some true = no candidates, Some false = candidates, None = the call raised).  Definitions only. *)
From Coq Require Import List Bool Arith NArith.
Import ListNotations.
From BB Require Import BN Brute Diagram Blocks.

(* ---- forward closure under the regulation relation among free variables (cf. Blocks.bwd_closure) ---- *)
Fixpoint fwd_closure (fuel : nat) (N : net) (S : space) (cur : list nat) : list nat :=
  match fuel with
  | O => cur
  | S f =>
      let add := filter (fun j => free_in S j && negb (mem_nat j cur) &&
                                  existsb (fun i => regulates_b N S i j) cur) (seq 0 (nvars N)) in
      match add with
      | [] => cur
      | _ => fwd_closure f N S (cur ++ add)
      end
  end.

(* the strongly connected component of v among the free variables of S (sorted); empty if trivial *)
Definition scc_of (N : net) (S : space) (v : nat) : list nat :=
  let up := bwd_closure (nvars N) N S [v] in
  let down := fwd_closure (nvars N) N S [v] in
  let c := sort_nat (filter (fun u => mem_nat u down) up) in
  match c with
  | [_] => if regulates_b N S v v then c else []
  | _ => c
  end.

(* source_SCCs(node_bn): non-trivial SCCs that are closed under regulators, ordered by smallest member *)
Definition source_sccs (N : net) (S : space) : list (list nat) :=
  fold_left (fun acc v =>
               if free_in S v && negb (existsb (mem_nat v) acc) then
                 let c := scc_of N S v in
                 match c with
                 | [] => acc
                 | _ => if same_set (bwd_closure (nvars N) N S c) c then acc ++ [c] else acc
                 end
               else acc) (seq 0 (nvars N)) [].

(* component_subdiagram: the sub-network induced by B inside S *)
Definition impose (S : space) (s : state) : state :=
  map (fun p => match fst p with Some b => b | None => snd p end) (combine S s).
Definition sub_net (N : net) (S : space) (B : list nat) : net :=
  map (fun v => if mem_nat v B then (fun s : state => upd N v (impose S s))
                else (fun _ : state => match nth v S None with Some b => b | None => false end))
      (seq 0 (nvars N)).

(* scc_node_space | attach_at_space, and motifs restricted to the component's variables *)
Definition graft (B : list nat) (inner outer : space) : space :=
  map (fun v => if mem_nat v B then nth v inner None else nth v outer None) (seq 0 (length outer)).
Definition only_on (B : list nat) (m : space) : space :=
  map (fun v => if mem_nat v B then nth v m None else None) (seq 0 (length m)).

Definition tape_t : Type := list (option bool).
Definition expander_t : Type := net -> sd -> tape_t -> sd * result * tape_t.

(* attractor data computed while the node had no successors -- or, for a skip node, only its minimal
   trap spaces (fix of defect D17) -- is discarded *)
Definition discard_if_stub (d : sd) (i : nat) : sd :=
  if n_exp (get d i) && negb (n_skip (get d i)) then d else upd_node d i clear_attr.

(* first loop of attach_scc_subdiagram: copy the nodes of the sub-diagram (ids 1..) *)
Fixpoint attach_nodes (N : net) (check_maa : bool) (B : list nat) (sub : sd) (attach_space : space)
         (ids : list nat) (d : sd) (map_ : list nat) (mins : list nat) (tape : tape_t)
  : sd * option (list nat * list nat) * tape_t :=
  match ids with
  | [] => (d, Some (map_, mins), tape)
  | i :: r =>
      let '(d1, mid) := ensure_node N d None (graft B (n_space (get sub i)) attach_space) in
      let '(d2, mins2) :=
        if is_minimal sub i then (d1, mins ++ [mid])
        else (upd_node (discard_if_stub d1 mid) mid (fun y => set_exp y true), mins) in
      if check_maa then
        match tape with
        | Some true :: t => attach_nodes N check_maa B sub attach_space r (set_empty_seeds d2 mid) (map_ ++ [mid]) mins2 t
        | Some false :: t => attach_nodes N check_maa B sub attach_space r d2 (map_ ++ [mid]) mins2 t
        | _ => (d2, None, tl tape)
        end
      else attach_nodes N check_maa B sub attach_space r d2 (map_ ++ [mid]) mins2 tape
  end.

(* second loop: copy the edges (first motifs, restricted to the component) *)
Fixpoint attach_edges (B : list nat) (sub : sd) (map_ : list nat) (pairs : list (nat * nat)) (d : sd) : option sd :=
  match pairs with
  | [] => Some d
  | (a, b) :: r =>
      let ma := nth a map_ 0 in
      let mb := nth b map_ 0 in
      if Nat.eqb ma mb then None
      else attach_edges B sub map_ r (ensure_edge d ma mb (only_on B (first_motif sub a b)))
  end.

Definition attach_scc (N : net) (check_maa : bool) (B : list nat) (sub : sd) (d : sd) (attach_at : nat) (tape : tape_t)
  : sd * result * list nat * tape_t :=
  if Nat.eqb (size sub) 1 then (d, RUnit, [attach_at], tape) else
  let attach_space := n_space (get d attach_at) in
  let '(d1, res, tape1) := attach_nodes N check_maa B sub attach_space (seq 1 (size sub - 1)) d [attach_at] [] tape in
  match res with
  | None => (d1, RRaised ErrLimit, [], tape1)
  | Some (map_, mins) =>
      let pairs := flat_map (fun a => map (fun b => (a, b)) (successors sub a)) (seq 0 (size sub)) in
      match attach_edges B sub map_ pairs d1 with
      | None => (d1, RRaised ErrAssert, [], tape1)
      | Some d2 =>
          let d3 := upd_node (discard_if_stub d2 attach_at) attach_at (fun y => set_exp y true) in
          if check_maa then
            match tape1 with
            | Some true :: t => (set_empty_seeds d3 attach_at, RUnit, mins, t)
            | Some false :: t => (d3, RUnit, mins, t)
            | _ => (d3, RRaised ErrLimit, [], tl tape1)
            end
          else (d3, RUnit, mins, tape1)
      end
  end.

(* for attach_at in attach_at_list: next_attach_at_list += attach_scc_subdiagram(...) *)
Fixpoint attach_all (N : net) (check_maa : bool) (B : list nat) (sub : sd) (d : sd) (ats : list nat) (acc : list nat)
         (tape : tape_t) : sd * result * list nat * tape_t :=
  match ats with
  | [] => (d, RUnit, acc, tape)
  | a :: r =>
      let '(d1, res, mins, tape1) := attach_scc N check_maa B sub d a tape in
      match res with
      | RUnit => attach_all N check_maa B sub d1 r (acc ++ mins) tape1
      | _ => (d1, res, acc, tape1)
      end
  end.

(* for scc_diagram in source_scc_diagrams: expand it, attach it at every current attach point *)
Fixpoint scc_components (expander : expander_t) (N : net) (check_maa : bool) (sp : space) (comps : list (list nat))
         (d : sd) (ats : list nat) (tape : tape_t) : sd * result * list nat * tape_t :=
  match comps with
  | [] => (d, RUnit, ats, tape)
  | B :: r =>
      let Nsub := sub_net N sp B in
      let '(sub, rsub, tape1) := expander Nsub (init Nsub) tape in
      match rsub with
      | RBool true =>
          let '(d1, res, ats1, tape2) := attach_all N check_maa B sub d ats [] tape1 in
          match res with
          | RUnit => scc_components expander N check_maa sp r d1 ats1 tape2
          | _ => (d1, res, ats1, tape2)
          end
      | _ => (d, rsub, ats, tape1)
      end
  end.

(* for node_id in sorted(current_level) *)
Fixpoint scc_level (expander : expander_t) (N : net) (cfg : config) (check_maa : bool)
         (d : sd) (cur : list nat) (next : list nat) (tape : tape_t) : sd * result * list nat * tape_t :=
  match cur with
  | [] => (d, RUnit, next, tape)
  | x :: cur' =>
      let sp := n_space (get d x) in
      let comps := source_sccs N sp in
      match comps with
      | [] =>
          let '(d1, r, succ) := node_successors N cfg d x in
          match r with
          | RUnit => match succ with
                     | [] => scc_level expander N cfg check_maa d1 cur' next tape
                     | _ => (d1, RRaised ErrAssert, next, tape)
                     end
          | _ => (d1, r, next, tape)
          end
      | [_] =>
          let '(d1, r, succ) := node_successors N cfg d x in
          match r with
          | RUnit => scc_level expander N cfg check_maa d1 cur' (union_nat next succ) tape
          | _ => (d1, r, next, tape)
          end
      | _ =>
          let '(d1, res, ats, tape1) := scc_components expander N check_maa sp comps d [x] tape in
          match res with
          | RUnit =>
              match ats with
              | [y] => if Nat.eqb y x then
                         let '(d2, r, succ) := node_successors N cfg d1 x in
                         match r with
                         | RUnit => scc_level expander N cfg check_maa d2 cur' (union_nat next succ) tape1
                         | _ => (d2, r, next, tape1)
                         end
                       else scc_level expander N cfg check_maa d1 cur' (union_nat next ats) tape1
              | _ => scc_level expander N cfg check_maa d1 cur' (union_nat next ats) tape1
              end
          | RBool false => (d1, RBool false, next, tape1)
          | _ => (d1, res, next, tape1)
          end
      end
  end.

Fixpoint scc_levels (fuel : nat) (expander : expander_t) (N : net) (cfg : config) (check_maa : bool)
         (d : sd) (cur : list nat) (tape : tape_t) : sd * result * tape_t :=
  match fuel with
  | O => (d, RFuel, tape)
  | S f =>
      match cur with
      | [] => (d, RBool true, tape)
      | _ =>
          let '(d1, r, next, tape1) := scc_level expander N cfg check_maa d (sort_nat cur) [] tape in
          match r with
          | RUnit => scc_levels f expander N cfg check_maa d1 next tape1
          | _ => (d1, r, tape1)
          end
      end
  end.

(* expand_source_SCCs(sd, check_maa): the root's sources first, then the levels; the recursion on sub-diagrams
   consumes one unit of fuel per nesting level *)
Fixpoint scc_main (fuel : nat) (N : net) (cfg : config) (check_maa : bool) (d : sd) (tape : tape_t)
  : sd * result * tape_t :=
  match fuel with
  | O => (d, RFuel, tape)
  | S f =>
      let expander : expander_t := fun N' d' t' => scc_main f N' cfg check_maa d' t' in
      let sp := n_space (get d 0) in
      let srcs := sources_in_b N sp in
      match srcs with
      | [] => scc_levels (S f) expander N cfg check_maa d [0] tape
      | _ =>
          if Nat.ltb (max_motifs cfg) (Nat.pow 2 (length srcs)) then (d, RRaised ErrMotifLimit, tape)
          else
            let '(d1, kids) := ensure_children N d 0 (map (merge sp) (source_valuations (nvars N) srcs)) [] in
            let d2 := set_empty_seeds (clear_cands (upd_node d1 0 (fun y => set_exp y true)) 0) 0 in
            scc_levels (S f) expander N cfg check_maa d2 (union_nat [] kids) tape
      end
  end.

Definition expand_scc (fuel : nat) (N : net) (cfg : config) (d : sd) (check_maa : bool) (tape : tape_t) : sd * result :=
  let '(d1, r, _) := scc_main fuel N cfg check_maa d tape in (d1, r).
