(* ControlFacts5.v -- SPEC (prove the theorems).
   C06 "on a fresh diagram or one that was already partially expanded": the target-directed expansion establishes the
   hypotheses of ControlFacts3.succession_control_sound from ANY diagram reached by plain operations, so the end-to-end
   soundness of reported interventions holds after arbitrary plain histories. *)
From Coq Require Import List Bool Arith NArith Lia Permutation.
Import ListNotations.
From BB Require Import BN Brute SpaceFacts TrapFacts PercolateFacts AttractorFacts Diagram Invariants DiagramStruct
  DiagramSem1 DiagramComplete MinExpandFacts Control ControlFacts ControlFacts2 ASeedsFacts ControlFacts3 ControlFacts4.

Local Arguments percolate_b : simpl never.
Local Arguments expand_one : simpl never.
Local Arguments node_successors : simpl never.
Local Arguments max_traps_b : simpl never.

(* ================================================================== *)
(* 1. the test of the target loop is inherited by parents              *)
(* ================================================================== *)

Lemma intersect_mono_l : forall (c p t : space), subspace c p = true ->
  intersect c t <> None -> intersect p t <> None.
Proof.
  induction c as [|a c IH]; intros [|b p] [|o t] Hs Hi; simpl in *;
    try discriminate; try (exfalso; apply Hi; reflexivity); try exact Hi.
  apply andb_true_iff in Hs. destruct Hs as [Hh Ht].
  destruct (intersect c t) as [r|] eqn:Ec; [|exfalso; apply Hi; reflexivity].
  assert (Hp : intersect p t <> None) by (apply (IH p t Ht); rewrite Ec; discriminate).
  destruct (intersect p t) as [r'|]; [|contradiction].
  destruct b as [v|]; [|discriminate].
  destruct a as [w|]; [|discriminate Hh].
  apply eqb_prop in Hh. subst w.
  destruct o as [u|]; [|discriminate].
  destruct (Bool.eqb v u); [discriminate|exact Hi].
Qed.

Lemma tcond_parent : forall (c p target : space), strict_subspace c p ->
  tcond c target = true -> tcond p target = true.
Proof.
  intros c p target [Hcp Hne] Hc. apply tcond_spec in Hc. destruct Hc as [Hi Hn].
  apply tcond_spec. split.
  - apply (intersect_mono_l c p target Hcp Hi).
  - intros [Hpt Hpne]. apply Hn. split.
    + apply (subspace_trans _ _ _ Hcp Hpt).
    + intro Heq. subst c. apply Hpne. apply subspace_antisym; assumption.
Qed.

Lemma tcond_up : forall d target x z es, EdgeStrict d -> epath d x z es ->
  tcond (n_space (get d z)) target = true -> tcond (n_space (get d x)) target = true.
Proof.
  intros d target x z es Hes Hp. induction Hp as [x|x e t es Hin Hs Hp IH]; intro Hz; [exact Hz|].
  pose proof (Hes e Hin) as Hstr. rewrite Hs in Hstr.
  apply (tcond_parent _ _ target Hstr). apply IH. exact Hz.
Qed.

(* ================================================================== *)
(* 2. one expansion inside a plainly reached diagram                   *)
(* ================================================================== *)

Lemma expand_one_PlainInv : forall N cfg d x d2, 1 <= max_motifs cfg -> PlainInv N d -> x < size d ->
  expand_one N cfg d x = (d2, RUnit) -> PlainInv N d2.
Proof.
  intros N cfg d x d2 Hmm Hp Hx E.
  pose proof (PlainInv_step_plain 0 N cfg d (OExpandNode x) Hmm I Hp) as H.
  unfold step in H. rewrite (proj2 (Nat.ltb_lt _ _) Hx) in H.
  unfold node_successors in H. rewrite E in H. simpl in H. exact H.
Qed.

Lemma expand_one_succ_other : forall N cfg d x d2 j, 1 <= max_motifs cfg -> PlainInv N d -> x < size d ->
  expand_one N cfg d x = (d2, RUnit) -> j < size d -> j <> x -> successors d2 j = successors d j.
Proof.
  intros N cfg d x d2 j Hmm Hp Hx E Hj Hne.
  destruct (n_exp (get d x)) eqn:Ex.
  - apply expand_one_cases in E.
    destruct E as [(_ & Hd & _)|[(Hf & _)|[(Hf & _)|(Hf & _)]]]; try congruence.
  - pose proof Hp as (Hswf & _ & _ & Hnse & _).
    destruct (expand_one_canonical N cfg d x d2 Hswf Hnse Hx Ex Hmm E) as (_ & _ & _ & H4).
    destruct (H4 j Hj Hne) as (Ho & _). rewrite !successors_out, Ho. reflexivity.
Qed.

(* ================================================================== *)
(* 3. the invariant of the target loop from an arbitrary plain start   *)
(* ================================================================== *)

(* the root has been seen; the seen nodes are pending or processed; a processed node that passes the test is
   expanded and all its successors have been seen *)
Definition TJ (N : net) (target : space) (d : sd) (seen pend : list nat) : Prop :=
  PlainInv N d /\ In 0 seen /\
  (forall i, In i seen -> i < size d) /\
  (forall i, In i pend -> In i seen) /\
  (forall i, In i seen ->
     In i pend \/
     (tcond (n_space (get d i)) target = true ->
      n_exp (get d i) = true /\ forall s, In s (successors d i) -> In s seen)).

Lemma TJ_skip : forall N target d seen x pend,
  TJ N target d seen (x :: pend) -> tcond (n_space (get d x)) target = false ->
  TJ N target d seen pend.
Proof.
  intros N target d seen x pend (Hp & H0 & Hval & Hpend & Hproc) Ht.
  split; [exact Hp|]. split; [exact H0|]. split; [exact Hval|]. split.
  - intros i Hi. apply Hpend. right. exact Hi.
  - intros i Hi. destruct (Hproc i Hi) as [[Heq|Hin]|Hq]; [|left; exact Hin|right; exact Hq].
    subst i. right. intro H. congruence.
Qed.

Lemma TJ_expand : forall N cfg target d seen x pend d2, 1 <= max_motifs cfg ->
  TJ N target d seen (x :: pend) -> tcond (n_space (get d x)) target = true ->
  expand_one N cfg d x = (d2, RUnit) ->
  TJ N target d2
     (seen ++ filter (fun s => negb (mem_nat s seen)) (sort_nat (successors d2 x)))
     (pend ++ filter (fun s => negb (mem_nat s seen)) (sort_nat (successors d2 x))).
Proof.
  intros N cfg target d seen x pend d2 Hmm (Hp & H0 & Hval & Hpend & Hproc) Ht Ee.
  assert (Hx : x < size d) by (apply Hval; apply Hpend; left; reflexivity).
  pose proof Hp as (Hswf & _).
  pose proof (expand_one_PlainInv N cfg d x d2 Hmm Hp Hx Ee) as Hp2.
  pose proof Hp2 as (Hswf2 & _).
  assert (Hext : extends d d2).
  { pose proof (expand_one_extends N cfg d x) as H. rewrite Ee in H. exact H. }
  destruct Hext as (Hsz & Hsp & Hex & _).
  destruct (expand_one_step N cfg d x d2 Hswf Hx Ee) as (Hc & _ & _).
  set (fresh := filter (fun s => negb (mem_nat s seen)) (sort_nat (successors d2 x))).
  split; [exact Hp2|]. split; [|split; [|split]].
  - apply in_or_app. left. exact H0.
  - intros i Hi. apply in_app_or in Hi. destruct Hi as [Hi|Hi].
    + apply Hval in Hi. lia.
    + unfold fresh in Hi. apply filter_In in Hi. destruct Hi as [Hi _].
      apply sort_nat_In in Hi. apply (successors_valid N d2 x i Hswf2 Hi).
  - intros i Hi. apply in_or_app. apply in_app_or in Hi. destruct Hi as [Hi|Hi].
    + left. apply Hpend. right. exact Hi.
    + right. exact Hi.
  - intros i Hi. apply in_app_or in Hi. destruct Hi as [Hi|Hi].
    + destruct (Nat.eq_dec i x) as [Heq|Hne].
      * subst i. right. intros _. split; [exact Hc|].
        intros s Hs. apply in_or_app. destruct (mem_nat s seen) eqn:Em.
        -- left. apply mem_nat_spec. exact Em.
        -- right. unfold fresh. apply filter_In. split; [|rewrite Em; reflexivity].
           apply sort_nat_In_rev. exact Hs.
      * destruct (Hproc i Hi) as [[Heq|Hin]|Hq].
        -- exfalso. apply Hne. symmetry. exact Heq.
        -- left. apply in_or_app. left. exact Hin.
        -- right. pose proof (Hval i Hi) as Hlt. rewrite Hsp by exact Hlt. intro Hti.
           destruct (Hq Hti) as [He Hs]. split; [apply Hex; assumption|].
           intros s Hin. rewrite (expand_one_succ_other N cfg d x d2 i Hmm Hp Hx Ee Hlt Hne) in Hin.
           apply in_or_app. left. apply Hs. exact Hin.
    + left. apply in_or_app. right. exact Hi.
Qed.

Lemma target_level_TJ : forall N cfg target, 1 <= max_motifs cfg ->
  forall cur d seen next d1 seen1 next1,
  TJ N target d seen (cur ++ next) ->
  target_level N cfg target None d seen next cur = (d1, RUnit, seen1, next1) ->
  TJ N target d1 seen1 next1.
Proof.
  intros N cfg target Hmm cur. induction cur as [|x cur IH]; intros d seen next d1 seen1 next1 Hti H.
  - simpl in H. injection H as H1 H2 H3. subst d1 seen1 next1. exact Hti.
  - rewrite target_level_cons in H. simpl in Hti.
    destruct (tcond (n_space (get d x)) target) eqn:Et.
    + destruct (node_successors N cfg d x) as [[d2 r2] succ] eqn:En.
      destruct (ControlFacts2.node_successors_result N cfg d x d2 r2 succ En) as [(Hr & Ee & Hs)|Hr]; subst r2.
      * subst succ. cbv zeta in H. eapply IH; [|exact H].
        rewrite app_assoc. apply (TJ_expand N cfg target d seen x (cur ++ next) d2 Hmm Hti Et Ee).
      * discriminate H.
    + apply (IH d seen next d1 seen1 next1); [|exact H].
      apply (TJ_skip N target d seen x (cur ++ next) Hti Et).
Qed.

Lemma target_loop_TJ : forall N cfg target, 1 <= max_motifs cfg ->
  forall fuel d seen cur d',
  TJ N target d seen cur ->
  target_loop fuel N cfg target None d seen cur = (d', RBool true) ->
  exists seen', TJ N target d' seen' [].
Proof.
  intros N cfg target Hmm fuel. induction fuel as [|f IH]; intros d seen cur d' Hti H.
  - simpl in H. discriminate H.
  - rewrite target_loop_S in H. destruct cur as [|x cur].
    + injection H as H. subst d'. exists seen. exact Hti.
    + destruct (target_level N cfg target None d seen [] (x :: cur)) as [[[d1 r] seen1] next] eqn:El.
      pose proof (target_level_not_true _ _ _ _ _ _ _ _ _ _ _ El) as Hnt.
      destruct r; try discriminate H.
      * apply (IH d1 seen1 next d'); [|exact H].
        apply (target_level_TJ N cfg target Hmm (x :: cur) d seen [] d1 seen1 next); [|exact El].
        rewrite app_nil_r. exact Hti.
      * injection H as _ Hb. subst b. exfalso. apply Hnt. reflexivity.
Qed.

(* a set that contains the root and is closed under the successors of the nodes passing the test contains every
   node that passes the test *)
Lemma closed_reaches : forall d target (seen : list nat), EdgeStrict d ->
  (forall i, In i seen -> tcond (n_space (get d i)) target = true ->
     forall s, In s (successors d i) -> In s seen) ->
  forall x z es, epath d x z es -> In x seen -> tcond (n_space (get d z)) target = true -> In z seen.
Proof.
  intros d target seen Hes Hcl x z es Hp.
  induction Hp as [x|x e t es Hin Hs Hp IH]; intros Hx Hz; [exact Hx|].
  apply IH; [|exact Hz].
  apply (Hcl x Hx).
  - apply (tcond_up d target x t (e :: es) Hes); [|exact Hz].
    apply ep_cons; assumption.
  - apply successors_In. exists e. auto.
Qed.

(* ================================================================== *)
(* 4. the theorems                                                     *)
(* ================================================================== *)

Theorem target_expansion_TargetExpanded_from : forall fuel N cfg target d d', 1 <= max_motifs cfg ->
  length target = nvars N -> PlainInv N d ->
  expand_to_target fuel N cfg d target None = (d', RBool true) ->
  PlainInv N d' /\ TargetExpanded target d'.
Proof.
  intros fuel N cfg target d d' Hmm Hlen Hp Hrun.
  assert (Hp' : PlainInv N d').
  { assert (Hd' : d' = fst (step fuel N cfg d (OTarget target None))).
    { unfold step. rewrite Hrun. reflexivity. }
    rewrite Hd'. apply PlainInv_step_plain; [exact Hmm|exact I|exact Hp]. }
  split; [exact Hp'|].
  unfold expand_to_target in Hrun.
  pose proof Hp as (Hswf & _).
  assert (Hti : TJ N target d [0] [0]).
  { split; [exact Hp|]. split; [left; reflexivity|]. split; [|split].
    - intros i [Hi|[]]. subst i. apply (swf_size N d Hswf).
    - intros i Hi. exact Hi.
    - intros i Hi. left. exact Hi. }
  destruct (target_loop_TJ N cfg target Hmm fuel d [0] [0] d' Hti Hrun)
    as (seen' & _ & H0 & _ & _ & Hproc).
  pose proof Hp' as (_ & _ & Hes' & _).
  intros i Hi Ht.
  destruct (root_reaches N d' Hp' i Hi) as (es & Hpath).
  assert (Hin : In i seen').
  { apply (closed_reaches d' target seen' Hes') with (x := 0) (es := es); try assumption.
    intros j Hj Htj s Hs. destruct (Hproc j Hj) as [[]|Hq].
    destruct (Hq Htj) as [_ Hsucc]. apply Hsucc. exact Hs. }
  destruct (Hproc i Hin) as [[]|Hq]. destruct (Hq Ht) as [He _]. exact He.
Qed.

(* the whole control call on a plainly reached diagram: expand towards the target, then compute the interventions *)
Theorem control_after_plain_history_sound : forall fuel N cfg target d d' all_strategy maxd forbidden b succ ctl,
  1 <= max_motifs cfg -> length target = nvars N -> PlainInv N d ->
  expand_to_target fuel N cfg d target None = (d', RBool true) ->
  In (succ, ctl, true) (succession_control_ff N d' target all_strategy maxd forbidden b) ->
  let spaces := chain N succ (top_space (nvars N)) in
  length ctl = length succ /\
  (forall i, i < length succ ->
     trap_space N (nth i spaces []) /\ trap_space N (nth (S i) spaces []) /\
     subspace (nth (S i) spaces []) (nth i spaces []) = true /\
     nth i ctl [] <> [] /\
     forall drv, In drv (nth i ctl []) ->
       subspace (percolate_b N (merge drv (nth i spaces []))) (nth i succ []) = true /\
       forced (override N drv) (nth i spaces []) (nth i succ [])) /\
  intersect (last spaces []) target <> None /\
  (forall M, min_trap N M -> subspace M (last spaces []) = true -> subspace M target = true).
Proof.
  intros fuel N cfg target d d' all_strategy maxd forbidden b succ ctl Hmm Hlen Hp Hrun Hin.
  destruct (target_expansion_TargetExpanded_from fuel N cfg target d d' Hmm Hlen Hp Hrun) as [Hp' Hte].
  exact (succession_control_ff_sound N d' target all_strategy maxd forbidden b succ ctl Hp' Hlen Hte Hin).
Qed.

Print Assumptions target_expansion_TargetExpanded_from.
Print Assumptions control_after_plain_history_sound.
