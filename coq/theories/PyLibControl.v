(* PyLibControl.v -- additions to the embedding for control.find_drivers / drivers_of_succession (tools/py2coq_perc.py).  Definitions only; trusted.
     strategy ("internal" | "all")                      a boolean: true = "all"; the ValueError for other strings is outside the embedding
     set(dict) / set(names) - forbidden                 the keys in ascending variable order (Control.vars_fixed) / the names, minus the forbidden ones
     itertools.combinations(pool, k)                    Control.subsets_of_size k pool   (same enumeration order: lexicographic in the pool order)
     itertools.product([0, 1], repeat=k)                bit_vectors k: all k-bit vectors, lexicographic with 0 < 1
     {k: inner[k] for k in keys}                        dict_restrict inner keys (KeyError if a key is missing)
     {d: v for d, v in zip(keys, vals)}                 Control.assign (nvars N) (combine keys vals)
     any(set(d) <= set(ks) for d in drivers)            existsb (fun d => subset_nat (vars_fixed d) ks) drivers
     X.items() <= Y.items()                             subspace Y X ;  a | b  space_union a b ;  len(dict)  count_fixed
     percolate_space(bn, X)                             Brute.percolate_b N X (engine contract) *)
From Coq Require Import List Bool Arith.
Import ListNotations.
From BB Require Import BN Brute Diagram Control PyLibCore.

Fixpoint bit_vectors (k : nat) : list (list bool) :=
  match k with
  | O => [[]]
  | S k' => flat_map (fun b => map (cons b) (bit_vectors k')) [false; true]
  end.

Fixpoint dict_restrict_pairs (src : space) (ks : list nat) : option (list (nat * bool)) :=
  match ks with
  | [] => Some []
  | k :: r => match nth k src None, dict_restrict_pairs src r with
              | Some b, Some l => Some ((k, b) :: l)
              | _, _ => None
              end
  end.
Definition dict_restrict (src : space) (ks : list nat) : option space :=
  match dict_restrict_pairs src ks with Some l => Some (assign (length src) l) | None => None end.
