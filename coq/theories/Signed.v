(* Signed.v -- the semantic signed interaction graph of a network inside a trap space, negative
   closed walks, and the executable test that a variable set U hits all of them (what a negative
   feedback vertex set must do).  Definitions only. *)
From Coq Require Import List Bool Arith.
Import ListNotations.
From BB Require Import BN Brute.

Definition is_free (S : space) (v : nat) : bool := match nth v S None with None => true | Some _ => false end.

(* j -> k with sign: raising j from 0 to 1 raises (positive) or lowers (negative) f_k somewhere in S *)
Definition pos_edge (N : net) (S : space) (j k : nat) : Prop :=
  exists x, length x = nvars N /\ in_space x S = true /\ nth j x false = false /\
            upd N k x = false /\ upd N k (set_nth j true x) = true.
Definition neg_edge (N : net) (S : space) (j k : nat) : Prop :=
  exists x, length x = nvars N /\ in_space x S = true /\ nth j x false = false /\
            upd N k x = true /\ upd N k (set_nth j true x) = false.

Definition pos_edge_b (N : net) (S : space) (j k : nat) : bool :=
  existsb (fun x => negb (nth j x false) && negb (upd N k x) && upd N k (set_nth j true x)) (states_of S).
Definition neg_edge_b (N : net) (S : space) (j k : nat) : bool :=
  existsb (fun x => negb (nth j x false) && upd N k x && negb (upd N k (set_nth j true x))) (states_of S).

Definition vertex_ok (N : net) (S : space) (U : list nat) (v : nat) : Prop :=
  v < nvars N /\ is_free S v = true /\ ~ In v U.

(* signed walks among the free variables outside U; sign true = positive *)
Inductive walk (N : net) (S : space) (U : list nat) : nat -> nat -> bool -> Prop :=
| walk_pos : forall j k, vertex_ok N S U j -> vertex_ok N S U k -> pos_edge N S j k -> walk N S U j k true
| walk_neg : forall j k, vertex_ok N S U j -> vertex_ok N S U k -> neg_edge N S j k -> walk N S U j k false
| walk_app : forall i j k a b, walk N S U i j a -> walk N S U j k b -> walk N S U i k (Bool.eqb a b).

(* U hits every negative cycle (equivalently: no negative closed walk avoids U) *)
Definition no_neg_walk (N : net) (S : space) (U : list nat) : Prop := forall i, ~ walk N S U i i false.

(* executable: reachability in the double cover (vertex, sign) *)
Definition verts (N : net) (S : space) (U : list nat) : list nat :=
  filter (fun v => is_free S v && negb (existsb (Nat.eqb v) U)) (seq 0 (nvars N)).
Definition dc_succ (N : net) (S : space) (vs : list nat) (p : nat * bool) : list (nat * bool) :=
  flat_map (fun k => (if pos_edge_b N S (fst p) k then [(k, snd p)] else []) ++
                     (if neg_edge_b N S (fst p) k then [(k, negb (snd p))] else [])) vs.
Definition mem_vs (p : nat * bool) (l : list (nat * bool)) : bool :=
  existsb (fun q => Nat.eqb (fst p) (fst q) && Bool.eqb (snd p) (snd q)) l.
Fixpoint dc_closure (fuel : nat) (N : net) (S : space) (vs : list nat) (seen : list (nat * bool)) : list (nat * bool) :=
  match fuel with
  | O => seen
  | S f =>
      let new := filter (fun q => negb (mem_vs q seen)) (flat_map (dc_succ N S vs) seen) in
      match new with
      | [] => seen
      | q :: _ => dc_closure f N S vs (q :: seen)
      end
  end.
(* states reachable from (i, positive) by at least one edge *)
Definition dc_reach (N : net) (S : space) (vs : list nat) (i : nat) : list (nat * bool) :=
  dc_closure (2 * length vs + 1) N S vs (dc_succ N S vs (i, true)).
Definition no_neg_walk_b (N : net) (S : space) (U : list nat) : bool :=
  let vs := verts N S U in
  forallb (fun i => negb (mem_vs (i, false) (dc_reach N S vs i))) vs.
