(* Iso.v -- SuccessionDiagram.is_isomorphic = is_subgraph in both directions; on the model this decides equality of
   the node-space sets and of the edge sets (as pairs of spaces). *)
From Coq Require Import List Bool Arith Lia.
Import ListNotations.
From BB Require Import BN Brute SpaceFacts Diagram Invariants DiagramStruct ObsFacts.

Definition is_isomorphic_b (a b : sd) : bool := is_subgraph_b a b && is_subgraph_b b a.

Definition edge_pairs_incl (a b : sd) : Prop :=
  forall e, In e (sd_edges a) -> exists e', In e' (sd_edges b) /\
    n_space (get b (e_src e')) = n_space (get a (e_src e)) /\ n_space (get b (e_dst e')) = n_space (get a (e_dst e)).

Theorem is_isomorphic_b_spec : forall N a b,
  SWF N a -> SWF N b -> NoStubEdges a -> NoStubEdges b -> Rooted a -> Rooted b ->
  (is_isomorphic_b a b = true <->
   (forall X, In X (spaces a) <-> In X (spaces b)) /\ edge_pairs_incl a b /\ edge_pairs_incl b a).
Proof.
  intros N a b Ha Hb Hna Hnb Hra Hrb. unfold is_isomorphic_b. rewrite andb_true_iff.
  rewrite (is_subgraph_b_spec N a b Ha Hb Hna Hnb Hra), (is_subgraph_b_spec N b a Hb Ha Hnb Hna Hrb).
  unfold edge_pairs_incl. split.
  - intros [[H1 H2] [H3 H4]]. split; [|split; assumption]. intro X. split; [apply H1|apply H3].
  - intros [H [H2 H4]]. split; (split; [|assumption]); intros X HX; apply H; exact HX.
Qed.

(* in particular it is symmetric, and one inclusion plus equal node counts is NOT enough (seeded change w5_C20) *)
Theorem is_isomorphic_b_sym : forall a b, is_isomorphic_b a b = is_isomorphic_b b a.
Proof. intros a b. unfold is_isomorphic_b. apply andb_comm. Qed.

Print Assumptions is_isomorphic_b_spec.
