(* ControlFacts2.v -- what successions_to_target returns: exactly the chains of reduced
   stable motifs along the root-to-end paths of the diagram, one motif per edge, each
   chain once; and what the target-directed expansion establishes on a fresh diagram. *)
From Coq Require Import List Bool Arith NArith Lia Permutation.
Import ListNotations.
From BB Require Import BN Brute SpaceFacts TrapFacts PercolateFacts Diagram Invariants DiagramStruct DiagramSem1 DiagramDepth Control ControlFacts.
From Coq Require Import Relations.

(* ================================================================== *)
(* 1. edge paths                                                       *)
(* ================================================================== *)

Inductive epath (d : sd) : nat -> nat -> list edge -> Prop :=
| ep_nil : forall x, epath d x x []
| ep_cons : forall x e t es, In e (sd_edges d) -> e_src e = x -> epath d (e_dst e) t es ->
                             epath d x t (e :: es).

Definition is_desc (d : sd) (x y : nat) : Prop := exists es, epath d x y es.
Definition lava_below (d : sd) (target : space) (x : nat) : Prop :=
  exists y, is_desc d x y /\ hot_lava d target y = true.
Definition end_node (d : sd) (target : space) (s : nat) : Prop :=
  s < size d /\ ~ lava_below d target s /\
  exists p, In p (predecessors d s) /\ lava_below d target p.
Definition choice (d : sd) (es : list edge) (succ : list space) : Prop :=
  Forall2 (fun e m => In m (map (fun x => reduce_motif x (n_space (get d (e_src e)))) (e_motifs e)))
          es succ.

(* the reduced motifs of an edge *)
Definition rmotifs (d : sd) (e : edge) : list space :=
  map (fun m => reduce_motif m (n_space (get d (e_src e)))) (e_motifs e).

Lemma epath_path : forall d x t es, epath d x t es -> path d x t (length es).
Proof.
  intros d x t es Hp. induction Hp as [x|x e t es Hin Hs Hp IH]; simpl.
  - apply path_nil.
  - eapply path_cons; [exact Hin|exact Hs|reflexivity|exact IH].
Qed.

Lemma epath_nil_inv : forall d x t, epath d x t [] -> x = t.
Proof. intros d x t Hp. inversion Hp. reflexivity. Qed.

Lemma epath_cons_inv : forall d x t e es, epath d x t (e :: es) ->
  In e (sd_edges d) /\ e_src e = x /\ epath d (e_dst e) t es.
Proof. intros d x t e es Hp. inversion Hp; subst. auto. Qed.

Lemma epath_lt_size : forall N d x t es, SWF N d -> EdgeStrict d -> x < size d ->
  epath d x t es -> length es < size d.
Proof.
  intros N d x t es Hswf Hes Hx Hp.
  apply (path_lt_size d x t (length es) (SWF_EdgesIn N d Hswf) (EdgeStrict_Acyc d Hes) Hx).
  apply epath_path. exact Hp.
Qed.

Lemma epath_loop_nil : forall d x es, EdgeStrict d -> epath d x x es -> es = [].
Proof.
  intros d x es Hes Hp. apply epath_path in Hp. apply (no_cycle d x _ Hes) in Hp.
  destruct es; [reflexivity|discriminate].
Qed.

Lemma epath_end_unique : forall d x t t' es, epath d x t es -> epath d x t' es -> t = t'.
Proof.
  intros d x t t' es Hp. revert t'. induction Hp as [x|x e t es Hin Hs Hp IH]; intros t' Hq.
  - apply epath_nil_inv in Hq. exact Hq.
  - apply epath_cons_inv in Hq. destruct Hq as (_ & _ & Hq). apply IH. exact Hq.
Qed.

Lemma epath_end_lt : forall N d x t es, SWF N d -> x < size d -> epath d x t es -> t < size d.
Proof.
  intros N d x t es Hswf Hx Hp. induction Hp as [x|x e t es Hin Hs Hp IH]; [exact Hx|].
  apply IH. apply (swf_edges N d Hswf e Hin).
Qed.

Lemma successors_In : forall d x s,
  In s (successors d x) <-> exists e, In e (sd_edges d) /\ e_src e = x /\ e_dst e = s.
Proof.
  intros d x s. unfold successors, successors_of. rewrite in_map_iff. split.
  - intros (e & Hd & Hin). apply filter_In in Hin. destruct Hin as [Hin Hs].
    apply Nat.eqb_eq in Hs. exists e. auto.
  - intros (e & Hin & Hs & Hd). exists e. split; [exact Hd|]. apply filter_In.
    split; [exact Hin|]. apply Nat.eqb_eq. exact Hs.
Qed.

(* ================================================================== *)
(* 2. descendants, reaches_lava                                        *)
(* ================================================================== *)

Lemma descendants_fuel : forall d f x y,
  In y (descendants f d x) <-> exists es, epath d x y es /\ length es <= f.
Proof.
  intros d f. induction f as [|f IH]; intros x y; simpl.
  - split.
    + intros [Heq|[]]. subst y. exists []. split; [apply ep_nil|simpl; lia].
    + intros (es & Hp & Hl). destruct es as [|e es]; [|simpl in Hl; lia].
      left. apply epath_nil_inv in Hp. exact Hp.
  - split.
    + intros [Heq|Hin].
      * subst y. exists []. split; [apply ep_nil|simpl; lia].
      * apply in_flat_map in Hin. destruct Hin as (s & Hs & Hy).
        apply successors_In in Hs. destruct Hs as (e & Hin & Hsrc & Hdst).
        apply IH in Hy. destruct Hy as (es & Hp & Hl).
        exists (e :: es). split; [|simpl; lia].
        apply ep_cons; [exact Hin|exact Hsrc|]. rewrite Hdst. exact Hp.
    + intros (es & Hp & Hl). destruct es as [|e es].
      * left. apply epath_nil_inv in Hp. exact Hp.
      * right. apply epath_cons_inv in Hp. destruct Hp as (Hin & Hsrc & Hp).
        apply in_flat_map. exists (e_dst e). split.
        -- apply successors_In. exists e. auto.
        -- apply IH. exists es. split; [exact Hp|simpl in Hl; lia].
Qed.

Lemma descendants_spec : forall N d x y, SWF N d -> EdgeStrict d -> x < size d ->
  (In y (descendants (size d) d x) <-> is_desc d x y).
Proof.
  intros N d x y Hswf Hes Hx. rewrite descendants_fuel. unfold is_desc. split.
  - intros (es & Hp & _). exists es. exact Hp.
  - intros (es & Hp). exists es. split; [exact Hp|].
    pose proof (epath_lt_size N d x y es Hswf Hes Hx Hp) as Hlt. lia.
Qed.

Lemma reaches_lava_spec : forall N d target x, SWF N d -> EdgeStrict d -> x < size d ->
  (reaches_lava d target x = true <-> lava_below d target x).
Proof.
  intros N d target x Hswf Hes Hx. unfold reaches_lava, lava_below. rewrite existsb_exists.
  split; intros (y & Hy & Hl); exists y; (split; [|exact Hl]).
  - apply (descendants_spec N d x y Hswf Hes Hx). exact Hy.
  - apply (descendants_spec N d x y Hswf Hes Hx). exact Hy.
Qed.

(* ================================================================== *)
(* 3. paths, product                                                   *)
(* ================================================================== *)

Lemma paths_fuel : forall d t, EdgeStrict d -> forall f x ms,
  In ms (paths f d x t) <->
  exists es, epath d x t es /\ length es <= f /\ ms = map (rmotifs d) es.
Proof.
  intros d t Hes f. induction f as [|f IH]; intros x ms.
  - simpl. destruct (Nat.eqb x t) eqn:Ext.
    + apply Nat.eqb_eq in Ext. subst t. split.
      * intros [Heq|[]]. subst ms. exists []. split; [apply ep_nil|]. split; [simpl; lia|reflexivity].
      * intros (es & Hp & _ & Hms). apply (epath_loop_nil d x es Hes) in Hp. subst es ms.
        left. reflexivity.
    + apply Nat.eqb_neq in Ext. split; [intros []|].
      intros (es & Hp & Hl & _). destruct es as [|e es]; [|simpl in Hl; lia].
      apply epath_nil_inv in Hp. contradiction.
  - simpl. destruct (Nat.eqb x t) eqn:Ext.
    + apply Nat.eqb_eq in Ext. subst t. split.
      * intros [Heq|[]]. subst ms. exists []. split; [apply ep_nil|]. split; [simpl; lia|reflexivity].
      * intros (es & Hp & _ & Hms). apply (epath_loop_nil d x es Hes) in Hp. subst es ms.
        left. reflexivity.
    + apply Nat.eqb_neq in Ext. rewrite in_flat_map. split.
      * intros (e & Hin & Hms). destruct (Nat.eqb (e_src e) x) eqn:Esx; [|destruct Hms].
        apply Nat.eqb_eq in Esx. apply in_map_iff in Hms. destruct Hms as (ms' & Hms & Hin').
        apply IH in Hin'. destruct Hin' as (es & Hp & Hl & Hms').
        exists (e :: es). split; [apply ep_cons; assumption|]. split; [simpl; lia|].
        subst ms ms'. simpl. unfold rmotifs. rewrite Esx. reflexivity.
      * intros (es & Hp & Hl & Hms). destruct es as [|e es].
        { apply epath_nil_inv in Hp. contradiction. }
        apply epath_cons_inv in Hp. destruct Hp as (Hin & Hsrc & Hp).
        exists e. split; [exact Hin|]. rewrite (proj2 (Nat.eqb_eq _ _) Hsrc).
        apply in_map_iff. exists (map (rmotifs d) es). split.
        -- subst ms. simpl. unfold rmotifs. rewrite Hsrc. reflexivity.
        -- apply IH. exists es. split; [exact Hp|]. split; [simpl in Hl; lia|reflexivity].
Qed.

Lemma paths_spec : forall N d x t ms, SWF N d -> EdgeStrict d -> x < size d ->
  (In ms (paths (size d) d x t) <->
   exists es, epath d x t es /\
     ms = map (fun e => map (fun m => reduce_motif m (n_space (get d (e_src e)))) (e_motifs e)) es).
Proof.
  intros N d x t ms Hswf Hes Hx. rewrite (paths_fuel d t Hes). split.
  - intros (es & Hp & _ & Hms). exists es. split; [exact Hp|exact Hms].
  - intros (es & Hp & Hms). exists es. split; [exact Hp|]. split; [|exact Hms].
    pose proof (epath_lt_size N d x t es Hswf Hes Hx Hp) as Hlt. lia.
Qed.

Lemma product_spec : forall (A : Type) (ls : list (list A)) (l : list A),
  In l (product ls) <-> Forall2 (fun c x => In x c) ls l.
Proof.
  intros A ls. induction ls as [|c ls IH]; intros l; simpl.
  - split.
    + intros [Heq|[]]. subst l. constructor.
    + intro H. inversion H. left. reflexivity.
  - rewrite in_flat_map. split.
    + intros (x & Hx & Hl). apply in_map_iff in Hl. destruct Hl as (r & Hl & Hr). subst l.
      constructor; [exact Hx|]. apply IH. exact Hr.
    + intro H. inversion H as [|c0 x ls0 r Hx Hr]; subst. exists x. split; [exact Hx|].
      apply in_map_iff. exists r. split; [reflexivity|]. apply IH. exact Hr.
Qed.

Lemma Forall2_map_l : forall (A B C : Type) (R : B -> C -> Prop) (f : A -> B) (l : list A) (r : list C),
  Forall2 R (map f l) r <-> Forall2 (fun a c => R (f a) c) l r.
Proof.
  intros A B C R f l. induction l as [|a l IH]; intros r; simpl.
  - split; intro H; inversion H; constructor.
  - split; intro H; inversion H as [|x c l0 r0 Hh Ht]; subst; constructor;
      [exact Hh|apply IH; exact Ht|exact Hh|apply IH; exact Ht].
Qed.

Lemma product_choice : forall d es succ,
  In succ (product (map (rmotifs d) es)) <-> choice d es succ.
Proof.
  intros d es succ. rewrite product_spec, Forall2_map_l. unfold choice, rmotifs. reflexivity.
Qed.

(* ================================================================== *)
(* 4. successions                                                      *)
(* ================================================================== *)

Definition ends (d : sd) (target : space) : list nat :=
  filter (fun s => negb (reaches_lava d target s)) (seq 0 (size d)).
Definition piece (d : sd) (target : space) (s : nat) : list (list space) :=
  if existsb (reaches_lava d target) (predecessors d s)
  then if Nat.eqb s 0 then [] else flat_map product (paths (size d) d 0 s)
  else [].
Definition sres (d : sd) (target : space) : list (list space) :=
  flat_map (piece d target) (ends d target).

Lemma successions_unfold : forall d target,
  successions d target =
  match sres d target with
  | [] => match ends d target with [] => [] | _ => [[]] end
  | _ => sres d target
  end.
Proof.
  intros d target. unfold successions, sres, piece, ends.
  destruct (filter (fun s => negb (reaches_lava d target s)) (seq 0 (size d))); reflexivity.
Qed.

Lemma ends_spec : forall N d target s, SWF N d -> EdgeStrict d ->
  (In s (ends d target) <-> s < size d /\ ~ lava_below d target s).
Proof.
  intros N d target s Hswf Hes. unfold ends. rewrite filter_In, in_seq. split.
  - intros [Hs Hr]. assert (Hlt : s < size d) by lia. split; [exact Hlt|].
    apply negb_true_iff in Hr. intro Hl.
    apply (reaches_lava_spec N d target s Hswf Hes Hlt) in Hl. congruence.
  - intros [Hlt Hn]. split; [lia|]. apply negb_true_iff.
    destruct (reaches_lava d target s) eqn:E; [|reflexivity].
    exfalso. apply Hn. apply (reaches_lava_spec N d target s Hswf Hes Hlt). exact E.
Qed.

Lemma predecessors_lt : forall N d s p, SWF N d -> In p (predecessors d s) -> p < size d.
Proof.
  intros N d s p Hswf Hin. unfold predecessors in Hin. apply in_map_iff in Hin.
  destruct Hin as (e & Heq & Hin). apply filter_In in Hin. destruct Hin as [Hin _]. subst p.
  apply (swf_edges N d Hswf e Hin).
Qed.

Lemma pred_lava_spec : forall N d target s, SWF N d -> EdgeStrict d ->
  (existsb (reaches_lava d target) (predecessors d s) = true <->
   exists p, In p (predecessors d s) /\ lava_below d target p).
Proof.
  intros N d target s Hswf Hes. rewrite existsb_exists.
  split; intros (p & Hin & Hl); exists p; (split; [exact Hin|]);
    apply (reaches_lava_spec N d target p Hswf Hes (predecessors_lt N d s p Hswf Hin)); exact Hl.
Qed.

Lemma paths_product_spec : forall N d s succ, SWF N d -> EdgeStrict d ->
  (In succ (flat_map product (paths (size d) d 0 s)) <->
   exists es, epath d 0 s es /\ choice d es succ).
Proof.
  intros N d s succ Hswf Hes. rewrite in_flat_map. split.
  - intros (ms & Hms & Hin).
    apply (paths_spec N d 0 s ms Hswf Hes (swf_size N d Hswf)) in Hms.
    destruct Hms as (es & Hp & Hms). exists es. split; [exact Hp|].
    apply product_choice. unfold rmotifs. rewrite <- Hms. exact Hin.
  - intros (es & Hp & Hc). exists (map (rmotifs d) es). split.
    + apply (paths_spec N d 0 s _ Hswf Hes (swf_size N d Hswf)). exists es. split; [exact Hp|reflexivity].
    + apply product_choice. exact Hc.
Qed.

Lemma piece_spec : forall N d target s succ, SWF N d -> EdgeStrict d ->
  (In succ (piece d target s) <->
   (exists p, In p (predecessors d s) /\ lava_below d target p) /\ s <> 0 /\
   exists es, epath d 0 s es /\ choice d es succ).
Proof.
  intros N d target s succ Hswf Hes. unfold piece.
  pose proof (pred_lava_spec N d target s Hswf Hes) as Hpl.
  destruct (existsb (reaches_lava d target) (predecessors d s)).
  - destruct (Nat.eqb s 0) eqn:E0.
    + apply Nat.eqb_eq in E0. split; [intros []|]. intros (_ & Hne & _). contradiction.
    + apply Nat.eqb_neq in E0. rewrite (paths_product_spec N d s succ Hswf Hes). split.
      * intro H. split; [apply Hpl; reflexivity|]. split; [exact E0|exact H].
      * intros (_ & _ & H). exact H.
  - split; [intros []|]. intros (H & _). apply Hpl in H. discriminate.
Qed.

Lemma sres_spec : forall N d target succ, SWF N d -> EdgeStrict d ->
  (In succ (sres d target) <->
   exists s es, end_node d target s /\ s <> 0 /\ epath d 0 s es /\ choice d es succ).
Proof.
  intros N d target succ Hswf Hes. unfold sres. rewrite in_flat_map. split.
  - intros (s & Hs & Hin). apply (ends_spec N d target s Hswf Hes) in Hs.
    apply (piece_spec N d target s succ Hswf Hes) in Hin.
    destruct Hs as [Hlt Hnl]. destruct Hin as (Hp & Hne & es & Hep & Hc).
    exists s, es. split; [|auto]. split; [exact Hlt|]. split; assumption.
  - intros (s & es & (Hlt & Hnl & Hp) & Hne & Hep & Hc). exists s. split.
    + apply (ends_spec N d target s Hswf Hes). split; assumption.
    + apply (piece_spec N d target s succ Hswf Hes). split; [exact Hp|]. split; [exact Hne|].
      exists es. split; assumption.
Qed.

Theorem successions_spec : forall N d target succ, SWF N d -> EdgeStrict d ->
  (In succ (successions d target) <->
     (exists s es, end_node d target s /\ s <> 0 /\ epath d 0 s es /\ choice d es succ) \/
     (succ = [] /\ (exists s, s < size d /\ ~ lava_below d target s) /\
      ~ exists s es succ', end_node d target s /\ s <> 0 /\ epath d 0 s es /\ choice d es succ')).
Proof.
  intros N d target succ Hswf Hes. rewrite successions_unfold.
  pose proof (fun x => sres_spec N d target x Hswf Hes) as Hres.
  destruct (sres d target) as [|r0 rs] eqn:Er.
  - assert (Hno : ~ exists s es succ',
               end_node d target s /\ s <> 0 /\ epath d 0 s es /\ choice d es succ').
    { intros (s & es & succ' & H). apply (proj2 (Hres succ')). exists s, es. exact H. }
    destruct (ends d target) as [|s0 r] eqn:Ee.
    + split; [intros []|]. intros [H|(_ & (s & Hs) & _)].
      * destruct H as (s & es & H). apply Hno. exists s, es, succ. exact H.
      * apply (ends_spec N d target s Hswf Hes) in Hs. rewrite Ee in Hs. destruct Hs.
    + split.
      * intros [Heq|[]]. subst succ. right. split; [reflexivity|]. split; [|exact Hno].
        exists s0. apply (ends_spec N d target s0 Hswf Hes). rewrite Ee. left. reflexivity.
      * intros [H|(Heq & _)].
        -- destruct H as (s & es & H). exfalso. apply Hno. exists s, es, succ. exact H.
        -- subst succ. left. reflexivity.
  - rewrite Hres. split.
    + intro H. left. exact H.
    + intros [H|(_ & _ & Hno)]; [exact H|]. exfalso. apply Hno.
      destruct (proj1 (Hres r0) (or_introl eq_refl)) as (s & es & H). exists s, es, r0. exact H.
Qed.

(* ================================================================== *)
(* 5. a reduced motif determines the child node                        *)
(* ================================================================== *)

(* reduce_motif forgets what the parent space fixes; merging the parent space back in
   gives the same space for two motifs with the same reduction *)
Lemma reduce_merge : forall (m1 m2 P : space), length m1 = length P -> length m2 = length P ->
  reduce_motif m1 P = reduce_motif m2 P -> merge m1 P = merge m2 P.
Proof.
  unfold reduce_motif. induction m1 as [|a m1 IH]; intros [|b m2] [|p P] H1 H2 Hr;
    simpl in *; try discriminate; [reflexivity|].
  injection H1 as H1. injection H2 as H2. injection Hr as Hh Ht. f_equal.
  - destruct p; [reflexivity|exact Hh].
  - apply IH; assumption.
Qed.

Lemma sub_merge : forall (c m P : space), subspace c m = true -> subspace c P = true ->
  subspace c (merge m P) = true.
Proof.
  induction c as [|a c IH]; intros [|b m] [|p P] Hm HP; simpl in *; try discriminate;
    [reflexivity|].
  apply andb_true_iff in Hm. destruct Hm as [Hm1 Hm2].
  apply andb_true_iff in HP. destruct HP as [HP1 HP2].
  apply andb_true_iff. split; [|apply IH; assumption].
  destruct p; assumption.
Qed.

Lemma merge_sub : forall (c m P : space), subspace c m = true -> subspace c P = true ->
  subspace (merge m P) m = true.
Proof.
  induction c as [|a c IH]; intros [|b m] [|p P] Hm HP; simpl in *; try discriminate;
    [reflexivity|].
  apply andb_true_iff in Hm. destruct Hm as [Hm1 Hm2].
  apply andb_true_iff in HP. destruct HP as [HP1 HP2].
  apply andb_true_iff. split; [|apply IH; assumption].
  destruct b as [v|]; [|reflexivity]. destruct p as [w|]; [|apply eqb_reflx].
  destruct a as [x|]; [|discriminate].
  apply eqb_prop in Hm1. apply eqb_prop in HP1. subst. apply eqb_reflx.
Qed.

(* percolation steps can be replayed from any space between the start and the result *)
Lemma perc_steps_between : forall N X Y,
  clos_refl_trans_1n space (perc_step N) X Y -> length X = nvars N ->
  forall M, subspace Y M = true -> subspace M X = true ->
  clos_refl_trans space (perc_step N) M Y.
Proof.
  intros N X Y H. induction H as [X|X X1 Y Hstep Hrest IH]; intros HX M HYM HMX.
  - rewrite (subspace_antisym _ _ HYM HMX). apply rt_refl.
  - destruct Hstep as [X i v Hi Hn Hc].
    assert (HX1 : length (set_nth i (Some v) X) = nvars N) by (rewrite set_nth_length; exact HX).
    apply clos_rt1n_rt in Hrest.
    destruct (perc_steps_subspace N _ Y HX1 Hrest) as [HYX1 HYl].
    assert (HMl : length M = length X) by (apply subspace_length; exact HMX).
    assert (HYMl : length Y = length M) by (apply subspace_length; exact HYM).
    assert (HYi : nth i Y None = Some v).
    { apply (proj1 (subspace_nth _ _ (subspace_length _ _ HYX1)) HYX1 i v).
      apply nth_set_nth_eq. lia. }
    apply clos_rt_rt1n in Hrest.
    destruct (nth i M None) as [w|] eqn:EM.
    + pose proof (proj1 (subspace_nth Y M HYMl) HYM i w EM) as HYw.
      assert (Hwv : w = v) by congruence. subst w.
      apply (IH HX1 M HYM). apply subspace_nth; [rewrite set_nth_length; exact HMl|].
      intros j u Hj. destruct (Nat.eq_dec i j) as [Heq|Hne].
      * subst j. rewrite nth_set_nth_eq in Hj by lia. congruence.
      * rewrite nth_set_nth_neq in Hj by exact Hne.
        apply (proj1 (subspace_nth M X HMl) HMX j u Hj).
    + apply rt_trans with (y := set_nth i (Some v) M).
      * apply rt_step. apply perc_fix; [exact Hi|exact EM|].
        apply (P_const_on_mono N i X M v HMX Hc).
      * apply (IH HX1).
        -- apply subspace_nth; [rewrite set_nth_length; exact HYMl|].
           intros j u Hj. destruct (Nat.eq_dec i j) as [Heq|Hne].
           ++ subst j. rewrite nth_set_nth_eq in Hj by lia. congruence.
           ++ rewrite nth_set_nth_neq in Hj by exact Hne.
              apply (proj1 (subspace_nth Y M HYMl) HYM j u Hj).
        -- apply subspace_nth; [rewrite !set_nth_length; exact HMl|].
           intros j u Hj. destruct (Nat.eq_dec i j) as [Heq|Hne].
           ++ subst j. rewrite nth_set_nth_eq in Hj by lia. rewrite nth_set_nth_eq by lia. exact Hj.
           ++ rewrite nth_set_nth_neq in Hj by exact Hne. rewrite nth_set_nth_neq by exact Hne.
              apply (proj1 (subspace_nth M X HMl) HMX j u Hj).
Qed.

Lemma percolate_between : forall N X M, length X = nvars N ->
  subspace (percolate_b N X) M = true -> subspace M X = true ->
  percolate_b N M = percolate_b N X.
Proof.
  intros N X M HX H1 H2. symmetry. apply percolate_b_unique.
  - rewrite (subspace_length _ _ H2). exact HX.
  - split; [|apply percolate_b_closed; exact HX].
    apply (perc_steps_between N X (percolate_b N X)); try assumption.
    apply clos_rt_rt1n. apply percolate_b_steps. exact HX.
Qed.

Lemma NoDup_map_inj_in : forall (A B : Type) (f : A -> B) (l : list A) a b,
  NoDup (map f l) -> In a l -> In b l -> f a = f b -> a = b.
Proof.
  intros A B f l. induction l as [|x l IH]; intros a b Hnd Ha Hb Hf; [destruct Ha|].
  simpl in Hnd. inversion Hnd as [|y ys Hnin Hnd']; subst.
  destruct Ha as [Ha|Ha]; destruct Hb as [Hb|Hb].
  - congruence.
  - subst x. exfalso. apply Hnin. rewrite Hf. apply in_map. exact Hb.
  - subst x. exfalso. apply Hnin. rewrite <- Hf. apply in_map. exact Ha.
  - apply IH; assumption.
Qed.

(* two out-edges of a node carrying motifs with the same reduction are the same edge *)
Lemma child_determined : forall N d e1 e2 m1 m2, SWF N d -> EdgeStrict d ->
  In e1 (sd_edges d) -> In e2 (sd_edges d) -> e_src e1 = e_src e2 ->
  In m1 (e_motifs e1) -> In m2 (e_motifs e2) ->
  reduce_motif m1 (n_space (get d (e_src e1))) = reduce_motif m2 (n_space (get d (e_src e1))) ->
  e1 = e2.
Proof.
  intros N d e1 e2 m1 m2 Hswf Hes He1 He2 Hsrc Hm1 Hm2 Hr.
  destruct (swf_edges N d Hswf e1 He1) as (Hs1 & Hd1 & _).
  destruct (swf_edges N d Hswf e2 He2) as (Hs2 & Hd2 & _).
  destruct (swf_motif N d Hswf e1 m1 He1 Hm1) as [Hl1 Hp1].
  destruct (swf_motif N d Hswf e2 m2 He2 Hm2) as [Hl2 Hp2].
  destruct (Hes e1 He1) as [Hc1 _]. destruct (Hes e2 He2) as [Hc2 _]. rewrite <- Hsrc in Hc2.
  set (P := n_space (get d (e_src e1))) in *.
  assert (HP : length P = nvars N) by (apply (swf_len N d Hswf); apply get_In; exact Hs1).
  assert (Hmg : merge m1 P = merge m2 P) by (apply reduce_merge; [lia|lia|exact Hr]).
  assert (Hk : forall e m, length m = nvars N ->
            percolate_b N m = n_space (get d (e_dst e)) ->
            subspace (n_space (get d (e_dst e))) P = true ->
            percolate_b N (merge m P) = n_space (get d (e_dst e))).
  { intros e m Hl Hp Hc. rewrite <- Hp.
    assert (Hcm : subspace (percolate_b N m) m = true) by (apply percolate_b_sub; exact Hl).
    rewrite <- Hp in Hc.
    apply percolate_between; [exact Hl| |].
    - apply sub_merge; assumption.
    - apply (merge_sub (percolate_b N m)); assumption. }
  assert (Hdst : e_dst e1 = e_dst e2).
  { apply (spaces_inj N d _ _ Hswf Hd1 Hd2).
    rewrite <- (Hk e1 m1 Hl1 Hp1 Hc1), <- (Hk e2 m2 Hl2 Hp2 Hc2), Hmg. reflexivity. }
  apply (NoDup_map_inj_in _ _ (fun e => (e_src e, e_dst e)) (sd_edges d) e1 e2
           (swf_edge_nodup N d Hswf) He1 He2).
  rewrite Hsrc, Hdst. reflexivity.
Qed.

(* ================================================================== *)
(* 6. each chain once                                                  *)
(* ================================================================== *)

Lemma NoDup_flat_map : forall (A B : Type) (f : A -> list B) (l : list A),
  NoDup l -> (forall x, In x l -> NoDup (f x)) ->
  (forall x y z, In x l -> In y l -> In z (f x) -> In z (f y) -> x = y) ->
  NoDup (flat_map f l).
Proof.
  intros A B f l Hnd. induction Hnd as [|x l Hnin Hnd IH]; intros Hf Hdis; simpl; [constructor|].
  apply NoDup_app_disjoint.
  - apply Hf. left. reflexivity.
  - apply IH.
    + intros y Hy. apply Hf. right. exact Hy.
    + intros y1 y2 z H1 H2. apply Hdis; right; assumption.
  - intros z Hz1 Hz2. apply in_flat_map in Hz2. destruct Hz2 as (y & Hy & Hz2).
    apply Hnin. rewrite (Hdis x y z (or_introl eq_refl) (or_intror Hy) Hz1 Hz2). exact Hy.
Qed.

Lemma epath_edges : forall d x t es, epath d x t es -> forall e, In e es -> In e (sd_edges d).
Proof.
  intros d x t es Hp. induction Hp as [x|x e0 t es Hin Hs Hp IH]; intros e He; [destruct He|].
  destruct He as [He|He]; [subst e; exact Hin|apply IH; exact He].
Qed.

(* a chain of reduced motifs determines the path it was chosen along *)
Lemma chain_path : forall N d, SWF N d -> EdgeStrict d ->
  forall es x t es' t' succ, epath d x t es -> epath d x t' es' ->
    choice d es succ -> choice d es' succ -> es = es'.
Proof.
  intros N d Hswf Hes. unfold choice.
  induction es as [|e r IH]; intros x t es' t' succ Hp Hp' Hc Hc'.
  - inversion Hc; subst. inversion Hc'. reflexivity.
  - inversion Hc as [|e0 m r0 sr Hm Hr]; subst.
    inversion Hc' as [|e' m' r' sr' Hm' Hr']; subst.
    apply epath_cons_inv in Hp. destruct Hp as (Hin & Hsrc & Hp).
    apply epath_cons_inv in Hp'. destruct Hp' as (Hin' & Hsrc' & Hp').
    apply in_map_iff in Hm. destruct Hm as (m1 & Hr1 & Hm1).
    apply in_map_iff in Hm'. destruct Hm' as (m2 & Hr2 & Hm2).
    assert (Hee : e = e').
    { apply (child_determined N d e e' m1 m2 Hswf Hes Hin Hin'); try assumption; [congruence|].
      rewrite Hr1. rewrite <- Hr2. rewrite Hsrc, Hsrc'. reflexivity. }
    subst e'. f_equal. apply (IH (e_dst e) t r' t' sr); assumption.
Qed.

Lemma NoDup_product : forall (A : Type) (ls : list (list A)),
  (forall c, In c ls -> NoDup c) -> NoDup (product ls).
Proof.
  intros A ls. induction ls as [|c ls IH]; intro H; simpl.
  - constructor; [intros []|constructor].
  - apply NoDup_flat_map.
    + apply H. left. reflexivity.
    + intros x _. apply NoDup_map_cons. apply IH. intros c0 Hc0. apply H. right. exact Hc0.
    + intros x y z _ _ Hx Hy. apply in_map_iff in Hx. destruct Hx as (r1 & Hx & _).
      apply in_map_iff in Hy. destruct Hy as (r2 & Hy & _). congruence.
Qed.

Lemma NoDup_paths : forall N d t, SWF N d -> EdgeStrict d ->
  forall f x, NoDup (paths f d x t).
Proof.
  intros N d t Hswf Hes. induction f as [|f IH]; intro x; simpl.
  - destruct (Nat.eqb x t); constructor; [intros []|constructor].
  - destruct (Nat.eqb x t); [constructor; [intros []|constructor]|].
    apply NoDup_flat_map.
    + apply (NoDup_map_inv _ _ (swf_edge_nodup N d Hswf)).
    + intros e _. destruct (Nat.eqb (e_src e) x); [|constructor].
      apply NoDup_map_cons. apply IH.
    + intros e e' z Hin Hin' Hz Hz'.
      destruct (Nat.eqb (e_src e) x) eqn:E1; [|destruct Hz].
      destruct (Nat.eqb (e_src e') x) eqn:E2; [|destruct Hz'].
      apply Nat.eqb_eq in E1. apply Nat.eqb_eq in E2.
      apply in_map_iff in Hz. destruct Hz as (r1 & Hz & _).
      apply in_map_iff in Hz'. destruct Hz' as (r2 & Hz' & _). subst z.
      injection Hz' as Hmap _.
      destruct (swf_edges N d Hswf e Hin) as (_ & _ & Hne).
      destruct (e_motifs e) as [|m1 l1] eqn:Em1; [contradiction|].
      destruct (e_motifs e') as [|m2 l2] eqn:Em2; [discriminate|].
      simpl in Hmap. injection Hmap as Hhd _.
      apply (child_determined N d e e' m1 m2 Hswf Hes Hin Hin').
      * congruence.
      * rewrite Em1. left. reflexivity.
      * rewrite Em2. left. reflexivity.
      * rewrite E1. symmetry. exact Hhd.
Qed.

Section NoDupSuccessions.
  Variable N : net.
  Variable d : sd.
  Variable target : space.
  Hypothesis Hswf : SWF N d.
  Hypothesis Hes : EdgeStrict d.
  Hypothesis Hnd : forall e, In e (sd_edges d) ->
    NoDup (map (fun m => reduce_motif m (n_space (get d (e_src e)))) (e_motifs e)).

  Lemma NoDup_paths_product : forall s, NoDup (flat_map product (paths (size d) d 0 s)).
  Proof.
    intro s. apply NoDup_flat_map.
    - apply (NoDup_paths N d s Hswf Hes).
    - intros ms Hms. apply (paths_spec N d 0 s ms Hswf Hes (swf_size N d Hswf)) in Hms.
      destruct Hms as (es & Hp & Hms). subst ms. apply NoDup_product.
      intros c Hc. apply in_map_iff in Hc. destruct Hc as (e & Hc & He). subst c.
      apply Hnd. apply (epath_edges d 0 s es Hp e He).
    - intros ms ms' z Hms Hms' Hz Hz'.
      apply (paths_spec N d 0 s ms Hswf Hes (swf_size N d Hswf)) in Hms.
      apply (paths_spec N d 0 s ms' Hswf Hes (swf_size N d Hswf)) in Hms'.
      destruct Hms as (es & Hp & Hms). destruct Hms' as (es' & Hp' & Hms'). subst ms ms'.
      apply product_choice in Hz. apply product_choice in Hz'.
      rewrite (chain_path N d Hswf Hes es 0 s es' s z Hp Hp' Hz Hz'). reflexivity.
  Qed.

  Lemma NoDup_piece : forall s, NoDup (piece d target s).
  Proof.
    intro s. unfold piece.
    destruct (existsb (reaches_lava d target) (predecessors d s)); [|constructor].
    destruct (Nat.eqb s 0); [constructor|]. apply NoDup_paths_product.
  Qed.

  Lemma NoDup_sres : NoDup (sres d target).
  Proof.
    unfold sres. apply NoDup_flat_map.
    - unfold ends. apply NoDup_filter. apply seq_NoDup.
    - intros s _. apply NoDup_piece.
    - intros s s' z _ _ Hz Hz'.
      apply (piece_spec N d target s z Hswf Hes) in Hz.
      apply (piece_spec N d target s' z Hswf Hes) in Hz'.
      destruct Hz as (_ & _ & es & Hp & Hc). destruct Hz' as (_ & _ & es' & Hp' & Hc').
      pose proof (chain_path N d Hswf Hes es 0 s es' s' z Hp Hp' Hc Hc') as Heq. subst es'.
      apply (epath_end_unique d 0 s s' es Hp Hp').
  Qed.
End NoDupSuccessions.

Theorem successions_nodup : forall N d target, SWF N d -> EdgeStrict d ->
  (forall e, In e (sd_edges d) ->
     NoDup (map (fun m => reduce_motif m (n_space (get d (e_src e)))) (e_motifs e))) ->
  NoDup (successions d target).
Proof.
  intros N d target Hswf Hes Hnd. rewrite successions_unfold.
  pose proof (NoDup_sres N d target Hswf Hes Hnd) as H.
  destruct (sres d target) as [|r0 rs]; [|exact H].
  destruct (ends d target); constructor; [intros []|constructor].
Qed.

(* ================================================================== *)
(* 7. the target-directed expansion of a fresh diagram                 *)
(* ================================================================== *)

(* the test of expand_to_target: the node meets the target and is not strictly inside it *)
Definition tcond (sp target : space) : bool :=
  match intersect sp target with
  | None => false
  | Some _ => negb (subspace sp target && negb (eqb_space sp target))
  end.

Lemma tcond_spec : forall sp target, tcond sp target = true <->
  (intersect sp target <> None /\ ~ (subspace sp target = true /\ sp <> target)).
Proof.
  intros sp target. unfold tcond. destruct (intersect sp target) as [z|].
  - split.
    + intro H. split; [discriminate|]. intros [Hs Hne]. rewrite Hs in H. simpl in H.
      destruct (eqb_space sp target) eqn:E; [apply eqb_space_spec in E; contradiction|discriminate].
    + intros [_ H]. destruct (subspace sp target) eqn:Es; [|reflexivity]. simpl.
      destruct (eqb_space sp target) eqn:E; [reflexivity|]. exfalso. apply H.
      split; [reflexivity|]. intro Heq. apply eqb_space_spec in Heq. congruence.
  - split; [discriminate|]. intros [H _]. contradiction.
Qed.

Lemma mem_nat_spec : forall x l, mem_nat x l = true <-> In x l.
Proof.
  intros x l. unfold mem_nat. rewrite existsb_exists. split.
  - intros (y & Hy & He). apply Nat.eqb_eq in He. subst y. exact Hy.
  - intro H. exists x. split; [exact H|apply Nat.eqb_refl].
Qed.

Lemma insert_nat_In_rev : forall x y l, x = y \/ In x l -> In x (insert_nat y l).
Proof.
  intros x y l. induction l as [|z l IH]; simpl; intro H.
  - destruct H as [H|[]]. left. symmetry. exact H.
  - destruct (Nat.leb y z); simpl.
    + destruct H as [H|H]; [left; symmetry; exact H|right; exact H].
    + destruct H as [H|[H|H]]; [right; apply IH; left; exact H|left; exact H|
                                right; apply IH; right; exact H].
Qed.

Lemma sort_nat_In_rev : forall x l, In x l -> In x (sort_nat l).
Proof.
  intros x l. induction l as [|y l IH]; simpl; intro H; [exact H|].
  apply insert_nat_In_rev. destruct H as [H|H]; [left; symmetry; exact H|right; apply IH; exact H].
Qed.

(* the nodes created by ensure_all are children of the parent *)
Lemma ensure_all_new_edge : forall N subs d p s0,
  (forall j, s0 <= j -> j < size d -> exists e, In e (sd_edges d) /\ e_src e = p /\ e_dst e = j) ->
  forall j, s0 <= j -> j < size (ensure_all N d p subs) ->
    exists e, In e (sd_edges (ensure_all N d p subs)) /\ e_src e = p /\ e_dst e = j.
Proof.
  intros N subs. induction subs as [|m r IH]; intros d p s0 H j Hle Hlt; simpl in *;
    [apply H; assumption|].
  apply (IH (fst (ensure_node N d (Some p) m)) p s0); [|exact Hle|exact Hlt].
  intros k Hk1 Hk2. rewrite sd_edges_ensure_node.
  destruct (lt_dec k (size d)) as [Hkd|Hkd].
  - destruct (H k Hk1 Hkd) as (e & Hin & Hs & Hd).
    destruct (edge_added_keeps d p (snd (ensure_node N d (Some p) m)) m e Hin)
      as (e' & Hin' & Hs' & Hd' & _).
    exists e'. split; [exact Hin'|]. split; congruence.
  - destruct (size_ensure_node_cases N d (Some p) m) as [[_ Hsz]|(_ & Hc & Hsz)]; [lia|].
    rewrite Hc. assert (Hkeq : k = size d) by lia. subst k. apply edge_added_has.
Qed.

Lemma expand_one_step : forall N cfg d x d1, SWF N d -> x < size d ->
  expand_one N cfg d x = (d1, RUnit) ->
  n_exp (get d1 x) = true /\
  (forall j, j <> x -> j < size d1 -> n_exp (get d1 j) = true ->
     j < size d /\ n_exp (get d j) = true) /\
  (forall j, size d <= j -> j < size d1 -> In j (successors d1 x)).
Proof.
  intros N cfg d x d1 Hswf Hx E. apply expand_one_cases in E.
  destruct E as [(Hexp & Hd & _)|[(_ & _ & Hd & _)|[(_ & _ & _ & _ & Hr)|(_ & _ & _ & Hd & _)]]].
  - subst d1. split; [exact Hexp|]. split; [intros j _ Hj He; auto|intros j H1 H2; lia].
  - subst d1. rewrite !size_upd_node. split; [|split].
    + rewrite get_upd_node_eq by (rewrite size_upd_node; exact Hx). reflexivity.
    + intros j Hne Hj He. rewrite !get_upd_node_neq in He by (intro Hxj; apply Hne; auto). auto.
    + intros j H1 H2. lia.
  - discriminate Hr.
  - set (d0 := upd_node d x clear_attr) in *.
    set (ea := ensure_all N d0 x (firstn (eo_k N cfg d x) (eo_all N d x))) in *.
    assert (Hs0 : size d0 = size d) by apply size_upd_node.
    assert (Hle : size d0 <= size ea) by (apply extends_size; apply ensure_all_extends).
    subst d1. rewrite size_upd_node. split; [|split].
    + rewrite get_upd_node_eq by lia. reflexivity.
    + intros j Hne Hj He. rewrite get_upd_node_neq in He by (intro Hxj; apply Hne; auto).
      destruct (lt_dec j (size d0)) as [Hj0|Hj0].
      * destruct (ensure_all_old N (firstn (eo_k N cfg d x) (eo_all N d x)) d0 x j Hj0)
          as (_ & Hexp & _).
        fold ea in Hexp. rewrite Hexp in He. unfold d0 in He.
        rewrite get_upd_node_neq in He by (intro Hxj; apply Hne; auto). split; [lia|exact He].
      * destruct (ensure_all_new N (firstn (eo_k N cfg d x) (eo_all N d x)) d0 x j) as [Hf _];
          [lia|exact Hj|]. fold ea in Hf. congruence.
    + intros j H1 H2. apply successors_In. rewrite sd_edges_upd_node.
      apply (ensure_all_new_edge N _ d0 x (size d0)); [|lia|exact H2].
      intros k Hk1 Hk2. lia.
Qed.

Lemma node_successors_result : forall N cfg d x d1 r succ,
  node_successors N cfg d x = (d1, r, succ) ->
  (r = RUnit /\ expand_one N cfg d x = (d1, RUnit) /\ succ = successors d1 x) \/
  r = RRaised ErrMotifLimit.
Proof.
  intros N cfg d x d1 r succ H. unfold node_successors in H.
  destruct (expand_one N cfg d x) as [d2 r2] eqn:E.
  pose proof (expand_one_cases N cfg d x d2 r2 E) as Hc.
  assert (Hr : r2 = RUnit \/ r2 = RRaised ErrMotifLimit).
  { destruct Hc as [(_ & _ & Hr)|[(_ & _ & _ & Hr)|[(_ & _ & _ & _ & Hr)|(_ & _ & _ & _ & Hr)]]];
      auto. }
  destruct Hr as [Hr|Hr]; subst r2.
  - injection H as H1 H2 H3. subst d2 r succ. left. auto.
  - injection H as H1 H2 H3. right. symmetry. exact H2.
Qed.

Lemma target_level_cons : forall N cfg target d seen next x cur,
  target_level N cfg target None d seen next (x :: cur) =
  if tcond (n_space (get d x)) target then
    let '(d1, r, succ) := node_successors N cfg d x in
    match r with
    | RUnit => let fresh := filter (fun s => negb (mem_nat s seen)) (sort_nat succ) in
               target_level N cfg target None d1 (seen ++ fresh) (next ++ fresh) cur
    | _ => (d1, r, seen, next)
    end
  else target_level N cfg target None d seen next cur.
Proof.
  intros N cfg target d seen next x cur. simpl. unfold tcond.
  destruct (intersect (n_space (get d x)) target); [|reflexivity].
  destruct (subspace (n_space (get d x)) target && negb (eqb_space (n_space (get d x)) target));
    reflexivity.
Qed.

Lemma target_level_not_true : forall N cfg target cur d seen next d1 r seen1 next1,
  target_level N cfg target None d seen next cur = (d1, r, seen1, next1) -> r <> RBool true.
Proof.
  intros N cfg target cur. induction cur as [|x cur IH]; intros d seen next d1 r seen1 next1 H.
  - simpl in H. injection H as _ Hr _ _. subst r. discriminate.
  - rewrite target_level_cons in H. destruct (tcond (n_space (get d x)) target); [|eapply IH; eauto].
    destruct (node_successors N cfg d x) as [[d2 r2] succ] eqn:En.
    destruct (node_successors_result N cfg d x d2 r2 succ En) as [(Hr & _)|Hr]; subst r2.
    + eapply IH; eauto.
    + injection H as _ Hr _ _. subst r. discriminate.
Qed.

(* the BFS invariant: every node has been seen; the seen nodes are pending or processed *)
Definition TI (N : net) (target : space) (d : sd) (seen pend : list nat) : Prop :=
  SWF N d /\
  (forall i, i < size d -> In i seen) /\
  (forall i, In i seen -> i < size d) /\
  (forall i, i < size d -> n_exp (get d i) = true -> tcond (n_space (get d i)) target = true) /\
  (forall i, In i pend -> In i seen) /\
  (forall i, In i seen ->
     In i pend \/ (tcond (n_space (get d i)) target = true -> n_exp (get d i) = true)).

Lemma TI_skip : forall N target d seen x pend,
  TI N target d seen (x :: pend) -> tcond (n_space (get d x)) target = false ->
  TI N target d seen pend.
Proof.
  intros N target d seen x pend (Hswf & Hall & Hval & Hexp & Hpend & Hproc) Ht.
  split; [exact Hswf|]. split; [exact Hall|]. split; [exact Hval|]. split; [exact Hexp|]. split.
  - intros i Hi. apply Hpend. right. exact Hi.
  - intros i Hi. destruct (Hproc i Hi) as [[Heq|Hin]|Hp]; [|left; exact Hin|right; exact Hp].
    subst i. right. intro H. congruence.
Qed.

Lemma TI_expand : forall N cfg target d seen x pend d2,
  TI N target d seen (x :: pend) -> tcond (n_space (get d x)) target = true ->
  expand_one N cfg d x = (d2, RUnit) ->
  TI N target d2
     (seen ++ filter (fun s => negb (mem_nat s seen)) (sort_nat (successors d2 x)))
     (pend ++ filter (fun s => negb (mem_nat s seen)) (sort_nat (successors d2 x))).
Proof.
  intros N cfg target d seen x pend d2 (Hswf & Hall & Hval & Hexp & Hpend & Hproc) Ht Ee.
  assert (Hx : x < size d) by (apply Hval; apply Hpend; left; reflexivity).
  assert (Hswf2 : SWF N d2).
  { pose proof (expand_one_SWF N cfg d x Hswf Hx) as H. rewrite Ee in H. exact H. }
  assert (Hext : extends d d2).
  { pose proof (expand_one_extends N cfg d x) as H. rewrite Ee in H. exact H. }
  destruct Hext as (Hsz & Hsp & Hex & _).
  destruct (expand_one_step N cfg d x d2 Hswf Hx Ee) as (Hc & Hd & He).
  set (fresh := filter (fun s => negb (mem_nat s seen)) (sort_nat (successors d2 x))).
  split; [exact Hswf2|]. split; [|split; [|split; [|split]]].
  - intros i Hi. apply in_or_app. destruct (lt_dec i (size d)) as [Hlt|Hge].
    + left. apply Hall. exact Hlt.
    + destruct (mem_nat i seen) eqn:Em.
      * left. apply mem_nat_spec. exact Em.
      * right. unfold fresh. apply filter_In. split; [|rewrite Em; reflexivity].
        apply sort_nat_In_rev. apply He; [lia|exact Hi].
  - intros i Hi. apply in_app_or in Hi. destruct Hi as [Hi|Hi].
    + apply Hval in Hi. lia.
    + unfold fresh in Hi. apply filter_In in Hi. destruct Hi as [Hi _].
      apply sort_nat_In in Hi. apply (successors_valid N d2 x i Hswf2 Hi).
  - intros i Hi Hxi. destruct (Nat.eq_dec i x) as [Heq|Hne].
    + subst i. rewrite Hsp by exact Hx. exact Ht.
    + destruct (Hd i Hne Hi Hxi) as [Hlt Hxo]. rewrite Hsp by exact Hlt. apply Hexp; assumption.
  - intros i Hi. apply in_or_app. apply in_app_or in Hi. destruct Hi as [Hi|Hi].
    + left. apply Hpend. right. exact Hi.
    + right. exact Hi.
  - intros i Hi. apply in_app_or in Hi. destruct Hi as [Hi|Hi].
    + destruct (Hproc i Hi) as [[Heq|Hin]|Hp].
      * subst i. right. intros _. exact Hc.
      * left. apply in_or_app. left. exact Hin.
      * right. pose proof (Hval i Hi) as Hlt. rewrite Hsp by exact Hlt. intro Hti.
        apply Hex; [exact Hlt|]. apply Hp. exact Hti.
    + left. apply in_or_app. right. exact Hi.
Qed.

Lemma target_level_TI : forall N cfg target cur d seen next d1 seen1 next1,
  TI N target d seen (cur ++ next) ->
  target_level N cfg target None d seen next cur = (d1, RUnit, seen1, next1) ->
  TI N target d1 seen1 next1.
Proof.
  intros N cfg target cur. induction cur as [|x cur IH]; intros d seen next d1 seen1 next1 Hti H.
  - simpl in H. injection H as H1 H2 H3. subst d1 seen1 next1. exact Hti.
  - rewrite target_level_cons in H. simpl in Hti.
    destruct (tcond (n_space (get d x)) target) eqn:Et.
    + destruct (node_successors N cfg d x) as [[d2 r2] succ] eqn:En.
      destruct (node_successors_result N cfg d x d2 r2 succ En) as [(Hr & Ee & Hs)|Hr]; subst r2.
      * subst succ. cbv zeta in H. eapply IH; [|exact H].
        rewrite app_assoc. apply (TI_expand N cfg target d seen x (cur ++ next) d2 Hti Et Ee).
      * discriminate H.
    + apply (IH d seen next d1 seen1 next1); [|exact H].
      apply (TI_skip N target d seen x (cur ++ next) Hti Et).
Qed.

Lemma target_loop_S : forall f N cfg target sl d seen cur,
  target_loop (S f) N cfg target sl d seen cur =
  match cur with
  | [] => (d, RBool true)
  | _ => let '(d1, r, seen1, next) := target_level N cfg target sl d seen [] cur in
         match r with
         | RUnit => target_loop f N cfg target sl d1 seen1 next
         | _ => (d1, r)
         end
  end.
Proof. reflexivity. Qed.

Lemma target_loop_TI : forall N cfg target fuel d seen cur d',
  TI N target d seen cur ->
  target_loop fuel N cfg target None d seen cur = (d', RBool true) ->
  exists seen', TI N target d' seen' [].
Proof.
  intros N cfg target fuel. induction fuel as [|f IH]; intros d seen cur d' Hti H.
  - simpl in H. discriminate H.
  - rewrite target_loop_S in H. destruct cur as [|x cur].
    + injection H as H. subst d'. exists seen. exact Hti.
    + destruct (target_level N cfg target None d seen [] (x :: cur)) as [[[d1 r] seen1] next] eqn:El.
      pose proof (target_level_not_true _ _ _ _ _ _ _ _ _ _ _ El) as Hnt.
      destruct r; try discriminate H.
      * apply (IH d1 seen1 next d'); [|exact H].
        apply (target_level_TI N cfg target (x :: cur) d seen [] d1 seen1 next); [|exact El].
        rewrite app_nil_r. exact Hti.
      * injection H as _ Hb. subst b. exfalso. apply Hnt. reflexivity.
Qed.

Lemma init_unexpanded : forall N, n_exp (get (init N) 0) = false.
Proof.
  intro N. unfold init. rewrite ensure_node_unfold. unfold find_node, find_key. simpl. reflexivity.
Qed.

Theorem target_expansion_post : forall fuel N cfg target d', 1 <= max_motifs cfg ->
  length target = nvars N ->
  expand_to_target fuel N cfg (init N) target None = (d', RBool true) ->
  forall i, i < size d' ->
    (n_exp (get d' i) = true <->
     (intersect (n_space (get d' i)) target <> None /\
      ~ (subspace (n_space (get d' i)) target = true /\ n_space (get d' i) <> target))).
Proof.
  intros fuel N cfg target d' _ _ H i Hi. unfold expand_to_target in H.
  destruct (init_shape N) as (_ & Hsz & _).
  assert (Hti : TI N target (init N) [0] [0]).
  { split; [apply init_SWF|]. rewrite Hsz. split; [|split; [|split; [|split]]].
    - intros j Hj. left. lia.
    - intros j [Hj|[]]. lia.
    - intros j Hj He. assert (Hj0 : j = 0) by lia. subst j. rewrite init_unexpanded in He. discriminate.
    - intros j Hj. exact Hj.
    - intros j Hj. left. exact Hj. }
  destruct (target_loop_TI N cfg target fuel (init N) [0] [0] d' Hti H)
    as (seen' & _ & Hall & _ & Hexp & _ & Hproc).
  rewrite <- tcond_spec. split.
  - apply Hexp. exact Hi.
  - destruct (Hproc i (Hall i Hi)) as [[]|Hp]. exact Hp.
Qed.

Print Assumptions successions_spec.
Print Assumptions successions_nodup.
Print Assumptions target_expansion_post.
