(* SCCComplete.v -- SPEC (prove the theorems; the model is theories/SCC.v, do not edit it; theories/SCCStruct.v and
   theories/SCCTerm.v provide the invariants WI / SI, good_at, the graft lemmas (G_...), unfolding lemmas and the induction
   scheme over the fuel of scc_main generalised over the network).
   C03 for the source-SCC strategy, from a fresh diagram: when it reports completion, the expanded leaves of the
   diagram are exactly the minimal trap spaces of the network -- none missing (MinFound), none spurious (LeafOK).
   Idea: a minimal trap space M of N inside a node space sp projects onto every source SCC B to a minimal trap space
   of the component sub-network (otherwise grafting a smaller one back would give a smaller trap space of N:
   graft_trap / glue_trap); by induction on the nesting depth the fully expanded sub-diagram has that projection as a
   leaf, so after attaching all components there is an attach point whose space contains M; at the next level the
   argument repeats, and strictness bounds the number of levels. *)
From Coq Require Import List Bool Arith NArith Lia Permutation Relations.
Import ListNotations.
From BB Require Import BN Brute SpaceFacts TrapFacts PercolateFacts Diagram Invariants DiagramStruct DiagramSem1
  DiagramComplete MinExpandFacts Termination Blocks BlocksFacts BlockMath SCC SCCStruct SCCTerm.
From BB Require Import BlockComplete PartialOwner.

Local Arguments percolate_b : simpl never.
Local Arguments expand_one : simpl never.
Local Arguments node_successors : simpl never.
Local Arguments ensure_node : simpl never.
Local Arguments ensure_edge : simpl never.
Local Arguments source_sccs : simpl never.
Local Arguments sub_net : simpl never.
Local Arguments graft : simpl never.
Local Arguments regulates_b : simpl never.
Local Arguments sources_in_b : simpl never.
Local Arguments set_empty_seeds : simpl never.
Local Arguments clear_cands : simpl never.
Local Arguments ensure_children : simpl never.
Local Arguments ensure_all : simpl never.
Local Arguments attach_nodes : simpl never.
Local Arguments attach_edges : simpl never.
Local Arguments attach_scc : simpl never.
Local Arguments attach_all : simpl never.
Local Arguments scc_components : simpl never.
Local Arguments scc_level : simpl never.
Local Arguments scc_levels : simpl never.
Local Arguments scc_main : simpl never.
Local Arguments max_traps_b : simpl never.
Local Arguments min_traps_b : simpl never.
Local Arguments upd_node : simpl never.
Local Arguments ff_motifs : simpl never.
Local Arguments union_nat : simpl never.
Local Arguments sort_nat : simpl never.
Local Arguments Nat.pow : simpl never.
Local Arguments Nat.ltb : simpl never.

(* ====================================================================== *)
(* 1. a minimal trap space projects onto a source SCC                      *)
(* ====================================================================== *)

Section Proj.
  Variables (N : net) (sp : space) (B : list nat).
  Hypothesis HtS : trap_space N sp.
  Hypothesis Hc : closed_in N sp B.
  Variable M : space.
  Hypothesis HM : min_trap N M.
  Hypothesis HMsp : subspace M sp = true.

  (* M on the component, the constants of the sub-network elsewhere *)
  Definition projT : space := graft B M (Rsub N sp B).

  Lemma PJ_HS : length sp = nvars N.
  Proof. apply trap_space_length. exact HtS. Qed.

  Lemma PJ_HlM : length M = nvars N.
  Proof. apply min_trap_length. exact HM. Qed.

  Lemma PJ_Rlen : length (Rsub N sp B) = nvars N.
  Proof. apply (G_len N sp B). apply Rsub_subT. Qed.

  Lemma PJ_len : length projT = nvars N.
  Proof. unfold projT. rewrite graft_length. apply PJ_Rlen. Qed.

  Lemma PJ_in : forall v, In v B -> nth v projT None = nth v M None.
  Proof.
    intros v Hv. unfold projT. rewrite nth_graft by (rewrite PJ_Rlen; apply (BM_closed_lt N sp B v Hc Hv)).
    rewrite (proj2 (BM_mem_nat_In v B) Hv). reflexivity.
  Qed.

  Lemma PJ_out : forall v, v < nvars N -> ~ In v B ->
    nth v projT None = Some (match nth v sp None with Some b => b | None => false end).
  Proof.
    intros v Hv HvB. unfold projT. rewrite nth_graft by (rewrite PJ_Rlen; exact Hv).
    rewrite (proj2 (BM_mem_nat_false v B) HvB).
    apply (G_out N sp B _ v (Rsub_subT N sp B) Hv HvB).
  Qed.

  Lemma PJ_trap : trap_space (sub_net N sp B) projT.
  Proof.
    apply (trap_space_char (sub_net N sp B) projT); [rewrite sub_net_nvars; apply PJ_len|].
    intros i v Hn s Hwf Hin.
    assert (Hi : i < nvars N) by (rewrite <- PJ_len; apply (nth_some_lt projT i v Hn)).
    destruct (mem_nat i B) eqn:E.
    - apply BM_mem_nat_In in E. rewrite (PJ_in i E) in Hn.
      rewrite (sub_net_upd_in_gen N sp B i s Hi E).
      assert (Hslen : length s = nvars N) by (unfold wf_state in Hwf; rewrite sub_net_nvars in Hwf; exact Hwf).
      assert (Hlsp : length s = length sp) by (rewrite PJ_HS; exact Hslen).
      set (t := impose sp s).
      assert (Htlen : length t = nvars N) by (unfold t; rewrite impose_length by exact Hlsp; apply PJ_HS).
      assert (Htsp : in_space t sp = true) by (unfold t; apply impose_in_space; exact Hlsp).
      set (s2 := fill (nvars N) M t).
      assert (Hs2M : in_space s2 M = true) by (apply fill_in_space; apply PJ_HlM).
      assert (Hs2wf : wf_state N s2) by (unfold wf_state, s2; apply fill_length).
      assert (Hs2sp : in_space s2 sp = true).
      { apply (proj1 (subspace_spec M sp (subspace_length M sp HMsp)) HMsp s2 Hs2M). }
      rewrite (closed_in_reads_B N sp B i t s2 Hc E Htlen Hs2wf Htsp Hs2sp).
      + apply (proj1 (trap_space_char N M PJ_HlM) (proj1 HM) i v Hn s2 Hs2wf Hs2M).
      + intros j Hj. pose proof (BM_closed_lt N sp B j Hc Hj) as Hjl.
        unfold s2. symmetry. apply (fill_agree _ M t j Hjl). intros y Hy.
        unfold t. rewrite (nth_impose sp s j Hlsp), (BM_closed_free N sp B j Hc Hj).
        apply (proj1 (in_space_nth s projT (in_space_length s projT Hin)) Hin j y).
        rewrite (PJ_in j Hj). exact Hy.
    - apply BM_mem_nat_false in E. rewrite (PJ_out i Hi E) in Hn. injection Hn as Hn. subst v.
      apply sub_net_upd_out; assumption.
  Qed.

  Lemma PJ_min : min_trap (sub_net N sp B) projT.
  Proof.
    split; [apply PJ_trap|]. intros T' HtT' HsubT'.
    assert (HlT'' : length T' = nvars (sub_net N sp B)) by (apply trap_space_length; exact HtT').
    assert (HlT' : length T' = nvars N) by (rewrite <- (sub_net_nvars N sp B); exact HlT'').
    set (G := graft B T' M).
    assert (HG : length G = nvars N) by (unfold G; rewrite graft_length; apply PJ_HlM).
    assert (HGnth : forall v, v < nvars N -> nth v G None = if mem_nat v B then nth v T' None else nth v M None).
    { intros v Hv. unfold G. apply nth_graft. rewrite PJ_HlM. exact Hv. }
    assert (HT'P : forall i v, nth i projT None = Some v -> nth i T' None = Some v).
    { apply (proj1 (subspace_nth T' projT (subspace_length T' projT HsubT')) HsubT'). }
    assert (HGM : forall i v, nth i M None = Some v -> nth i G None = Some v).
    { intros i v Hi. assert (Hil : i < nvars N) by (rewrite <- PJ_HlM; apply (nth_some_lt M i v Hi)).
      rewrite (HGnth i Hil). destruct (mem_nat i B) eqn:E; [|exact Hi].
      apply BM_mem_nat_In in E. apply HT'P. rewrite (PJ_in i E). exact Hi. }
    assert (HtG : trap_space N G).
    { apply (trap_space_char N G HG). intros i v Hn s Hwf Hin.
      assert (Hi : i < nvars N) by (rewrite <- HG; apply (nth_some_lt G i v Hn)).
      assert (Hsnth : forall j y, nth j G None = Some y -> nth j s false = y).
      { apply (proj1 (in_space_nth s G (in_space_length s G Hin)) Hin). }
      assert (HsM : in_space s M = true).
      { apply in_space_nth; [unfold wf_state in Hwf; rewrite PJ_HlM; exact Hwf|].
        intros j y Hj. apply Hsnth. apply HGM. exact Hj. }
      assert (HsS : in_space s sp = true).
      { apply (proj1 (subspace_spec M sp (subspace_length M sp HMsp)) HMsp s HsM). }
      rewrite (HGnth i Hi) in Hn. destruct (mem_nat i B) eqn:E.
      - apply BM_mem_nat_In in E.
        set (s' := fill (nvars N) T' s).
        assert (Hs'T : in_space s' T' = true) by (apply fill_in_space; exact HlT').
        assert (Hs'len : length s' = nvars N) by (unfold s'; apply fill_length).
        assert (Hs'wf : wf_state (sub_net N sp B) s') by (unfold wf_state; rewrite sub_net_nvars; exact Hs'len).
        assert (Hlsp : length s' = length sp) by (rewrite PJ_HS; exact Hs'len).
        pose proof (proj1 (trap_space_char (sub_net N sp B) T' HlT'') HtT' i v Hn s' Hs'wf Hs'T) as Hu.
        rewrite (sub_net_upd_in_gen N sp B i s' Hi E) in Hu. rewrite <- Hu.
        apply (closed_in_reads_B N sp B i s (impose sp s') Hc E Hwf).
        + unfold wf_state. rewrite impose_length by exact Hlsp. apply PJ_HS.
        + exact HsS.
        + apply impose_in_space. exact Hlsp.
        + intros j Hj. pose proof (BM_closed_lt N sp B j Hc Hj) as Hjl.
          rewrite (nth_impose sp s' j Hlsp), (BM_closed_free N sp B j Hc Hj).
          unfold s'. symmetry. apply (fill_agree _ T' s j Hjl). intros y Hy.
          apply Hsnth. rewrite (HGnth j Hjl), (proj2 (BM_mem_nat_In j B) Hj). exact Hy.
      - apply (proj1 (trap_space_char N M PJ_HlM) (proj1 HM) i v Hn s Hwf HsM). }
    assert (HGsub : subspace G M = true).
    { apply subspace_nth; [rewrite HG, PJ_HlM; reflexivity|exact HGM]. }
    pose proof (proj2 HM G HtG HGsub) as HGeq.
    apply (nth_ext T' projT None None); [rewrite HlT', PJ_len; reflexivity|].
    intros i Hi. rewrite HlT' in Hi. destruct (mem_nat i B) eqn:E.
    - apply BM_mem_nat_In in E. rewrite (PJ_in i E).
      assert (H : nth i G None = nth i M None) by (rewrite HGeq; reflexivity).
      rewrite (HGnth i Hi), (proj2 (BM_mem_nat_In i B) E) in H. exact H.
    - apply BM_mem_nat_false in E. rewrite (PJ_out i Hi E). apply HT'P. apply (PJ_out i Hi E).
  Qed.

  Variable A : space.
  Hypothesis HtA : trap_space N A.
  Hypothesis HAsp : subspace A sp = true.
  Hypothesis HAfree : forall v, In v B -> nth v A None = None.

  Lemma PJ_HA : length A = nvars N.
  Proof. apply trap_space_length. exact HtA. Qed.

  (* M stays inside the image of its projection *)
  Lemma PJ_below : subspace M A = true -> subspace M (Pf N B A projT) = true.
  Proof.
    intro HMA. unfold Pf.
    assert (Hg : subspace M (graft B projT A) = true).
    { apply subspace_nth; [rewrite graft_length, PJ_HlM, PJ_HA; reflexivity|].
      intros i v Hi.
      assert (Hil : i < length A).
      { rewrite <- (graft_length B projT A). apply (nth_some_lt _ i v Hi). }
      rewrite (nth_graft B projT A i Hil) in Hi. destruct (mem_nat i B) eqn:E.
      - apply BM_mem_nat_In in E. rewrite (PJ_in i E) in Hi. exact Hi.
      - apply (proj1 (subspace_nth M A (subspace_length M A HMA)) HMA i v Hi). }
    pose proof (percolate_mono_weak N M (graft B projT A) (proj1 HM) PJ_HlM (G_glen N B A HtA projT) Hg) as H.
    rewrite (min_trap_closed N M HM) in H. exact H.
  Qed.

  (* the projection lies inside every sub-diagram space whose image contains M *)
  Lemma PJ_sub : forall T, subT N sp B T -> subspace M (Pf N B A T) = true -> subspace projT T = true.
  Proof.
    intros T HT HMP.
    pose proof (G_len N sp B T HT) as HlT.
    apply subspace_nth; [rewrite PJ_len, HlT; reflexivity|].
    intros i v Hi.
    assert (Hil : i < nvars N) by (rewrite <- HlT; apply (nth_some_lt T i v Hi)).
    destruct (mem_nat i B) eqn:E.
    - apply BM_mem_nat_In in E. rewrite (PJ_in i E).
      apply (proj1 (subspace_nth M (Pf N B A T) (subspace_length M _ HMP)) HMP i v).
      rewrite (G_B N sp B HtS Hc A HtA HAsp HAfree T i HT E). exact Hi.
    - apply BM_mem_nat_false in E. rewrite (PJ_out i Hil E).
      rewrite (G_out N sp B T i HT Hil E) in Hi. exact Hi.
  Qed.
End Proj.

(* ====================================================================== *)
(* 2. the invariants                                                       *)
(* ====================================================================== *)

(* descent: below every expanded node that is not itself the minimal trap space M there is a strictly smaller
   node that still contains M *)
Definition Desc (N : net) (d : sd) : Prop :=
  forall y M, y < size d -> n_exp (get d y) = true -> min_trap N M ->
    subspace M (n_space (get d y)) = true -> n_space (get d y) <> M ->
    exists y', y' < size d /\ subspace M (n_space (get d y')) = true /\
               strict_subspace (n_space (get d y')) (n_space (get d y)).

(* every stub is on the work list *)
Definition Pend (d : sd) (P : list nat) : Prop :=
  forall i, i < size d -> n_exp (get d i) = true \/ In i P.

Definition J (N : net) (d : sd) : Prop :=
  SI N d /\ NoStubEdges d /\ LeafOK N d /\ Desc N d.

Lemma Pend_incl : forall d P P', (forall i, In i P -> In i P') -> Pend d P -> Pend d P'.
Proof.
  intros d P P' Hi H i Hlt. destruct (H i Hlt) as [H1|H1]; [left; exact H1|right; apply Hi; exact H1].
Qed.

Lemma min_leaf : forall N d i, SI N d -> i < size d -> min_trap N (n_space (get d i)) -> out_edges d i = [].
Proof.
  intros N d i Hsi Hi Hmin.
  destruct (out_edges d i) as [|e r] eqn:E; [reflexivity|]. exfalso.
  assert (Hin : In e (out_edges d i)) by (rewrite E; left; reflexivity).
  apply out_edges_In in Hin. destruct Hin as [Hine Hsrc].
  destruct Hsi as (Hw & Hes & _).
  pose proof Hw as (_ & _ & Hed). destruct (Hed e Hine) as [_ Hdst].
  destruct (Hes e Hine) as [Hsub Hne]. rewrite Hsrc in Hsub, Hne.
  destruct Hmin as [_ Hmin]. apply Hne. apply Hmin; [|exact Hsub].
  apply (WI_get N d (e_dst e) Hw Hdst).
Qed.

Lemma desc_descend : forall N d M, SI N d -> AllExpanded d -> Desc N d -> min_trap N M ->
  forall k y, y < size d -> subspace M (n_space (get d y)) = true ->
    nvars N <= nfixed (n_space (get d y)) + k ->
    exists i, i < size d /\ n_space (get d i) = M.
Proof.
  intros N d M Hsi Hall Hdesc HM. induction k as [|k IH]; intros y Hy Hsub Hk.
  - destruct (eqb_space (n_space (get d y)) M) eqn:Eq.
    + apply eqb_space_spec in Eq. exists y. split; assumption.
    + exfalso.
      assert (Hne : n_space (get d y) <> M).
      { intro H. apply eqb_space_spec in H. rewrite H in Eq. discriminate. }
      destruct (Hdesc y M Hy (Hall y Hy) HM Hsub Hne) as (y' & Hy' & _ & Hst).
      pose proof (strict_nfixed _ _ Hst) as Hlt.
      pose proof (P_nfixed_le_length (n_space (get d y'))) as Hle.
      destruct (SI_get N d y' Hsi Hy') as [Ht _].
      rewrite (trap_space_length N _ Ht) in Hle. lia.
  - destruct (eqb_space (n_space (get d y)) M) eqn:Eq.
    + apply eqb_space_spec in Eq. exists y. split; assumption.
    + assert (Hne : n_space (get d y) <> M).
      { intro H. apply eqb_space_spec in H. rewrite H in Eq. discriminate. }
      destruct (Hdesc y M Hy (Hall y Hy) HM Hsub Hne) as (y' & Hy' & Hsub' & Hst).
      pose proof (strict_nfixed _ _ Hst) as Hlt.
      apply (IH y' Hy' Hsub'). lia.
Qed.

Lemma Desc_MinFound : forall N d, SI N d -> AllExpanded d -> Desc N d ->
  n_space (get d 0) = percolate_b N (top_space (nvars N)) -> MinFound N d.
Proof.
  intros N d Hsi Hall Hdesc Hroot M HM.
  assert (Hpos : 0 < size d) by (destruct Hsi as ((Hp & _) & _); exact Hp).
  destruct (desc_descend N d M Hsi Hall Hdesc HM (nvars N) 0 Hpos) as (i & Hi & Heq).
  - rewrite Hroot. apply min_trap_in_root. exact HM.
  - lia.
  - exists i. split; [exact Hi|]. split; [|exact Heq].
    apply is_minimal_iff. split; [|apply Hall; exact Hi].
    apply (min_leaf N d i Hsi Hi). rewrite Heq. exact HM.
Qed.

Lemma full_trap_min : forall N S, trap_space N S -> is_full S = true -> min_trap N S.
Proof.
  intros N S Ht Hf. split; [exact Ht|]. intros M' _ Hsub. apply subspace_full; assumption.
Qed.

(* ====================================================================== *)
(* 3. expanding one node the ordinary way                                  *)
(* ====================================================================== *)

Lemma has_edge_succ : forall d p c, has_edge d p c = true -> In c (successors d p).
Proof. intros d p c H. apply In_successors. apply has_edge_true. exact H. Qed.

Lemma ensure_all_child : forall N subs d p m, WI N d -> p < size d ->
  (forall m0, In m0 subs -> trap_space N m0) -> In m subs ->
  exists c, c < size (ensure_all N d p subs) /\ n_space (get (ensure_all N d p subs) c) = percolate_b N m.
Proof.
  intros N subs. induction subs as [|m0 r IH]; intros d p m Hw Hp Ht Hin; [destruct Hin|].
  rewrite ensure_all_cons.
  destruct (WI_ensure_node N d (Some p) m0 Hw (Ht m0 (or_introl eq_refl))) as (Hw1 & Hc1 & Hsp1).
  { intros p0 E. injection E as E. subst p0. exact Hp. }
  pose proof (ensure_node_extends N d (Some p) m0) as He.
  destruct Hin as [Heq|Hin].
  - subst m0. exists (snd (ensure_node N d (Some p) m)).
    pose proof (ensure_all_extends N r (fst (ensure_node N d (Some p) m)) p) as He2.
    split; [apply (extends_lt _ _ _ He2 Hc1)|].
    rewrite (extends_space _ _ _ He2 Hc1). exact Hsp1.
  - apply IH; [exact Hw1|apply (extends_lt d _ p He Hp)| |exact Hin].
    intros m1 Hm1. apply Ht. right. exact Hm1.
Qed.

Lemma ensure_all_new_succ : forall N subs d p j, size d <= j -> j < size (ensure_all N d p subs) ->
  has_edge (ensure_all N d p subs) p j = true.
Proof.
  intros N subs. induction subs as [|m r IH]; intros d p j Hle Hlt.
  - unfold ensure_all in Hlt. lia.
  - rewrite ensure_all_cons in *.
    destruct (lt_dec j (size (fst (ensure_node N d (Some p) m)))) as [Hj|Hj].
    + destruct (size_ensure_node_cases N d (Some p) m) as [[_ Hs]|(_ & Hc & Hs)]; [lia|].
      assert (Hjc : j = snd (ensure_node N d (Some p) m)) by lia.
      apply (has_edge_extends _ _ p j (ensure_all_extends N r _ p)).
      apply has_edge_true. rewrite sd_edges_ensure_child, Hjc. apply edge_added_has.
    + apply IH; [lia|exact Hlt].
Qed.

Lemma eo_J : forall N cfg d x d1, 1 <= max_motifs cfg -> J N d -> x < size d ->
  expand_one N cfg d x = (d1, RUnit) ->
  J N d1 /\ n_exp (get d1 x) = true /\ extends d d1 /\
  (forall j, size d <= j -> j < size d1 -> In j (successors d1 x)).
Proof.
  intros N cfg d x d1 Hmm (Hsi & Hnse & Hleaf & Hdesc) Hx E.
  pose proof (SI_WI N d Hsi) as Hw.
  destruct (SI_get N d x Hsi Hx) as [HtS _].
  pose proof (trap_space_length N _ HtS) as HS.
  assert (Hext : extends d d1).
  { pose proof (expand_one_extends N cfg d x) as H. rewrite E in H. exact H. }
  assert (Hsi1 : SI N d1).
  { pose proof (SI_expand_one N cfg d x Hsi Hx) as H. rewrite E in H. exact H. }
  assert (Hnew : forall j, size d <= j -> n_exp (get d1 j) = false).
  { intros j Hj. pose proof (expand_one_new_unexp N cfg d x j Hj) as H. rewrite E in H. exact H. }
  pose proof (expand_one_cases N cfg d x d1 RUnit E) as Hc.
  destruct Hc as [(Hex & Hd & _)|[(Hex & Ef & Hd & _)|[(_ & _ & _ & _ & Hr)|(Hex & Ef & Hk & Hd & _)]]].
  - subst d1. split; [split; [exact Hsi|split; [exact Hnse|split; assumption]]|].
    split; [exact Hex|]. split; [exact Hext|]. intros j H1 H2. lia.
  - (* full space *)
    set (d0 := upd_node d x clear_attr) in *.
    assert (Hsz : size d1 = size d) by (subst d1; unfold d0; rewrite !size_upd_node; reflexivity).
    assert (Hed : sd_edges d1 = sd_edges d) by (subst d1; unfold d0; rewrite !sd_edges_upd_node; reflexivity).
    assert (Hsp : forall j, n_space (get d1 j) = n_space (get d j)).
    { intro j. subst d1. unfold d0. rewrite !n_space_upd_flag by constructor. reflexivity. }
    assert (Hoth : forall j, j <> x -> n_exp (get d1 j) = n_exp (get d j)).
    { intros j Hj. subst d1. unfold d0. rewrite !get_upd_node_neq by lia. reflexivity. }
    assert (Hx1 : n_exp (get d1 x) = true).
    { subst d1. rewrite get_upd_node_eq by (unfold d0; rewrite size_upd_node; exact Hx). reflexivity. }
    split; [split; [exact Hsi1|split; [|split]]|].
    + subst d1. unfold d0. apply NoStubEdges_upd; [constructor|]. apply NoStubEdges_upd; [constructor|exact Hnse].
    + intros i Hi Hmin. apply is_minimal_iff in Hmin. destruct Hmin as [Hout Hexp]. rewrite Hsp.
      destruct (Nat.eq_dec i x) as [->|Hne]; [apply full_trap_min; assumption|].
      apply Hleaf; [rewrite <- Hsz; exact Hi|]. apply is_minimal_iff.
      rewrite <- (out_edges_same_edges d d1 i Hed), <- (Hoth i Hne). split; assumption.
    + intros y M Hy Hexp HM Hsub Hne. rewrite Hsp in Hsub, Hne. rewrite Hsz in Hy.
      destruct (Nat.eq_dec y x) as [->|Hyx].
      * exfalso. apply Hne. symmetry. apply subspace_full; assumption.
      * rewrite (Hoth y Hyx) in Hexp.
        destruct (Hdesc y M Hy Hexp HM Hsub Hne) as (y' & H1 & H2 & H3).
        exists y'. rewrite Hsz, !Hsp. split; [exact H1|]. split; assumption.
    + split; [exact Hx1|]. split; [exact Hext|]. intros j H1 H2. lia.
  - discriminate Hr.
  - (* children for all maximal trap spaces *)
    assert (Hkall : eo_k N cfg d x = length (eo_all N d x)).
    { unfold eo_k in *. apply solver_len_all; assumption. }
    rewrite Hkall, firstn_all in Hd.
    set (d0 := upd_node d x clear_attr) in *.
    set (subs := eo_all N d x) in *.
    set (dA := ensure_all N d0 x subs) in *.
    pose proof (NoStub_out_empty d x Hnse Hex) as Hout0.
    assert (Hsz0 : size d0 = size d) by (unfold d0; apply size_upd_node).
    assert (Hed0 : sd_edges d0 = sd_edges d) by (unfold d0; apply sd_edges_upd_node).
    assert (Hw0 : WI N d0) by (unfold d0; apply WI_upd_flag; [constructor|exact Hw]).
    assert (Hx0 : x < size d0) by (rewrite Hsz0; exact Hx).
    assert (HxA : x < size dA) by (apply (extends_lt d0 dA x (ensure_all_extends N subs d0 x) Hx0)).
    assert (Hsz1 : size d1 = size dA) by (subst d1; apply size_upd_node).
    assert (Hed1 : sd_edges d1 = sd_edges dA) by (subst d1; apply sd_edges_upd_node).
    assert (Hsp1 : forall j, n_space (get d1 j) = n_space (get dA j)).
    { intro j. subst d1. apply n_space_upd_flag. constructor. }
    assert (Hx1 : n_exp (get d1 x) = true).
    { subst d1. rewrite get_upd_node_eq by exact HxA. reflexivity. }
    assert (F3 : forall j, j <> x -> out_edges d1 j = out_edges d j).
    { intros j Hj. rewrite (out_edges_same_edges dA d1 j Hed1). unfold dA.
      rewrite (ensure_all_out_other N subs d0 x j Hj). apply out_edges_same_edges. exact Hed0. }
    assert (F4 : forall j, j < size d -> j <> x -> n_exp (get d1 j) = n_exp (get d j)).
    { intros j Hj Hjx. subst d1. rewrite get_upd_node_neq by lia.
      destruct (ensure_all_old N subs d0 x j ltac:(rewrite Hsz0; exact Hj)) as (_ & He & _).
      fold dA in He. rewrite He. unfold d0. rewrite get_upd_node_neq by lia. reflexivity. }
    assert (Hsubs : forall m, In m subs -> In m (max_traps_b N (n_space (get d x)) (node_srcs N x))).
    { intros m Hm. unfold subs, eo_all in Hm. apply sort_by_key_In in Hm. exact Hm. }
    assert (F7 : Permutation (out_motifs d1 x) subs).
    { rewrite (out_motifs_same_edges dA d1 x Hed1).
      pose proof (ensure_all_out_motifs N subs d0 x) as Hp. fold dA in Hp.
      rewrite (out_motifs_same_edges d d0 x Hed0) in Hp.
      unfold out_motifs at 2 in Hp. rewrite Hout0 in Hp. simpl in Hp. exact Hp. }
    assert (Hspx : n_space (get d1 x) = n_space (get d x)) by (apply (extends_space d d1 x Hext Hx)).
    split; [split; [exact Hsi1|split; [|split]]|].
    + intros e He. destruct (Nat.eq_dec (e_src e) x) as [Hs|Hs]; [rewrite Hs; exact Hx1|].
      assert (Hin : In e (out_edges d1 (e_src e))) by (apply out_edges_In; split; [exact He|reflexivity]).
      rewrite (F3 _ Hs) in Hin. apply out_edges_In in Hin. destruct Hin as [Hin _].
      destruct Hw as (_ & _ & Hedg). destruct (Hedg e Hin) as [Hlt _].
      apply (ext_exp d d1 _ Hext Hlt). apply Hnse. exact Hin.
    + intros i Hi Hmin. apply is_minimal_iff in Hmin. destruct Hmin as [Hout Hexp].
      destruct (Nat.eq_dec i x) as [->|Hne].
      * apply canonical_leaf; [rewrite Hspx; exact HtS| |exact Hout].
        unfold canonical. rewrite Hspx.
        eapply Permutation_trans; [exact F7|]. unfold subs, eo_all. apply sort_by_key_perm.
      * destruct (lt_dec i (size d)) as [Hid|Hid]; [|rewrite Hnew in Hexp by lia; discriminate].
        rewrite (extends_space d d1 i Hext Hid). apply Hleaf; [exact Hid|].
        apply is_minimal_iff. rewrite <- (F3 i Hne), <- (F4 i Hid Hne). split; assumption.
    + intros y M Hy Hexp HM Hsub Hne.
      destruct (Nat.eq_dec y x) as [->|Hyx].
      * rewrite Hspx in Hsub, Hne |- *.
        assert (Hst : strict_subspace M (n_space (get d x))).
        { split; [exact Hsub|]. intro H. apply Hne. symmetry. exact H. }
        destruct (max_trap_above_srcs N _ (node_srcs N x) M (proj1 HM) Hst (min_trap_fixes_node_srcs N M x HM))
          as (M2 & HM2 & HMM2).
        pose proof (proj1 (max_traps_b_spec_srcs N _ _ M2 HS) HM2) as (HtM2 & HstM2 & _).
        assert (HM2s : In M2 subs).
        { unfold subs, eo_all. eapply Permutation_in; [apply Permutation_sym; apply sort_by_key_perm|exact HM2]. }
        destruct (ensure_all_child N subs d0 x M2 Hw0 Hx0) as (c & Hc & Hcsp); [|exact HM2s|].
        { intros m0 Hm0. apply Hsubs in Hm0.
          apply (proj1 (max_traps_b_spec_srcs N _ _ m0 HS) Hm0). }
        fold dA in Hc, Hcsp.
        exists c. rewrite Hsz1, Hsp1, Hcsp. split; [exact Hc|]. split.
        -- pose proof (percolate_mono_weak N M M2 (proj1 HM) (min_trap_length N M HM)
                         (trap_space_length N M2 HtM2) HMM2) as H.
           rewrite (min_trap_closed N M HM) in H. exact H.
        -- apply strict_percolate; [apply trap_space_length; exact HtM2|exact HstM2].
      * destruct (lt_dec y (size d)) as [Hyd|Hyd]; [|rewrite Hnew in Hexp by lia; discriminate].
        rewrite (F4 y Hyd Hyx) in Hexp.
        rewrite (extends_space d d1 y Hext Hyd) in Hsub, Hne |- *.
        destruct (Hdesc y M Hyd Hexp HM Hsub Hne) as (y' & H1 & H2 & H3).
        exists y'. rewrite (extends_space d d1 y' Hext H1).
        split; [apply (extends_lt d d1 y' Hext H1)|]. split; assumption.
    + split; [exact Hx1|]. split; [exact Hext|].
      intros j H1 H2. rewrite Hsz1 in H2.
      assert (Hh : has_edge dA x j = true).
      { unfold dA. apply ensure_all_new_succ; [rewrite Hsz0; exact H1|exact H2]. }
      apply has_edge_succ in Hh. unfold successors in *. rewrite Hed1. exact Hh.
Qed.

Lemma ns_J : forall N cfg d x P, 1 <= max_motifs cfg -> J N d -> x < size d -> Pend d (x :: P) ->
  snd (fst (node_successors N cfg d x)) = RUnit ->
  J N (fst (fst (node_successors N cfg d x))) /\
  Pend (fst (fst (node_successors N cfg d x))) (P ++ snd (node_successors N cfg d x)).
Proof.
  intros N cfg d x P Hmm HJ Hx Hp Hr. unfold node_successors in *.
  destruct (expand_one N cfg d x) as [d1 r] eqn:E.
  destruct r; simpl in Hr; try discriminate. simpl.
  destruct (eo_J N cfg d x d1 Hmm HJ Hx E) as (HJ1 & Hx1 & Hext & Hnew).
  split; [exact HJ1|].
  intros i Hi. destruct (lt_dec i (size d)) as [Hid|Hid].
  - destruct (Hp i Hid) as [He|[He|He]].
    + left. apply (ext_exp d d1 i Hext Hid He).
    + subst i. left. exact Hx1.
    + right. apply in_or_app. left. exact He.
  - right. apply in_or_app. right. apply Hnew; [lia|exact Hi].
Qed.

(* ====================================================================== *)
(* 4. attaching one component sub-diagram at one attach point              *)
(* ====================================================================== *)

Lemma extends_out_empty : forall d d' i, extends d d' -> out_edges d' i = [] -> out_edges d i = [].
Proof.
  intros d d' i (_ & _ & _ & _ & He) Hout.
  destruct (out_edges d i) as [|e r] eqn:E; [reflexivity|]. exfalso.
  assert (Hin : In e (out_edges d i)) by (rewrite E; left; reflexivity).
  apply out_edges_In in Hin. destruct Hin as [Hin Hsrc].
  destruct (He e Hin) as (e' & Hin' & Hs' & _).
  assert (H : In e' (out_edges d' i)) by (apply out_edges_In; split; [exact Hin'|congruence]).
  rewrite Hout in H. exact H.
Qed.

Lemma n_exp_clear : forall d i k, n_exp (get (upd_node d i clear_attr) k) = n_exp (get d k).
Proof.
  intros d i k. destruct (get_upd_node_cases d i k clear_attr) as [H|(_ & _ & H)]; rewrite H; reflexivity.
Qed.

Lemma size_discard : forall d i, size (discard_if_stub d i) = size d.
Proof.
  intros d i. unfold discard_if_stub. destruct (n_exp (get d i) && negb (n_skip (get d i))); [reflexivity|].
  apply size_upd_node.
Qed.

Lemma sd_edges_discard : forall d i, sd_edges (discard_if_stub d i) = sd_edges d.
Proof.
  intros d i. unfold discard_if_stub. destruct (n_exp (get d i) && negb (n_skip (get d i))); [reflexivity|].
  apply sd_edges_upd_node.
Qed.

Lemma n_exp_discard : forall d i k, n_exp (get (discard_if_stub d i) k) = n_exp (get d k).
Proof.
  intros d i k. unfold discard_if_stub. destruct (n_exp (get d i) && negb (n_skip (get d i))); [reflexivity|].
  apply n_exp_clear.
Qed.

Lemma n_space_discard : forall d i k, n_space (get (discard_if_stub d i) k) = n_space (get d k).
Proof.
  intros d i k. unfold discard_if_stub. destruct (n_exp (get d i) && negb (n_skip (get d i))); [reflexivity|].
  apply n_space_upd_flag. constructor.
Qed.

Lemma n_space_set_empty_seeds : forall d i k, n_space (get (set_empty_seeds d i) k) = n_space (get d k).
Proof.
  intros d i k. rewrite set_empty_seeds_unfold. rewrite !n_space_upd_flag by constructor. reflexivity.
Qed.

Lemma n_exp_mark : forall d i k, i < size d ->
  n_exp (get (upd_node d i (fun y => set_exp y true)) k) = if Nat.eqb k i then true else n_exp (get d k).
Proof.
  intros d i k Hi. destruct (Nat.eqb_spec k i) as [->|Hne].
  - rewrite get_upd_node_eq by exact Hi. reflexivity.
  - rewrite get_upd_node_neq by lia. reflexivity.
Qed.

Lemma succ_nonmin : forall d j b, In b (successors d j) -> is_minimal d j = false.
Proof.
  intros d j b H. unfold is_minimal, out_degree. destruct (successors d j); [destruct H|reflexivity].
Qed.

Lemma nonmin_succ : forall d j, n_exp (get d j) = true -> is_minimal d j = false ->
  exists b, In b (successors d j).
Proof.
  intros d j He H. unfold is_minimal, out_degree in H. rewrite He in H.
  destruct (successors d j) as [|b r]; [simpl in H; discriminate|]. exists b. left. reflexivity.
Qed.

Lemma root_nonmin : forall N' sub, SI N' sub -> LeafOK N' sub ->
  n_space (get sub 0) = percolate_b N' (top_space (nvars N')) -> size sub <> 1 -> is_minimal sub 0 = false.
Proof.
  intros N' sub Hsi Hleaf Hroot Hsz. destruct (is_minimal sub 0) eqn:E; [exfalso|reflexivity].
  assert (Hpos : 0 < size sub) by (destruct Hsi as ((Hp & _) & _); exact Hp).
  pose proof (Hleaf 0 Hpos E) as Hmin.
  assert (H1 : 1 < size sub) by lia.
  destruct (SI_get N' sub 1 Hsi H1) as [Ht1 Hp1].
  pose proof (trap_space_length N' _ Ht1) as Hl1.
  assert (Hsub : subspace (n_space (get sub 1)) (n_space (get sub 0)) = true).
  { rewrite Hroot, <- Hp1.
    apply percolate_mono_weak; [exact Ht1|exact Hl1|unfold top_space; apply repeat_length|].
    rewrite <- Hl1. apply subspace_top. }
  pose proof (proj2 Hmin _ Ht1 Hsub) as Heq.
  pose proof (SI_spaces_inj N' sub 1 0 Hsi H1 Hpos Heq). lia.
Qed.

Lemma an_step_track : forall N B sub A i d mins,
  snd (fst (an_step N B sub A i d mins)) < size (fst (fst (an_step N B sub A i d mins))) ->
  sd_edges (fst (fst (an_step N B sub A i d mins))) = sd_edges d /\
  (forall k, k < size (fst (fst (an_step N B sub A i d mins))) ->
     n_exp (get (fst (fst (an_step N B sub A i d mins))) k) = true ->
     (k < size d /\ n_exp (get d k) = true) \/
     (k = snd (fst (an_step N B sub A i d mins)) /\ is_minimal sub i = false)) /\
  (forall k, size d <= k -> k < size (fst (fst (an_step N B sub A i d mins))) ->
     k = snd (fst (an_step N B sub A i d mins))) /\
  (is_minimal sub i = true -> In (snd (fst (an_step N B sub A i d mins))) (snd (an_step N B sub A i d mins))) /\
  (is_minimal sub i = false ->
     n_exp (get (fst (fst (an_step N B sub A i d mins))) (snd (fst (an_step N B sub A i d mins)))) = true) /\
  (forall m, In m mins -> In m (snd (an_step N B sub A i d mins))).
Proof.
  intros N B sub A i d mins. unfold an_step.
  set (G := graft B (n_space (get sub i)) A).
  pose proof (sd_edges_ensure_root N d G) as Hed.
  pose proof (ensure_node_old N d None G) as Hold.
  pose proof (ensure_node_new N d None G) as Hnew.
  pose proof (size_ensure_node_cases N d None G) as Hsz.
  destruct (ensure_node N d None G) as [d1 mid]. simpl in Hed, Hold, Hnew, Hsz.
  assert (Hnewid : forall k, size d <= k -> k < size d1 -> k = mid).
  { intros k H1 H2. destruct Hsz as [[_ Hs]|(_ & Hc & Hs)]; lia. }
  assert (Hexp1 : forall k, k < size d1 -> n_exp (get d1 k) = true -> k < size d /\ n_exp (get d k) = true).
  { intros k Hk Hexp. destruct (lt_dec k (size d)) as [Hkd|Hkd].
    - split; [exact Hkd|]. destruct (Hold k Hkd) as (_ & He & _). rewrite <- He. exact Hexp.
    - destruct (Hnew k ltac:(lia) Hk) as [Hf _]. rewrite Hf in Hexp. discriminate. }
  destruct (is_minimal sub i) eqn:Emin; simpl; intro Hmid.
  - split; [exact Hed|]. split; [intros k Hk Hexp; left; apply Hexp1; assumption|].
    split; [exact Hnewid|]. split; [intros _; apply in_or_app; right; left; reflexivity|].
    split; [intro H; discriminate|]. intros m Hm. apply in_or_app. left. exact Hm.
  - rewrite size_upd_node, size_discard in Hmid.
    assert (Hmid' : mid < size (discard_if_stub d1 mid)) by (rewrite size_discard; exact Hmid).
    split; [rewrite ?sd_edges_upd_node, sd_edges_discard; exact Hed|]. split.
    { intros k Hk Hexp. rewrite size_upd_node, size_discard in Hk.
      rewrite (n_exp_mark _ mid k Hmid') in Hexp.
      destruct (Nat.eqb_spec k mid) as [->|Hne]; [right; split; reflexivity|].
      rewrite n_exp_discard in Hexp. left. apply Hexp1; assumption. }
    split. { intros k H1 H2. rewrite size_upd_node, size_discard in H2. apply Hnewid; assumption. }
    split; [intro H; discriminate|].
    split; [intros _; rewrite (n_exp_mark _ mid mid Hmid'), Nat.eqb_refl; reflexivity|].
    intros m Hm. exact Hm.
Qed.

Lemma attach_edges_track : forall B sub map_ pairs d d2, attach_edges B sub map_ pairs d = Some d2 ->
  size d2 = size d /\ (forall k, n_exp (get d2 k) = n_exp (get d k)) /\
  (forall k, n_space (get d2 k) = n_space (get d k)) /\
  (forall a b, In (a, b) pairs -> has_edge d2 (nth a map_ 0) (nth b map_ 0) = true) /\
  (forall j, (forall a b, In (a, b) pairs -> nth a map_ 0 <> j) -> out_edges d2 j = out_edges d j).
Proof.
  intros B sub map_ pairs. induction pairs as [|[a b] r IH]; intros d d2 He.
  - rewrite attach_edges_nil in He. injection He as He. subst d2.
    split; [reflexivity|]. split; [reflexivity|]. split; [reflexivity|]. split; [intros a b []|reflexivity].
  - rewrite attach_edges_cons in He. destruct (Nat.eqb (nth a map_ 0) (nth b map_ 0)); [discriminate|].
    set (d' := ensure_edge d (nth a map_ 0) (nth b map_ 0) (only_on B (first_motif sub a b))) in *.
    destruct (IH d' d2 He) as (H1 & H2 & H3 & H4 & H5).
    split; [rewrite H1; apply size_ensure_edge|].
    split; [intro k; rewrite H2; apply n_exp_ensure_edge|].
    split; [intro k; rewrite H3; apply n_space_ensure_edge|].
    split.
    + intros a0 b0 [Heq|Hin]; [|apply H4; exact Hin]. injection Heq as E1 E2. subst a0 b0.
      apply (has_edge_extends d' d2 _ _ (attach_edges_extends B sub map_ r d' d2 He)).
      apply has_edge_true. unfold d'. rewrite sd_edges_ensure_edge. apply edge_added_has.
    + intros j Hj. rewrite H5 by (intros a0 b0 Hin; apply (Hj a0 b0); right; exact Hin).
      unfold d'. apply ensure_edge_out_other. intro Heq. apply (Hj a b (or_introl eq_refl)). symmetry. exact Heq.
Qed.

Lemma as_close_track : forall cm d2 a mins tape1, a < size d2 ->
  snd (fst (fst (as_close cm d2 a mins tape1))) = RUnit ->
  snd (fst (as_close cm d2 a mins tape1)) = mins /\
  size (fst (fst (fst (as_close cm d2 a mins tape1)))) = size d2 /\
  sd_edges (fst (fst (fst (as_close cm d2 a mins tape1)))) = sd_edges d2 /\
  (forall k, n_space (get (fst (fst (fst (as_close cm d2 a mins tape1)))) k) = n_space (get d2 k)) /\
  (forall k, n_exp (get (fst (fst (fst (as_close cm d2 a mins tape1)))) k) =
             if Nat.eqb k a then true else n_exp (get d2 k)).
Proof.
  intros cm d2 a mins tape1 Ha Hr.
  set (d3 := upd_node (discard_if_stub d2 a) a (fun y => set_exp y true)).
  assert (Ha' : a < size (discard_if_stub d2 a)) by (rewrite size_discard; exact Ha).
  assert (F3 : size d3 = size d2 /\ sd_edges d3 = sd_edges d2 /\
               (forall k, n_space (get d3 k) = n_space (get d2 k)) /\
               (forall k, n_exp (get d3 k) = if Nat.eqb k a then true else n_exp (get d2 k))).
  { unfold d3. split; [rewrite size_upd_node; apply size_discard|].
    split; [rewrite sd_edges_upd_node; apply sd_edges_discard|].
    split; [intro k; rewrite n_space_upd_flag by constructor; apply n_space_discard|].
    intro k. rewrite (n_exp_mark _ a k Ha'). rewrite n_exp_discard. reflexivity. }
  assert (F4 : size (set_empty_seeds d3 a) = size d2 /\ sd_edges (set_empty_seeds d3 a) = sd_edges d2 /\
               (forall k, n_space (get (set_empty_seeds d3 a) k) = n_space (get d2 k)) /\
               (forall k, n_exp (get (set_empty_seeds d3 a) k) = if Nat.eqb k a then true else n_exp (get d2 k))).
  { destruct F3 as (A1 & A2 & A3 & A4).
    split; [rewrite size_set_empty_seeds; exact A1|]. split; [rewrite sd_edges_set_empty_seeds; exact A2|].
    split; [intro k; rewrite n_space_set_empty_seeds; apply A3|].
    intro k. rewrite n_exp_set_empty_seeds. apply A4. }
  unfold as_close in *. fold d3 in Hr |- *.
  destruct cm; [destruct tape1 as [|[[|]|] t]|]; simpl in Hr |- *; try discriminate;
    (split; [reflexivity|]); assumption.
Qed.

Lemma attach_scc_J : forall N cm sp B rest sub d a tape Q,
  senv N sp B rest sub -> size sub <> 1 ->
  AllExpanded sub -> LeafOK (sub_net N sp B) sub -> MinFound (sub_net N sp B) sub ->
  J N d -> good_at sp (B :: rest) d a -> Pend d (a :: Q) ->
  snd (fst (fst (attach_scc N cm B sub d a tape))) = RUnit ->
  J N (fst (fst (fst (attach_scc N cm B sub d a tape)))) /\
  Pend (fst (fst (fst (attach_scc N cm B sub d a tape)))) (Q ++ snd (fst (attach_scc N cm B sub d a tape))).
Proof.
  intros N cm sp B rest sub d a tape Q Henv Hsz Hall Hleafs Hfound (Hsi & Hnse & Hleaf & Hdesc) Hga Hpend.
  destruct (attach_scc_SI N cm sp B rest sub d a tape Henv Hsi Hga) as (HsiF & _ & _).
  pose proof (attach_scc_extends N cm B sub d a tape) as HextF.
  revert HsiF HextF.
  rewrite attach_scc_unfold.
  destruct (Nat.eqb (size sub) 1) eqn:Esz; [apply Nat.eqb_eq in Esz; contradiction|].
  pose proof Hga as (Ha & HAsp & HAfree0).
  destruct (SI_get N d a Hsi Ha) as [HtA HApc].
  set (A := n_space (get d a)) in *.
  assert (HAfree : forall v, In v B -> nth v A None = None).
  { intros v Hv. apply (HAfree0 B v); [left; reflexivity|exact Hv]. }
  pose proof (se_sub _ _ _ _ _ Henv) as Hsub.
  pose proof (se_trap _ _ _ _ _ Henv) as HtS.
  pose proof (se_pc _ _ _ _ _ Henv) as Hpc.
  pose proof (se_closed _ _ _ _ _ Henv) as Hc.
  assert (Hpos : 0 < size sub) by (destruct Hsub as ((Hp & _) & _); exact Hp).
  pose proof (G_root N sp B HtS Hpc Hc A HAfree HApc) as Hroot.
  pose proof (root_nonmin _ sub Hsub Hleafs (se_root _ _ _ _ _ Henv) Hsz) as Hroot_nm.
  pose proof (SI_WI N d Hsi) as Hw.
  set (T := fun j => n_space (get sub j)).
  set (P := fun (d' : sd) (map_ mins : list nat) =>
    SI N d' /\ extends d d' /\ sd_edges d' = sd_edges d /\ nth 0 map_ 0 = a /\ 1 <= length map_ /\
    (forall j, j < length map_ -> nth j map_ 0 < size d' /\ n_space (get d' (nth j map_ 0)) = Pf N B A (T j)) /\
    (forall j, 1 <= j < length map_ -> is_minimal sub j = true -> In (nth j map_ 0) mins) /\
    (forall j, 1 <= j < length map_ -> is_minimal sub j = false -> n_exp (get d' (nth j map_ 0)) = true) /\
    (forall k, k < size d' -> n_exp (get d' k) = true ->
       (k < size d /\ n_exp (get d k) = true) \/
       exists j, 1 <= j < length map_ /\ is_minimal sub j = false /\ k = nth j map_ 0) /\
    (forall k, size d <= k -> k < size d' -> exists j, 1 <= j < length map_ /\ k = nth j map_ 0)).
  destruct (attach_nodes_inv_pos P N cm B sub A 1 (size sub)) with (n := size sub - 1) (k := 1) (d := d)
    (map_ := [a]) (mins := @nil nat) (tape := tape) as (m & mi & HP & Heq).
  - intros i d0 map_ mins Hi Hlen (Hs0 & He0 & Hed0 & Hn0 & Hl0 & Hmap0 & Hmin0 & Hnon0 & Hexp0 & Hnew0).
    assert (Hil : i < size sub) by lia.
    destruct (an_step_SI N sp B rest sub A i d0 mins Henv Hil HtA HAsp HAfree Hs0) as (Hs2 & Hmid & Hspm & _).
    pose proof (an_step_extends N B sub A i d0 mins) as He2.
    destruct (an_step_track N B sub A i d0 mins Hmid) as (Ted & Texp & Tnew & Tmin & Tnon & Tmins).
    set (d2 := fst (fst (an_step N B sub A i d0 mins))) in *.
    set (mid := snd (fst (an_step N B sub A i d0 mins))) in *.
    set (mins2 := snd (an_step N B sub A i d0 mins)) in *.
    assert (Hlast : nth (length map_) (map_ ++ [mid]) 0 = mid).
    { rewrite app_nth2 by lia. rewrite Nat.sub_diag. reflexivity. }
    assert (K : forall d', SI N d' -> extends d2 d' -> sd_edges d' = sd_edges d2 -> size d' = size d2 ->
              (forall k, n_exp (get d' k) = n_exp (get d2 k)) -> P d' (map_ ++ [mid]) mins2).
    { intros d' Hs' He' Hed' Hsz' Hex'.
      assert (He0' : extends d0 d') by (eapply extends_trans; eassumption).
      split; [exact Hs'|]. split; [eapply extends_trans; eassumption|].
      split; [rewrite Hed', Ted; exact Hed0|].
      split; [rewrite app_nth1 by lia; exact Hn0|].
      split; [rewrite app_length; simpl; lia|].
      split.
      { intros j Hj. rewrite app_length in Hj. simpl in Hj.
        destruct (Nat.eq_dec j (length map_)) as [Ej|Ej].
        - subst j. rewrite Hlast. split; [apply (extends_lt _ d' _ He' Hmid)|].
          rewrite (extends_space _ d' _ He' Hmid), Hspm, Hlen. reflexivity.
        - assert (Hj' : j < length map_) by lia. rewrite app_nth1 by exact Hj'.
          destruct (Hmap0 j Hj') as [M1 M2].
          split; [apply (extends_lt d0 d' _ He0' M1)|]. rewrite (extends_space d0 d' _ He0' M1). exact M2. }
      split.
      { intros j Hj Hm. rewrite app_length in Hj. simpl in Hj.
        destruct (Nat.eq_dec j (length map_)) as [Ej|Ej].
        - subst j. rewrite Hlast. apply Tmin. rewrite <- Hlen. exact Hm.
        - rewrite app_nth1 by lia. apply Tmins. apply Hmin0; [lia|exact Hm]. }
      split.
      { intros j Hj Hm. rewrite app_length in Hj. simpl in Hj. rewrite Hex'.
        destruct (Nat.eq_dec j (length map_)) as [Ej|Ej].
        - subst j. rewrite Hlast. apply Tnon. rewrite <- Hlen. exact Hm.
        - rewrite app_nth1 by lia. destruct (Hmap0 j ltac:(lia)) as [M1 _].
          apply (ext_exp d0 d2 _ He2 M1). apply Hnon0; [lia|exact Hm]. }
      split.
      { intros k Hk Hexp. rewrite Hsz' in Hk. rewrite Hex' in Hexp.
        destruct (Texp k Hk Hexp) as [[H1 H2]|[H1 H2]].
        - destruct (Hexp0 k H1 H2) as [Hl|(j & Hj & Hjm & Hjk)]; [left; exact Hl|].
          right. exists j. split; [rewrite app_length; simpl; lia|]. split; [exact Hjm|].
          rewrite app_nth1 by lia. exact Hjk.
        - right. exists (length map_). split; [rewrite app_length; simpl; lia|].
          split; [rewrite Hlen; exact H2|]. rewrite Hlast. exact H1. }
      intros k Hk1 Hk2. rewrite Hsz' in Hk2.
      destruct (lt_dec k (size d0)) as [Hk0|Hk0].
      - destruct (Hnew0 k Hk1 Hk0) as (j & Hj & Hjk). exists j.
        split; [rewrite app_length; simpl; lia|]. rewrite app_nth1 by lia. exact Hjk.
      - exists (length map_). split; [rewrite app_length; simpl; lia|].
        rewrite Hlast. apply Tnew; [lia|exact Hk2]. }
    split.
    + apply K; [exact Hs2|apply extends_refl|reflexivity|reflexivity|reflexivity].
    + apply K; [apply SI_set_empty_seeds; exact Hs2|apply set_empty_seeds_extends|
                apply sd_edges_set_empty_seeds|apply size_set_empty_seeds|].
      intro k. apply n_exp_set_empty_seeds.
  - lia.
  - lia.
  - reflexivity.
  - split; [exact Hsi|]. split; [apply extends_refl|]. split; [reflexivity|]. split; [reflexivity|].
    split; [simpl; lia|]. split.
    { intros j Hj. simpl in Hj. assert (j = 0) by lia. subst j. simpl. split; [exact Ha|].
      unfold T. rewrite (se_root _ _ _ _ _ Henv), Hroot. reflexivity. }
    split; [intros j Hj; simpl in Hj; lia|]. split; [intros j Hj; simpl in Hj; lia|].
    split; [intros k Hk Hexp; left; split; assumption|]. intros k H1 H2. lia.
  - cbv zeta. fold A.
    set (r := attach_nodes N cm B sub A (seq 1 (size sub - 1)) d [a] [] tape) in *.
    destruct (snd (fst r)) as [[map_ mins]|] eqn:Er; [|simpl; intros _ _ Hr; discriminate].
    destruct (Heq map_ mins eq_refl) as (E1 & E2 & E3). subst m mi.
    destruct HP as (Hs1 & He1 & Hed1 & Hn1 & Hl1 & Hmap & Hmin1 & Hnon1 & Hexp1 & Hnew1).
    assert (Hlm : length map_ = size sub) by lia.
    set (pairs := flat_map (fun a0 => map (fun b => (a0, b)) (successors sub a0)) (seq 0 (size sub))).
    assert (Hpairs : forall x y, In (x, y) pairs <-> x < size sub /\ In y (successors sub x)).
    { intros x y. unfold pairs. rewrite in_flat_map. split.
      - intros (x0 & Hx0 & Hin). apply in_map_iff in Hin. destruct Hin as (y0 & Eq & Hy0).
        injection Eq as Eq1 Eq2. subst x0 y0. apply in_seq in Hx0. split; [lia|exact Hy0].
      - intros [Hx Hy]. exists x. split; [apply in_seq; lia|]. apply in_map_iff. exists y. split; [reflexivity|exact Hy]. }
    destruct (attach_edges_SI N sp B rest sub A map_ Henv HtA HAsp HAfree pairs (fst (fst r)) Hs1)
      as (d2 & Ee & Hs2 & He2).
    { intros x y Hin. apply Hpairs in Hin. destruct Hin as [Hx Hy]. split; [exact Hx|].
      apply (SI_successors_strict _ sub x y Hsub Hy). }
    { intros j Hj. apply Hmap. lia. }
    fold pairs. rewrite Ee.
    destruct (attach_edges_track B sub map_ pairs (fst (fst r)) d2 Ee) as (Esz2 & Eexp2 & Esp2 & Ehas & Eout).
    set (d1 := fst (fst r)) in *.
    assert (Ha2 : a < size d2) by (rewrite Esz2; apply (extends_lt d d1 a He1 Ha)).
    intros HsiF HextF Hres.
    destruct (as_close_track cm d2 a mins (snd r) Ha2 Hres) as (Cm & Csz & Ced & Csp & Cexp).
    set (d4 := fst (fst (fst (as_close cm d2 a mins (snd r))))) in *.
    rewrite Cm.
    (* images of the nodes of the sub-diagram *)
    assert (Himg : forall j, j < size sub -> nth j map_ 0 < size d4 /\
                     n_space (get d4 (nth j map_ 0)) = Pf N B A (T j)).
    { intros j Hj. destruct (Hmap j ltac:(lia)) as [M1 M2].
      split; [rewrite Csz, Esz2; exact M1|]. rewrite Csp, Esp2. exact M2. }
    assert (Hnm_exp : forall j, j < size sub -> is_minimal sub j = false -> n_exp (get d4 (nth j map_ 0)) = true).
    { intros j Hj Hm. rewrite Cexp. destruct (Nat.eqb_spec (nth j map_ 0) a) as [_|Hne]; [reflexivity|].
      rewrite Eexp2. destruct (Nat.eq_dec j 0) as [->|Hj0]; [exfalso; apply Hne; exact Hn1|].
      apply Hnon1; [lia|exact Hm]. }
    assert (Hnm_out : forall j, j < size sub -> is_minimal sub j = false -> out_edges d4 (nth j map_ 0) <> []).
    { intros j Hj Hm. destruct (nonmin_succ sub j (Hall j Hj) Hm) as (b & Hb).
      rewrite (out_edges_same_edges d2 d4 _ Ced).
      apply (has_edge_out_nonempty d2 _ (nth b map_ 0)). apply Ehas. apply Hpairs. split; assumption. }
    assert (Horigin : forall k, k < size d4 -> n_exp (get d4 k) = true ->
              (k < size d /\ n_exp (get d k) = true) \/
              exists j, j < size sub /\ is_minimal sub j = false /\ k = nth j map_ 0).
    { intros k Hk Hexp. rewrite Cexp in Hexp. destruct (Nat.eqb_spec k a) as [->|Hne].
      - right. exists 0. split; [exact Hpos|]. split; [exact Hroot_nm|symmetry; exact Hn1].
      - rewrite Eexp2 in Hexp. rewrite Csz, Esz2 in Hk.
        destruct (Hexp1 k Hk Hexp) as [Hl|(j & Hj & Hjm & Hjk)]; [left; exact Hl|].
        right. exists j. split; [lia|]. split; assumption. }
    assert (Hext14 : extends d d4) by exact HextF.
    assert (Hsrc_exp : forall x y, In (x, y) pairs -> n_exp (get d4 (nth x map_ 0)) = true).
    { intros x y Hin. apply Hpairs in Hin. destruct Hin as [Hx Hy].
      apply Hnm_exp; [exact Hx|]. apply (succ_nonmin sub x y Hy). }
    split; [split; [exact HsiF|split; [|split]]|].
    + (* NoStubEdges *)
      intros e He. destruct (n_exp (get d4 (e_src e))) eqn:Ex; [reflexivity|exfalso].
      assert (Hno : forall x y, In (x, y) pairs -> nth x map_ 0 <> e_src e).
      { intros x y Hin Heq'. rewrite <- Heq', (Hsrc_exp x y Hin) in Ex. discriminate. }
      assert (Hin : In e (out_edges d4 (e_src e))) by (apply out_edges_In; split; [exact He|reflexivity]).
      rewrite (out_edges_same_edges d2 d4 _ Ced), (Eout _ Hno), (out_edges_same_edges d d1 _ Hed1) in Hin.
      apply out_edges_In in Hin. destruct Hin as [Hin _].
      destruct Hw as (_ & _ & Hedg). destruct (Hedg e Hin) as [Hlt _].
      rewrite (ext_exp d d4 _ Hext14 Hlt (Hnse e Hin)) in Ex. discriminate.
    + (* LeafOK *)
      intros i Hi Hmin. apply is_minimal_iff in Hmin. destruct Hmin as [Hout Hexp].
      destruct (Horigin i Hi Hexp) as [[Hid Hie]|(j & Hj & Hjm & Hjk)].
      * rewrite (extends_space d d4 i Hext14 Hid). apply Hleaf; [exact Hid|].
        apply is_minimal_iff. split; [apply (extends_out_empty d d4 i Hext14 Hout)|exact Hie].
      * exfalso. subst i. apply (Hnm_out j Hj Hjm). exact Hout.
    + (* Desc *)
      intros y M Hy Hexp HM HsubM Hne.
      destruct (Horigin y Hy Hexp) as [[Hyd Hye]|(j & Hj & Hjm & Hjk)].
      * rewrite (extends_space d d4 y Hext14 Hyd) in HsubM, Hne |- *.
        destruct (Hdesc y M Hyd Hye HM HsubM Hne) as (y' & H1 & H2 & H3).
        exists y'. rewrite (extends_space d d4 y' Hext14 H1).
        split; [apply (extends_lt d d4 y' Hext14 H1)|]. split; assumption.
      * subst y. destruct (Himg j Hj) as [_ Hspj]. rewrite Hspj in HsubM, Hne |- *.
        pose proof (senv_subT N sp B rest sub j Henv Hj) as HTj. fold (T j) in HTj.
        assert (HMA : subspace M A = true).
        { apply (subspace_trans M _ A HsubM). apply (G_sub_A N B A HtA HAfree). }
        assert (HMsp : subspace M sp = true) by (apply (subspace_trans M A sp HMA HAsp)).
        pose proof (PJ_min N sp B HtS Hc M HM HMsp) as Hpmin.
        destruct (Hfound _ Hpmin) as (t & Ht & Htm & Htsp).
        pose proof (senv_subT N sp B rest sub t Henv Ht) as HTt. fold (T t) in HTt.
        assert (HTtj : strict_subspace (T t) (T j)).
        { split.
          - unfold T at 1. rewrite Htsp. apply (PJ_sub N sp B HtS Hc M A HtA HAsp HAfree (T j) HTj HsubM).
          - intro Heq'. assert (t = j) by (apply (SI_spaces_inj _ sub t j Hsub Ht Hj Heq')).
            subst t. rewrite Htm in Hjm. discriminate. }
        destruct (Himg t Ht) as [Hlt Hspt].
        exists (nth t map_ 0). rewrite Hspt. split; [exact Hlt|]. split.
        -- unfold T. rewrite Htsp. apply (PJ_below N sp B Hc M HM A HtA HMA).
        -- apply (G_strict N sp B HtS Hc A HtA HAsp HAfree (T t) (T j) HTt HTj HTtj).
    + (* the work list *)
      intros i Hi. destruct (lt_dec i (size d)) as [Hid|Hid].
      * destruct (Hpend i Hid) as [He|[He|He]].
        -- left. apply (ext_exp d d4 i Hext14 Hid He).
        -- subst i. left. rewrite Cexp, Nat.eqb_refl. reflexivity.
        -- right. apply in_or_app. left. exact He.
      * rewrite Csz, Esz2 in Hi. destruct (Hnew1 i ltac:(lia) Hi) as (j & Hj & Hjk). subst i.
        destruct (is_minimal sub j) eqn:Em.
        -- right. apply in_or_app. right. apply Hmin1; assumption.
        -- left. apply Hnm_exp; [lia|exact Em].
Qed.

(* ====================================================================== *)
(* 5. all attach points, all components                                    *)
(* ====================================================================== *)

Lemma incl_L1 : forall (r acc Q mins : list nat) i, In i ((r ++ acc ++ Q) ++ mins) -> In i (r ++ (acc ++ mins) ++ Q).
Proof. intros r acc Q mins i H. rewrite !in_app_iff in *. tauto. Qed.

Lemma incl_L2 : forall (cur' next succ : list nat) i, In i ((cur' ++ next) ++ succ) -> In i (cur' ++ union_nat next succ).
Proof.
  intros cur' next succ i H. rewrite !in_app_iff in H. apply in_or_app.
  destruct H as [[H|H]|H]; [left; exact H|right; apply union_nat_l; exact H|right; apply union_nat_r; exact H].
Qed.

Lemma incl_L3 : forall (ats cur' next : list nat) i, In i (ats ++ cur' ++ next) -> In i (cur' ++ union_nat next ats).
Proof.
  intros ats cur' next i H. rewrite !in_app_iff in H. apply in_or_app.
  destruct H as [H|[H|H]]; [right; apply union_nat_r; exact H|left; exact H|right; apply union_nat_l; exact H].
Qed.

Lemma attach_all_J : forall N cm sp B rest sub, senv N sp B rest sub -> size sub <> 1 ->
  AllExpanded sub -> LeafOK (sub_net N sp B) sub -> MinFound (sub_net N sp B) sub ->
  forall ats d acc tape Q, J N d ->
  (forall a, In a ats -> good_at sp (B :: rest) d a) ->
  Pend d (ats ++ acc ++ Q) ->
  snd (fst (fst (attach_all N cm B sub d ats acc tape))) = RUnit ->
  J N (fst (fst (fst (attach_all N cm B sub d ats acc tape)))) /\
  Pend (fst (fst (fst (attach_all N cm B sub d ats acc tape)))) (snd (fst (attach_all N cm B sub d ats acc tape)) ++ Q).
Proof.
  intros N cm sp B rest sub Henv Hsz Hall Hleafs Hfound ats.
  induction ats as [|a r IH]; intros d acc tape Q HJ Hats Hp.
  - rewrite attach_all_nil. simpl. intros _. split; assumption.
  - rewrite attach_all_cons. cbv zeta.
    pose proof (attach_scc_J N cm sp B rest sub d a tape (r ++ acc ++ Q) Henv Hsz Hall Hleafs Hfound HJ
                  (Hats a (or_introl eq_refl)) Hp) as H1.
    pose proof (attach_scc_extends N cm B sub d a tape) as He1.
    set (x := attach_scc N cm B sub d a tape) in *.
    destruct (snd (fst (fst x))) eqn:Er; simpl; try (intro Hd; discriminate Hd).
    destruct (H1 eq_refl) as [HJ1 Hp1].
    apply IH; [exact HJ1| |].
    + intros a0 Ha0. apply (good_at_extends sp (B :: rest) d _ a0 He1). apply Hats. right. exact Ha0.
    + apply (Pend_incl _ _ _ (fun i => incl_L1 r acc Q (snd (fst x)) i) Hp1).
Qed.

Definition exp_cpl (expander : expander_t) : Prop :=
  forall N' t', snd (fst (expander N' (init N') t')) = RBool true ->
    AllExpanded (fst (fst (expander N' (init N') t'))) /\
    LeafOK N' (fst (fst (expander N' (init N') t'))) /\
    MinFound N' (fst (fst (expander N' (init N') t'))).

Lemma scc_components_J : forall expander F N cm sp, exp_good F expander -> exp_cpl expander ->
  trap_space N sp -> perc_closed N sp ->
  forall comps d ats tape Q, (forall B, In B comps -> closed_in N sp B) -> pw_disj comps -> J N d ->
  (forall a, In a ats -> good_at sp comps d a) -> Pend d (ats ++ Q) ->
  snd (fst (fst (scc_components expander N cm sp comps d ats tape))) = RUnit ->
  J N (fst (fst (fst (scc_components expander N cm sp comps d ats tape)))) /\
  Pend (fst (fst (fst (scc_components expander N cm sp comps d ats tape))))
       (snd (fst (scc_components expander N cm sp comps d ats tape)) ++ Q).
Proof.
  intros expander F N cm sp Hexp Hcpl HtS Hpc comps.
  induction comps as [|B r IH]; intros d ats tape Q Hcl Hpw HJ Hats Hp.
  - rewrite scc_components_nil. simpl. intros _. split; assumption.
  - rewrite scc_components_cons. cbv zeta.
    set (Nsub := sub_net N sp B).
    destruct (Hexp Nsub (init Nsub) tape (init_SI Nsub)) as (Hsub & Hesub & _ & _).
    pose proof (Hcpl Nsub tape) as Hc1.
    set (e := expander Nsub (init Nsub) tape) in *.
    destruct (snd (fst e)) as [|[|]| | | |] eqn:Ers; try (simpl; intros _; split; assumption).
    destruct (Hc1 eq_refl) as (Hall & Hleafs & Hfound).
    destruct Hpw as [Hdis Hpw'].
    assert (Henv : senv N sp B r (fst (fst e))).
    { constructor; [exact HtS|exact Hpc|apply Hcl; left; reflexivity| |exact Hsub|].
      - intros B' HB'. split; [apply Hcl; right; exact HB'|apply Hdis; exact HB'].
      - assert (Hp0 : 0 < size (init Nsub)) by (apply (swf_size _ _ (init_SWF Nsub))).
        rewrite (extends_space _ _ 0 Hesub Hp0), init_root_space. reflexivity. }
    assert (Hcl' : forall B', In B' r -> closed_in N sp B') by (intros B' HB'; apply Hcl; right; exact HB').
    destruct (Nat.eq_dec (size (fst (fst e))) 1) as [Hsz|Hsz].
    + rewrite (attach_all_size1 N cm B (fst (fst e)) ats d [] (snd e) Hsz). simpl.
      apply IH; try assumption.
      intros a Ha. apply (good_at_weaken sp B r d a). apply Hats. exact Ha.
    + pose proof (attach_all_J N cm sp B r (fst (fst e)) Henv Hsz Hall Hleafs Hfound ats d [] (snd e) Q HJ Hats Hp) as H1.
      destruct (attach_all_WI N cm sp B r (fst (fst e)) (senv_attach_env _ _ _ _ _ Henv) ats d [] (snd e)
                  (SI_WI N d (proj1 HJ)) Hats) as [_ Hg1]; [intros a []|].
      set (y := attach_all N cm B (fst (fst e)) d ats [] (snd e)) in *.
      destruct (snd (fst (fst y))) eqn:Ey; simpl; try (intro Hd; discriminate Hd).
      destruct (H1 eq_refl) as [HJ1 Hp1].
      apply IH; assumption.
Qed.

(* the results of attaching are RUnit or raised errors *)
Lemma attach_scc_res : forall N cm B sub d a tape,
  snd (fst (fst (attach_scc N cm B sub d a tape))) = RUnit \/
  exists e, snd (fst (fst (attach_scc N cm B sub d a tape))) = RRaised e.
Proof.
  intros. rewrite attach_scc_unfold. destruct (Nat.eqb (size sub) 1); [left; reflexivity|]. cbv zeta.
  destruct (snd (fst (attach_nodes N cm B sub (n_space (get d a)) (seq 1 (size sub - 1)) d [a] [] tape)))
    as [[map_ mins]|]; [|right; eexists; reflexivity].
  destruct (attach_edges B sub map_ _ _) as [d2|]; [|right; eexists; reflexivity].
  destruct (as_close_res cm d2 a mins
              (snd (attach_nodes N cm B sub (n_space (get d a)) (seq 1 (size sub - 1)) d [a] [] tape))) as [H|H];
    [left; exact H|right; eexists; exact H].
Qed.

Lemma attach_all_res : forall N cm B sub ats d acc tape,
  snd (fst (fst (attach_all N cm B sub d ats acc tape))) = RUnit \/
  exists e, snd (fst (fst (attach_all N cm B sub d ats acc tape))) = RRaised e.
Proof.
  intros N cm B sub ats. induction ats as [|a r IH]; intros d acc tape.
  - rewrite attach_all_nil. left. reflexivity.
  - rewrite attach_all_cons. cbv zeta.
    destruct (attach_scc_res N cm B sub d a tape) as [H|[e H]]; rewrite H; [apply IH|].
    right. exists e. reflexivity.
Qed.

Lemma scc_components_res : forall expander N cm sp comps d ats tape,
  snd (fst (fst (scc_components expander N cm sp comps d ats tape))) <> RBool true.
Proof.
  intros expander N cm sp comps. induction comps as [|B r IH]; intros d ats tape.
  - rewrite scc_components_nil. simpl. discriminate.
  - rewrite scc_components_cons. cbv zeta.
    destruct (snd (fst (expander (sub_net N sp B) (init (sub_net N sp B)) tape))) as [|[|]| | | |];
      try (simpl; discriminate).
    match goal with |- context [attach_all ?a ?b ?c ?dd ?e ?f ?g ?h] =>
      destruct (attach_all_res a b c dd f e g h) as [H|[er H]]; rewrite H end.
    + apply IH.
    + simpl. discriminate.
Qed.

(* ====================================================================== *)
(* 6. the level loop                                                       *)
(* ====================================================================== *)

Definition lvl_J (N : net) (cur' : list nat) (o : lvl_out) : Prop :=
  match o with
  | LStop _ r _ _ => r <> RUnit /\ r <> RBool true
  | LCont d1 next1 _ => J N d1 /\ Pend d1 (cur' ++ next1)
  end.

Lemma lvl_succ_J : forall N cfg d x cur' next tape, 1 <= max_motifs cfg -> J N d -> x < size d ->
  Pend d (x :: cur' ++ next) -> lvl_J N cur' (lvl_succ N cfg d x next tape).
Proof.
  intros N cfg d x cur' next tape Hmm HJ Hx Hp. unfold lvl_succ. cbv zeta.
  destruct (SI_node_successors N cfg d x (proj1 HJ) Hx) as (_ & _ & Hres).
  pose proof (ns_J N cfg d x (cur' ++ next) Hmm HJ Hx Hp) as H1.
  destruct Hres as [Hr|Hr]; rewrite Hr in *; simpl.
  - destruct (H1 eq_refl) as [HJ1 Hp1]. split; [exact HJ1|].
    apply (Pend_incl _ _ _ (fun i => incl_L2 cur' next (snd (node_successors N cfg d x)) i) Hp1).
  - split; discriminate.
Qed.

Lemma lvl_one_J : forall expander F N cfg cm d x cur' next tape, 1 <= max_motifs cfg ->
  exp_good F expander -> exp_cpl expander -> J N d -> x < size d -> Pend d (x :: cur' ++ next) ->
  lvl_J N cur' (lvl_one expander N cfg cm d x next tape).
Proof.
  intros expander F N cfg cm d x cur' next tape Hmm Hexp Hcpl HJ Hx Hp. unfold lvl_one. cbv zeta.
  pose proof (proj1 HJ) as Hsi.
  destruct (SI_get N d x Hsi Hx) as [HtS Hperc].
  pose proof (trap_space_length N _ HtS) as HS.
  pose proof (proj1 (percolate_b_fixed_iff_closed N _ HS) Hperc) as Hpc.
  destruct (source_sccs_items N (n_space (get d x))) as [Hitems Hpw].
  destruct (source_sccs N (n_space (get d x))) as [|c1 [|c2 cr]] eqn:Ecomps.
  - destruct (SI_node_successors N cfg d x Hsi Hx) as (_ & _ & Hres).
    pose proof (ns_J N cfg d x (cur' ++ next) Hmm HJ Hx Hp) as H1.
    destruct Hres as [Hr|Hr]; rewrite Hr in *; simpl; [|split; discriminate].
    destruct (H1 eq_refl) as [HJ1 Hp1].
    destruct (snd (node_successors N cfg d x)) as [|s0 sr] eqn:Es; simpl; [|split; discriminate].
    split; [exact HJ1|]. rewrite app_nil_r in Hp1. exact Hp1.
  - apply lvl_succ_J; assumption.
  - set (comps := c1 :: c2 :: cr) in *. set (sp := n_space (get d x)) in *.
    assert (Hcl : forall B, In B comps -> closed_in N sp B).
    { intros B HB. apply scc_item_closed. apply Hitems. exact HB. }
    pose proof (scc_components_J expander F N cm sp Hexp Hcpl HtS Hpc comps d [x] tape (cur' ++ next) Hcl Hpw HJ) as H1.
    pose proof (scc_components_res expander N cm sp comps d [x] tape) as Hnb.
    pose proof (scc_components_extends expander N cm sp comps d [x] tape) as He.
    set (c := scc_components expander N cm sp comps d [x] tape) in *.
    destruct (snd (fst (fst c))) as [|[|]| | | |] eqn:Eres; simpl; try (split; [discriminate|exact Hnb]).
    destruct H1 as [HJ1 Hp1].
    { intros a [Ha|[]]. subst a. split; [exact Hx|]. split; [apply subspace_refl|].
      intros B v HB Hv. apply (BM_closed_free N _ B v (Hcl B HB) Hv). }
    { exact Hp. }
    { reflexivity. }
    assert (Hx1 : x < size (fst (fst (fst c)))) by (apply (extends_lt d _ x He Hx)).
    assert (Hgen : J N (fst (fst (fst c))) /\ Pend (fst (fst (fst c))) (cur' ++ union_nat next (snd (fst c)))).
    { split; [exact HJ1|].
      apply (Pend_incl _ _ _ (fun i => incl_L3 (snd (fst c)) cur' next i) Hp1). }
    destruct (snd (fst c)) as [|y [|y2 yr]] eqn:Eats; simpl; try exact Hgen.
    destruct (Nat.eqb_spec y x) as [->|Hne]; [|exact Hgen].
    apply lvl_succ_J; [exact Hmm|exact HJ1|exact Hx1|exact Hp1].
Qed.

Lemma scc_level_J : forall expander F N cfg cm k, 1 <= max_motifs cfg -> exp_good F expander -> exp_cpl expander ->
  forall cur d next tape, J N d -> Pend d (cur ++ next) -> cur_ok N k d cur -> nxt_ok N k d next ->
  snd (fst (fst (scc_level expander N cfg cm d cur next tape))) <> RBool true /\
  (snd (fst (fst (scc_level expander N cfg cm d cur next tape))) = RUnit ->
   J N (fst (fst (fst (scc_level expander N cfg cm d cur next tape)))) /\
   Pend (fst (fst (fst (scc_level expander N cfg cm d cur next tape))))
        (snd (fst (scc_level expander N cfg cm d cur next tape)))).
Proof.
  intros expander F N cfg cm k Hmm Hexp Hcpl cur.
  induction cur as [|x cur IH]; intros d next tape HJ Hp Hcur Hnext.
  - rewrite scc_level_nil. simpl. split; [discriminate|]. intros _. split; assumption.
  - rewrite scc_level_cons.
    destruct (Hcur x (or_introl eq_refl)) as [Hx Hk].
    pose proof (lvl_one_J expander F N cfg cm d x cur next tape Hmm Hexp Hcpl HJ Hx Hp) as H1.
    pose proof (lvl_one_SI expander F N cfg cm k d x next tape Hexp (proj1 HJ) Hx Hk Hnext) as H2.
    pose proof (lvl_one_extends expander N cfg cm d x next tape) as He.
    destruct (lvl_one expander N cfg cm d x next tape) as [d1 r n1 t1|d1 n1 t1]; simpl in H1, H2, He.
    + simpl. destruct H1 as [A1 A2]. split; [exact A2|]. intro Hc. contradiction.
    + destruct H1 as [HJ1 Hp1]. destruct H2 as [_ Hn1]. apply IH; [exact HJ1|exact Hp1| |exact Hn1].
      apply (cur_ok_extends N k d d1 cur He). intros y Hy. apply Hcur. right. exact Hy.
Qed.

Lemma scc_levels_J : forall expander F N cfg cm k, 1 <= max_motifs cfg -> exp_good F expander -> exp_cpl expander ->
  forall fuel d cur tape, J N d -> Pend d cur -> cur_ok N k d cur ->
  snd (fst (scc_levels fuel expander N cfg cm d cur tape)) = RBool true ->
  J N (fst (fst (scc_levels fuel expander N cfg cm d cur tape))) /\
  AllExpanded (fst (fst (scc_levels fuel expander N cfg cm d cur tape))).
Proof.
  intros expander F N cfg cm k Hmm Hexp Hcpl fuel.
  induction fuel as [|f IH]; intros d cur tape HJ Hp Hcur.
  - rewrite scc_levels_O. simpl. intro H. discriminate.
  - rewrite scc_levels_S. destruct cur as [|c0 cr].
    + simpl. intros _. split; [exact HJ|]. intros i Hi. destruct (Hp i Hi) as [H|[]]. exact H.
    + cbv zeta.
      assert (Hcur' : cur_ok N k d (sort_nat (c0 :: cr))).
      { intros x Hx. apply Hcur. apply sort_nat_In. exact Hx. }
      assert (Hp' : Pend d (sort_nat (c0 :: cr) ++ [])).
      { apply (Pend_incl d (c0 :: cr)); [|exact Hp]. intros i Hi. apply in_or_app. left.
        apply BM_sort_nat_In. exact Hi. }
      destruct (scc_level_J expander F N cfg cm k Hmm Hexp Hcpl (sort_nat (c0 :: cr)) d [] tape HJ Hp' Hcur')
        as [Hnb Hok]; [intros y []|].
      destruct (scc_level_SI expander F N cfg cm k Hexp (sort_nat (c0 :: cr)) d [] tape (proj1 HJ) Hcur')
        as (_ & Hn1 & _ & _); [intros y []|].
      set (l := scc_level expander N cfg cm d (sort_nat (c0 :: cr)) [] tape) in *.
      destruct (snd (fst (fst l))) as [|[|]| | | |] eqn:Er; simpl; try (intro Hd; discriminate Hd).
      * destruct (Hok eq_refl) as [HJ1 Hp1]. apply IH; [exact HJ1|exact Hp1|].
        intros y Hy. destruct (Hn1 y Hy) as [A1 A2]. split; [exact A1|lia].
      * intros _. exfalso. apply Hnb. reflexivity.
Qed.

(* ====================================================================== *)
(* 7. the main function                                                    *)
(* ====================================================================== *)

Lemma init_size1 : forall N, size (init N) = 1.
Proof.
  intro N. unfold init. rewrite ensure_node_unfold. unfold find_node, find_key. simpl. reflexivity.
Qed.

Lemma init_J : forall N, J N (init N).
Proof.
  intro N. split; [apply init_SI|]. split; [apply init_NoStubEdges|]. split; [apply init_LeafOK|].
  intros y M _ Hexp. rewrite init_unexp in Hexp. discriminate Hexp.
Qed.

Lemma scc_main_cpl : forall cfg cm, 1 <= max_motifs cfg ->
  forall f, exp_cpl (fun N' d' t' => scc_main f N' cfg cm d' t').
Proof.
  intros cfg cm Hmm f. induction f as [|f IH]; intros N t' Hres.
  - rewrite scc_main_O in Hres. simpl in Hres. discriminate.
  - pose proof (scc_main_good cfg cm f) as Hexp.
    pose proof (scc_main_extends (S f) N cfg cm (init N) t') as Hext.
    assert (Hfin : forall d', J N d' -> AllExpanded d' -> extends (init N) d' ->
              AllExpanded d' /\ LeafOK N d' /\ MinFound N d').
    { intros d' (Hsi & _ & Hleaf & Hdesc) Hall He. split; [exact Hall|]. split; [exact Hleaf|].
      apply (Desc_MinFound N d' Hsi Hall Hdesc).
      assert (Hp0 : 0 < size (init N)) by (rewrite init_size1; lia).
      rewrite (extends_space _ _ 0 He Hp0). apply init_root_space. }
    revert Hres Hext. rewrite scc_main_S. cbv zeta.
    assert (Hpos : 0 < size (init N)) by (rewrite init_size1; lia).
    destruct (sources_in_b N (n_space (get (init N) 0))) as [|s0 sr] eqn:Es.
    + intros Hres Hext.
      destruct (scc_levels_J _ f N cfg cm (nvars N) Hmm Hexp IH (S f) (init N) [0] t' (init_J N)) as [HJ' Hall'];
        [| |exact Hres|apply Hfin; assumption].
      * intros i Hi. rewrite init_size1 in Hi. right. left. lia.
      * intros x [Hx|[]]. subst x. split; [exact Hpos|lia].
    + destruct (Nat.ltb (max_motifs cfg) (Nat.pow 2 (length (s0 :: sr)))); [simpl; intros Hd; discriminate Hd|].
      rewrite ensure_children_fst.
      change (set_empty_seeds (clear_cands (upd_node (ensure_all N (init N) 0 (ff_motifs N (n_space (get (init N) 0)))) 0
                (fun y => set_exp y true)) 0) 0) with (ff_step N (init N) 0).
      change (snd (ensure_children N (init N) 0 (ff_motifs N (n_space (get (init N) 0))) [])) with (ff_kids N (init N) 0).
      assert (Hsrc : sources_in_b N (n_space (get (init N) 0)) <> []) by (rewrite Es; discriminate).
      pose proof (init_SWF N) as Hswf. pose proof (init_TrapNodes N) as Htn.
      pose proof (init_NoStubEdges N) as Hnse. pose proof (init_unexp N 0) as Hun.
      set (d2 := ff_step N (init N) 0).
      pose proof (ff_step_SWF N _ 0 Hswf Hpos) as Hswf2. fold d2 in Hswf2.
      pose proof (ff_step_TrapNodes N _ 0 Hswf Htn Hpos) as Htn2. fold d2 in Htn2.
      pose proof (ff_step_EdgeStrict N _ 0 Hswf (init_EdgeStrict N) Hpos Hun Hsrc) as Hes2. fold d2 in Hes2.
      pose proof (SI_of_SWF N d2 Hswf2 Htn2 Hes2) as Hsi2.
      pose proof (ff_step_extends N (init N) 0) as He2. fold d2 in He2.
      destruct (frame_ff N (init N) 0 Hpos) as (_ & _ & Hfnew & Hfx). fold d2 in Hfnew, Hfx.
      destruct (ff_local N (init N) 0 Hswf Htn Hnse Hpos Hun Hsrc) as (_ & Hml & _). fold d2 in Hml.
      assert (HJ2 : J N d2).
      { split; [exact Hsi2|]. split; [apply ff_step_NoStubEdges; assumption|].
        split; [apply ff_step_LeafOK; [exact Hswf|exact Hnse|apply init_LeafOK|exact Hpos]|].
        intros y M Hy Hyexp HM Hsub Hne.
        destruct (Nat.eq_dec y 0) as [->|Hy0].
        - destruct (Hml M HM Hsub) as [Heq|(c & Hc & Hsubc & _)]; [contradiction|].
          destruct (SI_successors_strict N d2 0 c Hsi2 Hc) as [Hlt Hst].
          exists c. split; [exact Hlt|]. split; assumption.
        - rewrite Hfnew in Hyexp; [discriminate|rewrite init_size1; lia|exact Hy]. }
      assert (Hp2 : Pend d2 (union_nat [] (ff_kids N (init N) 0))).
      { intros i Hi. destruct (Nat.eq_dec i 0) as [->|Hi0]; [left; exact Hfx|]. right.
        apply union_nat_r. apply (ff_succ_kids N (init N) 0 i Hnse Hun).
        apply has_edge_succ. apply has_edge_true.
        assert (Hh : has_edge (ensure_all N (init N) 0 (ff_motifs N (n_space (get (init N) 0)))) 0 i = true).
        { apply ensure_all_new_succ; [rewrite init_size1; lia|]. unfold d2 in Hi. rewrite size_ff_step in Hi. exact Hi. }
        apply has_edge_true in Hh. unfold d2. rewrite sd_edges_ff_step. exact Hh. }
      intros Hres Hext.
      destruct (scc_levels_J _ f N cfg cm (nvars N) Hmm Hexp IH (S f) d2 _ t' HJ2 Hp2) as [HJ' Hall'];
        [|exact Hres|apply Hfin; assumption].
      intros x Hx. apply union_nat_In in Hx. destruct Hx as [[]|Hx].
      split; [apply (ff_kids_valid N (init N) 0 x Hswf Hpos Hx)|lia].
Qed.

Lemma expand_scc_all : forall fuel N cfg d' maa tape, 1 <= max_motifs cfg ->
  expand_scc fuel N cfg (init N) maa tape = (d', RBool true) ->
  AllExpanded d' /\ LeafOK N d' /\ MinFound N d'.
Proof.
  intros fuel N cfg d' maa tape Hmm H.
  pose proof (scc_main_cpl cfg maa Hmm fuel N tape) as Hc. unfold expand_scc in H.
  destruct (scc_main fuel N cfg maa (init N) tape) as [[d1 r] t]. simpl in Hc.
  injection H as H1 H2. subst d1 r. apply Hc. reflexivity.
Qed.

Theorem expand_scc_LeafOK : forall fuel N cfg d' maa tape, 1 <= max_motifs cfg ->
  expand_scc fuel N cfg (init N) maa tape = (d', RBool true) -> LeafOK N d'.
Proof. intros fuel N cfg d' maa tape Hmm H. apply (expand_scc_all fuel N cfg d' maa tape Hmm H). Qed.

Theorem expand_scc_MinFound : forall fuel N cfg d' maa tape, 1 <= max_motifs cfg ->
  expand_scc fuel N cfg (init N) maa tape = (d', RBool true) -> MinFound N d'.
Proof. intros fuel N cfg d' maa tape Hmm H. apply (expand_scc_all fuel N cfg d' maa tape Hmm H). Qed.

(* every node is expanded when the strategy reports completion (no stub is left behind) *)
Theorem expand_scc_AllExpanded : forall fuel N cfg d' maa tape, 1 <= max_motifs cfg ->
  expand_scc fuel N cfg (init N) maa tape = (d', RBool true) -> AllExpanded d'.
Proof. intros fuel N cfg d' maa tape Hmm H. apply (expand_scc_all fuel N cfg d' maa tape Hmm H). Qed.

Print Assumptions expand_scc_LeafOK.
Print Assumptions expand_scc_MinFound.
Print Assumptions expand_scc_AllExpanded.
