(* Filter.v -- model of compute_attractors_symbolic (attractor_symbolic.py) on explicit state sets.
   symbolic_attractor_test(pivot, avoid) is specified by its contract: it returns None iff a
   state of `avoid` is reachable from the pivot, and otherwise the set of states reachable
   from the pivot (SymbolicTest model / C12 theorem; here the executable reach_list plays it). *)
From Coq Require Import List Bool Arith.
Import ListNotations.
From BB Require Import BN Brute.

(* avoid set = union of some subspaces (child motifs) and some explicit states *)
Record avoid_set := { av_spaces : list space; av_states : list state }.
Definition in_avoid (a : avoid_set) (s : state) : bool :=
  existsb (in_space s) (av_spaces a) || mem_state s (av_states a).

Definition remove_state (s : state) (l : list state) : list state :=
  filter (fun t => negb (eqb_state t s)) l.

Definition attractor_test (N : net) (pivot : state) (a : avoid_set) : option (list state) :=
  let r := reach_list N pivot in
  if existsb (in_avoid a) r then None else Some r.

(* the loop over candidates; returns seeds and closures in order of acceptance.
   seeds_only enables the "last candidate of a (pseudo-)minimal node" shortcut. *)
Fixpoint filter_loop (N : net) (seeds_only minimal : bool) (a : avoid_set)
         (cands : list state) (seeds : list state) (sets : list (list state))
  : list state * option (list (list state)) :=
  match cands with
  | [] => (rev seeds, Some (rev sets))
  | c :: rest =>
      if seeds_only && minimal && (match rest with [] => true | _ => false end)
         && (match seeds with [] => true | _ => false end)
      then ([c], None)
      else
        let a1 := {| av_spaces := av_spaces a; av_states := remove_state c (av_states a) |} in
        match attractor_test N c a1 with
        | None => filter_loop N seeds_only minimal a1 rest seeds sets
        | Some cl =>
            filter_loop N seeds_only minimal
                        {| av_spaces := av_spaces a1; av_states := cl ++ av_states a1 |}
                        rest (c :: seeds) (cl :: sets)
        end
  end.

Definition compute_attractors_filter (N : net) (seeds_only : bool) (motifs : list space)
           (cands : list state) : list state * option (list (list state)) :=
  filter_loop N seeds_only (match motifs with [] => true | _ => false end)
              {| av_spaces := motifs; av_states := cands |} cands [] [].
