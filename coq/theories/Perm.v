(* Perm.v -- reordering the declarations of the variables (C17).  A permutation p of 0..n-1 lists, for every
   NEW position i, the OLD variable p[i] that is declared there.  Definitions only. *)
From Coq Require Import List Bool Arith Permutation.
Import ListNotations.
From BB Require Import BN Brute.

Definition is_perm (n : nat) (p : list nat) : Prop := Permutation p (seq 0 n).

Definition perm_list {A : Type} (dflt : A) (p : list nat) (l : list A) : list A :=
  map (fun j => nth j l dflt) p.
Definition perm_state (p : list nat) (s : state) : state := perm_list false p s.
Definition perm_space (p : list nat) (S : space) : space := perm_list None p S.

Fixpoint index_of (j : nat) (p : list nat) : nat :=
  match p with
  | [] => 0
  | x :: r => if Nat.eqb x j then 0 else S (index_of j r)
  end.
(* the inverse permutation: old variable j sits at new position index_of j p *)
Definition inv_perm (p : list nat) : list nat := map (fun j => index_of j p) (seq 0 (length p)).

(* the reordered network: the update function at new position i is that of old variable p[i], read on the
   state translated back to the old order *)
Definition perm_net (p : list nat) (N : net) : net :=
  map (fun j => fun s' : state => upd N j (perm_state (inv_perm p) s')) p.

(* a set of states seen in the new order *)
Definition perm_set (p : list nat) (A : state -> Prop) : state -> Prop :=
  fun s' => length s' = length p /\ A (perm_state (inv_perm p) s').
