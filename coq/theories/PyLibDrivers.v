(* PyLibDrivers.v -- additions to PyLibPerc.v for the translation of drivers.find_single_node_LDOIs / find_single_drivers.  Definitions only; trusted.
     the LDOI table dict[(variable, value)] -> BooleanSpace     list of (variable, value, space) in insertion order; table[(v, b)] = s
                                                                replaces an existing entry in place or appends (dict semantics)
     target.items() <= (LDOI.items() | {fix})                   Strict.drives target LDOI v b
     the result set of (variable, value) pairs                  duplicate-free list (pair_add)
     `if isinstance(network, BooleanNetwork): network = AsynchronousGraph(network)` is dropped (the network is the model's N either way) *)
From Coq Require Import List Bool Arith.
Import ListNotations.
From BB Require Import BN Brute Diagram Strict.

Fixpoint ldois_set (t : list (nat * bool * space)) (v : nat) (b : bool) (s : space) : list (nat * bool * space) :=
  match t with
  | [] => [(v, b, s)]
  | (v', b', s') :: r => if Nat.eqb v' v && Bool.eqb b' b then (v, b, s) :: r else (v', b', s') :: ldois_set r v b s
  end.

Definition pair_mem (p : nat * bool) (l : list (nat * bool)) : bool :=
  existsb (fun q => Nat.eqb (fst q) (fst p) && Bool.eqb (snd q) (snd p)) l.
Definition pair_add (p : nat * bool) (l : list (nat * bool)) : list (nat * bool) :=
  if pair_mem p l then l else l ++ [p].
