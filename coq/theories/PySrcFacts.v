(* PySrcFacts.v
   The translator tie: the functions that tools/py2coq.py generates from the CURRENT Python sources
   (theories/PySrc.v, regenerated on every run) equal the functions of the hand-written model, through the
   abstraction of a Python dict {variable: 0|1} as a model space.  If one of the Python functions changes, PySrc.v
   changes and these proofs are re-checked against the new text. *)
From Coq Require Import List Bool Arith NArith Lia.
Import ListNotations.
From BB Require Import BN SpaceFacts Names PyLib PySrc.

(* a dict over the variables 0..n-1: unique keys, all < n *)
Definition wf_dict (n : nat) (d : pdict) : Prop :=
  NoDup (map fst d) /\ forall k, In k (map fst d) -> k < n.
(* the space it denotes *)
Definition to_space (n : nat) (d : pdict) : space := map (fun i => d_get d i) (seq 0 n).

(* ------------------------------------------------------------------ *)
(* to_space                                                            *)
(* ------------------------------------------------------------------ *)

Lemma nth_map_seq : forall (f : nat -> option bool) n s i, i < n ->
  nth i (map f (seq s n)) None = f (s + i).
Proof.
  intros f n. induction n as [|n IH]; intros s i Hi; [lia|].
  simpl. destruct i as [|i].
  - f_equal. lia.
  - rewrite IH by lia. f_equal. lia.
Qed.

Theorem to_space_length : forall n d, length (to_space n d) = n.
Proof.
  intros n d. unfold to_space. rewrite map_length, seq_length. reflexivity.
Qed.

Theorem to_space_nth : forall n d i, i < n -> nth i (to_space n d) None = d_get d i.
Proof.
  intros n d i Hi. unfold to_space. rewrite nth_map_seq by exact Hi. reflexivity.
Qed.

(* ------------------------------------------------------------------ *)
(* dict lemmas                                                         *)
(* ------------------------------------------------------------------ *)

Lemma d_get_in_key : forall d k v, d_get d k = Some v -> In k (map fst d).
Proof.
  induction d as [|[k0 v0] d IH]; intros k v H; simpl in *; [discriminate|].
  destruct (Nat.eqb_spec k0 k) as [->|Hne]; [left; reflexivity|].
  right. apply (IH k v H).
Qed.

Lemma in_key_d_get : forall d k, In k (map fst d) -> exists v, d_get d k = Some v.
Proof.
  induction d as [|[k0 v0] d IH]; intros k H; simpl in *; [contradiction|].
  destruct (Nat.eqb_spec k0 k) as [->|Hne]; [exists v0; reflexivity|].
  destruct H as [H|H]; [contradiction|]. apply (IH k H).
Qed.

Lemma d_get_notin : forall d k, ~ In k (map fst d) -> d_get d k = None.
Proof.
  intros d k H. destruct (d_get d k) as [v|] eqn:E; [|reflexivity].
  exfalso. apply H. apply (d_get_in_key d k v E).
Qed.

Lemma d_get_d_set : forall d k v k',
  d_get (d_set d k v) k' = if Nat.eqb k k' then Some v else d_get d k'.
Proof.
  induction d as [|[k0 v0] d IH]; intros k v k'; simpl.
  - destruct (Nat.eqb k k'); reflexivity.
  - destruct (Nat.eqb_spec k0 k) as [->|Hne]; simpl.
    + destruct (Nat.eqb k k'); reflexivity.
    + destruct (Nat.eqb_spec k0 k') as [->|Hne'].
      * destruct (Nat.eqb_spec k k') as [->|_]; [contradiction|reflexivity].
      * apply IH.
Qed.

Lemma keys_d_set : forall d k v k',
  In k' (map fst (d_set d k v)) <-> k' = k \/ In k' (map fst d).
Proof.
  induction d as [|[k0 v0] d IH]; intros k v k'; simpl.
  - split; [intros [H|[]]; left; congruence | intros [H|[]]; left; congruence].
  - destruct (Nat.eqb_spec k0 k) as [->|Hne]; simpl.
    + split; [intros [H|H]; [left; congruence | right; right; exact H]
             | intros [H|[H|H]]; [left; congruence | left; exact H | right; exact H]].
    + rewrite IH. split.
      * intros [H|[H|H]]; [right; left; exact H | left; exact H | right; right; exact H].
      * intros [H|[H|H]]; [right; left; exact H | left; exact H | right; right; exact H].
Qed.

Lemma NoDup_d_set : forall d k v, NoDup (map fst d) -> NoDup (map fst (d_set d k v)).
Proof.
  induction d as [|[k0 v0] d IH]; intros k v H; simpl.
  - constructor; [intros []|constructor].
  - simpl in H. inversion H as [|? ? Hnin Hnd]; subst.
    destruct (Nat.eqb_spec k0 k) as [->|Hne]; simpl.
    + constructor; assumption.
    + constructor.
      * rewrite keys_d_set. intros [Heq|Hin]; [contradiction|contradiction].
      * apply IH. exact Hnd.
Qed.

Lemma wf_d_set : forall n d k v, wf_dict n d -> k < n -> wf_dict n (d_set d k v).
Proof.
  intros n d k v [Hnd Hlt] Hk. split.
  - apply NoDup_d_set. exact Hnd.
  - intros k' Hin. apply keys_d_set in Hin. destruct Hin as [->|Hin]; [exact Hk|].
    apply Hlt. exact Hin.
Qed.

Lemma d_set_fresh : forall d k v, ~ In k (map fst d) -> d_set d k v = d ++ [(k, v)].
Proof.
  induction d as [|[k0 v0] d IH]; intros k v H; simpl in *; [reflexivity|].
  destruct (Nat.eqb_spec k0 k) as [->|Hne].
  - exfalso. apply H. left. reflexivity.
  - f_equal. apply IH. intro Hin. apply H. right. exact Hin.
Qed.

Lemma to_space_nth_all : forall n d i, wf_dict n d -> nth i (to_space n d) None = d_get d i.
Proof.
  intros n d i [_ Hlt]. destruct (lt_dec i n) as [Hi|Hi].
  - apply to_space_nth. exact Hi.
  - rewrite nth_overflow by (rewrite to_space_length; lia).
    symmetry. apply d_get_notin. intro Hin. apply Hlt in Hin. lia.
Qed.

(* ------------------------------------------------------------------ *)
(* space_utils.is_subspace                                             *)
(* ------------------------------------------------------------------ *)

Lemma py_for_check : forall (K R S : Type) (body : K -> S -> flow R S) (s : S) (r : R)
  (P : K -> bool) (ks : list K),
  (forall k, In k ks -> body k s = if P k then FNext s else FRet r) ->
  py_for ks body s = if forallb P ks then FNext s else FRet r.
Proof.
  intros K R S body s r P ks. induction ks as [|k ks IH]; intros Hb; simpl.
  - reflexivity.
  - rewrite (Hb k (or_introl eq_refl)).
    destruct (P k); simpl; [|reflexivity].
    apply IH. intros k' Hin. apply Hb. right. exact Hin.
Qed.

Theorem py_is_subspace_spec : forall n x y, wf_dict n x -> wf_dict n y ->
  py_is_subspace x y = Some (subspace (to_space n x) (to_space n y)).
Proof.
  intros n x y Hx Hy.
  unfold py_is_subspace. cbv zeta.
  match goal with |- context [py_for (d_keys y) ?b tt] => set (body := b) end.
  set (P := fun k : nat => eqb_ob (d_get x k) (d_get y k)).
  assert (Hbody : forall k, In k (d_keys y) -> body k tt = if P k then FNext tt else FRet false).
  { intros k Hin. unfold d_keys in Hin.
    destruct (in_key_d_get y k Hin) as [b Eb].
    unfold body, P, d_mem. rewrite Eb.
    destruct (d_get x k) as [a|]; simpl; [|reflexivity].
    destruct (Bool.eqb a b); reflexivity. }
  rewrite (py_for_check nat bool unit body tt false P (d_keys y) Hbody).
  assert (Heq : forallb P (d_keys y) = subspace (to_space n x) (to_space n y)).
  { apply Bool.eq_iff_eq_true.
    rewrite forallb_forall.
    rewrite subspace_nth by (rewrite !to_space_length; reflexivity).
    split.
    - intros H i v Hi.
      rewrite to_space_nth_all in Hi by exact Hy.
      rewrite to_space_nth_all by exact Hx.
      assert (Hin : In i (d_keys y)) by (apply (d_get_in_key y i v Hi)).
      specialize (H i Hin). unfold P in H. apply eqb_ob_spec in H. congruence.
    - intros H k Hin. unfold d_keys in Hin.
      destruct (in_key_d_get y k Hin) as [b Eb].
      specialize (H k b).
      rewrite to_space_nth_all in H by exact Hy.
      rewrite to_space_nth_all in H by exact Hx.
      specialize (H Eb). unfold P. apply eqb_ob_spec. congruence. }
  rewrite <- Heq.
  destruct (forallb P (d_keys y)); reflexivity.
Qed.

(* ------------------------------------------------------------------ *)
(* space_utils.intersect                                               *)
(* ------------------------------------------------------------------ *)

Definition ob_union (a b : option bool) : option bool :=
  match a with None => b | Some _ => a end.

Lemma intersect_map_some : forall (f g : nat -> option bool) (l : list nat),
  (forall i a b, In i l -> f i = Some a -> g i = Some b -> a = b) ->
  intersect (map f l) (map g l) = Some (map (fun i => ob_union (f i) (g i)) l).
Proof.
  intros f g l. induction l as [|i l IH]; intros H; simpl; [reflexivity|].
  rewrite IH by (intros j a b Hin; apply H; right; exact Hin).
  destruct (f i) as [a|] eqn:Ef; [|reflexivity].
  destruct (g i) as [b|] eqn:Eg; [|reflexivity].
  rewrite (H i a b (or_introl eq_refl) Ef Eg).
  rewrite eqb_reflx. reflexivity.
Qed.

Lemma intersect_map_none : forall (f g : nat -> option bool) (l : list nat) i a,
  In i l -> f i = Some a -> g i = Some (negb a) ->
  intersect (map f l) (map g l) = None.
Proof.
  intros f g l. induction l as [|j l IH]; intros i a Hin Hf Hg; simpl; [contradiction|].
  destruct (intersect (map f l) (map g l)) as [r|] eqn:E; [|reflexivity].
  destruct Hin as [->|Hin].
  - rewrite Hf, Hg. destruct a; reflexivity.
  - specialize (IH i a Hin Hf Hg). congruence.
Qed.

Lemma isect_loop1 : forall (R : Type) (body : nat * bool -> pdict -> flow R pdict),
  (forall k v st, body (k, v) st = FNext (d_set st k v)) ->
  forall suffix acc, NoDup (map fst (acc ++ suffix)) ->
  py_for suffix body acc = FNext (acc ++ suffix).
Proof.
  intros R body Hb. induction suffix as [|[k v] suffix IH]; intros acc Hnd; simpl.
  - rewrite app_nil_r. reflexivity.
  - rewrite Hb.
    assert (Hfresh : ~ In k (map fst acc)).
    { rewrite map_app in Hnd. simpl in Hnd. apply NoDup_remove_2 in Hnd.
      intro Hin. apply Hnd. apply in_or_app. left. exact Hin. }
    rewrite (d_set_fresh acc k v Hfresh).
    replace (acc ++ (k, v) :: suffix) with ((acc ++ [(k, v)]) ++ suffix)
      by (rewrite <- app_assoc; reflexivity).
    apply IH. rewrite <- app_assoc. exact Hnd.
Qed.

Lemma isect_loop2 : forall n (body : nat * bool -> pdict -> flow (option pdict) pdict),
  (forall k v r, body (k, v) r =
     match d_get r k with
     | Some a => if Bool.eqb a v then FNext (d_set r k v) else FRet None
     | None => FNext (d_set r k v)
     end) ->
  forall ys r, wf_dict n r -> wf_dict n ys ->
  match py_for ys body r with
  | FRet None => exists k a, d_get r k = Some a /\ d_get ys k = Some (negb a)
  | FRet (Some _) => False
  | FRaise => False
  | FNext r' =>
      wf_dict n r' /\
      (forall k, d_get r' k = match d_get ys k with Some v => Some v | None => d_get r k end) /\
      (forall k a b, d_get r k = Some a -> d_get ys k = Some b -> a = b)
  end.
Proof.
  intros n body Hb. induction ys as [|[k v] ys IH]; intros r Hr Hys.
  - simpl. split; [exact Hr|]. split; [intros k; reflexivity|]. intros k a b _ H. discriminate.
  - destruct Hys as [Hnd Hlt]. simpl in Hnd.
    inversion Hnd as [|? ? Hnin Hnd']; subst.
    assert (Hk : k < n) by (apply Hlt; left; reflexivity).
    assert (Hys' : wf_dict n ys).
    { split; [exact Hnd'|]. intros k' Hin. apply Hlt. right. exact Hin. }
    assert (Hysk : d_get ys k = None) by (apply d_get_notin; exact Hnin).
    assert (Hstep : (d_get r k = None \/ d_get r k = Some v) ->
      match py_for ys body (d_set r k v) with
      | FRet None => exists k0 a, d_get r k0 = Some a /\ d_get ((k, v) :: ys) k0 = Some (negb a)
      | FRet (Some _) => False
      | FRaise => False
      | FNext r' =>
          wf_dict n r' /\
          (forall k0, d_get r' k0 =
             match d_get ((k, v) :: ys) k0 with Some v => Some v | None => d_get r k0 end) /\
          (forall k0 a b, d_get r k0 = Some a -> d_get ((k, v) :: ys) k0 = Some b -> a = b)
      end).
    { intros Hrk.
      specialize (IH (d_set r k v) (wf_d_set n r k v Hr Hk) Hys').
      destruct (py_for ys body (d_set r k v)) as [[r'|]| |r'].
      - exact IH.
      - destruct IH as [k0 [a [Hg Hy]]].
        rewrite d_get_d_set in Hg.
        destruct (Nat.eqb_spec k k0) as [<-|Hne].
        + rewrite Hysk in Hy. discriminate.
        + exists k0, a. split; [exact Hg|]. simpl.
          destruct (Nat.eqb_spec k k0) as [E|_]; [contradiction|]. exact Hy.
      - exact IH.
      - destruct IH as [Hwf [Hget Hcompat]]. split; [exact Hwf|]. split.
        + intros k0. rewrite Hget. rewrite d_get_d_set. simpl.
          destruct (Nat.eqb_spec k k0) as [<-|Hne].
          * rewrite Hysk. reflexivity.
          * reflexivity.
        + intros k0 a b Hg Hy. simpl in Hy.
          destruct (Nat.eqb_spec k k0) as [<-|Hne].
          * injection Hy as <-. destruct Hrk as [Hrk|Hrk]; rewrite Hrk in Hg; congruence.
          * apply (Hcompat k0 a b); [|exact Hy].
            rewrite d_get_d_set.
            destruct (Nat.eqb_spec k k0) as [E|_]; [contradiction|]. exact Hg. }
    simpl py_for. rewrite Hb.
    destruct (d_get r k) as [a|] eqn:Erk.
    + destruct (Bool.eqb a v) eqn:Eav.
      * apply eqb_prop in Eav. subst a. apply Hstep. right. reflexivity.
      * exists k, a. split; [exact Erk|]. simpl. rewrite Nat.eqb_refl.
        destruct a, v; try discriminate; reflexivity.
    + apply Hstep. left. reflexivity.
Qed.

Theorem py_intersect_spec : forall n x y, wf_dict n x -> wf_dict n y ->
  match py_intersect x y with
  | Some (Some r) => wf_dict n r /\ intersect (to_space n x) (to_space n y) = Some (to_space n r)
  | Some None => intersect (to_space n x) (to_space n y) = None
  | None => False
  end.
Proof.
  intros n x y Hx Hy.
  unfold py_intersect, d_items. cbv zeta.
  match goal with |- context [py_for x ?b []] =>
    rewrite (isect_loop1 (option pdict) b (fun k v st => eq_refl) x [] (proj1 Hx))
  end.
  cbv beta iota. rewrite app_nil_l.
  match goal with |- context [py_for y ?b x] => set (body := b) end.
  assert (Hbody : forall k v r, body (k, v) r =
     match d_get r k with
     | Some a => if Bool.eqb a v then FNext (d_set r k v) else FRet None
     | None => FNext (d_set r k v)
     end).
  { intros k v r. unfold body, d_mem.
    destruct (d_get r k) as [a|]; simpl; [|reflexivity].
    destruct (Bool.eqb a v); reflexivity. }
  pose proof (isect_loop2 n body Hbody y x Hx Hy) as Hloop.
  destruct (py_for y body x) as [[r'|]| |r'].
  - contradiction.
  - destruct Hloop as [k [a [Hgx Hgy]]].
    unfold to_space.
    apply (intersect_map_none (d_get x) (d_get y) (seq 0 n) k a); [|exact Hgx|exact Hgy].
    apply in_seq. split; [lia|]. simpl.
    apply (proj2 Hx). apply (d_get_in_key x k a Hgx).
  - exact Hloop.
  - destruct Hloop as [Hwf [Hget Hcompat]]. split; [exact Hwf|].
    unfold to_space.
    change (fun i : nat => d_get x i) with (d_get x).
    change (fun i : nat => d_get y i) with (d_get y).
    rewrite (intersect_map_some (d_get x) (d_get y) (seq 0 n))
      by (intros i a b _ Ha Hb; apply (Hcompat i a b Ha Hb)).
    f_equal. apply map_ext. intros i. rewrite Hget.
    destruct (d_get x i) as [a|] eqn:Ea; destruct (d_get y i) as [b|] eqn:Eb; simpl;
      try reflexivity.
    rewrite (Hcompat i a b Ea Eb). reflexivity.
Qed.

(* ------------------------------------------------------------------ *)
(* space_utils.space_unique_key                                        *)
(* ------------------------------------------------------------------ *)

Definition key_field (k : nat) (v : bool) : N :=
  N.shiftl (N.add (N.b2n v) 2) (N.mul 2 (N.of_nat k)).

Fixpoint dkey (d : pdict) : N :=
  match d with
  | [] => 0%N
  | (k, v) :: r => N.lor (key_field k v) (dkey r)
  end.

Lemma key_loop_ok : forall n (body : nat * bool -> N * option nat -> flow N (N * option nat)),
  (forall k v key var, body (k, v) (key, var) =
     if Nat.ltb k n then FNext (N.lor key (key_field k v), Some k) else FRaise) ->
  forall items key var, (forall k, In k (map fst items) -> k < n) ->
  exists var', py_for items body (key, var) = FNext (N.lor key (dkey items), var').
Proof.
  intros n body Hb. induction items as [|[k v] items IH]; intros key var Hlt; simpl.
  - exists var. rewrite N.lor_0_r. reflexivity.
  - rewrite Hb.
    assert (Hk : k < n) by (apply Hlt; left; reflexivity).
    apply Nat.ltb_lt in Hk. rewrite Hk.
    destruct (IH (N.lor key (key_field k v)) (Some k)) as [var' Hv].
    { intros k' Hin. apply Hlt. right. exact Hin. }
    exists var'. rewrite Hv. rewrite N.lor_assoc. reflexivity.
Qed.

Lemma key_loop_raise : forall n (body : nat * bool -> N * option nat -> flow N (N * option nat)),
  (forall k v key var, body (k, v) (key, var) =
     if Nat.ltb k n then FNext (N.lor key (key_field k v), Some k) else FRaise) ->
  forall items key var, (exists k, In k (map fst items) /\ n <= k) ->
  py_for items body (key, var) = FRaise.
Proof.
  intros n body Hb. induction items as [|[k v] items IH]; intros key var [k' [Hin Hle]]; simpl.
  - destruct Hin.
  - rewrite Hb. destruct (Nat.ltb_spec k n) as [Hk|Hk]; [|reflexivity].
    apply IH. simpl in Hin. destruct Hin as [->|Hin]; [lia|].
    exists k'. split; [exact Hin|exact Hle].
Qed.

Lemma key_field_code : forall k v,
  key_field k v = N.shiftl (ob_code (Some v)) (2 * N.of_nat k).
Proof. intros k [|]; reflexivity. Qed.

Lemma key_field_bit : forall k v i j, (j < 2)%N ->
  N.testbit (key_field k v) (2 * N.of_nat i + j) =
  if Nat.eqb k i then N.testbit (ob_code (Some v)) j else false.
Proof.
  intros k v i j Hj. rewrite key_field_code.
  destruct (Nat.eqb_spec k i) as [->|Hne].
  - rewrite N.shiftl_spec_high' by lia. f_equal. lia.
  - destruct (lt_dec k i) as [Hlt|Hge].
    + rewrite N.shiftl_spec_high' by lia.
      replace (2 * N.of_nat i + j - 2 * N.of_nat k)%N
        with ((2 * N.of_nat i + j - 2 * N.of_nat k - 2) + 2)%N by lia.
      apply ob_code_high.
    + apply N.shiftl_spec_low. lia.
Qed.

Lemma dkey_bit : forall d i j, NoDup (map fst d) -> (j < 2)%N ->
  N.testbit (dkey d) (2 * N.of_nat i + j) = N.testbit (ob_code (d_get d i)) j.
Proof.
  induction d as [|[k v] d IH]; intros i j Hnd Hj.
  - cbn [dkey d_get ob_code]. rewrite !N.bits_0. reflexivity.
  - simpl in Hnd. inversion Hnd as [|? ? Hnin Hnd']; subst.
    simpl dkey. rewrite N.lor_spec, key_field_bit by exact Hj.
    rewrite (IH i j Hnd' Hj). simpl d_get.
    destruct (Nat.eqb_spec k i) as [->|Hne].
    + rewrite (d_get_notin d i Hnin). simpl ob_code at 2. rewrite N.bits_0.
      apply orb_false_r.
    + reflexivity.
Qed.

Lemma space_key_bit : forall S i j, (j < 2)%N ->
  N.testbit (space_key S) (2 * N.of_nat i + j) = N.testbit (ob_code (nth i S None)) j.
Proof.
  induction S as [|o S IH]; intros i j Hj.
  - unfold space_key. cbn [space_key_from]. destruct i; cbn [nth]; cbn [ob_code];
      rewrite !N.bits_0; reflexivity.
  - rewrite space_key_cons, N.lor_spec. destruct i as [|i].
    + cbn [nth]. replace (2 * N.of_nat 0 + j)%N with j by lia.
      rewrite N.shiftl_spec_low by exact Hj. apply orb_false_r.
    + cbn [nth].
      replace (2 * N.of_nat (Datatypes.S i) + j)%N with ((2 * N.of_nat i + j) + 2)%N by lia.
      rewrite ob_code_high. cbn [orb].
      rewrite N.shiftl_spec_high' by lia.
      replace (2 * N.of_nat i + j + 2 - 2)%N with (2 * N.of_nat i + j)%N by lia.
      apply IH. exact Hj.
Qed.

Lemma dkey_space_key : forall n d, wf_dict n d -> dkey d = space_key (to_space n d).
Proof.
  intros n d Hd. apply N.bits_inj. intro m.
  assert (Hm : exists i j, (j < 2)%N /\ m = (2 * N.of_nat i + j)%N).
  { exists (N.to_nat (m / 2)), (m mod 2)%N. split.
    - apply N.mod_lt. lia.
    - rewrite N2Nat.id. apply N.div_mod. lia. }
  destruct Hm as [i [j [Hj ->]]].
  rewrite dkey_bit by (exact (proj1 Hd) || exact Hj).
  rewrite space_key_bit by exact Hj.
  rewrite to_space_nth_all by exact Hd. reflexivity.
Qed.

Theorem py_space_unique_key_spec : forall n d, wf_dict n d ->
  py_space_unique_key d n = Some (space_key (to_space n d)).
Proof.
  intros n d Hd.
  unfold py_space_unique_key, d_items. cbv zeta.
  match goal with |- context [py_for d ?b (0%N, None)] => set (body := b) end.
  assert (Hbody : forall k v key var, body (k, v) (key, var) =
     if Nat.ltb k n then FNext (N.lor key (key_field k v), Some k) else FRaise).
  { intros k v key var. unfold body, net_find.
    destruct (Nat.ltb k n); reflexivity. }
  destruct (key_loop_ok n body Hbody d 0%N None (proj2 Hd)) as [var' Hv].
  rewrite Hv. cbv beta iota. rewrite N.lor_0_l.
  rewrite (dkey_space_key n d Hd). reflexivity.
Qed.

Theorem py_space_unique_key_raises : forall n d, (exists k, In k (map fst d) /\ n <= k) ->
  py_space_unique_key d n = None.
Proof.
  intros n d Hex.
  unfold py_space_unique_key, d_items. cbv zeta.
  match goal with |- context [py_for d ?b (0%N, None)] => set (body := b) end.
  assert (Hbody : forall k v key var, body (k, v) (key, var) =
     if Nat.ltb k n then FNext (N.lor key (key_field k v), Some k) else FRaise).
  { intros k v key var. unfold body, net_find.
    destruct (Nat.ltb k n); reflexivity. }
  rewrite (key_loop_raise n body Hbody d 0%N None Hex). reflexivity.
Qed.

(* ------------------------------------------------------------------ *)
(* petri_net_translation.variable_to_place / place_to_variable         *)
(* ------------------------------------------------------------------ *)

Theorem py_variable_to_place_spec : forall v b, py_variable_to_place v b = Some (place_name v b).
Proof. intros v [|]; reflexivity. Qed.

Theorem py_place_to_variable_spec : forall p, py_place_to_variable p = place_to_variable p.
Proof.
  intros p. unfold py_place_to_variable.
  destruct p as [|a [|b [|c p]]].
  - reflexivity.
  - simpl. rewrite !andb_false_r.
    destruct a as [|q]; [reflexivity|].
    do 7 (try destruct q as [q|q|]; try reflexivity).
  - simpl. rewrite !andb_false_r. simpl.
    destruct a as [|q]; [reflexivity|].
    do 7 (try destruct q as [q|q|]; try reflexivity);
    destruct b as [|q]; try reflexivity;
    do 6 (try destruct q as [q|q|]; try reflexivity).
  - destruct (N.eqb_spec 98 a) as [<-|Ha].
    + destruct (N.eqb_spec 49 b) as [<-|Hb].
      * destruct (N.eqb_spec 95 c) as [<-|Hc]; [reflexivity|].
        simpl. replace (N.eqb 95 c) with false by (symmetry; apply N.eqb_neq; exact Hc).
        simpl.
        destruct c as [|q]; [reflexivity|].
        do 7 (try destruct q as [q|q|]; try reflexivity); try congruence.
      * destruct (N.eqb_spec 48 b) as [<-|Hb'].
        -- destruct (N.eqb_spec 95 c) as [<-|Hc]; [reflexivity|].
           simpl. replace (N.eqb 95 c) with false by (symmetry; apply N.eqb_neq; exact Hc).
           simpl.
           destruct c as [|q]; [reflexivity|].
           do 7 (try destruct q as [q|q|]; try reflexivity); try congruence.
        -- simpl. replace (N.eqb 49 b) with false by (symmetry; apply N.eqb_neq; exact Hb).
           replace (N.eqb 48 b) with false by (symmetry; apply N.eqb_neq; exact Hb').
           simpl.
           destruct b as [|q]; [reflexivity|].
           do 6 (try destruct q as [q|q|]; try reflexivity); try congruence.
    + simpl. replace (N.eqb 98 a) with false by (symmetry; apply N.eqb_neq; exact Ha).
      simpl.
      destruct a as [|q]; [reflexivity|].
      do 7 (try destruct q as [q|q|]; try reflexivity); try congruence.
Qed.

Print Assumptions to_space_length.
Print Assumptions to_space_nth.
Print Assumptions py_is_subspace_spec.
Print Assumptions py_intersect_spec.
Print Assumptions py_space_unique_key_spec.
Print Assumptions py_space_unique_key_raises.
Print Assumptions py_variable_to_place_spec.
Print Assumptions py_place_to_variable_spec.
