(* PySrcFacts.v
   The translator tie: the functions that tools/py2coq.py generates from the CURRENT Python sources of
   space_utils.is_subspace / intersect (theories/PySrc.v, regenerated on every run) equal the functions of the
   hand-written model, through the abstraction of a Python dict {variable: 0|1} as a model space (PySrcBase.v).
   If one of the Python functions changes, PySrc.v changes and these proofs are re-checked against the new text. *)
From Coq Require Import List Bool Arith NArith Lia.
Import ListNotations.
From BB Require Import BN SpaceFacts Names PyLib PySrcBase PySrc.


Theorem py_is_subspace_spec : forall n x y, wf_dict n x -> wf_dict n y ->
  py_is_subspace x y = Some (subspace (to_space n x) (to_space n y)).
Proof.
  intros n x y Hx Hy.
  unfold py_is_subspace. cbv zeta.
  match goal with |- context [py_for (d_keys y) ?b tt] => set (body := b) end.
  set (P := fun k : nat => eqb_ob (d_get x k) (d_get y k)).
  assert (Hbody : forall k, In k (d_keys y) -> body k tt = if P k then FNext tt else FRet false).
  { intros k Hin. unfold d_keys in Hin.
    destruct (in_key_d_get y k Hin) as [b Eb].
    unfold body, P, d_mem. rewrite Eb.
    destruct (d_get x k) as [a|]; simpl; [|reflexivity].
    destruct (Bool.eqb a b); reflexivity. }
  rewrite (py_for_check nat bool unit body tt false P (d_keys y) Hbody).
  assert (Heq : forallb P (d_keys y) = subspace (to_space n x) (to_space n y)).
  { apply Bool.eq_iff_eq_true.
    rewrite forallb_forall.
    rewrite subspace_nth by (rewrite !to_space_length; reflexivity).
    split.
    - intros H i v Hi.
      rewrite to_space_nth_all in Hi by exact Hy.
      rewrite to_space_nth_all by exact Hx.
      assert (Hin : In i (d_keys y)) by (apply (d_get_in_key y i v Hi)).
      specialize (H i Hin). unfold P in H. apply eqb_ob_spec in H. congruence.
    - intros H k Hin. unfold d_keys in Hin.
      destruct (in_key_d_get y k Hin) as [b Eb].
      specialize (H k b).
      rewrite to_space_nth_all in H by exact Hy.
      rewrite to_space_nth_all in H by exact Hx.
      specialize (H Eb). unfold P. apply eqb_ob_spec. congruence. }
  rewrite <- Heq.
  destruct (forallb P (d_keys y)); reflexivity.
Qed.

(* ------------------------------------------------------------------ *)
(* space_utils.intersect                                               *)
(* ------------------------------------------------------------------ *)

Definition ob_union (a b : option bool) : option bool :=
  match a with None => b | Some _ => a end.

Lemma intersect_map_some : forall (f g : nat -> option bool) (l : list nat),
  (forall i a b, In i l -> f i = Some a -> g i = Some b -> a = b) ->
  intersect (map f l) (map g l) = Some (map (fun i => ob_union (f i) (g i)) l).
Proof.
  intros f g l. induction l as [|i l IH]; intros H; simpl; [reflexivity|].
  rewrite IH by (intros j a b Hin; apply H; right; exact Hin).
  destruct (f i) as [a|] eqn:Ef; [|reflexivity].
  destruct (g i) as [b|] eqn:Eg; [|reflexivity].
  rewrite (H i a b (or_introl eq_refl) Ef Eg).
  rewrite eqb_reflx. reflexivity.
Qed.

Lemma intersect_map_none : forall (f g : nat -> option bool) (l : list nat) i a,
  In i l -> f i = Some a -> g i = Some (negb a) ->
  intersect (map f l) (map g l) = None.
Proof.
  intros f g l. induction l as [|j l IH]; intros i a Hin Hf Hg; simpl; [contradiction|].
  destruct (intersect (map f l) (map g l)) as [r|] eqn:E; [|reflexivity].
  destruct Hin as [->|Hin].
  - rewrite Hf, Hg. destruct a; reflexivity.
  - specialize (IH i a Hin Hf Hg). congruence.
Qed.

Lemma isect_loop1 : forall (R : Type) (body : nat * bool -> pdict -> flow R pdict),
  (forall k v st, body (k, v) st = FNext (d_set st k v)) ->
  forall suffix acc, NoDup (map fst (acc ++ suffix)) ->
  py_for suffix body acc = FNext (acc ++ suffix).
Proof.
  intros R body Hb. induction suffix as [|[k v] suffix IH]; intros acc Hnd; simpl.
  - rewrite app_nil_r. reflexivity.
  - rewrite Hb.
    assert (Hfresh : ~ In k (map fst acc)).
    { rewrite map_app in Hnd. simpl in Hnd. apply NoDup_remove_2 in Hnd.
      intro Hin. apply Hnd. apply in_or_app. left. exact Hin. }
    rewrite (d_set_fresh acc k v Hfresh).
    replace (acc ++ (k, v) :: suffix) with ((acc ++ [(k, v)]) ++ suffix)
      by (rewrite <- app_assoc; reflexivity).
    apply IH. rewrite <- app_assoc. exact Hnd.
Qed.

Lemma isect_loop2 : forall n (body : nat * bool -> pdict -> flow (option pdict) pdict),
  (forall k v r, body (k, v) r =
     match d_get r k with
     | Some a => if Bool.eqb a v then FNext (d_set r k v) else FRet None
     | None => FNext (d_set r k v)
     end) ->
  forall ys r, wf_dict n r -> wf_dict n ys ->
  match py_for ys body r with
  | FRet None => exists k a, d_get r k = Some a /\ d_get ys k = Some (negb a)
  | FRet (Some _) => False
  | FRaise => False
  | FNext r' =>
      wf_dict n r' /\
      (forall k, d_get r' k = match d_get ys k with Some v => Some v | None => d_get r k end) /\
      (forall k a b, d_get r k = Some a -> d_get ys k = Some b -> a = b)
  end.
Proof.
  intros n body Hb. induction ys as [|[k v] ys IH]; intros r Hr Hys.
  - simpl. split; [exact Hr|]. split; [intros k; reflexivity|]. intros k a b _ H. discriminate.
  - destruct Hys as [Hnd Hlt]. simpl in Hnd.
    inversion Hnd as [|? ? Hnin Hnd']; subst.
    assert (Hk : k < n) by (apply Hlt; left; reflexivity).
    assert (Hys' : wf_dict n ys).
    { split; [exact Hnd'|]. intros k' Hin. apply Hlt. right. exact Hin. }
    assert (Hysk : d_get ys k = None) by (apply d_get_notin; exact Hnin).
    assert (Hstep : (d_get r k = None \/ d_get r k = Some v) ->
      match py_for ys body (d_set r k v) with
      | FRet None => exists k0 a, d_get r k0 = Some a /\ d_get ((k, v) :: ys) k0 = Some (negb a)
      | FRet (Some _) => False
      | FRaise => False
      | FNext r' =>
          wf_dict n r' /\
          (forall k0, d_get r' k0 =
             match d_get ((k, v) :: ys) k0 with Some v => Some v | None => d_get r k0 end) /\
          (forall k0 a b, d_get r k0 = Some a -> d_get ((k, v) :: ys) k0 = Some b -> a = b)
      end).
    { intros Hrk.
      specialize (IH (d_set r k v) (wf_d_set n r k v Hr Hk) Hys').
      destruct (py_for ys body (d_set r k v)) as [[r'|]| |r'].
      - exact IH.
      - destruct IH as [k0 [a [Hg Hy]]].
        rewrite d_get_d_set in Hg.
        destruct (Nat.eqb_spec k k0) as [<-|Hne].
        + rewrite Hysk in Hy. discriminate.
        + exists k0, a. split; [exact Hg|]. simpl.
          destruct (Nat.eqb_spec k k0) as [E|_]; [contradiction|]. exact Hy.
      - exact IH.
      - destruct IH as [Hwf [Hget Hcompat]]. split; [exact Hwf|]. split.
        + intros k0. rewrite Hget. rewrite d_get_d_set. simpl.
          destruct (Nat.eqb_spec k k0) as [<-|Hne].
          * rewrite Hysk. reflexivity.
          * reflexivity.
        + intros k0 a b Hg Hy. simpl in Hy.
          destruct (Nat.eqb_spec k k0) as [<-|Hne].
          * injection Hy as <-. destruct Hrk as [Hrk|Hrk]; rewrite Hrk in Hg; congruence.
          * apply (Hcompat k0 a b); [|exact Hy].
            rewrite d_get_d_set.
            destruct (Nat.eqb_spec k k0) as [E|_]; [contradiction|]. exact Hg. }
    simpl py_for. rewrite Hb.
    destruct (d_get r k) as [a|] eqn:Erk.
    + destruct (Bool.eqb a v) eqn:Eav.
      * apply eqb_prop in Eav. subst a. apply Hstep. right. reflexivity.
      * exists k, a. split; [exact Erk|]. simpl. rewrite Nat.eqb_refl.
        destruct a, v; try discriminate; reflexivity.
    + apply Hstep. left. reflexivity.
Qed.

Theorem py_intersect_spec : forall n x y, wf_dict n x -> wf_dict n y ->
  match py_intersect x y with
  | Some (Some r) => wf_dict n r /\ intersect (to_space n x) (to_space n y) = Some (to_space n r)
  | Some None => intersect (to_space n x) (to_space n y) = None
  | None => False
  end.
Proof.
  intros n x y Hx Hy.
  unfold py_intersect, d_items. cbv zeta.
  match goal with |- context [py_for x ?b []] =>
    rewrite (isect_loop1 (option pdict) b (fun k v st => eq_refl) x [] (proj1 Hx))
  end.
  cbv beta iota. rewrite app_nil_l.
  match goal with |- context [py_for y ?b x] => set (body := b) end.
  assert (Hbody : forall k v r, body (k, v) r =
     match d_get r k with
     | Some a => if Bool.eqb a v then FNext (d_set r k v) else FRet None
     | None => FNext (d_set r k v)
     end).
  { intros k v r. unfold body, d_mem.
    destruct (d_get r k) as [a|]; simpl; [|reflexivity].
    destruct (Bool.eqb a v); reflexivity. }
  pose proof (isect_loop2 n body Hbody y x Hx Hy) as Hloop.
  destruct (py_for y body x) as [[r'|]| |r'].
  - contradiction.
  - destruct Hloop as [k [a [Hgx Hgy]]].
    unfold to_space.
    apply (intersect_map_none (d_get x) (d_get y) (seq 0 n) k a); [|exact Hgx|exact Hgy].
    apply in_seq. split; [lia|]. simpl.
    apply (proj2 Hx). apply (d_get_in_key x k a Hgx).
  - exact Hloop.
  - destruct Hloop as [Hwf [Hget Hcompat]]. split; [exact Hwf|].
    unfold to_space.
    change (fun i : nat => d_get x i) with (d_get x).
    change (fun i : nat => d_get y i) with (d_get y).
    rewrite (intersect_map_some (d_get x) (d_get y) (seq 0 n))
      by (intros i a b _ Ha Hb; apply (Hcompat i a b Ha Hb)).
    f_equal. apply map_ext. intros i. rewrite Hget.
    destruct (d_get x i) as [a|] eqn:Ea; destruct (d_get y i) as [b|] eqn:Eb; simpl;
      try reflexivity.
    rewrite (Hcompat i a b Ea Eb). reflexivity.
Qed.

Print Assumptions py_is_subspace_spec.
Print Assumptions py_intersect_spec.
