(* PySrcTermFacts.v -- termination of the strategy drivers AS WRITTEN IN THE SOURCE: the functions generated from expand_bfs.py,
   expand_dfs.py, expand_to_target.py, expand_minimal_spaces.py and expand_attractor_seeds.py (and the public wrapper methods)
   never run out of the fuel bound of Termination.v, i.e. their loops end after at most that many iterations.
   Corollaries of the equalities of PySrcSd*Facts.v and the termination theorems of the model. *)
From Coq Require Import List Bool Arith Lia.
Import ListNotations.
From BB Require Import BN Brute SpaceFacts Diagram Invariants DiagramStruct Termination Candidates Blocks ASeeds ASeedsFacts
  PyLib PyLibSd PyLibCore PyLibSd2 PySrcSdBase PySrcSd PySrcSdFacts PySrcSdTarget PySrcSdTargetFacts PySrcSdMin PySrcSdMinFacts
  PySrcSdASeeds PySrcSdASeedsFacts.

Theorem py_expand_bfs_terminates : forall fuel N cfg d start lvl sz, SWF N d -> valid_start d start = true ->
  max_nodes N + 2 <= fuel -> snd (py_api_expand_bfs fuel N cfg d start lvl sz) <> RFuel.
Proof. intros. rewrite py_api_expand_bfs_spec. apply bfs_terminates; assumption. Qed.

Theorem py_expand_dfs_terminates : forall fuel N cfg d start stk sz, SWF N d -> valid_start d start = true ->
  2 * max_nodes N + 3 <= fuel -> snd (py_api_expand_dfs fuel N cfg d start stk sz) <> RFuel.
Proof. intros. rewrite py_api_expand_dfs_spec. apply dfs_terminates; assumption. Qed.

Theorem py_expand_to_target_terminates : forall fuel N cfg d t sz, SWF N d ->
  max_nodes N + 2 <= fuel -> snd (py_api_expand_to_target fuel N cfg d t sz) <> RFuel.
Proof. intros. rewrite py_api_expand_to_target_spec. apply target_terminates; assumption. Qed.

Theorem py_expand_minimal_spaces_terminates : forall fuel N cfg d start sz skip tape,
  SWF N d -> TrapNodes N d -> EdgeStrict d -> valid_start d start = true ->
  perm_of tape (min_traps_b N (n_space (get d (start_of start)))) = true ->
  2 * max_nodes N + 3 <= fuel -> snd (py_api_expand_minimal_spaces fuel N cfg d tape start sz skip) <> RFuel.
Proof.
  intros fuel N cfg d start sz skip tape Hswf Htn Hes Hv Hp Hf.
  rewrite py_api_expand_minimal_spaces_spec; try assumption.
  - apply min_terminates; assumption.
  - pose proof (valid_start_lt N d start Hswf Hv) as Hs. destruct start; exact Hs.
Qed.

Theorem py_expand_attractor_seeds_terminates : forall fuel N cfg d sz min_tape tape,
  SWF N d -> TrapNodes N d -> EdgeStrict d ->
  perm_of min_tape (min_traps_b N (n_space (get d 0))) = true ->
  2 * max_nodes N + 3 <= fuel -> snd (py_api_expand_attractor_seeds fuel N cfg d min_tape tape sz) <> RFuel.
Proof.
  intros. rewrite py_api_expand_attractor_seeds_spec; try assumption. apply expand_aseeds_terminates; assumption.
Qed.

Print Assumptions py_expand_bfs_terminates.
Print Assumptions py_expand_dfs_terminates.
Print Assumptions py_expand_to_target_terminates.
Print Assumptions py_expand_minimal_spaces_terminates.
Print Assumptions py_expand_attractor_seeds_terminates.
