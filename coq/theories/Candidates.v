(* Candidates.v -- model of compute_attractor_candidates (attractor_candidates.py, after the fix:
   commits of this round): branch structure, limit comparisons, greedy flips, regeneration loop,
   both simulation-minification variants.  Nondeterminism comes from tapes:
     - every call of compute_fixed_point_reduced_STG returns the next list of the solver tape
       (contract: a duplicate-free prefix, of the length the limit allows, of the reduced fixed points);
     - every simulated walk returns the next entry of the walk tape (contract: states reachable
       from the walk's start).
   The retained set is an ordered association list because the code iterates a dict in insertion order. *)
From Coq Require Import List Bool Arith.
Import ListNotations.
From BB Require Import BN Brute.

Record ccfg := { c_threshold : nat; c_limit : nat; c_budget : nat }.
Definition retained := list (nat * bool).

Fixpoint ret_space (n : nat) (R : retained) : space :=
  match R with
  | [] => top_space n
  | (v, b) :: r => set_nth v (Some b) (ret_space n r)
  end.
Definition ret_mem (v : nat) (R : retained) : bool := existsb (fun p => Nat.eqb (fst p) v) R.
Fixpoint ret_set (v : nat) (b : bool) (R : retained) : retained :=
  match R with
  | [] => [(v, b)]
  | (w, c) :: r => if Nat.eqb w v then (w, b) :: r else (w, c) :: ret_set v b r
  end.
Definition ret_get (v : nat) (R : retained) : bool :=
  match find (fun p => Nat.eqb (fst p) v) R with Some p => snd p | None => false end.

(* make_heuristic_retained_set *)
Definition fixed_list (a : space) : list (nat * bool) :=
  flat_map (fun v => match nth v a None with Some b => [(v, b)] | None => [] end) (seq 0 (length a)).
Definition common_count (a : space) (nfvs : list nat) : nat :=
  length (filter (fun p => existsb (Nat.eqb (fst p)) nfvs) (fixed_list a)).
Fixpoint least_common (best : space) (bestc : nat) (l : list space) (nfvs : list nat) : space :=
  match l with
  | [] => best
  | a :: r => let c := common_count a nfvs in
              if Nat.ltb c bestc then least_common a c r nfvs else least_common best bestc r nfvs
  end.
Definition majority (N : net) (S : space) (v : nat) : bool :=
  let sts := states_of S in
  let t := length (filter (fun s => upd N v s) sts) in
  Nat.ltb (length sts - t) t.
Definition heuristic_retained (N : net) (S : space) (nfvs : list nat) (avoid : list space) : retained :=
  let r0 :=
    match avoid with
    | [] => []
    | a0 :: _ =>
        let a := least_common a0 (common_count a0 nfvs) avoid nfvs in
        filter (fun p => existsb (Nat.eqb (fst p)) nfvs) (fixed_list a)
    end in
  fold_left (fun R v => if ret_mem v R then R else R ++ [(v, majority N S v)]) nfvs r0.

(* ---- solver tape ---- *)
Inductive cres := CRaised | COk (l : list state) | CTapeEnd.

Record call := { k_ret : retained; k_limit : option nat }.
(* state of the pipeline: remaining tape and the log of calls made (for the correspondence) *)
Record pst := { p_tape : list (list state); p_log : list call }.

Definition solve (st : pst) (R : retained) (lim : option nat) : pst * option (list state) :=
  match p_tape st with
  | [] => ({| p_tape := []; p_log := p_log st ++ [{| k_ret := R; k_limit := lim |}] |}, None)
  | x :: t => ({| p_tape := t; p_log := p_log st ++ [{| k_ret := R; k_limit := lim |}] |}, Some x)
  end.

(* asp_greedy_retained_set_optimization: "while not done: for var in retained_set: ..." *)
Fixpoint greedy_pass (st : pst) (pseudo_min : bool) (vars : list nat) (R : retained) (cands : list state)
         (changed : bool) : pst * option (retained * list state * bool * bool) :=
  (* result: (R, cands, changed, returned_early) *)
  match vars with
  | [] => (st, Some (R, cands, changed, false))
  | v :: r =>
      match cands with
      | [] => (st, Some (R, [], changed, true))
      | _ =>
          if pseudo_min && Nat.eqb (length cands) 1 then (st, Some (R, cands, changed, true)) else
          let R2 := ret_set v (negb (ret_get v R)) R in
          let '(st1, o) := solve st R2 (Some (length cands)) in
          match o with
          | None => (st1, None)
          | Some c2 =>
              if Nat.ltb (length c2) (length cands)
              then greedy_pass st1 pseudo_min r R2 c2 true
              else greedy_pass st1 pseudo_min r R cands changed
          end
      end
  end.

Fixpoint greedy_loop (fuel : nat) (st : pst) (pseudo_min : bool) (R : retained) (cands : list state)
  : pst * option (retained * list state) :=
  match fuel with
  | O => (st, None)
  | S f =>
      let '(st1, o) := greedy_pass st pseudo_min (map fst R) R cands false in
      match o with
      | None => (st1, None)
      | Some (R1, c1, changed, early) =>
          if early then (st1, Some (R1, c1))
          else if changed then greedy_loop f st1 pseudo_min R1 c1 else (st1, Some (R1, c1))
      end
  end.

(* regeneration loop over the NFVS *)
Fixpoint regen (fuel : nat) (st : pst) (cfg : ccfg) (pseudo_min : bool) (vars : list nat)
         (R : retained) (cands : list state) : pst * cres * retained :=
  match vars with
  | [] => (st, COk cands, R)
  | v :: r =>
      let R0 := ret_set v false R in
      let '(st1, o0) := solve st R0 (Some (c_limit cfg)) in
      match o0 with
      | None => (st1, CTapeEnd, R0)
      | Some zero =>
          if Nat.leb (length zero) (length cands) && Nat.ltb (length zero) (c_limit cfg)
          then regen fuel st1 cfg pseudo_min r R0 zero
          else
            let R1 := ret_set v true R in
            let '(st2, o1) := solve st1 R1 (Some (length zero)) in
            match o1 with
            | None => (st2, CTapeEnd, R1)
            | Some one =>
                if Nat.eqb (length zero) (c_limit cfg) && Nat.eqb (length one) (c_limit cfg)
                then (st2, CRaised, R1)
                else if Nat.leb (length one) (length cands) then regen fuel st2 cfg pseudo_min r R1 one
                else
                  let '(Rn, cn) := if Nat.leb (length zero) (length one) then (R0, zero) else (R1, one) in
                  if Nat.ltb (c_threshold cfg) (length cn)
                  then
                    let '(st3, og) := greedy_loop fuel st2 pseudo_min Rn cn in
                    match og with
                    | None => (st3, CTapeEnd, Rn)
                    | Some (Rg, cg) => regen fuel st3 cfg pseudo_min r Rg cg
                    end
                  else regen fuel st2 cfg pseudo_min r Rn cn
            end
      end
  end.

(* ---- simulation minification ---- *)
(* variant with avoid set: candidates one by one; walk = list of states visited (one per sweep) *)
Fixpoint sim_avoid (avoid : list space) (pending : list state) (kept : list state) (walks : list (list state))
  : list state * list (list state) :=
  match pending with
  | [] => (rev kept, walks)
  | c :: rest =>
      let w := hd [] walks in
      let others := rest ++ kept in
      (* first visited state that hits another candidate or the avoid set eliminates c *)
      let hit := existsb (fun t => mem_state t others || existsb (in_space t) avoid) w in
      if hit then sim_avoid avoid rest kept (tl walks)
      else sim_avoid avoid rest (last w c :: kept) (tl walks)
  end.

(* variant without avoid set: all states move one sweep per iteration *)
Fixpoint sim_min_round (pending : list state) (newc : list state) (moves : list state)
  : list state * list state :=
  match pending with
  | [] => (rev newc, moves)
  | c :: rest =>
      let t := hd c moves in
      if mem_state t rest || mem_state t newc then sim_min_round rest newc (tl moves)
      else sim_min_round rest (t :: newc) (tl moves)
  end.
Fixpoint sim_min (iters : nat) (cands : list state) (moves : list state) : list state * list state :=
  match iters with
  | O => (cands, moves)
  | S k => let '(c1, m1) := sim_min_round cands [] moves in
           if Nat.leb (length c1) 1 then (c1, m1) else sim_min k c1 m1
  end.

Record simtape := { s_walks : list (list state); s_moves : list state }.

Fixpoint sim_rounds (rounds : nat) (avoid : list space) (nfree : nat) (cfg : ccfg) (iters : nat)
         (cands : list state) (tp : simtape) : list state :=
  match rounds with
  | O => cands
  | S r =>
      match cands with
      | [] => []
      | _ =>
          let '(reduced, tp1) :=
            match avoid with
            | [] => let '(c1, m1) := sim_min iters cands (s_moves tp) in (c1, {| s_walks := s_walks tp; s_moves := m1 |})
            | _ => let '(c1, w1) := sim_avoid avoid cands [] (s_walks tp) in (c1, {| s_walks := w1; s_moves := s_moves tp |})
            end in
          if Nat.eqb (length reduced) (length cands) && Nat.ltb (c_budget cfg * nfree) (iters * length cands)
          then reduced
          else if Nat.eqb (length reduced) 1 && (match avoid with [] => true | _ => false end) then reduced
          else sim_rounds r avoid nfree cfg (2 * iters) reduced tp1
      end
  end.

(* ---- the whole pipeline ---- *)
Definition nfree (S : space) : nat := length S - nfixed S.

(* Rinit is the retained set returned by make_heuristic_retained_set in the order the code's dict
   happens to have (the keys of the chosen child motif come in solver order); its contract is
   same_assignment Rinit (heuristic_retained N S nfvs avoid). *)
Definition same_assignment (R R' : retained) : Prop :=
  (forall v, ret_mem v R = ret_mem v R') /\ (forall v, ret_mem v R = true -> ret_get v R = ret_get v R') /\
  NoDup (map fst R) /\ NoDup (map fst R').
Definition same_assignment_b (R R' : retained) : bool :=
  forallb (fun p => ret_mem (fst p) R' && Bool.eqb (snd p) (ret_get (fst p) R')) R &&
  forallb (fun p => ret_mem (fst p) R) R' && Nat.eqb (length R) (length R').

Definition compute_candidates (fuel : nat) (N : net) (S : space) (avoid : list space) (nfvs : list nat)
           (Rinit : retained)
           (cfg : ccfg) (greedy simulation : bool) (tape : list (list state)) (stp : simtape)
  : cres * list call :=
  let pseudo_min := match avoid with [] => true | _ => false end in
  if is_full S then (COk [map (fun o => match o with Some b => b | None => false end) S], []) else
  if (match nfvs with [] => true | _ => false end) && negb pseudo_min then (COk [], []) else
  let R := Rinit in
  let st0 := {| p_tape := tape; p_log := [] |} in
  let finish (st : pst) (cands : list state) : cres * list call :=
    match cands with
    | [] => (COk [], p_log st)
    | _ =>
        if pseudo_min && Nat.eqb (length cands) 1 then (COk cands, p_log st) else
        if simulation then (COk (sim_rounds fuel avoid (nfree S) cfg 1024 cands stp), p_log st)
        else (COk cands, p_log st)
    end in
  if negb greedy then
    let '(st1, o) := solve st0 R (Some (c_limit cfg)) in
    match o with
    | None => (CTapeEnd, p_log st1)
    | Some c => if Nat.eqb (length c) (c_limit cfg) then (CRaised, p_log st1) else finish st1 c
    end
  else
    let '(st1, o) := solve st0 R (Some (c_threshold cfg)) in
    match o with
    | None => (CTapeEnd, p_log st1)
    | Some c =>
        if Nat.ltb (length c) (c_threshold cfg) then
          if Nat.ltb 1 (length c) || (negb pseudo_min && Nat.ltb 0 (length c)) then
            let '(st2, og) := greedy_loop fuel st1 pseudo_min R c in
            match og with
            | None => (CTapeEnd, p_log st2)
            | Some (_, cg) => finish st2 cg
            end
          else finish st1 c
        else
          match nfvs with
          | [] =>
              let '(st2, o2) := solve st1 [] (Some (c_limit cfg)) in
              match o2 with
              | None => (CTapeEnd, p_log st2)
              | Some c2 => if Nat.eqb (length c2) (c_limit cfg) then (CRaised, p_log st2) else finish st2 c2
              end
          | _ =>
              let '(st2, r, _) := regen fuel st1 cfg pseudo_min nfvs [] [] in
              match r with
              | COk cr => finish st2 cr
              | other => (other, p_log st2)
              end
          end
    end.

(* ---- contracts and the reduction hypothesis (statements used by the theorems) ---- *)
Definition solve_ok (N : net) (S : space) (avoid : list space) (n : nat) (k : call) (res : list state) : Prop :=
  let full := reduced_fixed_b N (ret_space n (k_ret k)) S avoid in
  NoDup res /\ (forall s, In s res -> In s full) /\
  length res = match k_limit k with Some l => Nat.min l (length full) | None => length full end.

(* executable instance check of the reduction hypothesis for one retained assignment:
   the reduced fixed points hit every attractor of the node *)
Definition reduction_ok_b (N : net) (S : space) (avoid : list space) (R : space) : bool :=
  forallb (fun A => existsb (fun c => mem_state c A) (reduced_fixed_b N R S avoid))
          (node_attractors_b N S avoid).
Fixpoint all_assignments (n : nat) (vars : list nat) : list space :=
  match vars with
  | [] => [top_space n]
  | v :: r => flat_map (fun R => [set_nth v (Some false) R; set_nth v (Some true) R]) (all_assignments n r)
  end.
Definition nfvs_reduction_ok_b (N : net) (S : space) (avoid : list space) (nfvs : list nat) : bool :=
  forallb (reduction_ok_b N S avoid) (all_assignments (nvars N) nfvs).
