(* BlockMath.v -- SPEC (definitions are fixed; prove the theorems).
   The network-level mathematics behind source-block expansion ("independence of minimal source blocks",
   "clean-block argument"): a set B of free variables of a trap space S that is closed under regulators
   evolves autonomously inside S, so trap spaces and attractors project onto it. *)
From Coq Require Import List Bool Arith NArith Lia Permutation.
Import ListNotations.
From BB Require Import BN Brute SpaceFacts TrapFacts PercolateFacts AttractorFacts Filter FilterFacts Diagram
  DiagramComplete Blocks BlocksFacts OwnerFacts.
From Coq Require Import Relations.

(* B is a set of variables free in S, closed under regulators inside S *)
Definition closed_in (N : net) (S : space) (B : list nat) : Prop :=
  (forall v, In v B -> v < nvars N /\ free_in S v = true) /\
  (forall i j, In j B -> i < nvars N -> free_in S i = true -> regulates_b N S i j = true -> In i B).

(* the variables of m that are fixed beyond S all lie in B *)
Definition fixes_within (m S : space) (B : list nat) : Prop :=
  forall v, v < length S -> nth v m None <> nth v S None -> In v B.

(* M restricted to the variables of B, everything else as in S *)
Definition proj_space (M S : space) (B : list nat) : space :=
  map (fun v => if mem_nat v B then nth v M None else nth v S None) (seq 0 (length S)).

(* the block sub-network: variables outside B are frozen (the code drops them; inside S this is the same
   dynamics on the variables of B) *)
Definition freeze (N : net) (B : list nat) : net :=
  map (fun v => fun s : state => if mem_nat v B then upd N v s else nth v s false) (seq 0 (nvars N)).

(* contract of "is_clean": no attractor of the block network inside S avoids all the block's motifs *)
Definition block_clean (N : net) (S : space) (B : list nat) (motifs : list space) : Prop :=
  forall A, attractor (freeze N B) A -> inside A S -> exists m, In m motifs /\ inside A m.

(* executable twin of the contract (extracted; run on every recorded is_clean answer) *)
Definition block_clean_b (N : net) (S : space) (B : list nat) (motifs : list space) : bool :=
  forallb (fun L => negb (inside_b L S) || existsb (inside_b L) motifs) (attractors_b (freeze N B)).

(* ====================================================================== *)
(* helpers                                                                 *)
(* ====================================================================== *)

Lemma BM_mem_nat_In : forall x l, mem_nat x l = true <-> In x l.
Proof.
  intros x l. unfold mem_nat. rewrite existsb_exists. split.
  - intros [y [Hy He]]. apply Nat.eqb_eq in He. subst. exact Hy.
  - intros H. exists x. split; [exact H | apply Nat.eqb_refl].
Qed.

Lemma BM_mem_nat_false : forall x l, mem_nat x l = false <-> ~ In x l.
Proof.
  intros x l. rewrite <- BM_mem_nat_In. destruct (mem_nat x l); split; intro H; congruence.
Qed.

Lemma BM_nth_map_seq : forall (A : Type) (f : nat -> A) n i d, i < n -> nth i (map f (seq 0 n)) d = f i.
Proof.
  intros A f n i d Hi.
  rewrite (nth_indep _ d (f 0)) by (rewrite map_length, seq_length; exact Hi).
  rewrite map_nth. rewrite seq_nth by exact Hi. reflexivity.
Qed.

Lemma BM_sort_nat_In : forall x l, In x (sort_nat l) <-> In x l.
Proof.
  assert (Hins : forall a b m, In a (insert_nat b m) <-> a = b \/ In a m).
  { intros a b m. induction m as [|c m IHm]; simpl.
    - split; intros [H|H]; auto.
    - destruct (Nat.leb b c); simpl.
      + split; intros [H|H]; auto.
      + rewrite IHm. split; intros H; intuition auto. }
  intros x l. induction l as [|y r IH]; simpl; [tauto|].
  rewrite Hins, IH. split; intros [H|H]; auto.
Qed.

Lemma BM_free_in_spec : forall (Sp : space) v, free_in Sp v = true <-> nth v Sp None = None.
Proof.
  intros Sp v. unfold free_in. destruct (nth v Sp None); split; intro H; try reflexivity; discriminate H.
Qed.

Lemma BM_ob_dec : forall a b : option bool, {a = b} + {a <> b}.
Proof. decide equality. apply Bool.bool_dec. Qed.

Lemma BM_closed_free : forall N Sp B v, closed_in N Sp B -> In v B -> nth v Sp None = None.
Proof.
  intros N Sp B v [H _] Hv. apply BM_free_in_spec. apply H. exact Hv.
Qed.

Lemma BM_closed_lt : forall N Sp B v, closed_in N Sp B -> In v B -> v < nvars N.
Proof.
  intros N Sp B v [H _] Hv. apply H. exact Hv.
Qed.

(* a variable fixed in Sp is not in B *)
Lemma BM_fixed_not_B : forall N Sp B v x, closed_in N Sp B -> nth v Sp None = Some x -> mem_nat v B = false.
Proof.
  intros N Sp B v x Hc Hn. apply BM_mem_nat_false. intro Hin.
  rewrite (BM_closed_free N Sp B v Hc Hin) in Hn. discriminate.
Qed.

(* ---------- proj_space ---------- *)
Lemma proj_space_length : forall M Sp B, length (proj_space M Sp B) = length Sp.
Proof. intros. unfold proj_space. rewrite map_length, seq_length. reflexivity. Qed.

Lemma nth_proj_space : forall M Sp B v, v < length Sp ->
  nth v (proj_space M Sp B) None = if mem_nat v B then nth v M None else nth v Sp None.
Proof.
  intros M Sp B v Hv. unfold proj_space.
  rewrite (BM_nth_map_seq _ (fun v => if mem_nat v B then nth v M None else nth v Sp None) _ v None Hv).
  reflexivity.
Qed.

Lemma nth_proj_space_some : forall M Sp B v x, nth v (proj_space M Sp B) None = Some x ->
  v < length Sp /\ (if mem_nat v B then nth v M None else nth v Sp None) = Some x.
Proof.
  intros M Sp B v x H.
  assert (Hv : v < length Sp).
  { rewrite <- (proj_space_length M Sp B). apply (nth_some_lt _ v x H). }
  split; [exact Hv|]. rewrite <- (nth_proj_space M Sp B v Hv). exact H.
Qed.

(* ---------- fill: the state of P closest to s ---------- *)
Definition fill (n : nat) (P : space) (s : state) : state :=
  map (fun i => match nth i P None with Some y => y | None => nth i s false end) (seq 0 n).

Lemma fill_length : forall n P s, length (fill n P s) = n.
Proof. intros. unfold fill. rewrite map_length, seq_length. reflexivity. Qed.

Lemma nth_fill : forall n P s i, i < n ->
  nth i (fill n P s) false = match nth i P None with Some y => y | None => nth i s false end.
Proof.
  intros n P s i Hi. unfold fill.
  rewrite (BM_nth_map_seq _ (fun i => match nth i P None with Some y => y | None => nth i s false end) n i false Hi).
  reflexivity.
Qed.

Lemma fill_in_space : forall n P s, length P = n -> in_space (fill n P s) P = true.
Proof.
  intros n P s HP. apply in_space_nth; [rewrite fill_length; congruence|].
  intros i v Hn. assert (Hi : i < n) by (rewrite <- HP; apply (nth_some_lt P i v Hn)).
  rewrite (nth_fill n P s i Hi), Hn. reflexivity.
Qed.

(* ---------- glue: B-part of s, rest of t ---------- *)
Definition glue (n : nat) (B : list nat) (s t : state) : state :=
  map (fun v => if mem_nat v B then nth v s false else nth v t false) (seq 0 n).

Lemma glue_length : forall n B s t, length (glue n B s t) = n.
Proof. intros. unfold glue. rewrite map_length, seq_length. reflexivity. Qed.

Lemma nth_glue : forall n B s t v, v < n ->
  nth v (glue n B s t) false = if mem_nat v B then nth v s false else nth v t false.
Proof.
  intros n B s t v Hv. unfold glue.
  rewrite (BM_nth_map_seq _ (fun v => if mem_nat v B then nth v s false else nth v t false) n v false Hv).
  reflexivity.
Qed.

Lemma glue_in_space : forall N Sp B s t, closed_in N Sp B -> length Sp = nvars N ->
  in_space t Sp = true -> in_space (glue (nvars N) B s t) Sp = true.
Proof.
  intros N Sp B s t Hc HS Ht.
  apply in_space_nth; [rewrite glue_length; congruence|].
  intros i v Hn. assert (Hi : i < nvars N) by (rewrite <- HS; apply (nth_some_lt Sp i v Hn)).
  rewrite (nth_glue _ B s t i Hi), (BM_fixed_not_B N Sp B i v Hc Hn).
  apply (proj1 (in_space_nth t Sp (in_space_length t Sp Ht)) Ht i v Hn).
Qed.

(* ---------- freeze ---------- *)
Lemma BM_nvars_freeze : forall N B, nvars (freeze N B) = nvars N.
Proof. intros. unfold nvars, freeze. rewrite map_length, seq_length. reflexivity. Qed.

Lemma BM_upd_freeze : forall N B i t, i < nvars N ->
  upd (freeze N B) i t = if mem_nat i B then upd N i t else nth i t false.
Proof.
  intros N B i t Hi.
  assert (H : nth i (freeze N B) (fun _ => false) =
              (fun s : state => if mem_nat i B then upd N i s else nth i s false)).
  { unfold freeze.
    apply (BM_nth_map_seq _ (fun v => fun s : state => if mem_nat v B then upd N v s else nth v s false)
             (nvars N) i (fun _ => false) Hi). }
  unfold upd at 1. rewrite H. reflexivity.
Qed.

(* ====================================================================== *)
(* 0. the executable contract                                              *)
(* ====================================================================== *)

Theorem block_clean_b_spec : forall N S B motifs, length S = nvars N ->
  (forall m, In m motifs -> length m = nvars N) ->
  (block_clean_b N S B motifs = true <-> block_clean N S B motifs).
Proof.
  intros N Sp B motifs _ _. unfold block_clean_b, block_clean. rewrite forallb_forall. split.
  - intros H A Hatt Hin.
    pose proof Hatt as [[s Hs] _].
    pose proof (attractor_member_in_attractor _ A s Hatt Hs) as Hia.
    destruct (attractors_b_complete _ s Hia) as [L [HL HsL]].
    destruct (attractors_b_sound _ L HL) as [_ HLatt].
    pose proof (attractors_disjoint_or_equal _ A (fun x => In x L) s Hatt HLatt Hs HsL) as Heq.
    specialize (H L HL). apply orb_true_iff in H. destruct H as [H|H].
    + exfalso. apply negb_true_iff in H.
      assert (Ht : inside_b L Sp = true).
      { apply F_inside_b_spec. intros x Hx. apply Hin. apply Heq. exact Hx. }
      rewrite Ht in H. discriminate.
    + apply existsb_exists in H. destruct H as [m [Hm Him]].
      exists m. split; [exact Hm|]. intros x Hx.
      apply (proj1 (F_inside_b_spec L m) Him). apply Heq. exact Hx.
  - intros H L HL. destruct (attractors_b_sound _ L HL) as [_ HLatt].
    destruct (inside_b L Sp) eqn:E; simpl; [|reflexivity].
    destruct (H (fun x => In x L) HLatt) as [m [Hm Him]].
    { intros x Hx. apply (proj1 (F_inside_b_spec L Sp) E). exact Hx. }
    apply existsb_exists. exists m. split; [exact Hm|].
    apply F_inside_b_spec. intros x Hx. apply Him. exact Hx.
Qed.

(* ====================================================================== *)
(* 1. backward closure                                                     *)
(* ====================================================================== *)

Definition bw_add (N : net) (Sp : space) (cur : list nat) : list nat :=
  filter (fun i => free_in Sp i && negb (mem_nat i cur) &&
                   existsb (fun j => regulates_b N Sp i j) cur) (seq 0 (nvars N)).

Lemma bwd_closure_succ : forall f N Sp cur,
  bwd_closure (Datatypes.S f) N Sp cur =
  match bw_add N Sp cur with [] => cur | _ :: _ => bwd_closure f N Sp (cur ++ bw_add N Sp cur) end.
Proof. intros. reflexivity. Qed.

Lemma bw_add_In : forall N Sp cur i, In i (bw_add N Sp cur) <->
  i < nvars N /\ free_in Sp i = true /\ ~ In i cur /\ exists j, In j cur /\ regulates_b N Sp i j = true.
Proof.
  intros N Sp cur i. unfold bw_add.
  rewrite filter_In, in_seq, !andb_true_iff, negb_true_iff, BM_mem_nat_false, existsb_exists.
  split.
  - intros (H1 & (H2 & H3) & H4). split; [lia|]. auto.
  - intros (H1 & H2 & H3 & H4). split; [lia|]. auto.
Qed.

Definition missing (n : nat) (cur : list nat) : nat :=
  length (filter (fun v => negb (mem_nat v cur)) (seq 0 n)).

Lemma BM_filter_length_le : forall (A : Type) (f g : A -> bool) l,
  (forall x, In x l -> f x = true -> g x = true) -> length (filter f l) <= length (filter g l).
Proof.
  intros A f g l. induction l as [|a l IH]; intros H; simpl; [lia|].
  assert (IH' : length (filter f l) <= length (filter g l)).
  { apply IH. intros x Hx. apply H. right. exact Hx. }
  destruct (f a) eqn:Fa.
  - rewrite (H a (or_introl eq_refl) Fa). simpl. lia.
  - destruct (g a); simpl; lia.
Qed.

Lemma BM_filter_length_lt : forall (A : Type) (f g : A -> bool) l x,
  (forall y, In y l -> f y = true -> g y = true) -> In x l -> g x = true -> f x = false ->
  length (filter f l) < length (filter g l).
Proof.
  intros A f g l x. induction l as [|a l IH]; intros H Hx Hg Hf; simpl; [destruct Hx|].
  assert (Hle : length (filter f l) <= length (filter g l)).
  { apply BM_filter_length_le. intros y Hy. apply H. right. exact Hy. }
  destruct Hx as [Hx|Hx].
  - subst a. rewrite Hf, Hg. simpl. lia.
  - assert (IH' : length (filter f l) < length (filter g l)).
    { apply IH; auto. intros y Hy. apply H. right. exact Hy. }
    destruct (f a) eqn:Fa.
    + rewrite (H a (or_introl eq_refl) Fa). simpl. lia.
    + destruct (g a); simpl; lia.
Qed.

Lemma bwd_closure_inv : forall N Sp fuel cur,
  (forall v, In v cur -> v < nvars N /\ free_in Sp v = true) ->
  missing (nvars N) cur <= fuel ->
  closed_in N Sp (bwd_closure fuel N Sp cur) /\ (forall v, In v cur -> In v (bwd_closure fuel N Sp cur)).
Proof.
  intros N Sp fuel. induction fuel as [|f IH]; intros cur Hcur Hm.
  - simpl. split; [|auto]. split; [exact Hcur|].
    intros i j _ Hi _ _.
    destruct (mem_nat i cur) eqn:E; [apply BM_mem_nat_In; exact E|]. exfalso.
    unfold missing in Hm.
    assert (Hin : In i (filter (fun v => negb (mem_nat v cur)) (seq 0 (nvars N)))).
    { apply filter_In. split; [apply in_seq; lia|]. rewrite E. reflexivity. }
    destruct (filter (fun v => negb (mem_nat v cur)) (seq 0 (nvars N))); [destruct Hin|simpl in Hm; lia].
  - rewrite bwd_closure_succ. destruct (bw_add N Sp cur) as [|a l] eqn:E.
    + split; [|auto]. split; [exact Hcur|].
      intros i j Hj Hi Hfree Hreg.
      destruct (mem_nat i cur) eqn:Ei; [apply BM_mem_nat_In; exact Ei|]. exfalso.
      assert (Hin : In i (bw_add N Sp cur)).
      { apply bw_add_In. split; [exact Hi|]. split; [exact Hfree|].
        split; [apply BM_mem_nat_false; exact Ei|]. exists j. auto. }
      rewrite E in Hin. destruct Hin.
    + rewrite <- E.
      assert (Ha : In a (bw_add N Sp cur)) by (rewrite E; left; reflexivity).
      destruct (IH (cur ++ bw_add N Sp cur)) as [Hcl Hsub].
      * intros v Hv. apply in_app_or in Hv. destruct Hv as [Hv|Hv]; [apply Hcur; exact Hv|].
        apply bw_add_In in Hv. destruct Hv as (H1 & H2 & _). auto.
      * assert (Hlt : missing (nvars N) (cur ++ bw_add N Sp cur) < missing (nvars N) cur).
        { unfold missing. apply bw_add_In in Ha. destruct Ha as (Ha1 & _ & Ha3 & _).
          apply (BM_filter_length_lt _ _ _ _ a).
          - intros y _ Hy. apply negb_true_iff in Hy. apply negb_true_iff.
            apply BM_mem_nat_false. apply BM_mem_nat_false in Hy.
            intro Hc. apply Hy. apply in_or_app. left. exact Hc.
          - apply in_seq. lia.
          - apply negb_true_iff. apply BM_mem_nat_false. exact Ha3.
          - apply negb_false_iff. apply BM_mem_nat_In. apply in_or_app. right.
            rewrite E. left. reflexivity. }
        lia.
      * split; [exact Hcl|]. intros v Hv. apply Hsub. apply in_or_app. left. exact Hv.
Qed.

Lemma BM_filter_le : forall (A : Type) (f : A -> bool) l, length (filter f l) <= length l.
Proof.
  intros A f l. induction l as [|a l IH]; simpl; [lia|]. destruct (f a); simpl; lia.
Qed.

Theorem bwd_closure_closed : forall N S cur, length S = nvars N ->
  (forall v, In v cur -> v < nvars N /\ free_in S v = true) ->
  closed_in N S (bwd_closure (nvars N) N S cur) /\ (forall v, In v cur -> In v (bwd_closure (nvars N) N S cur)).
Proof.
  intros N Sp cur _ Hcur. apply bwd_closure_inv; [exact Hcur|].
  unfold missing.
  pose proof (BM_filter_le _ (fun v => negb (mem_nat v cur)) (seq 0 (nvars N))) as H.
  rewrite seq_length in H. exact H.
Qed.

Lemma bwd_least_aux : forall N Sp B fuel cur, closed_in N Sp B -> (forall v, In v cur -> In v B) ->
  forall v, In v (bwd_closure fuel N Sp cur) -> In v B.
Proof.
  intros N Sp B fuel. induction fuel as [|f IH]; intros cur Hc Hcur v Hv.
  - simpl in Hv. apply Hcur. exact Hv.
  - rewrite bwd_closure_succ in Hv. destruct (bw_add N Sp cur) as [|a l] eqn:E.
    + apply Hcur. exact Hv.
    + rewrite <- E in Hv. apply (IH (cur ++ bw_add N Sp cur) Hc); [|exact Hv].
      intros w Hw. apply in_app_or in Hw. destruct Hw as [Hw|Hw]; [apply Hcur; exact Hw|].
      apply bw_add_In in Hw. destruct Hw as (H1 & H2 & _ & j & Hj & Hreg).
      destruct Hc as [_ Hc2]. apply (Hc2 w j (Hcur j Hj) H1 H2 Hreg).
Qed.

Theorem bwd_closure_least : forall N S cur B, closed_in N S B -> (forall v, In v cur -> In v B) ->
  forall v, In v (bwd_closure (nvars N) N S cur) -> In v B.
Proof.
  intros N Sp cur B Hc Hcur v Hv. apply (bwd_least_aux N Sp B (nvars N) cur Hc Hcur v Hv).
Qed.

Lemma nth_reduce_by : forall (m p : space) v, length m = length p ->
  nth v (reduce_by m p) None = match nth v p None with Some _ => None | None => nth v m None end.
Proof.
  unfold reduce_by. induction m as [|a m IH]; intros [|b p] v Hlen; simpl in *; try discriminate.
  - destruct v; reflexivity.
  - injection Hlen as Hlen. destruct v as [|v]; simpl.
    + destruct b; reflexivity.
    + apply IH. exact Hlen.
Qed.

Lemma reduce_by_length : forall (m p : space), length m = length p -> length (reduce_by m p) = length p.
Proof.
  intros m p H. unfold reduce_by. rewrite map_length, combine_length, H. apply Nat.min_id.
Qed.

Theorem block_of_closed : forall N S m, trap_space N S -> length m = nvars N -> subspace m S = true ->
  closed_in N S (block_of N S (reduce_by m S)) /\ fixes_within m S (block_of N S (reduce_by m S)).
Proof.
  intros N Sp m Htrap Hm Hsub.
  pose proof (trap_space_length N Sp Htrap) as HS.
  assert (Hlen : length m = length Sp) by congruence.
  set (mr := reduce_by m Sp).
  set (cur := filter (fun v => negb (free_in mr v)) (seq 0 (length mr))).
  assert (Hcur : forall v, In v cur <-> v < nvars N /\ nth v Sp None = None /\ nth v m None <> None).
  { intros v. unfold cur. rewrite filter_In, in_seq, negb_true_iff. unfold mr.
    rewrite (reduce_by_length m Sp Hlen), HS. unfold free_in. rewrite (nth_reduce_by m Sp v Hlen).
    destruct (nth v Sp None) as [x|]; destruct (nth v m None) as [y|]; simpl;
      intuition (try lia; try congruence; try discriminate). }
  assert (Hcur' : forall v, In v cur -> v < nvars N /\ free_in Sp v = true).
  { intros v Hv. apply Hcur in Hv. destruct Hv as (H1 & H2 & _). split; [exact H1|].
    apply BM_free_in_spec. exact H2. }
  destruct (bwd_closure_closed N Sp cur HS Hcur') as [[Hc1 Hc2] Hin].
  unfold block_of. fold mr. fold cur. split.
  - split.
    + intros v Hv. apply Hc1. apply BM_sort_nat_In. exact Hv.
    + intros i j Hj Hi Hf Hr. apply BM_sort_nat_In. apply (Hc2 i j); auto.
      apply BM_sort_nat_In. exact Hj.
  - intros v Hv Hne. apply BM_sort_nat_In. apply Hin. apply Hcur.
    split; [rewrite <- HS; exact Hv|].
    destruct (nth v Sp None) as [x|] eqn:Ex.
    + exfalso. apply Hne. apply (proj1 (subspace_nth m Sp Hlen) Hsub v x Ex).
    + split; [reflexivity|exact Hne].
Qed.

(* ====================================================================== *)
(* 2. update functions of B only read B inside S                           *)
(* ====================================================================== *)

Lemma flip_at_length : forall v s, length (flip_at v s) = length s.
Proof. intros. unfold flip_at. apply set_nth_length. Qed.

Lemma regulates_b_false : forall N Sp i j, regulates_b N Sp i j = false ->
  forall s, in_space s Sp = true -> upd N j s = upd N j (flip_at i s).
Proof.
  intros N Sp i j H s Hs. unfold regulates_b in H.
  destruct (Bool.eqb (upd N j s) (upd N j (flip_at i s))) eqn:E; [apply eqb_prop; exact E|].
  exfalso. assert (Ht : existsb (fun s => negb (Bool.eqb (upd N j s) (upd N j (flip_at i s)))) (states_of Sp) = true).
  { apply existsb_exists. exists s. split; [apply states_of_spec; exact Hs|]. rewrite E. reflexivity. }
  rewrite Ht in H. discriminate.
Qed.

Lemma reads_B_aux : forall N Sp B j, closed_in N Sp B -> In j B -> forall k s t,
  wf_state N s -> wf_state N t -> in_space s Sp = true -> in_space t Sp = true ->
  (forall v, In v B -> nth v s false = nth v t false) ->
  (forall v, k <= v -> nth v s false = nth v t false) -> upd N j s = upd N j t.
Proof.
  intros N Sp B j Hc Hj k. induction k as [|k IH]; intros s t Hws Hwt Hs Ht HB Hk.
  - assert (Heq : s = t).
    { apply (nth_ext s t false false); [unfold wf_state in *; congruence|].
      intros n _. apply Hk. lia. }
    rewrite Heq. reflexivity.
  - destruct (Bool.bool_dec (nth k s false) (nth k t false)) as [He|Hne].
    + apply (IH s t); auto. intros v Hv.
      destruct (Nat.eq_dec v k) as [->|Hvk]; [exact He|]. apply Hk. lia.
    + assert (Hkn : k < nvars N).
      { destruct (le_lt_dec (nvars N) k) as [Hle|Hlt]; [|exact Hlt]. exfalso. apply Hne.
        unfold wf_state in *. rewrite !nth_overflow by lia. reflexivity. }
      assert (Hfree : nth k Sp None = None).
      { destruct (nth k Sp None) as [x|] eqn:Ex; [|reflexivity]. exfalso. apply Hne.
        rewrite (proj1 (in_space_nth s Sp (in_space_length s Sp Hs)) Hs k x Ex).
        rewrite (proj1 (in_space_nth t Sp (in_space_length t Sp Ht)) Ht k x Ex). reflexivity. }
      assert (HkB : ~ In k B) by (intro Hin; apply Hne; apply HB; exact Hin).
      assert (Hreg : regulates_b N Sp k j = false).
      { destruct (regulates_b N Sp k j) eqn:E; [|reflexivity]. exfalso. apply HkB.
        destruct Hc as [_ Hc2]. apply (Hc2 k j Hj Hkn); [apply BM_free_in_spec; exact Hfree|exact E]. }
      rewrite (regulates_b_false N Sp k j Hreg s Hs).
      apply (IH (flip_at k s) t); auto.
      * unfold wf_state. rewrite flip_at_length. exact Hws.
      * unfold flip_at. apply in_space_set_nth_free; assumption.
      * intros v Hv. unfold flip_at. rewrite nth_set_nth_neq; [apply HB; exact Hv|].
        intro Heq. subst v. contradiction.
      * intros v Hv. destruct (Nat.eq_dec v k) as [->|Hvk].
        -- unfold flip_at. rewrite nth_set_nth_eq by (unfold wf_state in Hws; lia).
           destruct (nth k s false), (nth k t false); try reflexivity; exfalso; apply Hne; reflexivity.
        -- unfold flip_at. rewrite nth_set_nth_neq by (intro; apply Hvk; congruence). apply Hk. lia.
Qed.

Theorem closed_in_reads_B : forall N S B j s t, closed_in N S B -> In j B ->
  wf_state N s -> wf_state N t -> in_space s S = true -> in_space t S = true ->
  (forall v, In v B -> nth v s false = nth v t false) -> upd N j s = upd N j t.
Proof.
  intros N Sp B j s t Hc Hj Hws Hwt Hs Ht HB.
  apply (reads_B_aux N Sp B j Hc Hj (nvars N) s t Hws Hwt Hs Ht HB).
  intros v Hv. unfold wf_state in *. rewrite !nth_overflow by lia. reflexivity.
Qed.

(* ====================================================================== *)
(* 3. trap spaces project                                                  *)
(* ====================================================================== *)

(* fill P s agrees with s wherever s already satisfies P *)
Lemma fill_agree : forall n P s i, i < n ->
  (forall y, nth i P None = Some y -> nth i s false = y) -> nth i (fill n P s) false = nth i s false.
Proof.
  intros n P s i Hi H. rewrite (nth_fill n P s i Hi).
  destruct (nth i P None) as [y|] eqn:E; [symmetry; apply H; reflexivity|reflexivity].
Qed.

(* gluing two trap spaces of S along a closed block *)
Lemma glue_trap : forall N Sp B M1 M2, trap_space N Sp -> closed_in N Sp B ->
  trap_space N M1 -> subspace M1 Sp = true -> trap_space N M2 -> subspace M2 Sp = true ->
  (forall v, In v B -> nth v M2 None = None) ->
  trap_space N (proj_space M1 M2 B).
Proof.
  intros N Sp B M1 M2 HtS Hc Ht1 Hs1 Ht2 Hs2 Hfree.
  pose proof (trap_space_length N Sp HtS) as HS.
  pose proof (trap_space_length N M1 Ht1) as HM1.
  pose proof (trap_space_length N M2 Ht2) as HM2.
  set (Q := proj_space M1 M2 B).
  assert (HQ : length Q = nvars N) by (unfold Q; rewrite proj_space_length; exact HM2).
  assert (HQnth : forall v, v < nvars N -> nth v Q None = if mem_nat v B then nth v M1 None else nth v M2 None).
  { intros v Hv. unfold Q. apply nth_proj_space. rewrite HM2. exact Hv. }
  apply (trap_space_char N Q HQ). intros v x Hn s Hwf Hin.
  assert (Hv : v < nvars N) by (rewrite <- HQ; apply (nth_some_lt Q v x Hn)).
  assert (Hsnth : forall i y, nth i Q None = Some y -> nth i s false = y).
  { apply (proj1 (in_space_nth s Q (in_space_length s Q Hin)) Hin). }
  (* s lies in Sp *)
  assert (HsS : in_space s Sp = true).
  { apply in_space_nth; [unfold wf_state in Hwf; congruence|]. intros i y Hi.
    assert (Hil : i < nvars N) by (rewrite <- HS; apply (nth_some_lt Sp i y Hi)).
    apply Hsnth. rewrite (HQnth i Hil), (BM_fixed_not_B N Sp B i y Hc Hi).
    apply (proj1 (subspace_nth M2 Sp (subspace_length M2 Sp Hs2)) Hs2 i y Hi). }
  rewrite (HQnth v Hv) in Hn. destruct (mem_nat v B) eqn:EvB.
  - (* v in B: move to a state of M1 that agrees with s on B *)
    apply BM_mem_nat_In in EvB.
    set (s' := fill (nvars N) M1 s).
    assert (Hs'M : in_space s' M1 = true) by (apply fill_in_space; exact HM1).
    assert (Hs'wf : wf_state N s') by (unfold wf_state, s'; apply fill_length).
    assert (Hs'S : in_space s' Sp = true).
    { apply (proj1 (subspace_spec M1 Sp (subspace_length M1 Sp Hs1)) Hs1 s' Hs'M). }
    assert (Hag : forall i, In i B -> nth i s false = nth i s' false).
    { intros i Hi. pose proof (BM_closed_lt N Sp B i Hc Hi) as Hil.
      unfold s'. symmetry. apply (fill_agree _ M1 s i Hil). intros y Hy.
      apply Hsnth. rewrite (HQnth i Hil), (proj2 (BM_mem_nat_In i B) Hi). exact Hy. }
    rewrite (closed_in_reads_B N Sp B v s s' Hc EvB Hwf Hs'wf HsS Hs'S Hag).
    apply (proj1 (trap_space_char N M1 HM1) Ht1 v x Hn s' Hs'wf Hs'M).
  - (* v outside B: s lies in M2 *)
    assert (HsM2 : in_space s M2 = true).
    { apply in_space_nth; [unfold wf_state in Hwf; congruence|]. intros i y Hi.
      assert (Hil : i < nvars N) by (rewrite <- HM2; apply (nth_some_lt M2 i y Hi)).
      apply Hsnth. rewrite (HQnth i Hil).
      destruct (mem_nat i B) eqn:EiB; [|exact Hi].
      apply BM_mem_nat_In in EiB. rewrite (Hfree i EiB) in Hi. discriminate. }
    apply (proj1 (trap_space_char N M2 HM2) Ht2 v x Hn s Hwf HsM2).
Qed.

Theorem proj_trap : forall N S M B, trap_space N S -> trap_space N M -> subspace M S = true ->
  closed_in N S B -> trap_space N (proj_space M S B) /\ subspace M (proj_space M S B) = true /\
  subspace (proj_space M S B) S = true /\ fixes_within (proj_space M S B) S B.
Proof.
  intros N Sp M B HtS HtM Hsub Hc.
  pose proof (trap_space_length N Sp HtS) as HS.
  pose proof (trap_space_length N M HtM) as HM.
  split; [|split; [|split]].
  - apply (glue_trap N Sp B M Sp HtS Hc HtM Hsub HtS (subspace_refl Sp)).
    intros v Hv. apply (BM_closed_free N Sp B v Hc Hv).
  - apply subspace_nth; [rewrite proj_space_length; congruence|].
    intros i x Hi. apply nth_proj_space_some in Hi. destruct Hi as [Hil Hi].
    destruct (mem_nat i B); [exact Hi|].
    apply (proj1 (subspace_nth M Sp (subspace_length M Sp Hsub)) Hsub i x Hi).
  - apply subspace_nth; [apply proj_space_length|].
    intros i x Hi. assert (Hil : i < length Sp) by (apply (nth_some_lt Sp i x Hi)).
    rewrite (nth_proj_space M Sp B i Hil), (BM_fixed_not_B N Sp B i x Hc Hi). exact Hi.
  - intros v Hv Hne. rewrite (nth_proj_space M Sp B v Hv) in Hne.
    destruct (mem_nat v B) eqn:E; [apply BM_mem_nat_In; exact E|]. exfalso. apply Hne. reflexivity.
Qed.

(* ====================================================================== *)
(* 4. independence                                                         *)
(* ====================================================================== *)

Theorem min_trap_meets_block : forall N S B m0 M, trap_space N S -> closed_in N S B ->
  trap_space N m0 -> subspace m0 S = true -> m0 <> S -> fixes_within m0 S B ->
  min_trap N M -> subspace M S = true -> proj_space M S B <> S.
Proof.
  intros N Sp B m0 M HtS Hc Htm0 Hsm0 Hne Hfw [HtM Hmin] HsM Heq.
  pose proof (trap_space_length N Sp HtS) as HS.
  pose proof (trap_space_length N M HtM) as HM.
  pose proof (trap_space_length N m0 Htm0) as Hm0.
  (* M leaves all of B free *)
  assert (HMfree : forall v, In v B -> nth v M None = None).
  { intros v Hv. pose proof (BM_closed_lt N Sp B v Hc Hv) as Hvl.
    assert (H : nth v (proj_space M Sp B) None = nth v Sp None) by (rewrite Heq; reflexivity).
    rewrite nth_proj_space in H by (rewrite HS; exact Hvl).
    rewrite (proj2 (BM_mem_nat_In v B) Hv) in H. rewrite H. apply (BM_closed_free N Sp B v Hc Hv). }
  apply Hne. apply (nth_ext m0 Sp None None); [congruence|]. intros v Hv.
  destruct (BM_ob_dec (nth v m0 None) (nth v Sp None)) as [He|Hd]; [exact He|]. exfalso.
  assert (Hvl : v < length Sp) by congruence.
  pose proof (Hfw v Hvl Hd) as HvB.
  pose proof (BM_closed_free N Sp B v Hc HvB) as HvS.
  set (T := proj_space m0 M B).
  assert (HtT : trap_space N T).
  { apply (glue_trap N Sp B m0 M HtS Hc Htm0 Hsm0 HtM HsM HMfree). }
  assert (HTnth : forall i, i < nvars N -> nth i T None = if mem_nat i B then nth i m0 None else nth i M None).
  { intros i Hi. unfold T. apply nth_proj_space. rewrite HM. exact Hi. }
  assert (HsT : subspace T M = true).
  { apply subspace_nth; [unfold T; apply proj_space_length|].
    intros i x Hi. assert (Hil : i < nvars N) by (rewrite <- HM; apply (nth_some_lt M i x Hi)).
    rewrite (HTnth i Hil). destruct (mem_nat i B) eqn:E; [|exact Hi].
    apply BM_mem_nat_In in E. rewrite (HMfree i E) in Hi. discriminate. }
  pose proof (Hmin T HtT HsT) as HTM.
  assert (H : nth v T None = nth v M None) by (rewrite HTM; reflexivity).
  rewrite HTnth in H by (rewrite <- HS; exact Hvl).
  rewrite (proj2 (BM_mem_nat_In v B) HvB), (HMfree v HvB) in H.
  apply Hd. rewrite H, HvS. reflexivity.
Qed.

Theorem min_trap_in_block : forall N S srcs B m0 M, trap_space N S -> closed_in N S B ->
  In m0 (max_traps_b N S srcs) -> fixes_within m0 S B ->
  min_trap N M -> subspace M S = true -> fixes_all M srcs = true ->
  (forall v, In v srcs -> nth v S None = None -> In v B) ->
  exists T, In T (max_traps_b N S srcs) /\ subspace M T = true /\ fixes_within T S B.
Proof.
  intros N Sp srcs B m0 M HtS Hc Hm0 Hfw Hmin HsM HfM Hsrc.
  pose proof (trap_space_length N Sp HtS) as HS.
  pose proof Hmin as [HtM _].
  pose proof (trap_space_length N M HtM) as HM.
  apply (max_traps_b_spec_srcs N Sp srcs m0 HS) in Hm0.
  destruct Hm0 as (Htm0 & [Hsm0 Hnem0] & _ & _).
  destruct (proj_trap N Sp M B HtS HtM HsM Hc) as (HtT0 & HMT0 & HT0S & HfwT0).
  pose proof (min_trap_meets_block N Sp B m0 M HtS Hc Htm0 Hsm0 Hnem0 Hfw Hmin HsM) as HneT0.
  set (T0 := proj_space M Sp B) in *.
  assert (HfT0 : fixes_all T0 srcs = true).
  { unfold fixes_all in *. rewrite forallb_forall in *. intros v Hv. specialize (HfM v Hv).
    destruct (nth v M None) as [x|] eqn:Ex; [|discriminate].
    assert (Hvl : v < length Sp) by (rewrite HS, <- HM; apply (nth_some_lt M v x Ex)).
    unfold T0. rewrite (nth_proj_space M Sp B v Hvl).
    destruct (mem_nat v B) eqn:E; [rewrite Ex; reflexivity|].
    destruct (nth v Sp None) as [y|] eqn:Ey; [reflexivity|]. exfalso.
    apply BM_mem_nat_false in E. apply E. apply Hsrc; assumption. }
  destruct (max_trap_above_srcs N Sp srcs T0 HtT0 (conj HT0S HneT0) HfT0) as (T & HT & HT0T).
  exists T. split; [exact HT|]. split; [apply (subspace_trans M T0 T HMT0 HT0T)|].
  apply (max_traps_b_spec_srcs N Sp srcs T HS) in HT. destruct HT as (HtT & [HTS _] & _ & _).
  intros v Hv Hne.
  destruct (mem_nat v B) eqn:E; [apply BM_mem_nat_In; exact E|]. exfalso.
  destruct (nth v Sp None) as [y|] eqn:Ey.
  - apply Hne. apply (proj1 (subspace_nth T Sp (subspace_length T Sp HTS)) HTS v y Ey).
  - destruct (nth v T None) as [x|] eqn:Ex; [|apply Hne; reflexivity].
    pose proof (proj1 (subspace_nth T0 T (subspace_length T0 T HT0T)) HT0T v x Ex) as H.
    unfold T0 in H. rewrite (nth_proj_space M Sp B v Hv), E, Ey in H. discriminate.
Qed.

(* ====================================================================== *)
(* 5. attractors project onto the block network                            *)
(* ====================================================================== *)

Section Proj.
  Variables (N : net) (Sp : space) (B : list nat) (A : state -> Prop) (s0 : state).
  Hypothesis HtS : trap_space N Sp.
  Hypothesis Hc : closed_in N Sp B.
  Hypothesis Hatt : attractor N A.
  Hypothesis Hins : inside A Sp.
  Hypothesis Hs0 : A s0.

  Let n := nvars N.
  Let F := freeze N B.
  Let g (s : state) : state := glue n B s s0.

  Lemma PJ_len : length Sp = nvars N.
  Proof. apply (trap_space_length N Sp HtS). Qed.

  Lemma PJ_wf : forall s, A s -> wf_state N s.
  Proof. destruct Hatt as (_ & Hwf & _). exact Hwf. Qed.

  Lemma PJ_g_wf : forall s, wf_state N (g s).
  Proof. intros s. unfold wf_state, g. apply glue_length. Qed.

  Lemma PJ_g_in : forall s, in_space (g s) Sp = true.
  Proof.
    intros s. unfold g, n. apply (glue_in_space N Sp B s s0 Hc PJ_len). apply Hins. exact Hs0.
  Qed.

  Lemma PJ_g_B : forall s v, In v B -> nth v (g s) false = nth v s false.
  Proof.
    intros s v Hv. unfold g. rewrite nth_glue by (apply (BM_closed_lt N Sp B v Hc Hv)).
    rewrite (proj2 (BM_mem_nat_In v B) Hv). reflexivity.
  Qed.

  Lemma PJ_g_out : forall s v, v < nvars N -> ~ In v B -> nth v (g s) false = nth v s0 false.
  Proof.
    intros s v Hv HnB. unfold g. rewrite nth_glue by exact Hv.
    rewrite (proj2 (BM_mem_nat_false v B) HnB). reflexivity.
  Qed.

  (* a step of the frozen network on a block variable is the N-step, projected *)
  Lemma PJ_step_in : forall s i, A s -> In i B -> step_i F i (g s) = g (step_i N i s).
  Proof.
    intros s i Hs Hi.
    pose proof (BM_closed_lt N Sp B i Hc Hi) as Hil.
    pose proof (PJ_wf s Hs) as Hwf.
    assert (Hupd : upd F i (g s) = upd N i s).
    { unfold F. rewrite (BM_upd_freeze N B i (g s) Hil), (proj2 (BM_mem_nat_In i B) Hi).
      apply (closed_in_reads_B N Sp B i (g s) s Hc Hi (PJ_g_wf s) Hwf (PJ_g_in s) (Hins s Hs)).
      intros v Hv. apply PJ_g_B. exact Hv. }
    unfold step_i at 1. rewrite Hupd.
    apply (nth_ext _ _ false false).
    - rewrite set_nth_length. unfold g. rewrite !glue_length. reflexivity.
    - intros v Hv. rewrite set_nth_length in Hv. unfold g in Hv. rewrite glue_length in Hv.
      destruct (Nat.eq_dec i v) as [Heq|Hne].
      + subst v. rewrite nth_set_nth_eq by (unfold g; rewrite glue_length; exact Hil).
        rewrite (PJ_g_B _ i Hi). unfold step_i.
        rewrite nth_set_nth_eq by (unfold wf_state in Hwf; lia). reflexivity.
      + rewrite nth_set_nth_neq by exact Hne.
        unfold g. rewrite !nth_glue by exact Hv.
        destruct (mem_nat v B); [|reflexivity].
        unfold step_i. rewrite nth_set_nth_neq by exact Hne. reflexivity.
  Qed.

  (* a step of N on a variable outside the block is invisible *)
  Lemma PJ_step_out : forall s i, ~ In i B -> g (step_i N i s) = g s.
  Proof.
    intros s i Hi. apply (nth_ext _ _ false false).
    - unfold g. rewrite !glue_length. reflexivity.
    - intros v Hv. unfold g in Hv. rewrite glue_length in Hv.
      unfold g. rewrite !nth_glue by exact Hv.
      destruct (mem_nat v B) eqn:E; [|reflexivity].
      apply BM_mem_nat_In in E. unfold step_i. apply nth_set_nth_neq.
      intro Heq. subst v. contradiction.
  Qed.

  Lemma PJ_step_A : forall s i, A s -> i < nvars N -> A (step_i N i s).
  Proof.
    intros s i Hs Hi. destruct (A_state_eq_dec (step_i N i s) s) as [He|Hne].
    - rewrite He. exact Hs.
    - destruct Hatt as (_ & _ & Hcl & _). apply (Hcl s (step_i N i s) Hs).
      exists i. split; [exact Hi|]. split; [reflexivity|exact Hne].
  Qed.

  Lemma PJ_reach : forall x y, reach N x y -> A x -> reach F (g x) (g y).
  Proof.
    intros x y Hr. unfold reach in Hr.
    induction Hr as [x y Ht | x | x y z H1 IH1 H2 IH2]; intros Hx.
    - destruct Ht as [i [Hi [Hy Hne]]]. subst y.
      destruct (mem_nat i B) eqn:E.
      + apply BM_mem_nat_In in E. rewrite <- (PJ_step_in x i Hx E).
        destruct (A_state_eq_dec (step_i F i (g x)) (g x)) as [He|Hd].
        * rewrite He. apply rt_refl.
        * apply rt_step. exists i. split; [unfold F; rewrite BM_nvars_freeze; exact Hi|].
          split; [reflexivity|exact Hd].
      + apply BM_mem_nat_false in E. rewrite (PJ_step_out x i E). apply rt_refl.
    - apply rt_refl.
    - apply (rt_trans _ _ _ (g y)); [apply IH1; exact Hx|]. apply IH2.
      destruct Hatt as (_ & _ & Hcl & _). apply (A_closed_reach N A x y Hcl Hx H1).
  Qed.

  Lemma PJ_attractor_g : attractor F (fun t => exists s, A s /\ t = g s).
  Proof.
    split; [|split; [|split]].
    - exists (g s0). exists s0. split; [exact Hs0|reflexivity].
    - intros t [s [Hs Ht]]. subst t. unfold wf_state, F. rewrite BM_nvars_freeze. apply PJ_g_wf.
    - intros t t' [s [Hs Ht]] [i [Hi [Ht' Hne]]]. subst t.
      unfold F in Hi. rewrite BM_nvars_freeze in Hi.
      destruct (mem_nat i B) eqn:E.
      + apply BM_mem_nat_In in E. exists (step_i N i s). split; [apply PJ_step_A; assumption|].
        rewrite Ht'. apply PJ_step_in; assumption.
      + exfalso. apply Hne. rewrite Ht'. unfold step_i, F.
        rewrite (BM_upd_freeze N B i (g s) Hi), E. apply set_nth_same.
        unfold g. rewrite glue_length. exact Hi.
    - intros t1 t2 [s1 [Hs1 Ht1]] [s2 [Hs2 Ht2]]. subst t1 t2.
      apply PJ_reach; [|exact Hs1]. destruct Hatt as (_ & _ & _ & Hmut). apply Hmut; assumption.
  Qed.

  Lemma PJ_char : forall t,
    (exists s, A s /\ t = g s) <->
    (wf_state N t /\ exists s, A s /\ (forall v, In v B -> nth v t false = nth v s false) /\
                               (forall v, v < nvars N -> ~ In v B -> nth v t false = nth v s0 false)).
  Proof.
    intros t. split.
    - intros [s [Hs Ht]]. subst t. split; [apply PJ_g_wf|]. exists s. split; [exact Hs|]. split.
      + intros v Hv. apply PJ_g_B. exact Hv.
      + intros v Hv HnB. apply PJ_g_out; assumption.
    - intros [Hwf [s [Hs [HB Hout]]]]. exists s. split; [exact Hs|].
      apply (nth_ext _ _ false false).
      + unfold g. rewrite glue_length. exact Hwf.
      + intros v Hv. unfold wf_state in Hwf. rewrite Hwf in Hv.
        unfold g. rewrite nth_glue by exact Hv.
        destruct (mem_nat v B) eqn:E.
        * apply BM_mem_nat_In in E. apply HB. exact E.
        * apply BM_mem_nat_false in E. apply Hout; assumption.
  Qed.

  Lemma PJ_attractor : attractor F
    (fun t => wf_state N t /\ exists s, A s /\ (forall v, In v B -> nth v t false = nth v s false) /\
                                       (forall v, v < nvars N -> ~ In v B -> nth v t false = nth v s0 false)).
  Proof.
    apply (A_attractor_ext F (fun t => exists s, A s /\ t = g s)); [exact PJ_char | exact PJ_attractor_g].
  Qed.

  Lemma PJ_inside : inside (fun t => exists s, A s /\ t = g s) Sp.
  Proof. intros t [s [_ Ht]]. subst t. apply PJ_g_in. Qed.

  (* a space that fixes beyond Sp only inside B and contains the projection contains A *)
  Lemma PJ_lift_inside : forall m, length m = nvars N -> fixes_within m Sp B ->
    inside (fun t => exists s, A s /\ t = g s) m -> inside A m.
  Proof.
    intros m Hm Hfw Him s Hs.
    pose proof (PJ_wf s Hs) as Hwf.
    apply in_space_nth; [unfold wf_state in Hwf; congruence|]. intros v x Hv.
    assert (Hvl : v < nvars N) by (rewrite <- Hm; apply (nth_some_lt m v x Hv)).
    assert (Hg : in_space (g s) m = true) by (apply Him; exists s; split; [exact Hs|reflexivity]).
    destruct (mem_nat v B) eqn:E.
    - apply BM_mem_nat_In in E. rewrite <- (PJ_g_B s v E).
      apply (proj1 (in_space_nth (g s) m (in_space_length _ _ Hg)) Hg v x Hv).
    - destruct (BM_ob_dec (nth v m None) (nth v Sp None)) as [He|Hd].
      + rewrite He in Hv.
        apply (proj1 (in_space_nth s Sp (in_space_length _ _ (Hins s Hs))) (Hins s Hs) v x Hv).
      + exfalso. apply BM_mem_nat_false in E. apply E. apply Hfw; [rewrite PJ_len; exact Hvl|exact Hd].
  Qed.
End Proj.

Theorem proj_attractor : forall N S B A s0, trap_space N S -> closed_in N S B ->
  attractor N A -> inside A S -> A s0 ->
  attractor (freeze N B)
    (fun t => wf_state N t /\ exists s, A s /\ (forall v, In v B -> nth v t false = nth v s false) /\
                                       (forall v, v < nvars N -> ~ In v B -> nth v t false = nth v s0 false)).
Proof.
  intros N Sp B A s0 HtS Hc Hatt Hins Hs0. exact (PJ_attractor N Sp B A s0 HtS Hc Hatt Hins Hs0).
Qed.

Theorem clean_block_covers : forall N S B motifs, trap_space N S -> closed_in N S B ->
  (forall m, In m motifs -> length m = nvars N /\ subspace m S = true /\ fixes_within m S B) ->
  block_clean N S B motifs ->
  forall A, attractor N A -> inside A S -> exists m, In m motifs /\ inside A m.
Proof.
  intros N Sp B motifs HtS Hc Hmot Hclean A Hatt Hins.
  pose proof Hatt as [[s0 Hs0] _].
  destruct (Hclean _ (PJ_attractor_g N Sp B A s0 HtS Hc Hatt Hins Hs0)
                     (PJ_inside N Sp B A s0 HtS Hc Hins Hs0)) as [m [Hm Him]].
  exists m. split; [exact Hm|].
  destruct (Hmot m Hm) as (Hlen & _ & Hfw).
  apply (PJ_lift_inside N Sp B A s0 HtS Hc Hatt Hins m Hlen Hfw Him).
Qed.

(* ====================================================================== *)
(* 6. motifs with the same percolation lie in the same block               *)
(* ====================================================================== *)

Lemma const_on_lift : forall N Sp B P j v, closed_in N Sp B -> length Sp = nvars N ->
  subspace P Sp = true -> (forall i, In i B -> nth i P None = None) -> In j B ->
  const_on N j P v -> const_on N j Sp v.
Proof.
  intros N Sp B P j v Hc HS HPS Hfree Hj Hcon s Hwf Hs.
  assert (HP : length P = nvars N) by (rewrite (subspace_length P Sp HPS); exact HS).
  set (s' := fill (nvars N) P s).
  assert (Hs'P : in_space s' P = true) by (apply fill_in_space; exact HP).
  assert (Hs'wf : wf_state N s') by (unfold wf_state, s'; apply fill_length).
  assert (Hs'S : in_space s' Sp = true).
  { apply (proj1 (subspace_spec P Sp (subspace_length P Sp HPS)) HPS s' Hs'P). }
  assert (Hag : forall i, In i B -> nth i s false = nth i s' false).
  { intros i Hi. unfold s'. symmetry.
    apply (fill_agree _ P s i (BM_closed_lt N Sp B i Hc Hi)).
    intros y Hy. rewrite (Hfree i Hi) in Hy. discriminate. }
  rewrite (closed_in_reads_B N Sp B j s s' Hc Hj Hwf Hs'wf Hs Hs'S Hag).
  apply (Hcon s' Hs'wf Hs'P).
Qed.

Lemma perc_steps_B_free : forall N Sp B, closed_in N Sp B -> length Sp = nvars N -> perc_closed N Sp ->
  forall X Y, clos_refl_trans space (perc_step N) X Y ->
  subspace X Sp = true /\ (forall j, In j B -> nth j X None = None) ->
  subspace Y Sp = true /\ (forall j, In j B -> nth j Y None = None).
Proof.
  intros N Sp B Hc HS Hpc X Y Hst.
  induction Hst as [x y Hst | x | x y z H1 IH1 H2 IH2].
  - destruct Hst as [X i v Hi Hn Hcon]. intros [Hsub Hfree].
    assert (HiB : ~ In i B).
    { intro HiB. apply (Hpc i v Hi (BM_closed_free N Sp B i Hc HiB)).
      apply (const_on_lift N Sp B X i v Hc HS Hsub Hfree HiB Hcon). }
    split.
    + apply (subspace_trans _ X Sp); [apply P_set_nth_subspace; exact Hn|exact Hsub].
    + intros j Hj. rewrite nth_set_nth_neq; [apply Hfree; exact Hj|].
      intro Heq. subst j. contradiction.
  - auto.
  - intros H. apply IH2. apply IH1. exact H.
Qed.

Lemma proj_fixes_all : forall (M Sp : space) B srcs, length M = length Sp ->
  (forall v, In v srcs -> nth v Sp None = None -> In v B) ->
  fixes_all M srcs = true -> fixes_all (proj_space M Sp B) srcs = true.
Proof.
  intros M Sp B srcs Hlen Hsrc HfM.
  unfold fixes_all in *. rewrite forallb_forall in *. intros v Hv. specialize (HfM v Hv).
  destruct (nth v M None) as [x|] eqn:Ex; [|discriminate].
  assert (Hvl : v < length Sp) by (rewrite <- Hlen; apply (nth_some_lt M v x Ex)).
  rewrite (nth_proj_space M Sp B v Hvl).
  destruct (mem_nat v B) eqn:E; [rewrite Ex; reflexivity|].
  destruct (nth v Sp None) as [y|] eqn:Ey; [reflexivity|]. exfalso.
  apply BM_mem_nat_false in E. apply E. apply Hsrc; assumption.
Qed.

Theorem same_child_same_block : forall N S srcs B T m1, trap_space N S -> percolate_b N S = S -> closed_in N S B ->
  In T (max_traps_b N S srcs) -> In m1 (max_traps_b N S srcs) ->
  (forall v, In v srcs -> nth v S None = None -> In v B) ->
  fixes_within T S B -> percolate_b N m1 = percolate_b N T -> fixes_within m1 S B.
Proof.
  intros N Sp srcs B T m1 HtS Hperc Hc HT Hm1 Hsrc HfwT Hpeq.
  pose proof (trap_space_length N Sp HtS) as HS.
  pose proof (proj1 (percolate_b_fixed_iff_closed N Sp HS) Hperc) as Hpc.
  apply (max_traps_b_spec_srcs N Sp srcs T HS) in HT. destruct HT as (HtT & [HTS HTne] & _ & _).
  apply (max_traps_b_spec_srcs N Sp srcs m1 HS) in Hm1. destruct Hm1 as (Htm1 & [Hm1S Hm1ne] & Hfm1 & Hmax1).
  pose proof (trap_space_length N T HtT) as HlT.
  pose proof (trap_space_length N m1 Htm1) as Hlm1.
  intros v Hv Hne.
  destruct (mem_nat v B) eqn:E; [apply BM_mem_nat_In; exact E|]. exfalso.
  destruct (proj_trap N Sp m1 B HtS Htm1 Hm1S Hc) as (HtP & Hm1P & HPS & _).
  set (P := proj_space m1 Sp B) in *.
  assert (HPv : nth v P None = nth v Sp None).
  { unfold P. rewrite (nth_proj_space m1 Sp B v Hv), E. reflexivity. }
  assert (HPm1 : P <> m1).
  { intro Heq. apply Hne. rewrite <- Heq. exact HPv. }
  assert (HfP : fixes_all P srcs = true).
  { unfold P. apply proj_fixes_all; [congruence|exact Hsrc|exact Hfm1]. }
  destruct (eqb_space P Sp) eqn:EP.
  2:{ apply HPm1. apply (Hmax1 P HtP); [|exact HfP|exact Hm1P].
      split; [exact HPS|]. intro Heq. apply eqb_space_spec in Heq. rewrite Heq in EP. discriminate. }
  apply eqb_space_spec in EP.
  (* m1 leaves all of B free *)
  assert (Hm1free : forall j, In j B -> nth j m1 None = None).
  { intros j Hj. pose proof (BM_closed_lt N Sp B j Hc Hj) as Hjl.
    assert (H : nth j P None = nth j Sp None) by (rewrite EP; reflexivity).
    unfold P in H. rewrite nth_proj_space in H by (rewrite HS; exact Hjl).
    rewrite (proj2 (BM_mem_nat_In j B) Hj) in H. rewrite H. apply (BM_closed_free N Sp B j Hc Hj). }
  (* hence so does its percolation *)
  destruct (perc_steps_B_free N Sp B Hc HS Hpc m1 (percolate_b N m1) (percolate_b_steps N m1 Hlm1)
              (conj Hm1S Hm1free)) as [_ Hpfree].
  (* but T fixes a variable of B, and so does its percolation *)
  apply HTne. apply (nth_ext T Sp None None); [congruence|]. intros k Hk.
  destruct (BM_ob_dec (nth k T None) (nth k Sp None)) as [He|Hd]; [exact He|]. exfalso.
  assert (Hkl : k < length Sp) by congruence.
  pose proof (HfwT k Hkl Hd) as HkB.
  pose proof (BM_closed_free N Sp B k Hc HkB) as HkS.
  destruct (nth k T None) as [x|] eqn:Ex; [|apply Hd; rewrite HkS; reflexivity].
  pose proof (percolate_b_keeps N T k x HlT Ex) as Hkeep.
  rewrite <- Hpeq, (Hpfree k HkB) in Hkeep. discriminate.
Qed.

Print Assumptions block_clean_b_spec.
Print Assumptions bwd_closure_closed.
Print Assumptions bwd_closure_least.
Print Assumptions block_of_closed.
Print Assumptions closed_in_reads_B.
Print Assumptions proj_trap.
Print Assumptions min_trap_meets_block.
Print Assumptions min_trap_in_block.
Print Assumptions proj_attractor.
Print Assumptions clean_block_covers.
Print Assumptions same_child_same_block.
