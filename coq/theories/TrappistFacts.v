(* TrappistFacts.v -- the answer-set programs of trappist_core.py (PetriNet.v) characterise
   trap spaces (min / max / fix, with ensure / avoid, time reversal) and the fixed points of
   the reduced transition graph.  Classical models only; order reversal between
   subset-maximal models and minimal trap spaces is stated on models of the form
   model_of_space S. *)
From Coq Require Import List Bool Arith Lia.
Import ListNotations.
From BB Require Import BN Brute SpaceFacts TrapFacts PetriNet.

Definition pn_wf (n : nat) (pn : pnet) : Prop :=
  p_vars pn = seq 0 n /\
  forall t, In t (p_trans pn) ->
    t_var t < n /\ length (t_cond t) = n /\ nth (t_var t) (t_cond t) None = None.

Definition conflict_free (n : nat) (M : interp) : Prop :=
  forall v, v < n -> M (v, true) && M (v, false) = false.

(* ------------------------------------------------------------------ *)
(* small list helpers                                                  *)
(* ------------------------------------------------------------------ *)

Lemma T_nth_map_seq : forall A (f : nat -> A) n i d,
  i < n -> nth i (map f (seq 0 n)) d = f i.
Proof.
  intros A f n i d Hi.
  rewrite (nth_indep (map f (seq 0 n)) d (f 0)).
  - rewrite map_nth. rewrite seq_nth; [reflexivity | exact Hi].
  - rewrite map_length, seq_length. exact Hi.
Qed.

Lemma T_set_nth_twice : forall A i (a b : A) l, set_nth i a (set_nth i b l) = set_nth i a l.
Proof.
  intros A i a b l. revert i.
  induction l as [|h l IH]; intros [|i]; simpl; try reflexivity.
  rewrite IH. reflexivity.
Qed.

Lemma T_in_top : forall s n, length s = n -> in_space s (top_space n) = true.
Proof.
  induction s as [|b s IH]; intros n Hn; subst n; simpl.
  - reflexivity.
  - apply IH. reflexivity.
Qed.

Lemma T_negb_fix : forall b : bool, b = negb b -> False.
Proof.
  intros [|] H; discriminate.
Qed.

Lemma T_bool_neq_negb : forall a b : bool, a <> b -> a = negb b.
Proof.
  intros [|] [|] H; try reflexivity; exfalso; apply H; reflexivity.
Qed.

Lemma T_is_full_spec : forall S : space,
  is_full S = true <-> forall v, v < length S -> nth v S None <> None.
Proof.
  intros S. unfold is_full. rewrite forallb_forall. split.
  - intros H v Hv Hn.
    specialize (H (nth v S None) (nth_In S None Hv)). rewrite Hn in H. discriminate.
  - intros H o Ho. destruct (In_nth S o None Ho) as [v [Hv Hn]].
    specialize (H v Hv). rewrite Hn in H. destruct o; [reflexivity | exfalso; apply H; reflexivity].
Qed.

Lemma T_nth_merge : forall (x y : space) i, length x = length y ->
  nth i (merge x y) None = match nth i y None with Some b => Some b | None => nth i x None end.
Proof.
  induction x as [|a x IH]; intros [|b y] i Hlen; simpl in *; try discriminate.
  - destruct i; reflexivity.
  - injection Hlen as Hlen. destruct i as [|i].
    + destruct b; reflexivity.
    + apply IH. exact Hlen.
Qed.

(* ------------------------------------------------------------------ *)
(* places, conditions, enabledness                                     *)
(* ------------------------------------------------------------------ *)

Lemma T_eqb_place_spec : forall a b : place, eqb_place a b = true <-> a = b.
Proof.
  intros [v b] [w c]. unfold eqb_place. simpl.
  rewrite andb_true_iff, Nat.eqb_eq. split.
  - intros [Hv Hb]. apply eqb_prop in Hb. subst. reflexivity.
  - intros H. injection H as Hv Hb. subst. split; [reflexivity | apply eqb_reflx].
Qed.

Lemma T_cond_places_from_In : forall (c : space) k v b,
  In (v, b) (cond_places_from k c) <-> exists j, v = k + j /\ nth j c None = Some b.
Proof.
  induction c as [|o c IH]; intros k v b.
  - simpl. split.
    + intros [].
    + intros [j [_ Hj]]. destruct j; discriminate.
  - destruct o as [w|]; simpl.
    + split.
      * intros [Heq | Hin].
        -- injection Heq as Hv Hb. subst. exists 0. split; [lia | reflexivity].
        -- apply IH in Hin. destruct Hin as [j [Hv Hj]].
           exists (Datatypes.S j). split; [lia | exact Hj].
      * intros [[|j] [Hv Hj]].
        -- left. simpl in Hj. injection Hj as Hj. subst.
           rewrite Nat.add_0_r. reflexivity.
        -- right. apply IH. exists j. split; [lia | exact Hj].
    + split.
      * intros Hin. apply IH in Hin. destruct Hin as [j [Hv Hj]].
        exists (Datatypes.S j). split; [lia | exact Hj].
      * intros [[|j] [Hv Hj]]; [discriminate|].
        apply IH. exists j. split; [lia | exact Hj].
Qed.

Lemma T_fixed_vars_In : forall (c : space) v b,
  In (v, b) (fixed_vars c) <-> nth v c None = Some b.
Proof.
  intros c v b. unfold fixed_vars. rewrite T_cond_places_from_In. split.
  - intros [j [Hv Hj]]. simpl in Hv. subst j. exact Hj.
  - intros H. exists v. split; [reflexivity | exact H].
Qed.

Lemma T_marked_spec : forall s v b, marked s (v, b) = true <-> nth v s false = b.
Proof.
  intros s v b. unfold marked. simpl. split.
  - apply eqb_prop.
  - intros H. subst b. apply eqb_reflx.
Qed.

Lemma T_enabled_spec : forall s t,
  enabled s t = true <->
  nth (t_var t) s false = negb (t_up t) /\
  forall y b, nth y (t_cond t) None = Some b -> nth y s false = b.
Proof.
  intros s t. unfold enabled, pre_places, cond_places. simpl.
  rewrite andb_true_iff, forallb_forall. split.
  - intros [Hx Hc]. split.
    + apply T_marked_spec. exact Hx.
    + intros y b Hy. apply T_marked_spec. apply Hc. apply T_fixed_vars_In. exact Hy.
  - intros [Hx Hc]. split.
    + apply T_marked_spec. exact Hx.
    + intros [y b] Hin. apply T_marked_spec. apply Hc. apply T_fixed_vars_In. exact Hin.
Qed.

(* two spaces that never fix a variable to opposite values share a state *)
Lemma T_common_state : forall c S : space, length c = length S ->
  (forall y b, nth y c None = Some b -> nth y S None <> Some (negb b)) ->
  exists s, in_space s S = true /\ forall y b, nth y c None = Some b -> nth y s false = b.
Proof.
  intros c S Hlen Hnc.
  assert (Hlen' : length S = length c) by (symmetry; exact Hlen).
  destruct (space_nonempty (merge S c)) as [s Hs].
  assert (Hml : length (merge S c) = length S) by (apply merge_length; exact Hlen').
  assert (Hsl : length s = length (merge S c)) by (apply in_space_length; exact Hs).
  pose proof (proj1 (in_space_nth s (merge S c) Hsl) Hs) as Hnth.
  exists s. split.
  - apply (in_space_nth s S); [congruence|].
    intros i v Hi.
    destruct (nth i c None) as [b|] eqn:Ec.
    + assert (Hb : nth i s false = b).
      { apply Hnth. rewrite (T_nth_merge S c i Hlen'). rewrite Ec. reflexivity. }
      specialize (Hnc i b Ec). rewrite Hi in Hnc.
      rewrite Hb. destruct v, b; try reflexivity; exfalso; apply Hnc; reflexivity.
    + apply Hnth. rewrite (T_nth_merge S c i Hlen'). rewrite Ec. exact Hi.
  - intros y b Hy. apply Hnth. rewrite (T_nth_merge S c y Hlen'). rewrite Hy. reflexivity.
Qed.

(* ------------------------------------------------------------------ *)
(* models and spaces                                                   *)
(* ------------------------------------------------------------------ *)

Lemma T_mos_true : forall (S : space) v b,
  model_of_space S (v, b) = true <-> nth v S None = Some (negb b).
Proof.
  intros S v b. unfold model_of_space. simpl.
  destruct (nth v S None) as [w|].
  - split.
    + intro H. apply eqb_prop in H. subst w. reflexivity.
    + intro H. injection H as H. subst w. apply eqb_reflx.
  - split; intro H; discriminate.
Qed.

Lemma T_mos_conflict : forall (S : space) v,
  model_of_space S (v, true) && model_of_space S (v, false) = false.
Proof.
  intros S v. unfold model_of_space. simpl.
  destruct (nth v S None) as [[|]|]; reflexivity.
Qed.

Lemma T_mos_fixed : forall (S : space) v,
  model_of_space S (v, true) || model_of_space S (v, false) = true <-> nth v S None <> None.
Proof.
  intros S v. unfold model_of_space. simpl.
  destruct (nth v S None) as [[|]|]; simpl; split; intro H;
    try reflexivity; try discriminate.
  exfalso. apply H. reflexivity.
Qed.

Lemma space_model_roundtrip : forall S, space_of_model (length S) (model_of_space S) = S.
Proof.
  intros S. apply (nth_ext _ _ None None).
  - unfold space_of_model. rewrite map_length, seq_length. reflexivity.
  - intros i Hi. unfold space_of_model in *. rewrite map_length, seq_length in Hi.
    rewrite (T_nth_map_seq _ _ _ _ _ Hi).
    unfold model_of_space. simpl.
    destruct (nth i S None) as [[|]|]; reflexivity.
Qed.

Lemma model_space_roundtrip : forall n M v b, conflict_free n M -> v < n ->
  model_of_space (space_of_model n M) (v, b) = M (v, b).
Proof.
  intros n M v b Hcf Hv. unfold model_of_space, space_of_model. simpl.
  rewrite (T_nth_map_seq _ _ _ _ _ Hv).
  specialize (Hcf v Hv).
  destruct (M (v, true)) eqn:E1; destruct (M (v, false)) eqn:E2; simpl in Hcf;
    try discriminate; destruct b; simpl; congruence.
Qed.

Lemma model_order : forall S T, length S = length T ->
  ((forall p, model_of_space T p = true -> model_of_space S p = true) <-> subspace S T = true).
Proof.
  intros S T Hlen. split.
  - intros H. apply (subspace_nth S T Hlen). intros i v Hn.
    specialize (H (i, negb v)).
    assert (HT : model_of_space T (i, negb v) = true).
    { apply T_mos_true. rewrite negb_involutive. exact Hn. }
    apply H in HT. apply T_mos_true in HT. rewrite negb_involutive in HT. exact HT.
  - intros H [i b] Hp. apply T_mos_true. apply T_mos_true in Hp.
    apply (proj1 (subspace_nth S T Hlen) H). exact Hp.
Qed.

(* ------------------------------------------------------------------ *)
(* the parts of trap_program                                           *)
(* ------------------------------------------------------------------ *)

Definition T_tp_choice (pb : problem) (pn : pnet) : list rule :=
  flat_map (fun v => [RChoice (v, true); RChoice (v, false); RConstraint [(v, true); (v, false)]]
                     ++ match pb with PFix => [RDisj [(v, true); (v, false)] []] | _ => [] end)
           (p_vars pn).

Definition T_tp_ensure (ensure : space) : list rule :=
  map (fun vb => RFact (fst vb, negb (snd vb))) (fixed_vars ensure).

Definition T_tp_avoid (avoid : list space) : list rule :=
  map (fun a => RConstraint (map (fun vb => (fst vb, negb (snd vb))) (fixed_vars a))) avoid.

Definition T_tp_trans (reverse : bool) (pn : pnet) : list rule :=
  flat_map (fun t =>
       if reverse
       then map (fun p => RDisj (post_places t) [p])
                (filter (fun p => negb (mem_place p (post_places t))) (pre_places t))
       else map (fun s => RDisj (pre_places t) [s])
                (filter (fun s => negb (mem_place s (pre_places t))) (post_places t))) (p_trans pn).

Definition T_free_places (pn : pnet) (ensure : space) : list place :=
  flat_map (fun v => match nth v ensure None with
                     | None => [(v, true); (v, false)]
                     | Some _ => [] end) (p_vars pn).

Definition T_tp_max (pb : problem) (pn : pnet) (ensure : space) (sources : list nat) : list rule :=
  match pb with
  | PMax =>
      match T_free_places pn ensure with
      | [] => []
      | _ => RDisj (T_free_places pn ensure) [] ::
             map (fun v => RDisj [(v, true); (v, false)] [])
                 (filter (fun v => match nth v ensure None with None => true | Some _ => false end)
                         sources)
      end
  | _ => []
  end.

Lemma T_trap_program_parts : forall pb rev pn ensure avoid srcs M,
  is_model M (trap_program pb rev pn ensure avoid srcs) =
  is_model M (T_tp_choice pb pn) &&
  (is_model M (T_tp_ensure ensure) &&
   (is_model M (T_tp_avoid avoid) &&
    (is_model M (T_tp_trans rev pn) && is_model M (T_tp_max pb pn ensure srcs)))).
Proof.
  intros pb rev pn ensure avoid srcs M.
  unfold trap_program, is_model. rewrite !forallb_app. reflexivity.
Qed.

Lemma T_is_model_flat_map : forall A M (g : A -> list rule) l,
  is_model M (flat_map g l) = true <-> forall x, In x l -> is_model M (g x) = true.
Proof.
  intros A M g l. induction l as [|a l IH]; simpl.
  - split; [intros _ x [] | reflexivity].
  - unfold is_model in *. rewrite forallb_app, andb_true_iff, IH. split.
    + intros [Ha Hl] x [Hx | Hx]; [subst x; exact Ha | apply Hl; exact Hx].
    + intros H. split; [apply H; left; reflexivity | intros x Hx; apply H; right; exact Hx].
Qed.

(* choice part, any interpretation *)
Lemma T_choice_model : forall pb pn M,
  is_model M (T_tp_choice pb pn) = true <->
  forall v, In v (p_vars pn) ->
    M (v, true) && M (v, false) = false /\ (pb = PFix -> M (v, true) || M (v, false) = true).
Proof.
  intros pb pn M. unfold T_tp_choice. rewrite T_is_model_flat_map. split.
  - intros H v Hv. specialize (H v Hv). simpl in H.
    rewrite andb_true_r in H. apply andb_true_iff in H. destruct H as [Hc Hr].
    split.
    + apply negb_true_iff in Hc. exact Hc.
    + intros Hpb. subst pb. simpl in Hr. rewrite andb_true_r, orb_false_r in Hr. exact Hr.
  - intros H v Hv. destruct (H v Hv) as [Hc Hf]. simpl.
    rewrite andb_true_r, Hc. simpl.
    destruct pb; try reflexivity. simpl.
    rewrite orb_false_r, (Hf eq_refl). reflexivity.
Qed.

Lemma T_choice_model_space : forall pb pn (S : space),
  p_vars pn = seq 0 (length S) ->
  (is_model (model_of_space S) (T_tp_choice pb pn) = true <-> (pb = PFix -> is_full S = true)).
Proof.
  intros pb pn S Hvars. rewrite T_choice_model, Hvars. split.
  - intros H Hpb. apply T_is_full_spec. intros v Hv.
    apply T_mos_fixed. apply (H v); [apply in_seq; lia | exact Hpb].
  - intros H v Hv. apply in_seq in Hv. split.
    + apply T_mos_conflict.
    + intros Hpb. apply T_mos_fixed.
      apply (proj1 (T_is_full_spec S) (H Hpb)). lia.
Qed.

(* ensure / avoid: inverted literals of a space hold iff S lies inside it *)
Lemma T_inv_places_sub : forall S a : space, length S = length a ->
  (forallb (model_of_space S) (map (fun vb => (fst vb, negb (snd vb))) (fixed_vars a)) = true
   <-> subspace S a = true).
Proof.
  intros S a Hlen. rewrite forallb_forall. split.
  - intros H. apply (subspace_nth S a Hlen). intros i v Hi.
    assert (Hm : model_of_space S (i, negb v) = true).
    { apply H. apply in_map_iff. exists (i, v). split; [reflexivity|].
      apply T_fixed_vars_In. exact Hi. }
    apply T_mos_true in Hm. rewrite negb_involutive in Hm. exact Hm.
  - intros H p Hp. apply in_map_iff in Hp. destruct Hp as [[i v] [Hp Hin]]. subst p. simpl.
    apply T_mos_true. rewrite negb_involutive.
    apply (proj1 (subspace_nth S a Hlen) H). apply T_fixed_vars_In. exact Hin.
Qed.

Lemma T_ensure_model_space : forall S ensure : space, length S = length ensure ->
  (is_model (model_of_space S) (T_tp_ensure ensure) = true <-> subspace S ensure = true).
Proof.
  intros S ensure Hlen. rewrite <- (T_inv_places_sub S ensure Hlen).
  unfold T_tp_ensure, is_model.
  induction (fixed_vars ensure) as [|p l IH]; simpl.
  - split; reflexivity.
  - rewrite !andb_true_iff, IH. split; intro H; exact H.
Qed.

Lemma T_avoid_model_space : forall (S : space) avoid,
  (forall a, In a avoid -> length a = length S) ->
  (is_model (model_of_space S) (T_tp_avoid avoid) = true <->
   forallb (fun a => negb (subspace S a)) avoid = true).
Proof.
  intros S avoid. unfold T_tp_avoid, is_model.
  induction avoid as [|a avoid IH]; intros Hlen; simpl.
  - split; reflexivity.
  - assert (Ha : length S = length a) by (symmetry; apply Hlen; left; reflexivity).
    assert (Hr : forall a', In a' avoid -> length a' = length S).
    { intros a' Ha'. apply Hlen. right. exact Ha'. }
    rewrite !andb_true_iff, (IH Hr).
    rewrite (eq_true_iff_eq _ _ (T_inv_places_sub S a Ha)).
    split; intro H; exact H.
Qed.

(* transition part, any interpretation *)
Lemma T_disj_rules : forall M (heads src : list place),
  is_model M (map (fun p => RDisj heads [p])
                  (filter (fun p => negb (mem_place p heads)) src)) = true <->
  forall p, In p src -> M p = true -> existsb M heads = true.
Proof.
  intros M heads src. unfold is_model. rewrite forallb_forall. split.
  - intros H p Hp HM. destruct (mem_place p heads) eqn:E.
    + unfold mem_place in E. apply existsb_exists in E. destruct E as [q [Hq Heq]].
      apply T_eqb_place_spec in Heq. subst q.
      apply existsb_exists. exists p. split; assumption.
    + assert (Hin : In (RDisj heads [p])
                       (map (fun p => RDisj heads [p])
                            (filter (fun p => negb (mem_place p heads)) src))).
      { apply in_map_iff. exists p. split; [reflexivity|].
        apply filter_In. split; [exact Hp | rewrite E; reflexivity]. }
      specialize (H _ Hin). simpl in H. rewrite HM in H. simpl in H. exact H.
  - intros H r Hr. apply in_map_iff in Hr. destruct Hr as [p [Hr Hp]]. subst r.
    apply filter_In in Hp. destruct Hp as [Hp _]. simpl.
    destruct (M p) eqn:E; simpl; [|reflexivity]. apply (H p Hp E).
Qed.

Lemma T_trans_model : forall rev pn M,
  is_model M (T_tp_trans rev pn) = true <->
  forall t, In t (p_trans pn) ->
    M (t_var t, if rev then negb (t_up t) else t_up t) = true ->
    existsb M (if rev then post_places t else pre_places t) = true.
Proof.
  intros rev pn M. unfold T_tp_trans. rewrite T_is_model_flat_map. split.
  - intros H t Ht HM. specialize (H t Ht). destruct rev.
    + apply (proj1 (T_disj_rules M _ _) H (t_var t, negb (t_up t))); [left; reflexivity | exact HM].
    + apply (proj1 (T_disj_rules M _ _) H (t_var t, t_up t)); [left; reflexivity | exact HM].
  - intros H t Ht. specialize (H t Ht). destruct rev.
    + apply T_disj_rules. intros p [Hp | Hp] HM.
      * subst p. apply H. exact HM.
      * apply existsb_exists. exists p. split; [right; exact Hp | exact HM].
    + apply T_disj_rules. intros p [Hp | Hp] HM.
      * subst p. apply H. exact HM.
      * apply existsb_exists. exists p. split; [right; exact Hp | exact HM].
Qed.

(* under model_of_space S the rule of a transition says: if S fixes the variable to the
   value the transition leaves (forward) resp. produces (reverse), S contradicts the condition *)
Lemma T_trans_model_space : forall rev pn (S : space),
  is_model (model_of_space S) (T_tp_trans rev pn) = true <->
  forall t, In t (p_trans pn) ->
    nth (t_var t) S None = Some (if rev then t_up t else negb (t_up t)) ->
    existsb (model_of_space S) (cond_places t) = true.
Proof.
  intros rev pn S. rewrite T_trans_model. split.
  - intros H t Ht Hx. specialize (H t Ht).
    assert (HM : model_of_space S (t_var t, if rev then negb (t_up t) else t_up t) = true).
    { apply T_mos_true. rewrite Hx. destruct rev; [rewrite negb_involutive|]; reflexivity. }
    specialize (H HM). destruct rev; simpl in H; apply orb_true_iff in H;
      destruct H as [H | H]; try exact H; exfalso;
      apply T_mos_true in H; rewrite Hx in H; injection H as H;
      destruct (t_up t); discriminate.
  - intros H t Ht HM. specialize (H t Ht). apply T_mos_true in HM.
    assert (Hx : nth (t_var t) S None = Some (if rev then t_up t else negb (t_up t))).
    { rewrite HM. destruct rev; [rewrite negb_involutive|]; reflexivity. }
    specialize (H Hx). destruct rev; simpl; rewrite H; apply orb_true_r.
Qed.

Lemma T_no_conflict : forall (S c : space),
  existsb (model_of_space S) (cond_places_from 0 c) = false ->
  forall y b, nth y c None = Some b -> nth y S None <> Some (negb b).
Proof.
  intros S c E y b Hy HS.
  assert (Ht : existsb (model_of_space S) (cond_places_from 0 c) = true).
  { apply existsb_exists. exists (y, b). split.
    - apply (T_fixed_vars_In c y b). exact Hy.
    - apply T_mos_true. exact HS. }
  rewrite E in Ht. discriminate.
Qed.

Lemma T_conflict : forall (S c : space),
  existsb (model_of_space S) (cond_places_from 0 c) = true ->
  exists y b, nth y c None = Some b /\ nth y S None = Some (negb b).
Proof.
  intros S c E. apply existsb_exists in E. destruct E as [[y b] [Hin HM]].
  exists y, b. split.
  - apply (T_fixed_vars_In c y b). exact Hin.
  - apply T_mos_true. exact HM.
Qed.

(* ------------------------------------------------------------------ *)
(* faithfulness, unfolded                                              *)
(* ------------------------------------------------------------------ *)

Lemma T_faithful_fwd : forall N pn s i up, pn_faithful N pn ->
  length s = nvars N -> i < nvars N -> upd N i s = up -> nth i s false = negb up ->
  exists t, In t (p_trans pn) /\ t_var t = i /\ t_up t = up /\ enabled s t = true.
Proof.
  intros N pn s i up Hf Hs Hi Hu Hx.
  apply (Hf s Hs (T_in_top s (nvars N) Hs) i up Hi (nth_top_space (nvars N) i)).
  split; assumption.
Qed.

Lemma T_faithful_bwd : forall N pn s t, pn_faithful N pn ->
  length s = nvars N -> In t (p_trans pn) -> t_var t < nvars N -> enabled s t = true ->
  upd N (t_var t) s = t_up t /\ nth (t_var t) s false = negb (t_up t).
Proof.
  intros N pn s t Hf Hs Ht Hi He.
  apply (Hf s Hs (T_in_top s (nvars N) Hs) (t_var t) (t_up t) Hi (nth_top_space (nvars N) _)).
  exists t. repeat split; assumption.
Qed.

(* ------------------------------------------------------------------ *)
(* the siphon rules characterise trap spaces                           *)
(* ------------------------------------------------------------------ *)

Lemma T_rules_trap : forall N pn (S : space),
  pn_wf (nvars N) pn -> pn_faithful N pn -> length S = nvars N ->
  ((forall t, In t (p_trans pn) ->
      nth (t_var t) S None = Some (negb (t_up t)) ->
      existsb (model_of_space S) (cond_places t) = true)
   <-> trap_space N S).
Proof.
  intros N pn S [Hvars Hwf] Hf HS. rewrite (trap_space_char N S HS). split.
  - intros H i v Hi s Hwfs Hin. unfold wf_state in Hwfs.
    destruct (bool_dec (upd N i s) v) as [Heq | Hne]; [exact Heq | exfalso].
    apply T_bool_neq_negb in Hne.
    assert (Hsl : length s = length S) by congruence.
    assert (Hsi : nth i s false = v).
    { apply (proj1 (in_space_nth s S Hsl) Hin i v Hi). }
    assert (Hilt : i < nvars N).
    { rewrite <- HS. apply (nth_some_lt S i v Hi). }
    assert (Hsi' : nth i s false = negb (negb v)) by (rewrite negb_involutive; exact Hsi).
    destruct (T_faithful_fwd N pn s i (negb v) Hf Hwfs Hilt Hne Hsi')
      as [t [Ht [Htv [Htu He]]]].
    assert (Hx : nth (t_var t) S None = Some (negb (t_up t))).
    { rewrite Htv, Htu, negb_involutive. exact Hi. }
    specialize (H t Ht Hx). unfold cond_places in H.
    destruct (T_conflict S (t_cond t) H) as [y [b [Hy HSy]]].
    apply T_enabled_spec in He. destruct He as [_ Hc].
    specialize (Hc y b Hy).
    pose proof (proj1 (in_space_nth s S Hsl) Hin y (negb b) HSy) as Hsy.
    rewrite Hc in Hsy. apply (T_negb_fix b Hsy).
  - intros Hconst t Ht Hx.
    destruct (existsb (model_of_space S) (cond_places t)) eqn:E; [reflexivity | exfalso].
    destruct (Hwf t Ht) as [Hlt [Hcl Hcx]].
    unfold cond_places in E.
    pose proof (T_no_conflict S (t_cond t) E) as Hnc.
    assert (Hlen : length (t_cond t) = length S) by congruence.
    destruct (T_common_state (t_cond t) S Hlen Hnc) as [s [Hin Hc]].
    assert (Hsl : length s = length S) by (apply in_space_length; exact Hin).
    assert (Hsn : length s = nvars N) by congruence.
    assert (Hsx : nth (t_var t) s false = negb (t_up t)).
    { apply (proj1 (in_space_nth s S Hsl) Hin _ _ Hx). }
    assert (He : enabled s t = true).
    { apply T_enabled_spec. split; [exact Hsx | exact Hc]. }
    destruct (T_faithful_bwd N pn s t Hf Hsn Ht Hlt He) as [Hu _].
    pose proof (Hconst _ _ Hx s Hsn Hin) as Hu'.
    rewrite Hu in Hu'. apply (T_negb_fix (t_up t) Hu').
Qed.

Lemma T_rules_rev_trap : forall N pn (S : space),
  pn_wf (nvars N) pn -> pn_faithful N pn -> length S = nvars N ->
  ((forall t, In t (p_trans pn) ->
      nth (t_var t) S None = Some (t_up t) ->
      existsb (model_of_space S) (cond_places t) = true)
   <-> rev_trap_space N S).
Proof.
  intros N pn S [Hvars Hwf] Hf HS. unfold rev_trap_space. split.
  - intros H. split; [exact HS|].
    intros s t' Hs [i [Hi [Ht' _]]] Hin.
    assert (Hsl : length s = length S) by congruence.
    assert (Htl : length t' = length S).
    { subst t'. unfold step_i. rewrite set_nth_length. exact Hsl. }
    pose proof (proj1 (in_space_nth t' S Htl) Hin) as Hnth.
    apply (in_space_nth s S Hsl). intros j v Hj.
    destruct (Nat.eq_dec i j) as [Heq | Hne].
    + subst j.
      assert (Hu : upd N i s = v).
      { rewrite <- (Hnth i v Hj). subst t'. unfold step_i.
        rewrite nth_set_nth_eq; [reflexivity | rewrite Hs; exact Hi]. }
      destruct (bool_dec (nth i s false) v) as [Heq | Hneq]; [exact Heq | exfalso].
      apply T_bool_neq_negb in Hneq.
      destruct (T_faithful_fwd N pn s i v Hf Hs Hi Hu Hneq) as [t [Ht [Htv [Htu He]]]].
      assert (Hx : nth (t_var t) S None = Some (t_up t)).
      { rewrite Htv, Htu. exact Hj. }
      specialize (H t Ht Hx). unfold cond_places in H.
      destruct (T_conflict S (t_cond t) H) as [y [b [Hy HSy]]].
      destruct (Hwf t Ht) as [_ [_ Hcx]].
      assert (Hyi : i <> y).
      { intro Heq. subst y. rewrite <- Htv in Hy. rewrite Hcx in Hy. discriminate. }
      apply T_enabled_spec in He. destruct He as [_ Hc].
      specialize (Hc y b Hy).
      pose proof (Hnth y (negb b) HSy) as Hty.
      subst t'. unfold step_i in Hty. rewrite (nth_set_nth_neq _ i y _ _ _ Hyi) in Hty.
      rewrite Hc in Hty. apply (T_negb_fix b Hty).
    + rewrite <- (Hnth j v Hj). subst t'. unfold step_i.
      rewrite (nth_set_nth_neq _ i j _ _ _ Hne). reflexivity.
  - intros [_ Hrev] t Ht Hx.
    destruct (existsb (model_of_space S) (cond_places t)) eqn:E; [reflexivity | exfalso].
    destruct (Hwf t Ht) as [Hlt [Hcl Hcx]].
    unfold cond_places in E.
    pose proof (T_no_conflict S (t_cond t) E) as Hnc.
    assert (Hlen : length (t_cond t) = length S) by congruence.
    destruct (T_common_state (t_cond t) S Hlen Hnc) as [s0 [Hin Hc]].
    assert (Hsl : length s0 = length S) by (apply in_space_length; exact Hin).
    assert (Hs0n : length s0 = nvars N) by congruence.
    assert (Hs0x : nth (t_var t) s0 false = t_up t).
    { apply (proj1 (in_space_nth s0 S Hsl) Hin _ _ Hx). }
    set (s := set_nth (t_var t) (negb (t_up t)) s0).
    assert (Hsn : length s = nvars N).
    { unfold s. rewrite set_nth_length. exact Hs0n. }
    assert (Hsx : nth (t_var t) s false = negb (t_up t)).
    { unfold s. apply nth_set_nth_eq. rewrite Hs0n. exact Hlt. }
    assert (He : enabled s t = true).
    { apply T_enabled_spec. split; [exact Hsx|].
      intros y b Hy.
      assert (Hne : t_var t <> y).
      { intro Heq. subst y. rewrite Hcx in Hy. discriminate. }
      unfold s. rewrite (nth_set_nth_neq _ _ _ _ _ _ Hne). apply Hc. exact Hy. }
    destruct (T_faithful_bwd N pn s t Hf Hsn Ht Hlt He) as [Hu _].
    assert (Hstep : s0 = step_i N (t_var t) s).
    { unfold step_i. rewrite Hu. unfold s. rewrite T_set_nth_twice.
      rewrite <- Hs0x. symmetry. apply set_nth_same. rewrite Hs0n. exact Hlt. }
    assert (Htr : trans N s s0).
    { exists (t_var t). split; [exact Hlt|]. split; [exact Hstep|].
      intro Heq. rewrite Heq in Hs0x. rewrite Hs0x in Hsx. apply (T_negb_fix _ Hsx). }
    pose proof (Hrev s s0 Hsn Htr Hin) as Hins.
    assert (Hsl' : length s = length S) by congruence.
    pose proof (proj1 (in_space_nth s S Hsl') Hins _ _ Hx) as Hsx'.
    rewrite Hsx in Hsx'. symmetry in Hsx'. apply (T_negb_fix _ Hsx').
Qed.

(* ------------------------------------------------------------------ *)
(* the extra rules of the max problem                                  *)
(* ------------------------------------------------------------------ *)

Lemma T_free_places_In : forall pn (ensure : space) n v b, p_vars pn = seq 0 n ->
  (In (v, b) (T_free_places pn ensure) <-> v < n /\ nth v ensure None = None).
Proof.
  intros pn ensure n v b Hvars. unfold T_free_places. rewrite Hvars, in_flat_map. split.
  - intros [w [Hw Hin]]. apply in_seq in Hw.
    destruct (nth w ensure None) as [c|] eqn:E; simpl in Hin.
    + contradiction.
    + destruct Hin as [Hin | [Hin | []]]; injection Hin as Hv Hb; subst w;
        (split; [lia | exact E]).
  - intros [Hv He]. exists v. split; [apply in_seq; lia|].
    rewrite He. destruct b; simpl; [left | right; left]; reflexivity.
Qed.

Lemma T_max_model_space : forall pn (ensure : space) srcs (S : space) n,
  p_vars pn = seq 0 n ->
  (exists v, v < n /\ nth v ensure None = None) ->
  (is_model (model_of_space S) (T_tp_max PMax pn ensure srcs) = true <->
   (exists v, v < n /\ nth v ensure None = None /\ nth v S None <> None) /\
   (forall v, In v srcs -> nth v ensure None = None -> nth v S None <> None)).
Proof.
  intros pn ensure srcs S n Hvars [v0 [Hv0 He0]]. unfold T_tp_max.
  assert (Hin0 : In (v0, true) (T_free_places pn ensure)).
  { apply (T_free_places_In pn ensure n v0 true Hvars). split; assumption. }
  destruct (T_free_places pn ensure) as [|p0 fr] eqn:Efree.
  - destruct Hin0.
  - rewrite <- Efree. clear Hin0 Efree p0 fr.
    pose proof (T_free_places_In pn ensure n) as Hfree.
    unfold is_model. simpl. rewrite andb_true_iff, forallb_forall. split.
    + intros [Hex Hsrc]. split.
      * apply existsb_exists in Hex. destruct Hex as [[v b] [Hin HM]].
        apply (Hfree v b Hvars) in Hin. destruct Hin as [Hv He].
        exists v. split; [exact Hv|]. split; [exact He|].
        apply T_mos_true in HM. rewrite HM. discriminate.
      * intros v Hv He. apply T_mos_fixed.
        assert (Hin : In (RDisj [(v, true); (v, false)] [])
                         (map (fun v => RDisj [(v, true); (v, false)] [])
                              (filter (fun v => match nth v ensure None with
                                                | None => true | Some _ => false end) srcs))).
        { apply in_map_iff. exists v. split; [reflexivity|].
          apply filter_In. split; [exact Hv | rewrite He; reflexivity]. }
        specialize (Hsrc _ Hin). simpl in Hsrc. rewrite orb_false_r in Hsrc. exact Hsrc.
    + intros [[v [Hv [He HSv]]] Hsrc]. split.
      * apply existsb_exists. destruct (nth v S None) as [w|] eqn:EW.
        -- exists (v, negb w). split.
           ++ apply (Hfree v (negb w) Hvars). split; assumption.
           ++ apply T_mos_true. rewrite negb_involutive. exact EW.
        -- exfalso. apply HSv. reflexivity.
      * intros r Hr. apply in_map_iff in Hr. destruct Hr as [v' [Hr Hin]]. subst r.
        apply filter_In in Hin. destruct Hin as [Hin He'].
        simpl. rewrite orb_false_r. apply T_mos_fixed. apply Hsrc; [exact Hin|].
        destruct (nth v' ensure None); [discriminate | reflexivity].
Qed.

(* ------------------------------------------------------------------ *)
(* models of trap_program of the form model_of_space S                 *)
(* ------------------------------------------------------------------ *)

Lemma T_trap_program_common : forall pb rev N pn ensure avoid srcs (S : space),
  pn_wf (nvars N) pn -> pn_faithful N pn -> length ensure = nvars N ->
  (forall a, In a avoid -> length a = nvars N) -> length S = nvars N ->
  (is_model (model_of_space S) (trap_program pb rev pn ensure avoid srcs) = true <->
   (pb = PFix -> is_full S = true) /\
   subspace S ensure = true /\
   forallb (fun a => negb (subspace S a)) avoid = true /\
   (if rev then rev_trap_space N S else trap_space N S) /\
   is_model (model_of_space S) (T_tp_max pb pn ensure srcs) = true).
Proof.
  intros pb rev N pn ensure avoid srcs S Hwf Hf He Ha HS.
  rewrite T_trap_program_parts, !andb_true_iff.
  assert (Hvars : p_vars pn = seq 0 (length S)) by (rewrite HS; apply Hwf).
  assert (Hle : length S = length ensure) by congruence.
  assert (Hla : forall a, In a avoid -> length a = length S).
  { intros a Hin. rewrite (Ha a Hin). symmetry. exact HS. }
  pose proof (T_choice_model_space pb pn S Hvars) as H1.
  pose proof (T_ensure_model_space S ensure Hle) as H2.
  pose proof (T_avoid_model_space S avoid Hla) as H3.
  assert (H4 : is_model (model_of_space S) (T_tp_trans rev pn) = true <->
               if rev then rev_trap_space N S else trap_space N S).
  { destruct rev; split; intro H.
    - apply (proj1 (T_rules_rev_trap N pn S Hwf Hf HS)).
      apply (proj1 (T_trans_model_space true pn S)). exact H.
    - apply (proj2 (T_trans_model_space true pn S)).
      apply (proj2 (T_rules_rev_trap N pn S Hwf Hf HS)). exact H.
    - apply (proj1 (T_rules_trap N pn S Hwf Hf HS)).
      apply (proj1 (T_trans_model_space false pn S)). exact H.
    - apply (proj2 (T_trans_model_space false pn S)).
      apply (proj2 (T_rules_trap N pn S Hwf Hf HS)). exact H. }
  tauto.
Qed.

Theorem trap_program_min : forall N pn ensure avoid srcs S, let n := nvars N in
  pn_wf n pn -> pn_faithful N pn -> length ensure = n ->
  (forall a, In a avoid -> length a = n) -> length S = n ->
  (is_model (model_of_space S) (trap_program PMin false pn ensure avoid srcs) = true <->
   trap_space N S /\ subspace S ensure = true /\
   forallb (fun a => negb (subspace S a)) avoid = true).
Proof.
  intros N pn ensure avoid srcs S n Hwf Hf He Ha HS. unfold n in *. clear n.
  rewrite (T_trap_program_common PMin false N pn ensure avoid srcs S Hwf Hf He Ha HS).
  split.
  - intros [_ [H1 [H2 [H3 _]]]]. split; [exact H3 | split; [exact H1 | exact H2]].
  - intros [H3 [H1 H2]]. split; [intro Hpb; discriminate|].
    split; [exact H1 | split; [exact H2 | split; [exact H3 | reflexivity]]].
Qed.

Theorem trap_program_models_conflict_free : forall pb rev pn ensure avoid srcs M n,
  p_vars pn = seq 0 n -> is_model M (trap_program pb rev pn ensure avoid srcs) = true ->
  conflict_free n M.
Proof.
  intros pb rev pn ensure avoid srcs M n Hvars HM v Hv.
  rewrite T_trap_program_parts in HM. apply andb_true_iff in HM. destruct HM as [Hc _].
  assert (Hin : In v (p_vars pn)) by (rewrite Hvars; apply in_seq; lia).
  destruct (proj1 (T_choice_model pb pn M) Hc v Hin) as [H _]. exact H.
Qed.

Theorem trap_program_fix : forall N pn ensure avoid srcs S, let n := nvars N in
  pn_wf n pn -> pn_faithful N pn -> length ensure = n ->
  (forall a, In a avoid -> length a = n) -> length S = n ->
  (is_model (model_of_space S) (trap_program PFix false pn ensure avoid srcs) = true <->
   is_full S = true /\ trap_space N S /\ subspace S ensure = true /\
   forallb (fun a => negb (subspace S a)) avoid = true).
Proof.
  intros N pn ensure avoid srcs S n Hwf Hf He Ha HS. unfold n in *. clear n.
  rewrite (T_trap_program_common PFix false N pn ensure avoid srcs S Hwf Hf He Ha HS).
  split.
  - intros [H0 [H1 [H2 [H3 _]]]].
    split; [exact (H0 eq_refl) | split; [exact H3 | split; [exact H1 | exact H2]]].
  - intros [H0 [H3 [H1 H2]]]. split; [intros _; exact H0|].
    split; [exact H1 | split; [exact H2 | split; [exact H3 | reflexivity]]].
Qed.

(* the max problem, conditions exactly as emitted: a listed source that is free in ensure
   must be fixed, also when it is not a variable of the net (then there is no model) *)
Theorem trap_program_max_gen : forall N pn ensure avoid srcs S, let n := nvars N in
  pn_wf n pn -> pn_faithful N pn -> length ensure = n ->
  (forall a, In a avoid -> length a = n) -> length S = n ->
  (exists v, v < n /\ nth v ensure None = None) ->
  (is_model (model_of_space S) (trap_program PMax false pn ensure avoid srcs) = true <->
   trap_space N S /\ subspace S ensure = true /\
   forallb (fun a => negb (subspace S a)) avoid = true /\
   (exists v, v < n /\ nth v ensure None = None /\ nth v S None <> None) /\
   (forall v, In v srcs -> nth v ensure None = None -> nth v S None <> None)).
Proof.
  intros N pn ensure avoid srcs S n Hwf Hf He Ha HS Hfree. unfold n in *. clear n.
  rewrite (T_trap_program_common PMax false N pn ensure avoid srcs S Hwf Hf He Ha HS).
  pose proof (T_max_model_space pn ensure srcs S (nvars N) (proj1 Hwf) Hfree) as Hmax.
  split.
  - intros [_ [H1 [H2 [H3 H4]]]]. apply Hmax in H4. destruct H4 as [H4 H5].
    split; [exact H3 | split; [exact H1 | split; [exact H2 | split; [exact H4 | exact H5]]]].
  - intros [H3 [H1 [H2 [H4 H5]]]]. split; [intro Hpb; discriminate|].
    split; [exact H1 | split; [exact H2 | split; [exact H3 |]]].
    apply Hmax. split; [exact H4 | exact H5].
Qed.

(* the statement as proposed (guard v < n on the sources) needs all listed sources to be
   variables of the net *)
Theorem trap_program_max_weak : forall N pn ensure avoid srcs S, let n := nvars N in
  pn_wf n pn -> pn_faithful N pn -> length ensure = n ->
  (forall a, In a avoid -> length a = n) -> length S = n ->
  (exists v, v < n /\ nth v ensure None = None) ->
  (forall v, In v srcs -> v < n) ->
  (is_model (model_of_space S) (trap_program PMax false pn ensure avoid srcs) = true <->
   trap_space N S /\ subspace S ensure = true /\
   forallb (fun a => negb (subspace S a)) avoid = true /\
   (exists v, v < n /\ nth v ensure None = None /\ nth v S None <> None) /\
   (forall v, In v srcs -> v < n -> nth v ensure None = None -> nth v S None <> None)).
Proof.
  intros N pn ensure avoid srcs S n Hwf Hf He Ha HS Hfree Hsrcs.
  rewrite (trap_program_max_gen N pn ensure avoid srcs S Hwf Hf He Ha HS Hfree).
  split.
  - intros [H1 [H2 [H3 [H4 H5]]]].
    split; [exact H1 | split; [exact H2 | split; [exact H3 | split; [exact H4 |]]]].
    intros v Hv _ Hev. apply (H5 v Hv Hev).
  - intros [H1 [H2 [H3 [H4 H5]]]].
    split; [exact H1 | split; [exact H2 | split; [exact H3 | split; [exact H4 |]]]].
    intros v Hv Hev. apply (H5 v Hv (Hsrcs v Hv) Hev).
Qed.

Theorem trap_program_reverse : forall N pn ensure avoid srcs S, let n := nvars N in
  pn_wf n pn -> pn_faithful N pn -> length ensure = n ->
  (forall a, In a avoid -> length a = n) -> length S = n ->
  (is_model (model_of_space S) (trap_program PMin true pn ensure avoid srcs) = true <->
   rev_trap_space N S /\ subspace S ensure = true /\
   forallb (fun a => negb (subspace S a)) avoid = true).
Proof.
  intros N pn ensure avoid srcs S n Hwf Hf He Ha HS. unfold n in *. clear n.
  rewrite (T_trap_program_common PMin true N pn ensure avoid srcs S Hwf Hf He Ha HS).
  split.
  - intros [_ [H1 [H2 [H3 _]]]]. split; [exact H3 | split; [exact H1 | exact H2]].
  - intros [H3 [H1 H2]]. split; [intro Hpb; discriminate|].
    split; [exact H1 | split; [exact H2 | split; [exact H3 | reflexivity]]].
Qed.

(* ------------------------------------------------------------------ *)
(* order reversal: subset-maximal models / minimal trap spaces         *)
(* ------------------------------------------------------------------ *)

Theorem min_models_are_min_traps : forall N pn ensure S, let n := nvars N in
  pn_wf n pn -> pn_faithful N pn -> length ensure = n -> length S = n ->
  ((is_model (model_of_space S) (trap_program PMin false pn ensure [] []) = true /\
    forall S', length S' = n ->
               is_model (model_of_space S') (trap_program PMin false pn ensure [] []) = true ->
               (forall p, model_of_space S p = true -> model_of_space S' p = true) -> S' = S)
   <-> In S (min_traps_b N ensure)).
Proof.
  intros N pn ensure S n Hwf Hf He HS. unfold n in *. clear n.
  assert (Hnil : forall a : space, In a [] -> length a = nvars N) by (intros a []).
  assert (Hmod : forall T : space, length T = nvars N ->
            (is_model (model_of_space T) (trap_program PMin false pn ensure [] []) = true <->
             trap_space N T /\ subspace T ensure = true)).
  { intros T HT. rewrite (trap_program_min N pn ensure [] [] T Hwf Hf He Hnil HT).
    simpl. tauto. }
  rewrite (min_traps_b_spec N ensure S He). unfold min_trap. split.
  - intros [HM Hmax]. apply (Hmod S HS) in HM. destruct HM as [Ht Hsub].
    split; [split; [exact Ht|] | exact Hsub].
    intros M' Ht' Hsub'.
    assert (HM' : length M' = nvars N) by (apply trap_space_length; exact Ht').
    apply (Hmax M' HM').
    + apply (Hmod M' HM'). split; [exact Ht'|].
      apply (subspace_trans M' S ensure Hsub' Hsub).
    + apply (model_order M' S); [congruence | exact Hsub'].
  - intros [[Ht Hmin] Hsub]. split.
    + apply (Hmod S HS). split; assumption.
    + intros S' HS' HM' Hincl. apply (Hmod S' HS') in HM'. destruct HM' as [Ht' _].
      apply (Hmin S' Ht'). apply (model_order S' S); [congruence | exact Hincl].
Qed.

(* inside ensure, "different from ensure" means "fixes a variable that ensure leaves free" *)
Lemma T_sub_all_free_eq : forall S E : space, subspace S E = true ->
  (forall v, v < length S -> nth v E None = None -> nth v S None = None) -> S = E.
Proof.
  intros S E Hsub Hfree.
  assert (Hlen : length S = length E) by (apply subspace_length; exact Hsub).
  apply (subspace_antisym S E Hsub).
  apply (subspace_nth E S (eq_sym Hlen)). intros i v Hi.
  destruct (nth i E None) as [w|] eqn:EE.
  - rewrite (proj1 (subspace_nth S E Hlen) Hsub i w EE) in Hi. exact Hi.
  - rewrite (Hfree i (nth_some_lt S i v Hi) EE) in Hi. discriminate.
Qed.

Lemma T_strict_sub_fixes : forall S E : space, subspace S E = true ->
  (S <> E <-> exists v, v < length S /\ nth v E None = None /\ nth v S None <> None).
Proof.
  intros S E Hsub. split.
  - intros Hne.
    set (f := fun v => match nth v E None, nth v S None with
                       | None, Some _ => true
                       | _, _ => false end).
    destruct (existsb f (seq 0 (length S))) eqn:Ex.
    + apply existsb_exists in Ex. destruct Ex as [v [Hv Hfv]]. apply in_seq in Hv.
      exists v. split; [lia|]. unfold f in Hfv.
      destruct (nth v E None); [discriminate|].
      destruct (nth v S None); [|discriminate].
      split; [reflexivity | discriminate].
    + exfalso. apply Hne. apply (T_sub_all_free_eq S E Hsub).
      intros v Hv HE. destruct (nth v S None) as [w|] eqn:ES; [exfalso | reflexivity].
      assert (Ht : existsb f (seq 0 (length S)) = true).
      { apply existsb_exists. exists v. split; [apply in_seq; lia|].
        unfold f. rewrite HE, ES. reflexivity. }
      rewrite Ex in Ht. discriminate.
  - intros [v [_ [HE HSv]]] Heq. subst E. apply HSv. exact HE.
Qed.

Lemma T_fixes_all_filter : forall (S ensure : space) srcs,
  fixes_all S (filter (fun v => match nth v ensure None with None => true | Some _ => false end)
                      srcs) = true <->
  forall v, In v srcs -> nth v ensure None = None -> nth v S None <> None.
Proof.
  intros S ensure srcs. unfold fixes_all. rewrite forallb_forall. split.
  - intros H v Hv He HSv.
    assert (Hin : In v (filter (fun v => match nth v ensure None with
                                          | None => true | Some _ => false end) srcs)).
    { apply filter_In. split; [exact Hv | rewrite He; reflexivity]. }
    specialize (H v Hin). rewrite HSv in H. discriminate.
  - intros H v Hv. apply filter_In in Hv. destruct Hv as [Hv He].
    destruct (nth v ensure None) eqn:EE; [discriminate|].
    specialize (H v Hv EE). destruct (nth v S None); [reflexivity|].
    exfalso. apply H. reflexivity.
Qed.

Theorem max_models_are_max_traps : forall N pn ensure srcs S, let n := nvars N in
  pn_wf n pn -> pn_faithful N pn -> length ensure = n -> length S = n ->
  (exists v, v < n /\ nth v ensure None = None) -> (forall v, In v srcs -> v < n) ->
  ((is_model (model_of_space S) (trap_program PMax false pn ensure [] srcs) = true /\
    forall S', length S' = n ->
               is_model (model_of_space S') (trap_program PMax false pn ensure [] srcs) = true ->
               (forall p, model_of_space S' p = true -> model_of_space S p = true) -> S' = S)
   <-> In S (max_traps_b N ensure
               (filter (fun v => match nth v ensure None with None => true | Some _ => false end)
                       srcs))).
Proof.
  intros N pn ensure srcs S n Hwf Hf He HS Hfree _. unfold n in *. clear n.
  set (srcs' := filter (fun v => match nth v ensure None with
                                 | None => true | Some _ => false end) srcs).
  assert (Hnil : forall a : space, In a [] -> length a = nvars N) by (intros a []).
  assert (Hmod : forall T : space, length T = nvars N ->
            (is_model (model_of_space T) (trap_program PMax false pn ensure [] srcs) = true <->
             trap_space N T /\ strict_subspace T ensure /\ fixes_all T srcs' = true)).
  { intros T HT.
    rewrite (trap_program_max_gen N pn ensure [] srcs T Hwf Hf He Hnil HT Hfree).
    unfold strict_subspace, srcs'. rewrite T_fixes_all_filter. split.
    - intros [H1 [H2 [_ [H4 H5]]]].
      split; [exact H1 | split; [split; [exact H2|] | exact H5]].
      apply (proj2 (T_strict_sub_fixes T ensure H2)). rewrite HT. exact H4.
    - intros [H1 [[H2 H4] H5]].
      split; [exact H1 | split; [exact H2 | split; [reflexivity | split; [| exact H5]]]].
      rewrite <- HT. apply (proj1 (T_strict_sub_fixes T ensure H2) H4). }
  rewrite (max_traps_b_spec_srcs N ensure srcs' S He). split.
  - intros [HM Hmax]. apply (Hmod S HS) in HM. destruct HM as [Ht [Hstr Hfix]].
    split; [exact Ht | split; [exact Hstr | split; [exact Hfix|]]].
    intros M' Ht' Hstr' Hfix' Hsub'.
    assert (HM' : length M' = nvars N) by (apply trap_space_length; exact Ht').
    apply (Hmax M' HM').
    + apply (Hmod M' HM'). split; [exact Ht' | split; [exact Hstr' | exact Hfix']].
    + apply (model_order S M'); [congruence | exact Hsub'].
  - intros [Ht [Hstr [Hfix Hmax]]]. split.
    + apply (Hmod S HS). split; [exact Ht | split; [exact Hstr | exact Hfix]].
    + intros S' HS' HM' Hincl. apply (Hmod S' HS') in HM'. destruct HM' as [Ht' [Hstr' Hfix']].
      apply (Hmax S' Ht' Hstr' Hfix'). apply (model_order S S'); [congruence | exact Hincl].
Qed.

(* ------------------------------------------------------------------ *)
(* fixed points of the reduced transition graph                        *)
(* ------------------------------------------------------------------ *)

Definition T_dp_choice (pn : pnet) : list rule :=
  flat_map (fun v => [RChoice (v, true); RChoice (v, false); RConstraint [(v, true); (v, false)];
                      RDisj [(v, true); (v, false)] []]) (p_vars pn).

Lemma T_deadlock_program_parts : forall pn ensure avoid M,
  is_model M (deadlock_program pn ensure avoid) =
  is_model M (T_dp_choice pn) &&
  (is_model M (map (fun t => RConstraint (pre_places t)) (p_trans pn)) &&
   (is_model M (map (fun vb => RFact vb) (fixed_vars ensure)) && is_model M (avoid_rules avoid))).
Proof.
  intros pn ensure avoid M. unfold deadlock_program, is_model. rewrite !forallb_app. reflexivity.
Qed.

Lemma T_dp_choice_model : forall pn M,
  is_model M (T_dp_choice pn) = true <->
  forall v, In v (p_vars pn) ->
    M (v, true) && M (v, false) = false /\ M (v, true) || M (v, false) = true.
Proof.
  intros pn M. unfold T_dp_choice. rewrite T_is_model_flat_map. split.
  - intros H v Hv. specialize (H v Hv). simpl in H.
    rewrite !andb_true_r, orb_false_r in H. apply andb_true_iff in H. destruct H as [Hc Hr].
    split; [apply negb_true_iff in Hc; exact Hc | exact Hr].
  - intros H v Hv. destruct (H v Hv) as [Hc Hr]. simpl.
    rewrite !andb_true_r, orb_false_r, Hc, Hr. reflexivity.
Qed.

Lemma T_dp_choice_state : forall pn s, is_model (model_of_state s) (T_dp_choice pn) = true.
Proof.
  intros pn s. apply T_dp_choice_model. intros v _. unfold model_of_state. simpl.
  destruct (nth v s false); split; reflexivity.
Qed.

Lemma T_dp_trans_state : forall trs s,
  is_model (model_of_state s) (map (fun t => RConstraint (pre_places t)) trs) = true <->
  forall t, In t trs -> enabled s t = false.
Proof.
  intros trs s. unfold is_model. rewrite forallb_forall. split.
  - intros H t Ht. apply negb_true_iff.
    apply (H (RConstraint (pre_places t))). apply in_map_iff. exists t. split; [reflexivity | exact Ht].
  - intros H r Hr. apply in_map_iff in Hr. destruct Hr as [t [Hr Ht]]. subst r.
    simpl. apply negb_true_iff. apply (H t Ht).
Qed.

Lemma T_state_places_in_space : forall (s : state) (a : space), length s = length a ->
  forallb (model_of_state s) (fixed_vars a) = in_space s a.
Proof.
  intros s a Hlen. apply eq_true_iff_eq. rewrite forallb_forall.
  rewrite (in_space_nth s a Hlen). split.
  - intros H i v Hi.
    apply (T_marked_spec s i v). apply (H (i, v)). apply T_fixed_vars_In. exact Hi.
  - intros H [i v] Hin. apply (T_marked_spec s i v). apply H. apply T_fixed_vars_In. exact Hin.
Qed.

Lemma T_dp_ensure_state : forall (s : state) (ensure : space), length s = length ensure ->
  is_model (model_of_state s) (map (fun vb => RFact vb) (fixed_vars ensure)) = in_space s ensure.
Proof.
  intros s ensure Hlen. rewrite <- (T_state_places_in_space s ensure Hlen).
  unfold is_model. induction (fixed_vars ensure) as [|p l IH]; simpl.
  - reflexivity.
  - rewrite IH. reflexivity.
Qed.

Lemma T_avoid_rules_cons : forall M (a : space) avoid,
  is_model M (avoid_rules (a :: avoid)) =
  negb (forallb M (fixed_vars a)) && is_model M (avoid_rules avoid).
Proof.
  intros M a avoid. simpl. destruct (fixed_vars a) as [|p l]; reflexivity.
Qed.

Lemma T_dp_avoid_state : forall (s : state) avoid,
  (forall a, In a avoid -> length a = length s) ->
  (is_model (model_of_state s) (avoid_rules avoid) = true <-> existsb (in_space s) avoid = false).
Proof.
  intros s avoid Hlen. induction avoid as [|a avoid IH].
  - simpl. split; reflexivity.
  - assert (Ha : length s = length a) by (symmetry; apply Hlen; left; reflexivity).
    assert (Hr : forall a', In a' avoid -> length a' = length s).
    { intros a' Ha'. apply Hlen. right. exact Ha'. }
    rewrite T_avoid_rules_cons. simpl existsb.
    rewrite (T_state_places_in_space s a Ha), andb_true_iff, orb_false_iff, (IH Hr),
      negb_true_iff.
    split; intro H; exact H.
Qed.

Lemma T_red_fixed_at_spec : forall N s (st : state) (R : space) k, length st = length R ->
  (red_fixed_at N s k st R = true <->
   forall i, i < length st ->
     upd N (k + i) s = nth i st false \/ nth i R None = Some (nth i st false)).
Proof.
  intros N s. induction st as [|b st IH]; intros [|r R] k Hlen; simpl in *; try discriminate.
  - split; [intros _ i Hi; lia | reflexivity].
  - injection Hlen as Hlen. rewrite andb_true_iff, (IH R (Datatypes.S k) Hlen). split.
    + intros [H0 Hr] [|i] Hi.
      * rewrite Nat.add_0_r. apply orb_true_iff in H0. destruct H0 as [H0 | H0].
        -- left. apply eqb_prop. exact H0.
        -- right. destruct r as [v|]; [|discriminate].
           apply eqb_prop in H0. subst v. reflexivity.
      * rewrite Nat.add_succ_r. apply (Hr i). lia.
    + intros H. split.
      * apply orb_true_iff. destruct (H 0 (Nat.lt_0_succ _)) as [H0 | H0].
        -- left. rewrite Nat.add_0_r in H0. rewrite H0. apply eqb_reflx.
        -- right. simpl in H0. rewrite H0. apply eqb_reflx.
      * intros i Hi. specialize (H (Datatypes.S i)). rewrite Nat.add_succ_r in H.
        apply H. lia.
Qed.

Theorem deadlock_program_models : forall N pn R ensure avoid s, let n := nvars N in
  pn_wf n pn -> pn_faithful N pn -> length R = n -> length ensure = n ->
  (forall a, In a avoid -> length a = n) -> length s = n ->
  (is_model (model_of_state s) (deadlock_program (reduce_pn pn R) ensure avoid) = true <->
   In s (reduced_fixed_b N R ensure avoid)).
Proof.
  intros N pn R ensure avoid s n [Hvars Hwf] Hf HR He Ha Hs. unfold n in *. clear n.
  assert (Hse : length s = length ensure) by congruence.
  assert (Hsa : forall a, In a avoid -> length a = length s).
  { intros a Hin. rewrite (Ha a Hin). symmetry. exact Hs. }
  assert (HsR : length s = length R) by congruence.
  rewrite T_deadlock_program_parts, T_dp_choice_state, (T_dp_ensure_state s ensure Hse).
  simpl andb. rewrite !andb_true_iff, T_dp_trans_state, (T_dp_avoid_state s avoid Hsa).
  unfold reduced_fixed_b. rewrite filter_In, states_of_spec, andb_true_iff, negb_true_iff.
  rewrite (T_red_fixed_at_spec N s s R 0 HsR).
  split.
  - intros [Hdead [Hens Hav]]. split; [exact Hens | split; [| exact Hav]].
    intros i Hi. simpl.
    destruct (bool_dec (upd N i s) (nth i s false)) as [Heq | Hne]; [left; exact Heq | right].
    apply T_bool_neq_negb in Hne.
    assert (Hilt : i < nvars N) by (rewrite <- Hs; exact Hi).
    assert (Hsi : nth i s false = negb (negb (nth i s false))) by (rewrite negb_involutive; reflexivity).
    destruct (T_faithful_fwd N pn s i (negb (nth i s false)) Hf Hs Hilt Hne Hsi)
      as [t [Ht [Htv [Htu Hen]]]].
    destruct (nth i R None) as [b|] eqn:ER.
    + destruct (bool_dec b (nth i s false)) as [Hb | Hb]; [subst b; reflexivity | exfalso].
      apply T_bool_neq_negb in Hb.
      assert (Hin : In t (p_trans (reduce_pn pn R))).
      { simpl. apply filter_In. split; [exact Ht|]. rewrite Htv, ER, Htu, Hb.
        rewrite negb_involutive. destruct (nth i s false); reflexivity. }
      rewrite (Hdead t Hin) in Hen. discriminate.
    + exfalso.
      assert (Hin : In t (p_trans (reduce_pn pn R))).
      { simpl. apply filter_In. split; [exact Ht|]. rewrite Htv, ER. reflexivity. }
      rewrite (Hdead t Hin) in Hen. discriminate.
  - intros [Hens [Hred Hav]]. split; [| split; [exact Hens | exact Hav]].
    intros t Hin. simpl in Hin. apply filter_In in Hin. destruct Hin as [Ht Hkeep].
    destruct (enabled s t) eqn:Hen; [exfalso | reflexivity].
    destruct (Hwf t Ht) as [Hlt _].
    destruct (T_faithful_bwd N pn s t Hf Hs Ht Hlt Hen) as [Hu Hx].
    assert (Hi : t_var t < length s) by (rewrite Hs; exact Hlt).
    destruct (Hred (t_var t) Hi) as [Hstable | Hret]; simpl in *.
    + rewrite Hu, Hx in Hstable. apply (T_negb_fix _ Hstable).
    + rewrite Hret, Hx, negb_involutive, eqb_reflx in Hkeep. discriminate.
Qed.

Theorem deadlock_program_models_are_states : forall pn ensure avoid M n,
  p_vars pn = seq 0 n -> is_model M (deadlock_program pn ensure avoid) = true ->
  forall v, v < n -> xorb (M (v, true)) (M (v, false)) = true.
Proof.
  intros pn ensure avoid M n Hvars HM v Hv.
  rewrite T_deadlock_program_parts in HM. apply andb_true_iff in HM. destruct HM as [Hc _].
  assert (Hin : In v (p_vars pn)) by (rewrite Hvars; apply in_seq; lia).
  destruct (proj1 (T_dp_choice_model pn M) Hc v Hin) as [H1 H2].
  destruct (M (v, true)), (M (v, false)); simpl in *; try reflexivity; discriminate.
Qed.

(* ------------------------------------------------------------------ *)
(* why trap_program_max needs "all listed sources are variables":      *)
(* one variable with the identity function, a listed source 1 >= n     *)
(* ------------------------------------------------------------------ *)

Lemma trap_program_max_guard_counterexample :
  exists N pn ensure avoid srcs S,
    pn_wf (nvars N) pn /\ pn_faithful N pn /\ length ensure = nvars N /\
    (forall a, In a avoid -> length a = nvars N) /\ length S = nvars N /\
    (exists v, v < nvars N /\ nth v ensure None = None) /\
    ~ (is_model (model_of_space S) (trap_program PMax false pn ensure avoid srcs) = true <->
       trap_space N S /\ subspace S ensure = true /\
       forallb (fun a => negb (subspace S a)) avoid = true /\
       (exists v, v < nvars N /\ nth v ensure None = None /\ nth v S None <> None) /\
       (forall v, In v srcs -> v < nvars N -> nth v ensure None = None -> nth v S None <> None)).
Proof.
  exists [fun s : state => nth 0 s false], {| p_vars := [0]; p_trans := [] |},
         [None], [], [1], [Some true].
  split; [split; [reflexivity | intros t []]|].
  split.
  { intros s Hs Hin i up Hi Hfree. simpl in Hi. split.
    - intros [t [[] _]].
    - intros [Hu Hx]. exfalso. destruct i as [|i]; [|lia].
      unfold upd in Hu. simpl in Hu. rewrite Hu in Hx. apply (T_negb_fix up Hx). }
  split; [reflexivity|]. split; [intros a []|]. split; [reflexivity|].
  split; [exists 0; split; [simpl; lia | reflexivity]|].
  intros [_ H].
  assert (HR : is_model (model_of_space [Some true])
                 (trap_program PMax false {| p_vars := [0]; p_trans := [] |} [None] [] [1]) = true).
  { apply H. split.
    - apply trap_space_char; [reflexivity|].
      intros i v Hi s Hwf Hin. destruct i as [|i].
      + simpl in Hi. injection Hi as Hi. subst v. unfold upd. simpl.
        destruct s as [|b s]; [discriminate|]. simpl in Hin.
        apply andb_true_iff in Hin. destruct Hin as [Hb _]. apply eqb_prop in Hb. exact Hb.
      + simpl in Hi. destruct i; discriminate.
    - split; [reflexivity|]. split; [reflexivity|]. split.
      + exists 0. split; [simpl; lia|]. split; [reflexivity | discriminate].
      + intros v [Hv | []] Hlt. subst v. simpl in Hlt. lia. }
  vm_compute in HR. discriminate.
Qed.

Print Assumptions trap_program_min.
Print Assumptions max_models_are_max_traps.
Print Assumptions deadlock_program_models.
