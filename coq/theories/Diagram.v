(* Diagram.v -- executable model of biobalm.SuccessionDiagram's state machine.
   Follows succession_diagram.py and _sd_algorithms/*.py branch by branch.
   The trap-space solver is the brute-force twin (the code sorts solver output
   by key, so the model needs no tape for it).  Definitions only. *)
From Coq Require Import List Bool Arith NArith.
Import ListNotations.
From BB Require Import BN Brute.

(* A cached attractor item is modelled by a ghost tag: the avoid list (child
   motifs, skip flag) it was computed against.  The harness compares "is set". *)
Record tag := { t_motifs : list space; t_skip : bool }.

Record node := {
  n_space : space;
  n_depth : nat;
  n_exp : bool;
  n_skip : bool;
  n_parent : option nat;
  n_cands : option tag;
  n_seeds : option tag;
  n_sets : option tag
}.

Record edge := { e_src : nat; e_dst : nat; e_motifs : list space }.

Record sd := { sd_nodes : list node; sd_edges : list edge }.

Record config := { max_motifs : nat }.

Inductive result :=
| RUnit | RBool (b : bool) | RNat (k : nat) | RIds (l : list nat)
| RRaised (e : err) | RFuel
with err := ErrMotifLimit | ErrKey | ErrAssert | ErrLimit.

Definition size (d : sd) : nat := length (sd_nodes d).
Definition dummy_node : node :=
  {| n_space := []; n_depth := 0; n_exp := false; n_skip := false; n_parent := None;
     n_cands := None; n_seeds := None; n_sets := None |}.
Definition get (d : sd) (i : nat) : node := nth i (sd_nodes d) dummy_node.
Definition upd_node (d : sd) (i : nat) (f : node -> node) : sd :=
  {| sd_nodes := set_nth i (f (get d i)) (sd_nodes d); sd_edges := sd_edges d |}.

(* node_indices[key] *)
Fixpoint find_key_from (k : N) (i : nat) (l : list node) : option nat :=
  match l with
  | [] => None
  | x :: r => if N.eqb (space_key (n_space x)) k then Some i else find_key_from k (S i) r
  end.
Definition find_key (d : sd) (k : N) : option nat := find_key_from k 0 (sd_nodes d).
Definition find_node (d : sd) (X : space) : option nat := find_key d (space_key X).

Definition has_edge (d : sd) (p c : nat) : bool :=
  existsb (fun e => Nat.eqb (e_src e) p && Nat.eqb (e_dst e) c) (sd_edges d).

Definition set_depth (x : node) (dp : nat) : node :=
  {| n_space := n_space x; n_depth := dp; n_exp := n_exp x; n_skip := n_skip x;
     n_parent := n_parent x; n_cands := n_cands x; n_seeds := n_seeds x; n_sets := n_sets x |}.
Definition set_exp (x : node) (b : bool) : node :=
  {| n_space := n_space x; n_depth := n_depth x; n_exp := b; n_skip := n_skip x;
     n_parent := n_parent x; n_cands := n_cands x; n_seeds := n_seeds x; n_sets := n_sets x |}.
Definition set_skip (x : node) (b : bool) : node :=
  {| n_space := n_space x; n_depth := n_depth x; n_exp := n_exp x; n_skip := b;
     n_parent := n_parent x; n_cands := n_cands x; n_seeds := n_seeds x; n_sets := n_sets x |}.
Definition clear_attr (x : node) : node :=
  {| n_space := n_space x; n_depth := n_depth x; n_exp := n_exp x; n_skip := n_skip x;
     n_parent := n_parent x; n_cands := None; n_seeds := None; n_sets := None |}.

(* _ensure_edge + _update_node_depth *)
Fixpoint add_motif (p c : nat) (m : space) (l : list edge) : list edge :=
  match l with
  | [] => []
  | e :: r => if Nat.eqb (e_src e) p && Nat.eqb (e_dst e) c
              then {| e_src := p; e_dst := c; e_motifs := e_motifs e ++ [m] |} :: r
              else e :: add_motif p c m r
  end.

(* _update_node_depth (after the depth fix): raise the depth of c to dp if it is
   smaller and propagate to the successors.  The recursion follows DAG paths, so
   fuel = number of nodes is enough; at fuel 0 nothing is changed. *)
Definition successors_of (l : list edge) (i : nat) : list nat :=
  map e_dst (filter (fun e => Nat.eqb (e_src e) i) l).

Fixpoint raise_depth (fuel : nat) (d : sd) (c : nat) (dp : nat) : sd :=
  match fuel with
  | O => d
  | S f =>
      if Nat.ltb (n_depth (get d c)) dp then
        let d1 := upd_node d c (fun x => set_depth x dp) in
        fold_left (fun acc s => raise_depth f acc s (S dp)) (successors_of (sd_edges d1) c) d1
      else d
  end.

Definition ensure_edge (d : sd) (p c : nat) (m : space) : sd :=
  let d1 := if has_edge d p c
            then {| sd_nodes := sd_nodes d; sd_edges := add_motif p c m (sd_edges d) |}
            else {| sd_nodes := sd_nodes d;
                    sd_edges := sd_edges d ++ [{| e_src := p; e_dst := c; e_motifs := [m] |}] |} in
  raise_depth (S (size d1)) d1 c (S (n_depth (get d1 p))).

(* _ensure_node *)
Definition ensure_node (N : net) (d : sd) (parent : option nat) (motif : space) : sd * nat :=
  let fixed := percolate_b N motif in
  let '(d1, child) :=
    match find_node d fixed with
    | Some c => (d, c)
    | None =>
        ({| sd_nodes := sd_nodes d ++
              [{| n_space := fixed; n_depth := 0; n_exp := false; n_skip := false;
                  n_parent := parent; n_cands := None; n_seeds := None; n_sets := None |}];
            sd_edges := sd_edges d |}, size d)
    end in
  match parent with
  | Some p => (ensure_edge d1 p child motif, child)
  | None => (d1, child)
  end.

Definition init (N : net) : sd :=
  fst (ensure_node N {| sd_nodes := []; sd_edges := [] |} None (top_space (nvars N))).

(* sorting spaces by key (insertion sort; the code uses sorted(key=space_unique_key)) *)
Fixpoint insert_by_key (x : space) (l : list space) : list space :=
  match l with
  | [] => [x]
  | y :: r => if N.leb (space_key x) (space_key y) then x :: l else y :: insert_by_key x r
  end.
Definition sort_by_key (l : list space) : list space := fold_right insert_by_key [] l.

Fixpoint insert_nat (x : nat) (l : list nat) : list nat :=
  match l with
  | [] => [x]
  | y :: r => if Nat.leb x y then x :: l else y :: insert_nat x r
  end.
Definition sort_nat (l : list nat) : list nat := fold_right insert_nat [] l.

Definition successors (d : sd) (i : nat) : list nat := successors_of (sd_edges d) i.
Definition out_degree (d : sd) (i : nat) : nat := length (successors d i).
Definition is_minimal (d : sd) (i : nat) : bool :=
  Nat.eqb (out_degree d i) 0 && n_exp (get d i).

Fixpoint ensure_all (N : net) (d : sd) (p : nat) (subs : list space) : sd :=
  match subs with
  | [] => d
  | m :: r => ensure_all N (fst (ensure_node N d (Some p) m)) p r
  end.

(* trappist(problem="max", solution_limit=k) returns a prefix of length
   min (max k 1) total of the solver's enumeration.  The code raises when that
   length equals the limit.  A truncated list that does not raise is possible
   only for k = 0 (one arbitrary element survives): the model then keeps the
   first element in key order; the correspondence run excludes max_motifs = 0
   (it is covered by the predicate checks, finding D9). *)
Definition solver_len (total limit : nat) : nat := Nat.min (Nat.max limit 1) total.

(* _expand_one_node *)
Definition expand_one (N : net) (cfg : config) (d : sd) (i : nat) : sd * result :=
  let x := get d i in
  if n_exp x then (d, RUnit) else
  let d0 := upd_node d i clear_attr in
  let cur := n_space x in
  if is_full cur then (upd_node d0 i (fun y => set_exp y true), RUnit) else
  let srcs := if Nat.eqb i 0 then sources_b N else [] in
  let all := sort_by_key (max_traps_b N cur srcs) in
  let k := solver_len (length all) (max_motifs cfg) in
  let subs := firstn k all in
  let d1 := d0 in
  if Nat.eqb k (max_motifs cfg) then (d1, RRaised ErrMotifLimit) else
  (upd_node (ensure_all N d1 i subs) i (fun y => set_exp y true), RUnit).

(* node_successors(id, compute=True) *)
Definition node_successors (N : net) (cfg : config) (d : sd) (i : nat)
  : sd * result * list nat :=
  let '(d1, r) := expand_one N cfg d i in
  match r with
  | RUnit => (d1, RUnit, successors d1 i)
  | _ => (d1, r, [])
  end.

Definition mem_nat (x : nat) (l : list nat) : bool := existsb (Nat.eqb x) l.
Definition over_limit (lim : option nat) (d : sd) : bool :=
  match lim with Some k => Nat.leb k (size d) | None => false end.

(* ---------------- expand_bfs ---------------- *)
(* inner "for node in current_level" *)
Fixpoint bfs_level (N : net) (cfg : config) (size_limit : option nat)
         (d : sd) (seen next cur : list nat) : sd * result * list nat * list nat :=
  match cur with
  | [] => (d, RUnit, seen, next)
  | x :: cur' =>
      if over_limit size_limit d && negb (n_exp (get d x)) then (d, RBool false, seen, next) else
      let '(d1, r, succ) := node_successors N cfg d x in
      match r with
      | RUnit =>
          let fresh := filter (fun s => negb (mem_nat s seen)) (sort_nat succ) in
          (* sorted successors are distinct ids, so one filter pass equals the loop *)
          bfs_level N cfg size_limit d1 (seen ++ fresh) (next ++ fresh) cur'
      | _ => (d1, r, seen, next)
      end
  end.

Fixpoint bfs_loop (fuel : nat) (N : net) (cfg : config) (level_limit size_limit : option nat)
         (d : sd) (seen cur : list nat) (level : nat) : sd * result :=
  match fuel with
  | O => (d, RFuel)
  | S f =>
      match cur with
      | [] => (d, RBool true)
      | _ =>
          let '(d1, r, seen1, next) := bfs_level N cfg size_limit d seen [] cur in
          match r with
          | RUnit =>
              if match level_limit with Some l => Nat.leb l level | None => false end
              then (d1, RBool false)
              else bfs_loop f N cfg level_limit size_limit d1 seen1 next (S level)
          | _ => (d1, r)
          end
      end
  end.

Definition expand_bfs (fuel : nat) (N : net) (cfg : config) (d : sd)
           (start : option nat) (level_limit size_limit : option nat) : sd * result :=
  let s := match start with Some s => s | None => 0 end in
  bfs_loop fuel N cfg level_limit size_limit d [s] [s] 0.

(* ---------------- expand_dfs ---------------- *)
Fixpoint drop_seen (seen : list nat) (succ : list nat) : list nat :=
  match succ with
  | [] => []
  | s :: r => if mem_nat s seen then drop_seen seen r else succ
  end.

(* stack entries: (node, Some remaining-successors-ascending | None); the Python list
   is kept reversed and popped from the end, i.e. ascending order from the front *)
Fixpoint dfs_loop (fuel : nat) (N : net) (cfg : config) (stack_limit size_limit : option nat)
         (d : sd) (seen : list nat) (stack : list (nat * option (list nat))) (complete : bool)
  : sd * result :=
  match fuel with
  | O => (d, RFuel)
  | S f =>
      match stack with
      | [] => (d, RBool complete)
      | (x, osucc) :: stack' =>
          let step :=
            match osucc with
            | Some l => Some (d, RUnit, l)
            | None => if over_limit size_limit d && negb (n_exp (get d x)) then None
                      else let '(d1, r, succ) := node_successors N cfg d x in
                           Some (d1, r, sort_nat succ)
            end in
          match step with
          | None => (d, RBool false)
          | Some (d1, r, succ) =>
              match r with
              | RUnit =>
                  match drop_seen seen succ with
                  | [] => dfs_loop f N cfg stack_limit size_limit d1 seen stack' complete
                  | s :: rest =>
                      if match stack_limit with Some l => Nat.leb l (length stack') | None => false end
                      then dfs_loop f N cfg stack_limit size_limit d1 seen stack' false
                      else dfs_loop f N cfg stack_limit size_limit d1 (s :: seen)
                                    ((s, None) :: (x, Some rest) :: stack') complete
                  end
              | _ => (d1, r)
              end
          end
      end
  end.

Definition expand_dfs (fuel : nat) (N : net) (cfg : config) (d : sd)
           (start : option nat) (stack_limit size_limit : option nat) : sd * result :=
  let s := match start with Some s => s | None => 0 end in
  dfs_loop fuel N cfg stack_limit size_limit d [s] [(s, None)] true.

(* ---------------- expand_to_target ---------------- *)
Fixpoint target_level (N : net) (cfg : config) (target : space) (size_limit : option nat)
         (d : sd) (seen next cur : list nat) : sd * result * list nat * list nat :=
  match cur with
  | [] => (d, RUnit, seen, next)
  | x :: cur' =>
      let sp := n_space (get d x) in
      match intersect sp target with
      | None => target_level N cfg target size_limit d seen next cur'
      | Some _ =>
          if subspace sp target && negb (eqb_space sp target)
          then target_level N cfg target size_limit d seen next cur'
          else if over_limit size_limit d && negb (n_exp (get d x)) then (d, RBool false, seen, next) else
          let '(d1, r, succ) := node_successors N cfg d x in
          match r with
          | RUnit =>
              let fresh := filter (fun s => negb (mem_nat s seen)) (sort_nat succ) in
              target_level N cfg target size_limit d1 (seen ++ fresh) (next ++ fresh) cur'
          | _ => (d1, r, seen, next)
          end
      end
  end.

Fixpoint target_loop (fuel : nat) (N : net) (cfg : config) (target : space)
         (size_limit : option nat) (d : sd) (seen cur : list nat) : sd * result :=
  match fuel with
  | O => (d, RFuel)
  | S f =>
      match cur with
      | [] => (d, RBool true)
      | _ =>
          let '(d1, r, seen1, next) := target_level N cfg target size_limit d seen [] cur in
          match r with
          | RUnit => target_loop f N cfg target size_limit d1 seen1 next
          | _ => (d1, r)
          end
      end
  end.

Definition expand_to_target (fuel : nat) (N : net) (cfg : config) (d : sd)
           (target : space) (size_limit : option nat) : sd * result :=
  target_loop fuel N cfg target size_limit d [0] [0].

(* ---------------- skip_to_minimal / skip_remaining / make_skip_node ---------------- *)
Definition mark_expanded (d : sd) (i : nat) : sd := upd_node d i (fun y => set_exp y true).

Fixpoint ensure_min_children (N : net) (d : sd) (p : nat) (mins : list space) : sd :=
  match mins with
  | [] => d
  | m :: r => let '(d1, c) := ensure_node N d (Some p) m in
              ensure_min_children N (mark_expanded d1 c) p r
  end.

(* Python: for m_id, m_trap in trap_with_id: if is_subspace(m_trap, node.space): _ensure_edge *)
Fixpoint skip_edges (d : sd) (i : nat) (traps : list (nat * space)) : sd :=
  match traps with
  | [] => d
  | (mid, m) :: r =>
      if subspace m (n_space (get d i)) then skip_edges (ensure_edge d i mid m) i r
      else skip_edges d i r
  end.

Fixpoint ensure_roots (N : net) (d : sd) (mins : list space) (acc : list (nat * space))
  : sd * list (nat * space) :=
  match mins with
  | [] => (d, rev acc)
  | m :: r => let '(d1, c) := ensure_node N d None m in
              ensure_roots N (mark_expanded d1 c) r ((c, m) :: acc)
  end.

Fixpoint skip_all (d : sd) (ids : list nat) (traps : list (nat * space)) (count : nat)
  : sd * nat :=
  match ids with
  | [] => (d, count)
  | i :: r =>
      if n_exp (get d i) then skip_all d r traps count else
      let d1 := skip_edges (upd_node d i clear_attr) i traps in
      let d2 := upd_node (mark_expanded d1 i) i (fun y => set_skip y true) in
      skip_all d2 r traps (S count)
  end.

(* the tape is the solver's enumeration order of the minimal trap spaces; the
   model uses it only if it is a permutation of its own answer *)
Definition perm_of (a b : list space) : bool :=
  Nat.eqb (length a) (length b) && forallb (fun x => mem_space x b) a && forallb (fun x => mem_space x a) b.

Definition skip_remaining (N : net) (d : sd) (tape : list space) : sd * result :=
  let root_space := n_space (get d 0) in
  let mins := min_traps_b N root_space in
  if negb (perm_of tape mins) then (d, RRaised ErrAssert) else
  let '(d1, traps) := ensure_roots N d tape [] in
  let '(d2, k) := skip_all d1 (seq 0 (size d1)) traps 0 in
  (d2, RNat k).

Definition skip_to_minimal_t (N : net) (d : sd) (i : nat) (tape : list space) : sd * result :=
  let x := get d i in
  if n_exp x then (d, RBool false) else
  let mins := min_traps_b N (n_space x) in
  if negb (perm_of tape mins) then (d, RRaised ErrAssert) else
  let dc := upd_node d i clear_attr in
  let d0 := dc in
  match tape with
  | [m] => if eqb_space m (n_space x) then (mark_expanded d0 i, RBool true)
           else let d1 := ensure_min_children N d0 i tape in
                (upd_node (mark_expanded d1 i) i (fun y => set_skip y true), RBool true)
  | _ => let d1 := ensure_min_children N d0 i tape in
         (upd_node (mark_expanded d1 i) i (fun y => set_skip y true), RBool true)
  end.

(* make_skip_node from expand_minimal_spaces *)
Definition make_skip_node (N : net) (d : sd) (i : nat) (all_min : list space) : sd :=
  if n_exp (get d i) then d else
  let inside := filter (fun m => subspace m (n_space (get d i))) all_min in
  let d1 := ensure_min_children N (upd_node d i clear_attr) i inside in
  upd_node (mark_expanded d1 i) i (fun y => set_skip y true).

Fixpoint remove_space (x : space) (l : list space) : option (list space) :=
  match l with
  | [] => None
  | y :: r => if eqb_space x y then Some r
              else match remove_space x r with Some r' => Some (y :: r') | None => None end
  end.

(* inner "while len(successors) > 0" of expand_minimal_spaces; returns the diagram
   and the remaining successors (ascending; Python keeps them reversed) *)
Fixpoint min_inner (N : net) (d : sd) (seen : list nat) (remaining all_min : list space)
         (node_space : space) (skip : bool) (succ : list nat) : sd * list nat :=
  match succ with
  | [] => (d, [])
  | s :: r =>
      if mem_nat s seen then min_inner N d seen remaining all_min node_space skip r
      else if negb (existsb (fun m => subspace m node_space) remaining)
      then min_inner N (if skip then make_skip_node N d s all_min else d)
                     seen remaining all_min node_space skip r
      else (d, succ)
  end.

Fixpoint min_loop (fuel : nat) (N : net) (cfg : config) (size_limit : option nat) (skip : bool)
         (all_min : list space) (d : sd) (seen : list nat) (remaining : list space)
         (stack : list (nat * option (list nat))) : sd * result :=
  match fuel with
  | O => (d, RFuel)
  | S f =>
      match stack with
      | [] => if Nat.eqb (length remaining) 0 then (d, RBool true) else (d, RRaised ErrAssert)
      | (x, osucc) :: stack' =>
          let step :=
            match osucc with
            | Some l => Some (d, RUnit, l)
            | None => if over_limit size_limit d && negb (n_exp (get d x)) then None
                      else let '(d1, r, succ) := node_successors N cfg d x in
                           Some (d1, r, sort_nat succ)
            end in
          match step with
          | None => (d, RBool false)
          | Some (d1, r, succ) =>
              match r with
              | RUnit =>
                  let '(d2, succ2) :=
                    min_inner N d1 seen remaining all_min (n_space (get d1 x)) skip succ in
                  match succ2 with
                  | [] =>
                      if is_minimal d2 x then
                        match remove_space (n_space (get d2 x)) remaining with
                        | Some rem' => min_loop f N cfg size_limit skip all_min d2 seen rem' stack'
                        | None => (d2, RRaised ErrAssert)   (* list.remove -> ValueError *)
                        end
                      else min_loop f N cfg size_limit skip all_min d2 seen remaining stack'
                  | s :: rest =>
                      min_loop f N cfg size_limit skip all_min d2 (s :: seen) remaining
                               ((s, None) :: (x, Some rest) :: stack')
                  end
              | _ => (d1, r)
              end
          end
      end
  end.

Definition expand_min (fuel : nat) (N : net) (cfg : config) (d : sd) (start : option nat)
           (size_limit : option nat) (skip : bool) (tape : list space) : sd * result :=
  let s := match start with Some s => s | None => 0 end in
  let sp := n_space (get d s) in
  if negb (perm_of tape (min_traps_b N sp)) then (d, RRaised ErrAssert) else
  let d0 := d in
  min_loop fuel N cfg size_limit skip tape d0 [s] tape [(s, None)].

(* ---------------- operations and runs ---------------- *)
Definition set_cands (x : node) (c : option tag) : node :=
  {| n_space := n_space x; n_depth := n_depth x; n_exp := n_exp x; n_skip := n_skip x;
     n_parent := n_parent x; n_cands := c; n_seeds := n_seeds x; n_sets := n_sets x |}.
Definition set_seeds (x : node) (c : option tag) : node :=
  {| n_space := n_space x; n_depth := n_depth x; n_exp := n_exp x; n_skip := n_skip x;
     n_parent := n_parent x; n_cands := n_cands x; n_seeds := c; n_sets := n_sets x |}.
Definition set_sets (x : node) (c : option tag) : node :=
  {| n_space := n_space x; n_depth := n_depth x; n_exp := n_exp x; n_skip := n_skip x;
     n_parent := n_parent x; n_cands := n_cands x; n_seeds := n_seeds x; n_sets := c |}.

(* reclaim_node_data: drops candidates where seeds are known (percolated_* caches are not modelled) *)
Definition reclaim (d : sd) : sd :=
  {| sd_nodes := map (fun x => match n_seeds x with Some _ => set_cands x None | None => x end) (sd_nodes d);
     sd_edges := sd_edges d |}.

(* ---------------- attractor queries: cache bookkeeping only ----------------
   What a query returns depends on clingo / simulation; the model tracks which cache
   fields are written and against which successor list (the ghost tag).  The tape is
   the observed outcome of the real call. *)
Definition first_motifs (d : sd) (i : nat) : list space :=
  map (fun e => hd [] (e_motifs e)) (filter (fun e => Nat.eqb (e_src e) i) (sd_edges d)).
Definition cur_tag (d : sd) (i : nat) : tag :=
  {| t_motifs := if n_exp (get d i) then first_motifs d i else []; t_skip := n_skip (get d i) |}.
Definition pseudo_minimal (d : sd) (i : nat) : bool := negb (n_exp (get d i)) || is_minimal d i.

Inductive outcome := OutRaised | OutLen (k : nat) (sets_known : bool).

(* node_attractor_candidates(i, compute=True) *)
Definition q_cands (d : sd) (i : nat) (o : outcome) : sd * result :=
  let x := get d i in
  match n_cands x, n_seeds x with
  | None, Some _ => (d, RUnit)
  | Some _, _ => (d, RUnit)
  | None, None =>
      match o with
      | OutRaised => (d, RRaised ErrLimit)
      | OutLen k _ =>
          let t := cur_tag d i in
          let d1 := upd_node d i (fun y => set_cands y (Some t)) in
          if Nat.eqb k 0 || (pseudo_minimal d i && Nat.eqb k 1)
          then (upd_node d1 i (fun y => set_seeds y (Some t)), RUnit)
          else (d1, RUnit)
      end
  end.

(* node_attractor_seeds(i, compute=True, symbolic_fallback); oc = outcome of the candidate
   call (if one is made), os = outcome of the seed computation *)
Definition q_seeds (d : sd) (i : nat) (fallback : bool) (oc os : outcome) : sd * result :=
  let x := get d i in
  match n_seeds x with
  | Some _ => (d, RUnit)
  | None =>
      let '(d1, r) := q_cands d i oc in
      match r with
      | RRaised _ =>
          if fallback then
            let t := cur_tag d1 i in
            (upd_node (upd_node d1 i (fun y => set_seeds y (Some t))) i (fun y => set_sets y (Some t)), RUnit)
          else (d1, r)
      | _ =>
          match n_seeds (get d1 i) with
          | Some _ => (d1, RUnit)
          | None =>
              let t := cur_tag d1 i in
              let d2 := upd_node d1 i (fun y => set_seeds y (Some t)) in
              match os with
              | OutLen _ true => (upd_node d2 i (fun y => set_sets y (Some t)), RUnit)
              | _ => (upd_node d2 i (fun y => set_sets y None), RUnit)
              end
          end
      end
  end.

(* node_attractor_sets(i, compute=True) *)
Definition q_sets (d : sd) (i : nat) (oc os : outcome) : sd * result :=
  let x := get d i in
  match n_sets x with
  | Some _ => (d, RUnit)
  | None =>
      let '(d1, r) := q_seeds d i false oc os in
      match r with
      | RRaised _ => (d1, r)
      | _ => (upd_node d1 i (fun y => set_sets y (Some (cur_tag d1 i))), RUnit)
      end
  end.

Inductive op :=
| OExpandNode (i : nat)
| OBfs (start lvl size : option nat)
| ODfs (start stk size : option nat)
| OMin (start size : option nat) (skip : bool) (tape : list space)
| OTarget (t : space) (size : option nat)
| OSkipToMin (i : nat) (tape : list space)
| OSkipRemaining (tape : list space)
| OReclaim
| OPickle
| OCands (i : nat) (o : outcome)
| OSeeds (i : nat) (fallback : bool) (oc os : outcome)
| OSets (i : nat) (oc os : outcome).

(* ids outside the diagram raise KeyError in the code; histories with such ids are
   outside the correspondence domain (the harness never generates them) *)
Definition valid_start (d : sd) (s : option nat) : bool :=
  match s with Some i => Nat.ltb i (size d) | None => true end.

Definition step (fuel : nat) (N : net) (cfg : config) (d : sd) (o : op) : sd * result :=
  match o with
  | OExpandNode i =>
      if Nat.ltb i (size d)
      then let '(d1, r, succ) := node_successors N cfg d i in
           (d1, match r with RUnit => RIds succ | _ => r end)
      else (d, RRaised ErrKey)
  | OBfs s l z => if valid_start d s then expand_bfs fuel N cfg d s l z else (d, RRaised ErrKey)
  | ODfs s l z => if valid_start d s then expand_dfs fuel N cfg d s l z else (d, RRaised ErrKey)
  | OMin s z k t => if valid_start d s then expand_min fuel N cfg d s z k t else (d, RRaised ErrKey)
  | OTarget t z => expand_to_target fuel N cfg d t z
  | OSkipToMin i t => if Nat.ltb i (size d) then skip_to_minimal_t N d i t else (d, RRaised ErrKey)
  | OSkipRemaining t => skip_remaining N d t
  | OReclaim => (reclaim d, RUnit)
  | OPickle => (d, RUnit)
  | OCands i o => if Nat.ltb i (size d) then q_cands d i o else (d, RRaised ErrKey)
  | OSeeds i f oc os => if Nat.ltb i (size d) then q_seeds d i f oc os else (d, RRaised ErrKey)
  | OSets i oc os => if Nat.ltb i (size d) then q_sets d i oc os else (d, RRaised ErrKey)
  end.

Fixpoint run (fuel : nat) (N : net) (cfg : config) (d : sd) (h : list op)
  : list (sd * result) :=
  match h with
  | [] => []
  | o :: r => let '(d1, x) := step fuel N cfg d o in (d1, x) :: run fuel N cfg d1 r
  end.

(* metadata queries *)
Definition depth (d : sd) : nat := fold_right Nat.max 0 (map n_depth (sd_nodes d)).
Definition minimal_ids (d : sd) : list nat :=
  filter (fun i => is_minimal d i) (seq 0 (size d)).
