(* PySrcBase.v -- shared lemmas of the translator tie (dicts as spaces, py_for); no generated code is imported here. *)
From Coq Require Import List Bool Arith NArith Lia.
Import ListNotations.
From BB Require Import BN SpaceFacts Names PyLib.

(* a dict over the variables 0..n-1: unique keys, all < n *)
Definition wf_dict (n : nat) (d : pdict) : Prop :=
  NoDup (map fst d) /\ forall k, In k (map fst d) -> k < n.
(* the space it denotes *)
Definition to_space (n : nat) (d : pdict) : space := map (fun i => d_get d i) (seq 0 n).

(* ------------------------------------------------------------------ *)
(* to_space                                                            *)
(* ------------------------------------------------------------------ *)

Lemma nth_map_seq : forall (f : nat -> option bool) n s i, i < n ->
  nth i (map f (seq s n)) None = f (s + i).
Proof.
  intros f n. induction n as [|n IH]; intros s i Hi; [lia|].
  simpl. destruct i as [|i].
  - f_equal. lia.
  - rewrite IH by lia. f_equal. lia.
Qed.

Theorem to_space_length : forall n d, length (to_space n d) = n.
Proof.
  intros n d. unfold to_space. rewrite map_length, seq_length. reflexivity.
Qed.

Theorem to_space_nth : forall n d i, i < n -> nth i (to_space n d) None = d_get d i.
Proof.
  intros n d i Hi. unfold to_space. rewrite nth_map_seq by exact Hi. reflexivity.
Qed.

(* ------------------------------------------------------------------ *)
(* dict lemmas                                                         *)
(* ------------------------------------------------------------------ *)

Lemma d_get_in_key : forall d k v, d_get d k = Some v -> In k (map fst d).
Proof.
  induction d as [|[k0 v0] d IH]; intros k v H; simpl in *; [discriminate|].
  destruct (Nat.eqb_spec k0 k) as [->|Hne]; [left; reflexivity|].
  right. apply (IH k v H).
Qed.

Lemma in_key_d_get : forall d k, In k (map fst d) -> exists v, d_get d k = Some v.
Proof.
  induction d as [|[k0 v0] d IH]; intros k H; simpl in *; [contradiction|].
  destruct (Nat.eqb_spec k0 k) as [->|Hne]; [exists v0; reflexivity|].
  destruct H as [H|H]; [contradiction|]. apply (IH k H).
Qed.

Lemma d_get_notin : forall d k, ~ In k (map fst d) -> d_get d k = None.
Proof.
  intros d k H. destruct (d_get d k) as [v|] eqn:E; [|reflexivity].
  exfalso. apply H. apply (d_get_in_key d k v E).
Qed.

Lemma d_get_d_set : forall d k v k',
  d_get (d_set d k v) k' = if Nat.eqb k k' then Some v else d_get d k'.
Proof.
  induction d as [|[k0 v0] d IH]; intros k v k'; simpl.
  - destruct (Nat.eqb k k'); reflexivity.
  - destruct (Nat.eqb_spec k0 k) as [->|Hne]; simpl.
    + destruct (Nat.eqb k k'); reflexivity.
    + destruct (Nat.eqb_spec k0 k') as [->|Hne'].
      * destruct (Nat.eqb_spec k k') as [->|_]; [contradiction|reflexivity].
      * apply IH.
Qed.

Lemma keys_d_set : forall d k v k',
  In k' (map fst (d_set d k v)) <-> k' = k \/ In k' (map fst d).
Proof.
  induction d as [|[k0 v0] d IH]; intros k v k'; simpl.
  - split; [intros [H|[]]; left; congruence | intros [H|[]]; left; congruence].
  - destruct (Nat.eqb_spec k0 k) as [->|Hne]; simpl.
    + split; [intros [H|H]; [left; congruence | right; right; exact H]
             | intros [H|[H|H]]; [left; congruence | left; exact H | right; exact H]].
    + rewrite IH. split.
      * intros [H|[H|H]]; [right; left; exact H | left; exact H | right; right; exact H].
      * intros [H|[H|H]]; [right; left; exact H | left; exact H | right; right; exact H].
Qed.

Lemma NoDup_d_set : forall d k v, NoDup (map fst d) -> NoDup (map fst (d_set d k v)).
Proof.
  induction d as [|[k0 v0] d IH]; intros k v H; simpl.
  - constructor; [intros []|constructor].
  - simpl in H. inversion H as [|? ? Hnin Hnd]; subst.
    destruct (Nat.eqb_spec k0 k) as [->|Hne]; simpl.
    + constructor; assumption.
    + constructor.
      * rewrite keys_d_set. intros [Heq|Hin]; [contradiction|contradiction].
      * apply IH. exact Hnd.
Qed.

Lemma wf_d_set : forall n d k v, wf_dict n d -> k < n -> wf_dict n (d_set d k v).
Proof.
  intros n d k v [Hnd Hlt] Hk. split.
  - apply NoDup_d_set. exact Hnd.
  - intros k' Hin. apply keys_d_set in Hin. destruct Hin as [->|Hin]; [exact Hk|].
    apply Hlt. exact Hin.
Qed.

Lemma d_set_fresh : forall d k v, ~ In k (map fst d) -> d_set d k v = d ++ [(k, v)].
Proof.
  induction d as [|[k0 v0] d IH]; intros k v H; simpl in *; [reflexivity|].
  destruct (Nat.eqb_spec k0 k) as [->|Hne].
  - exfalso. apply H. left. reflexivity.
  - f_equal. apply IH. intro Hin. apply H. right. exact Hin.
Qed.

Lemma to_space_nth_all : forall n d i, wf_dict n d -> nth i (to_space n d) None = d_get d i.
Proof.
  intros n d i [_ Hlt]. destruct (lt_dec i n) as [Hi|Hi].
  - apply to_space_nth. exact Hi.
  - rewrite nth_overflow by (rewrite to_space_length; lia).
    symmetry. apply d_get_notin. intro Hin. apply Hlt in Hin. lia.
Qed.

(* ------------------------------------------------------------------ *)
(* space_utils.is_subspace                                             *)
(* ------------------------------------------------------------------ *)

Lemma py_for_check : forall (K R S : Type) (body : K -> S -> flow R S) (s : S) (r : R)
  (P : K -> bool) (ks : list K),
  (forall k, In k ks -> body k s = if P k then FNext s else FRet r) ->
  py_for ks body s = if forallb P ks then FNext s else FRet r.
Proof.
  intros K R S body s r P ks. induction ks as [|k ks IH]; intros Hb; simpl.
  - reflexivity.
  - rewrite (Hb k (or_introl eq_refl)).
    destruct (P k); simpl; [|reflexivity].
    apply IH. intros k' Hin. apply Hb. right. exact Hin.
Qed.

Print Assumptions to_space_length.
Print Assumptions to_space_nth.
