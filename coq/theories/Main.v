(* Main.v -- end-to-end corollaries that combine the libraries (short proofs only). *)
From Coq Require Import List Bool Arith Lia.
Import ListNotations.
From BB Require Import BN Brute SpaceFacts TrapFacts AttractorFacts Checks Filter FilterFacts Candidates CandidatesFacts
  Signed ReductionFacts.

(* C08, with the reduction hypothesis discharged: if the retained variables hit every negative cycle of the
   node's interaction graph, every COk result of the candidate pipeline covers the node's attractors --
   for every option combination, every configuration value and every admissible tape. *)
Theorem candidates_cover_nfvs : forall fuel N S avoid nfvs Rinit cfg greedy simulation tape stp res log,
  trap_space N S -> (forall a, In a avoid -> trap_space N a) -> NoDup nfvs -> (forall v, In v nfvs -> v < nvars N) ->
  retained_total nfvs Rinit -> no_neg_walk N S nfvs ->
  (is_full S = false -> nfvs = [] -> avoid <> [] -> fixed_points_avoided N S avoid) ->
  compute_candidates fuel N S avoid nfvs Rinit cfg greedy simulation tape stp = (COk res, log) ->
  tape_ok N S avoid log tape -> walks_ok fuel N S avoid nfvs Rinit cfg greedy tape stp ->
  (forall c, In c res -> in_space c S = true) /\ covers N S avoid res.
Proof.
  intros fuel N S avoid nfvs Rinit cfg greedy simulation tape stp res log HS Hav Hnd Hlt HRi Hnw Hfp H HL Hw.
  eapply compute_candidates_covers_weak; eauto.
  apply nfvs_reduction; assumption.
Qed.

(* C01, candidates to seeds: covering candidates produced by the pipeline, filtered by exact reachability,
   give exactly one seed per attractor of the node. *)
Theorem pipeline_then_filter_exact : forall fuel N S avoid nfvs Rinit cfg greedy simulation tape stp res log seeds sets,
  trap_space N S -> (forall a, In a avoid -> trap_space N a /\ subspace a S = true) -> NoDup nfvs -> (forall v, In v nfvs -> v < nvars N) ->
  retained_total nfvs Rinit -> no_neg_walk N S nfvs ->
  (is_full S = false -> nfvs = [] -> avoid <> [] -> fixed_points_avoided N S avoid) ->
  compute_candidates fuel N S avoid nfvs Rinit cfg greedy simulation tape stp = (COk res, log) ->
  tape_ok N S avoid log tape -> walks_ok fuel N S avoid nfvs Rinit cfg greedy tape stp -> NoDup res ->
  compute_attractors_filter N false avoid res = (seeds, Some sets) ->
  one_to_one N S avoid seeds.
Proof.
  intros fuel N S avoid nfvs Rinit cfg greedy simulation tape stp res log seeds sets
         HS Hav Hnd Hlt HRi Hnw Hfp H HL Hw Hndr Hf.
  assert (Hav' : forall a, In a avoid -> trap_space N a) by (intros a Ha; apply (Hav a Ha)).
  destruct (candidates_cover_nfvs _ _ _ _ _ _ _ _ _ _ _ _ _ HS Hav' Hnd Hlt HRi Hnw Hfp H HL Hw) as [Hin Hcov].
  destruct (filter_exact N S avoid res seeds sets HS Hav Hndr Hin Hcov Hf) as [H1 _]. exact H1.
Qed.

Print Assumptions candidates_cover_nfvs.
Print Assumptions pipeline_then_filter_exact.
