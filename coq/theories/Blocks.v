(* Blocks.v -- model of expand_source_blocks (_sd_algorithms/expand_source_blocks.py) on the
   diagram model.  Tape: one boolean per examined block ("the block's sub-diagram has no
   motif-avoidant attractor candidates", i.e. is_clean).  Definitions only. *)
From Coq Require Import List Bool Arith NArith.
Import ListNotations.
From BB Require Import BN Brute Diagram.

(* ---- the percolated network of a node, semantically ---- *)
Definition free_in (S : space) (v : nat) : bool := match nth v S None with None => true | Some _ => false end.
Definition flip_at (v : nat) (s : state) : state := set_nth v (negb (nth v s false)) s.
(* i regulates j inside S: flipping i changes f_j somewhere in S *)
Definition regulates_b (N : net) (S : space) (i j : nat) : bool :=
  existsb (fun s => negb (Bool.eqb (upd N j s) (upd N j (flip_at i s)))) (states_of S).
(* source_nodes(node_bn): free variables whose update function is the identity on S *)
Definition sources_in_b (N : net) (S : space) : list nat :=
  filter (fun v => free_in S v && forallb (fun s => Bool.eqb (upd N v s) (nth v s false)) (states_of S))
         (seq 0 (nvars N)).
(* backward_reachable(vars): closure under regulators among the free variables *)
Fixpoint bwd_closure (fuel : nat) (N : net) (S : space) (cur : list nat) : list nat :=
  match fuel with
  | O => cur
  | S f =>
      let add := filter (fun i => free_in S i && negb (mem_nat i cur) &&
                                  existsb (fun j => regulates_b N S i j) cur) (seq 0 (nvars N)) in
      match add with
      | [] => cur
      | _ => bwd_closure f N S (cur ++ add)
      end
  end.
Definition block_of (N : net) (S : space) (motif_reduced : space) : list nat :=
  sort_nat (bwd_closure (nvars N) N S (filter (fun v => negb (free_in motif_reduced v)) (seq 0 (length motif_reduced)))).

Definition same_set (a b : list nat) : bool := forallb (fun x => mem_nat x b) a && forallb (fun x => mem_nat x a) b.
Definition strict_subset (a b : list nat) : bool := forallb (fun x => mem_nat x b) a && negb (forallb (fun x => mem_nat x a) b).

Definition reduce_by (m parent : space) : space :=
  map (fun p => match snd p with Some _ => None | None => fst p end) (combine m parent).
Definition first_motif (d : sd) (p c : nat) : space :=
  match find (fun e => Nat.eqb (e_src e) p && Nat.eqb (e_dst e) c) (sd_edges d) with
  | Some e => hd [] (e_motifs e)
  | None => []
  end.

(* group successors by block, in successor order *)
Fixpoint add_to_blocks (blk : list nat) (s : nat) (blocks : list (list nat * list nat)) : list (list nat * list nat) :=
  match blocks with
  | [] => [(blk, [s])]
  | (b, ns) :: r => if same_set b blk then (b, ns ++ [s]) :: r else (b, ns) :: add_to_blocks blk s r
  end.
Definition group_blocks (N : net) (d : sd) (node : nat) (succ : list nat) : list (list nat * list nat) :=
  fold_left (fun acc s =>
               add_to_blocks (block_of N (n_space (get d node)) (reduce_by (first_motif d node s) (n_space (get d node)))) s acc)
            succ [].
Definition minimal_blocks (blocks : list (list nat * list nat)) : list (list nat * list nat) :=
  match blocks with
  | [] | [_] => blocks
  | _ => filter (fun bn => negb (existsb (fun b2 => strict_subset (fst b2) (fst bn)) blocks)) blocks
  end.
(* sorted(key=len(nodes)) is a stable sort *)
Fixpoint insert_by_len (x : list nat * list nat) (l : list (list nat * list nat)) : list (list nat * list nat) :=
  match l with
  | [] => [x]
  | y :: r => if Nat.ltb (length (snd x)) (length (snd y)) then x :: l else y :: insert_by_len x r
  end.
Definition sort_blocks (l : list (list nat * list nat)) : list (list nat * list nat) :=
  fold_left (fun acc x => insert_by_len x acc) l [].

(* all valuations of the sources, in itertools.product(range(2), repeat=k) order *)
Fixpoint source_valuations (n : nat) (srcs : list nat) : list space :=
  match srcs with
  | [] => [top_space n]
  | v :: r => flat_map (fun b => map (set_nth v (Some b)) (source_valuations n r)) [false; true]
  end.

(* the source shortcut also discards the candidates cached for the stub (fix 3581ec3) *)
Definition clear_cands (d : sd) (i : nat) : sd := upd_node d i (fun y => set_cands y None).

Definition set_empty_seeds (d : sd) (i : nat) : sd :=
  let t := cur_tag d i in
  upd_node (upd_node d i (fun y => set_seeds y (Some t))) i (fun y => set_sets y (Some t)).

Fixpoint ensure_children (N : net) (d : sd) (p : nat) (subs : list space) (acc : list nat) : sd * list nat :=
  match subs with
  | [] => (d, acc)
  | m :: r => let '(d1, c) := ensure_node N d (Some p) m in ensure_children N d1 p r (acc ++ [c])
  end.

Definition union_nat (a b : list nat) : list nat := a ++ filter (fun x => negb (mem_nat x a)) b.

(* first clean block, consuming one tape boolean per examined block *)
Fixpoint first_clean (blocks : list (list nat * list nat)) (tape : list bool) : option (list nat) * list bool :=
  match blocks with
  | [] => (None, tape)
  | (_, ns) :: r => match tape with
                    | true :: t => (Some ns, t)
                    | _ :: t => first_clean r t
                    | [] => first_clean r []
                    end
  end.

(* "for node in sorted(current_level)" *)
(* `visited`: the nodes this call has dealt with (fix of defect D18: a node that was already expanded when the call
   meets it for the first time -- expanded by an earlier call, or a skip node -- hands on all its successors) *)
Fixpoint block_level (N : net) (cfg : config) (check_maa opt_src : bool) (size_limit : option nat)
         (d : sd) (cur : list nat) (next : list nat) (tape : list bool) (visited : list nat)
  : sd * result * list nat * list bool * list nat :=
  match cur with
  | [] => (d, RUnit, next, tape, visited)
  | x :: cur' =>
      if n_exp (get d x) then
        (if mem_nat x visited then block_level N cfg check_maa opt_src size_limit d cur' next tape visited
         else block_level N cfg check_maa opt_src size_limit d cur' (union_nat next (successors d x)) tape (x :: visited))
      else
      let visited := x :: visited in
      if over_limit size_limit d then (d, RBool false, next, tape, visited) else
      let sp := n_space (get d x) in
      let srcs := sources_in_b N sp in
      if negb (match srcs with [] => true | _ => false end) && opt_src then
        let expected := size d + Nat.pow 2 (length srcs) in
        if Nat.ltb (max_motifs cfg) expected then (d, RRaised ErrMotifLimit, next, tape, visited)
        else if match size_limit with Some k => Nat.ltb k expected | None => false end then (d, RBool false, next, tape, visited)
        else
          let '(d1, kids) := ensure_children N d x (map (merge sp) (source_valuations (nvars N) srcs)) [] in
          let d2 := set_empty_seeds (clear_cands (upd_node d1 x (fun y => set_exp y true)) x) x in
          block_level N cfg check_maa opt_src size_limit d2 cur' (union_nat next kids) tape visited
      else
        let '(d1, r, succ0) := node_successors N cfg d x in
        match r with
        | RUnit =>
            let succ := sort_nat succ0 in
            match succ with
            | [] => block_level N cfg check_maa opt_src size_limit d1 cur' next tape visited
            | [s] => if negb check_maa
                     then block_level N cfg check_maa opt_src size_limit d1 cur' (union_nat next [s]) tape visited
                     else
                       let blocks := sort_blocks (minimal_blocks (group_blocks N d1 x succ)) in
                       let '(clean, tape1) := first_clean blocks tape in
                       match clean with
                       | Some ns => block_level N cfg check_maa opt_src size_limit (set_empty_seeds d1 x) cur' (union_nat next ns) tape1 visited
                       | None => block_level N cfg check_maa opt_src size_limit d1 cur' (union_nat next succ) tape1 visited
                       end
            | _ =>
                let blocks := sort_blocks (minimal_blocks (group_blocks N d1 x succ)) in
                if negb check_maa
                then block_level N cfg check_maa opt_src size_limit d1 cur'
                                 (union_nat next (match blocks with (_, ns) :: _ => ns | [] => [] end)) tape visited
                else
                  let '(clean, tape1) := first_clean blocks tape in
                  match clean with
                  | Some ns => block_level N cfg check_maa opt_src size_limit (set_empty_seeds d1 x) cur' (union_nat next ns) tape1 visited
                  | None => block_level N cfg check_maa opt_src size_limit d1 cur' (union_nat next succ) tape1 visited
                  end
            end
        | _ => (d1, r, next, tape, visited)
        end
  end.

Fixpoint block_loop (fuel : nat) (N : net) (cfg : config) (check_maa opt_src : bool) (size_limit : option nat)
         (d : sd) (cur : list nat) (tape : list bool) (visited : list nat) : sd * result :=
  match fuel with
  | O => (d, RFuel)
  | S f =>
      match cur with
      | [] => (d, RBool true)
      | _ =>
          let '(d1, r, next, tape1, visited1) := block_level N cfg check_maa opt_src size_limit d (sort_nat cur) [] tape visited in
          match r with
          | RUnit => block_loop f N cfg check_maa opt_src size_limit d1 next tape1 visited1
          | _ => (d1, r)
          end
      end
  end.

Definition expand_block (fuel : nat) (N : net) (cfg : config) (d : sd) (check_maa opt_src : bool)
           (size_limit : option nat) (tape : list bool) : sd * result :=
  block_loop fuel N cfg check_maa opt_src size_limit d [0] tape [].
