(* Checks.v -- executable property predicates evaluated on the implementation's output.
   E is always the list of expected attractors of a node (from node_attractors_of). *)
From Coq Require Import List Bool Arith.
Import ListNotations.
From BB Require Import BN Brute.

Inductive verdict :=
| VOk
| VSeedNotInAttractor (s : state)      (* seed lies in no expected attractor *)
| VDuplicate (s : state)               (* two seeds in the same attractor *)
| VMissed (A : list state)             (* an expected attractor has no seed / candidate *)
| VOutside (s : state)                 (* state not inside the node space or not well-formed *)
| VSetMismatch (s : state).            (* attractor set differs from the attractor of its seed *)

Definition owner (E : list (list state)) (s : state) : option (list state) :=
  find (mem_state s) E.

Fixpoint first_dup (E : list (list state)) (seeds : list state) : option state :=
  match seeds with
  | [] => None
  | s :: r =>
      match owner E s with
      | Some A => if existsb (fun t => mem_state t A) r then Some s else first_dup E r
      | None => first_dup E r
      end
  end.

Definition check_cover (S : space) (E : list (list state)) (cands : list state) : verdict :=
  match find (fun c => negb (in_space c S)) cands with
  | Some c => VOutside c
  | None =>
      match find (fun A => negb (existsb (fun c => mem_state c A) cands)) E with
      | Some A => VMissed A
      | None => VOk
      end
  end.

(* seeds correspond one-to-one to the expected attractors *)
Definition check_seeds (S : space) (E : list (list state)) (seeds : list state) : verdict :=
  match find (fun c => negb (in_space c S)) seeds with
  | Some c => VOutside c
  | None =>
      match find (fun s => match owner E s with None => true | Some _ => false end) seeds with
      | Some s => VSeedNotInAttractor s
      | None =>
          match first_dup E seeds with
          | Some s => VDuplicate s
          | None =>
              match find (fun A => negb (existsb (fun c => mem_state c A) seeds)) E with
              | Some A => VMissed A
              | None => VOk
              end
          end
      end
  end.

(* soundness only (skip nodes): every seed in an expected attractor, no duplicates *)
Definition check_seeds_sound (S : space) (E : list (list state)) (seeds : list state) : verdict :=
  match find (fun c => negb (in_space c S)) seeds with
  | Some c => VOutside c
  | None =>
      match find (fun s => match owner E s with None => true | Some _ => false end) seeds with
      | Some s => VSeedNotInAttractor s
      | None => match first_dup E seeds with Some s => VDuplicate s | None => VOk end
      end
  end.

Definition same_set (a b : list state) : bool :=
  forallb (fun x => mem_state x b) a && forallb (fun x => mem_state x a) b.

(* sets are, in seed order, the attractors of the seeds *)
Fixpoint check_sets (E : list (list state)) (seeds : list state) (sets : list (list state)) : verdict :=
  match seeds, sets with
  | [], [] => VOk
  | s :: r, X :: rx =>
      match owner E s with
      | Some A => if same_set A X then check_sets E r rx else VSetMismatch s
      | None => VSeedNotInAttractor s
      end
  | s :: _, [] => VSetMismatch s
  | [], X :: _ => VSetMismatch (hd [] X)
  end.
