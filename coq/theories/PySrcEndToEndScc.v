(* PySrcEndToEndScc.v -- C03 / C01 stated for the SOURCE TEXT of the source-SCC strategy: when the generated public method
   SuccessionDiagram.expand_scc (PySrcApi.v: a call of the generated expand_source_SCCs of PySrcSdSccMain.v, which calls the generated
   attach_scc_subdiagram of PySrcSdScc.v) returns True on a fresh diagram, the diagram has every minimal trap space as an expanded leaf, no stub is
   left, and -- without the motif-avoidance shortcut -- every attractor of the network is reported by an expanded node.  Corollaries of
   py_expand_source_SCCs_fresh (PySrcSdSccMainFacts.v) and the theorems about the model (SCCComplete.v, SCCAttr.v, SCCTerm.v). *)
From Coq Require Import List Bool Arith Lia.
Import ListNotations.
From BB Require Import BN Brute SpaceFacts Diagram Invariants DiagramStruct DiagramSem1 MinExpandFacts DiagramComplete PartialOwner Blocks SCC SCCStruct SCCTerm SCCComplete SCCAttr
  PyLib PyLibSd PyLibCore PyLibSd2 PyLibScc PySrcSdBase PySrcSdScc PySrcSdSccFacts PySrcSdSccMain PySrcSdSccMainFacts PySrcSdBlocks PySrcApi.

Lemma py_api_expand_scc_true_model : forall fuel N cfg maa tape d' t, 1 <= max_motifs cfg ->
  py_api_expand_scc fuel N cfg (init N) tape maa = SRet d' (true, t) ->
  expand_scc fuel N cfg (init N) maa tape = (d', RBool true).
Proof.
  intros fuel N cfg maa tape d' t Hmm Hrun. unfold py_api_expand_scc in Hrun.
  pose proof (py_expand_source_SCCs_fresh fuel N cfg maa tape Hmm) as Hspec.
  unfold expand_scc. destruct (scc_main fuel N cfg maa (init N) tape) as [[d1 r] t1].
  unfold scc_outcome in Hspec. rewrite Hrun in Hspec.
  destruct r; try discriminate Hspec; try (destruct e; discriminate Hspec).
  injection Hspec as -> -> _. reflexivity.
Qed.

Theorem py_api_expand_scc_complete : forall fuel N cfg maa tape d' t, 1 <= max_motifs cfg ->
  py_api_expand_scc fuel N cfg (init N) tape maa = SRet d' (true, t) ->
  MinFound N d' /\ LeafOK N d' /\ AllExpanded d'.
Proof.
  intros fuel N cfg maa tape d' t Hmm Hrun.
  pose proof (py_api_expand_scc_true_model fuel N cfg maa tape d' t Hmm Hrun) as H.
  split; [|split].
  - eapply expand_scc_MinFound; eassumption.
  - eapply expand_scc_LeafOK; eassumption.
  - eapply expand_scc_AllExpanded; eassumption.
Qed.

Theorem py_api_expand_scc_every_attractor_reported : forall fuel N cfg tape d' t seeds, 1 <= max_motifs cfg ->
  py_api_expand_scc fuel N cfg (init N) tape false = SRet d' (true, t) -> exp_seeds_ok N d' seeds ->
  forall A, attractor N A -> exists i s, i < size d' /\ n_exp (get d' i) = true /\ In s (seeds i) /\ A s.
Proof.
  intros fuel N cfg tape d' t seeds Hmm Hrun Hok A HA.
  pose proof (py_api_expand_scc_true_model fuel N cfg false tape d' t Hmm Hrun) as H.
  eapply expand_scc_every_attractor_reported; eassumption.
Qed.

(* with enough fuel the generated function does not run out of it, and neither of its assertions fires *)
Theorem py_api_expand_scc_terminates : forall fuel N cfg maa tape, 1 <= max_motifs cfg -> nvars N + 2 <= fuel ->
  (forall d, py_api_expand_scc fuel N cfg (init N) tape maa <> SFuel d) /\
  (forall d, py_api_expand_scc fuel N cfg (init N) tape maa <> SRaise d (RRaised ErrAssert)).
Proof.
  intros fuel N cfg maa tape Hmm Hfuel. unfold py_api_expand_scc.
  pose proof (py_expand_source_SCCs_fresh fuel N cfg maa tape Hmm) as Hspec.
  pose proof (init_SWF N) as Hswf.
  assert (Ht : TrapNodes N (init N) /\ EdgeStrict (init N)).
  { split; [apply init_TrapNodes | apply init_EdgeStrict]. }
  destruct Ht as [Htn Hes].
  pose proof (expand_scc_terminates fuel N cfg (init N) maa tape Hmm Hswf Htn Hes Hfuel) as Hterm.
  pose proof (expand_scc_no_assert fuel N cfg (init N) maa tape Hmm Hswf Htn Hes) as Hna.
  unfold expand_scc in Hterm, Hna.
  destruct (scc_main fuel N cfg maa (init N) tape) as [[d1 r] t1]. cbn [snd] in Hterm, Hna.
  unfold scc_outcome in Hspec.
  split; intros d Heq; rewrite Heq in Hspec; destruct r; try discriminate Hspec; try congruence;
    try (destruct e; try discriminate Hspec; congruence).
Qed.

Print Assumptions py_api_expand_scc_complete.
Print Assumptions py_api_expand_scc_every_attractor_reported.
Print Assumptions py_api_expand_scc_terminates.
